package main

import (
	"go/ast"
	"go/constant"
	"go/token"
	"go/types"
)

// Finite evaluation of side-effect-free Go expressions over an environment of integer variables. It is used by
// rules whose obligation is a guard or a bit expression over a finite (or boundary-representable) domain: the rule
// enumerates the domain and evaluates the expression the source spells, it never runs the function. Values are held
// as int64 bit patterns and truncated to the static type of every sub-expression; an expression the evaluator does
// not model yields Unknown, and a rule whose verdict depends on an Unknown reports undecided.

type fval struct {
	I      int64
	B      bool
	IsBool bool
	OK     bool // false = unknown
}

func fInt(v int64) fval { return fval{I: v, OK: true} }
func fBool(b bool) fval { return fval{B: b, IsBool: true, OK: true} }

var fUnknown = fval{}

type fenv struct {
	info *types.Info
	vars map[types.Object]fval
	// hook is consulted before anything else for identifiers and for whole expressions; ok=false means "not mine".
	hook func(e ast.Expr) (fval, bool)
}

func fTrunc(v int64, t types.Type) int64 {
	if t == nil {
		return v
	}
	b, ok := t.Underlying().(*types.Basic)
	if !ok || b.Info()&types.IsInteger == 0 || b.Info()&types.IsUntyped != 0 {
		return v
	}
	w, signed := typeWidth(t)
	if w >= 64 {
		return v
	}
	m := int64(1)<<uint(w) - 1
	v &= m
	if signed && v&(int64(1)<<uint(w-1)) != 0 {
		v |= ^m
	}
	return v
}

func fUnsigned(t types.Type) bool {
	if t == nil {
		return false
	}
	b, ok := t.Underlying().(*types.Basic)
	return ok && b.Info()&types.IsUnsigned != 0
}

func (e *fenv) eval(x ast.Expr) fval {
	x = ast.Unparen(x)
	if e.hook != nil {
		if v, ok := e.hook(x); ok {
			return v
		}
	}
	if tv, ok := e.info.Types[x]; ok {
		if tv.IsNil() {
			return fInt(0)
		}
		if tv.Value != nil {
			switch tv.Value.Kind() {
			case constant.Int:
				if v, ok := constant.Int64Val(tv.Value); ok {
					return fInt(fTrunc(v, tv.Type))
				}
				if v, ok := constant.Uint64Val(tv.Value); ok {
					return fInt(int64(v))
				}
				return fUnknown
			case constant.Bool:
				return fBool(constant.BoolVal(tv.Value))
			}
			return fUnknown
		}
	}
	t := e.info.TypeOf(x)
	switch x := x.(type) {
	case *ast.Ident:
		if v, ok := e.vars[e.info.ObjectOf(x)]; ok {
			return v
		}
	case *ast.CallExpr:
		if len(x.Args) == 1 {
			if tv, ok := e.info.Types[x.Fun]; ok && tv.IsType() {
				a := e.eval(x.Args[0])
				if !a.OK || a.IsBool {
					return fUnknown
				}
				return fInt(fTrunc(a.I, tv.Type))
			}
		}
	case *ast.UnaryExpr:
		a := e.eval(x.X)
		if !a.OK {
			return fUnknown
		}
		switch x.Op {
		case token.NOT:
			return fBool(!a.B)
		case token.SUB:
			return fInt(fTrunc(-a.I, t))
		case token.XOR:
			return fInt(fTrunc(^a.I, t))
		case token.ADD:
			return a
		}
	case *ast.BinaryExpr:
		l, r := e.eval(x.X), e.eval(x.Y)
		switch x.Op {
		case token.LAND:
			if (l.OK && !l.B) || (r.OK && !r.B) {
				return fBool(false)
			}
			if l.OK && r.OK {
				return fBool(true)
			}
			return fUnknown
		case token.LOR:
			if (l.OK && l.B) || (r.OK && r.B) {
				return fBool(true)
			}
			if l.OK && r.OK {
				return fBool(false)
			}
			return fUnknown
		}
		if !l.OK || !r.OK {
			return fUnknown
		}
		ot := e.info.TypeOf(x.X)
		if b, ok := ot.Underlying().(*types.Basic); ok && b.Info()&types.IsUntyped != 0 {
			ot = e.info.TypeOf(x.Y)
		}
		uns := fUnsigned(ot)
		cmp := func() int {
			if l.IsBool || r.IsBool {
				if l.B == r.B {
					return 0
				}
				return 1
			}
			if uns {
				a, b := uint64(l.I), uint64(r.I)
				if w, _ := typeWidth(ot); w < 64 {
					m := uint64(1)<<uint(w) - 1
					a, b = a&m, b&m
				}
				switch {
				case a < b:
					return -1
				case a > b:
					return 1
				}
				return 0
			}
			switch {
			case l.I < r.I:
				return -1
			case l.I > r.I:
				return 1
			}
			return 0
		}
		switch x.Op {
		case token.EQL:
			return fBool(cmp() == 0)
		case token.NEQ:
			return fBool(cmp() != 0)
		case token.LSS:
			return fBool(cmp() < 0)
		case token.LEQ:
			return fBool(cmp() <= 0)
		case token.GTR:
			return fBool(cmp() > 0)
		case token.GEQ:
			return fBool(cmp() >= 0)
		}
		if l.IsBool || r.IsBool {
			return fUnknown
		}
		return fArith(x.Op, l.I, r.I, t, e.info.TypeOf(x.X))
	}
	return fUnknown
}

// fArith applies a binary integer operator; t is the result type, lt the type of the left operand (shifts).
func fArith(op token.Token, a, b int64, t, lt types.Type) fval {
	switch op {
	case token.ADD:
		return fInt(fTrunc(a+b, t))
	case token.SUB:
		return fInt(fTrunc(a-b, t))
	case token.MUL:
		return fInt(fTrunc(a*b, t))
	case token.AND:
		return fInt(fTrunc(a&b, t))
	case token.OR:
		return fInt(fTrunc(a|b, t))
	case token.XOR:
		return fInt(fTrunc(a^b, t))
	case token.AND_NOT:
		return fInt(fTrunc(a&^b, t))
	case token.SHL:
		if b < 0 {
			return fUnknown
		}
		if b >= 64 {
			return fInt(0)
		}
		return fInt(fTrunc(a<<uint(b), t))
	case token.SHR:
		if b < 0 {
			return fUnknown
		}
		if fUnsigned(lt) {
			w, _ := typeWidth(lt)
			u := uint64(a)
			if w < 64 {
				u &= uint64(1)<<uint(w) - 1
			}
			if b >= 64 {
				return fInt(0)
			}
			return fInt(fTrunc(int64(u>>uint(b)), t))
		}
		if b >= 64 {
			b = 63
		}
		return fInt(fTrunc(a>>uint(b), t))
	}
	return fUnknown
}

// fAssignOp maps `op=` tokens to the binary operator.
func fAssignOp(tok token.Token) (token.Token, bool) {
	switch tok {
	case token.ADD_ASSIGN:
		return token.ADD, true
	case token.SUB_ASSIGN:
		return token.SUB, true
	case token.MUL_ASSIGN:
		return token.MUL, true
	case token.AND_ASSIGN:
		return token.AND, true
	case token.OR_ASSIGN:
		return token.OR, true
	case token.XOR_ASSIGN:
		return token.XOR, true
	case token.SHL_ASSIGN:
		return token.SHL, true
	case token.SHR_ASSIGN:
		return token.SHR, true
	case token.AND_NOT_ASSIGN:
		return token.AND_NOT, true
	}
	return token.ILLEGAL, false
}
