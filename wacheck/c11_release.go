package main

import (
	"fmt"
)

// c11ReleaseDiscipline decides, from the path summaries of $runtime.Block.Release (watflow.go), that the block is
// handed to $runtime.HeapFree exactly on the paths where the decremented reference count is zero, that the block freed
// is the one released, and that on the other paths the decremented count is written back. Instruction spelling
// (local.tee, i32.eqz, if/else order) does not matter: the rule reads branch conditions and events as terms.
func c11ReleaseDiscipline(m *watModule, rel *watFunc) (bool, string) {
	ps, err := watPaths(m, rel)
	if err != nil {
		return false, "path summary failed: " + err.Error()
	}
	if len(rel.ParamNames) < 1 {
		return false, "no parameter"
	}
	ptr := &wterm{Op: "param", Name: rel.ParamNames[0]}
	// the decremented count: load(ptr+0) - 1
	isLoadCount := func(t *wterm) bool {
		return t != nil && t.Op == "load" && t.Off == 0 && len(t.Args) == 1 && wLinEqual(t.Args[0], ptr)
	}
	var loads func(t *wterm, out *[]*wterm)
	loads = func(t *wterm, out *[]*wterm) {
		if t == nil {
			return
		}
		if isLoadCount(t) {
			*out = append(*out, t)
		}
		for _, a := range t.Args {
			loads(a, out)
		}
	}
	isCount := func(t *wterm) bool {
		var ls []*wterm
		loads(t, &ls)
		for _, l := range ls {
			if d, ok := wLinSub(wLin(t), wLin(l)).isConst(); ok && d == -1 {
				return true
			}
		}
		return false
	}
	// zeroness of the decremented count established by a condition: +1 zero, -1 non-zero, 0 says nothing
	zeroness := func(cd wcond) int {
		t := cd.T
		sign := 1
		if !cd.Taken {
			sign = -1
		}
		switch {
		case isCount(t): // if (count-1) : taken = non-zero
			return -sign
		case t.Op == "op" && t.Name == "eqz" && len(t.Args) == 1 && isCount(t.Args[0]):
			return sign
		case t.Op == "op" && (t.Name == "eq" || t.Name == "ne") && len(t.Args) == 2:
			z := 0
			switch {
			case isCount(t.Args[0]) && wIsConst(t.Args[1], 0), isCount(t.Args[1]) && wIsConst(t.Args[0], 0),
				isLoadCount(t.Args[0]) && wIsConst(t.Args[1], 1), isLoadCount(t.Args[1]) && wIsConst(t.Args[0], 1):
				z = sign
			}
			if t.Name == "ne" {
				z = -z
			}
			return z
		}
		return 0
	}
	nFree, nKeep := 0, 0
	for i, p := range ps {
		z := 0
		for _, cd := range p.Conds {
			if v := zeroness(cd); v != 0 {
				z = v
			}
		}
		frees, writesBack := false, false
		for _, e := range p.Events {
			if e.Kind == "call" && e.Name == "$runtime.HeapFree" {
				frees = true
				if len(e.Args) != 1 || !wLinEqual(e.Args[0], ptr) {
					return false, fmt.Sprintf("path %d frees %v, not the block being released", i, e.Args)
				}
			}
			if e.Kind == "store" && e.Off == 0 && len(e.Args) == 2 && wLinEqual(e.Args[0], ptr) && isCount(e.Args[1]) {
				writesBack = true
			}
		}
		if frees {
			nFree++
			if z != 1 {
				return false, fmt.Sprintf("path %d (line %d) calls $runtime.HeapFree without having established that the decremented count is zero", i, p.Line)
			}
		}
		if z == -1 && p.End == "return" {
			nKeep++
			if frees {
				return false, fmt.Sprintf("path %d frees the block although the decremented count is non-zero", i)
			}
			if !writesBack {
				return false, fmt.Sprintf("path %d (count still positive) returns without storing the decremented count", i)
			}
		}
		if z == 1 && p.End == "return" && !frees {
			return false, fmt.Sprintf("path %d (line %d): the count reached zero but the block is not handed to $runtime.HeapFree", i, p.Line)
		}
	}
	if nFree == 0 || nKeep == 0 {
		return false, fmt.Sprintf("expected freeing and keeping paths, found %d and %d", nFree, nKeep)
	}
	return true, ""
}
