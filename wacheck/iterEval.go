package main

import (
	"go/ast"
	"go/token"
	"go/types"
)

// Decision-tree evaluation of a loop body for one iteration. Given values for the variables the body reads, the
// statements are followed in order: assignments of integer expressions update the environment, if-statements are
// decided by finite evaluation of their condition, and the walk ends at a return, a break or the end of the body.
// An accumulator (the decoded value) can be left abstract: writes to it are recorded as events instead of being
// applied, and reads of it are unknown unless the rule's hook answers them. Calls are never followed; the only call
// understood is the byte source (a method call answering (byte, error): `x.next(i)` / `r.ReadByte()`), which yields the byte under evaluation and a nil error.

type iterEvent struct {
	Kind   string // "|=", "=", "store", "return-or"
	Target types.Object
	Val    fval
	Index  fval
	Pos    token.Pos
}

type iterOutcome struct {
	Kind   string // "accept", "reject", "break", "fall", "undecided"
	Why    string
	RetVal fval
	Pos    token.Pos
}

type iterEval struct {
	env      *fenv
	info     *types.Info
	byteVal  int64
	acc      types.Object // abstract accumulator (nil: none); concrete when present in env.vars
	errObj   types.Object
	errIndex int // index of the error result, -1 if none
	events   []iterEvent
}

func (it *iterEval) isAbstractAcc(o types.Object) bool {
	if o == nil || o != it.acc {
		return false
	}
	_, concrete := it.env.vars[o]
	return !concrete
}

// effectOnly reports whether a statement list has no control transfer and writes only the abstract accumulator.
func (it *iterEval) effectOnly(list []ast.Stmt) bool {
	ok := true
	for _, s := range list {
		ast.Inspect(s, func(n ast.Node) bool {
			switch x := n.(type) {
			case *ast.ReturnStmt, *ast.BranchStmt, *ast.ForStmt, *ast.RangeStmt, *ast.GoStmt, *ast.DeferStmt:
				ok = false
			case *ast.AssignStmt:
				for _, l := range x.Lhs {
					id, isID := l.(*ast.Ident)
					if !isID || !it.isAbstractAcc(it.info.ObjectOf(id)) {
						ok = false
					}
				}
			case *ast.IncDecStmt:
				ok = false
			}
			return ok
		})
	}
	return ok
}

// isByteSource: a method call that answers (byte, error) — the decoder's byte source, whatever it is called.
func (it *iterEval) isByteSource(call *ast.CallExpr) bool {
	if _, ok := call.Fun.(*ast.SelectorExpr); !ok {
		return false
	}
	tup, ok := it.info.TypeOf(call).(*types.Tuple)
	if !ok || tup.Len() != 2 {
		return false
	}
	b, ok := tup.At(0).Type().Underlying().(*types.Basic)
	return ok && b.Kind() == types.Uint8 && isErrorType(tup.At(1).Type())
}

// run follows the list; done=false means control fell off its end.
func (it *iterEval) run(list []ast.Stmt) (out iterOutcome, done bool) {
	und := func(pos token.Pos, why string) (iterOutcome, bool) {
		return iterOutcome{Kind: "undecided", Why: why, Pos: pos}, true
	}
	for _, s := range list {
		switch x := s.(type) {
		case *ast.EmptyStmt, *ast.ExprStmt:
		case *ast.DeclStmt:
			gd, ok := x.Decl.(*ast.GenDecl)
			if !ok || gd.Tok != token.VAR {
				continue
			}
			for _, sp := range gd.Specs {
				vs := sp.(*ast.ValueSpec)
				for i, nm := range vs.Names {
					o := it.info.ObjectOf(nm)
					if i < len(vs.Values) {
						it.env.vars[o] = it.env.eval(vs.Values[i])
					} else if b, ok := o.Type().Underlying().(*types.Basic); ok && b.Info()&types.IsInteger != 0 {
						if !it.isAbstractAcc(o) {
							it.env.vars[o] = fInt(0)
						}
					}
				}
			}
		case *ast.BlockStmt:
			if o, d := it.run(x.List); d {
				return o, true
			}
		case *ast.IncDecStmt:
			id, ok := x.X.(*ast.Ident)
			if !ok {
				return und(x.Pos(), "increment of a non-variable")
			}
			o := it.info.ObjectOf(id)
			cur := it.env.vars[o]
			if cur.OK {
				d := int64(1)
				if x.Tok == token.DEC {
					d = -1
				}
				it.env.vars[o] = fInt(fTrunc(cur.I+d, o.Type()))
			}
		case *ast.AssignStmt:
			if len(x.Lhs) == 2 && len(x.Rhs) == 1 {
				if call, ok := x.Rhs[0].(*ast.CallExpr); ok && it.isByteSource(call) {
					if id, ok := x.Lhs[0].(*ast.Ident); ok && id.Name != "_" {
						o := it.info.ObjectOf(id)
						it.env.vars[o] = fInt(fTrunc(it.byteVal, o.Type()))
					}
					if id, ok := x.Lhs[1].(*ast.Ident); ok && id.Name != "_" {
						it.env.vars[it.info.ObjectOf(id)] = fInt(0)
					}
					continue
				}
			}
			if len(x.Lhs) != len(x.Rhs) {
				for _, l := range x.Lhs {
					if id, ok := l.(*ast.Ident); ok && id.Name != "_" {
						it.env.vars[it.info.ObjectOf(id)] = fUnknown
					}
				}
				continue
			}
			vals := make([]fval, len(x.Rhs))
			for i, r := range x.Rhs {
				vals[i] = it.env.eval(r)
			}
			for i, l := range x.Lhs {
				switch lx := ast.Unparen(l).(type) {
				case *ast.Ident:
					if lx.Name == "_" {
						continue
					}
					o := it.info.ObjectOf(lx)
					if it.isAbstractAcc(o) {
						it.events = append(it.events, iterEvent{Kind: x.Tok.String(), Target: o, Val: vals[i], Pos: x.Pos()})
						continue
					}
					if x.Tok == token.ASSIGN || x.Tok == token.DEFINE {
						if vals[i].OK && !vals[i].IsBool {
							vals[i].I = fTrunc(vals[i].I, o.Type())
						}
						it.env.vars[o] = vals[i]
						continue
					}
					op, ok := fAssignOp(x.Tok)
					cur := it.env.vars[o]
					if !ok || !cur.OK || !vals[i].OK {
						it.env.vars[o] = fUnknown
						continue
					}
					it.env.vars[o] = fArith(op, cur.I, vals[i].I, o.Type(), o.Type())
				case *ast.IndexExpr:
					var tgt types.Object
					if id, ok := lx.X.(*ast.Ident); ok {
						tgt = it.info.ObjectOf(id)
					}
					it.events = append(it.events, iterEvent{Kind: "store", Target: tgt, Val: vals[i], Index: it.env.eval(lx.Index), Pos: x.Pos()})
				default:
					return und(x.Pos(), "assignment to an unmodelled location")
				}
			}
		case *ast.IfStmt:
			if x.Init != nil {
				if o, d := it.run([]ast.Stmt{x.Init}); d {
					return o, true
				}
			}
			cv := it.env.eval(x.Cond)
			if !cv.OK {
				var elseList []ast.Stmt
				if x.Else != nil {
					elseList = []ast.Stmt{x.Else}
				}
				if it.effectOnly(x.Body.List) && it.effectOnly(elseList) {
					// both outcomes only touch the abstract accumulator
					it.events = append(it.events, iterEvent{Kind: "=", Target: it.acc, Pos: x.Pos()})
					continue
				}
				return und(x.Cond.Pos(), "the condition `"+types.ExprString(x.Cond)+"` is not decided by the finite evaluator")
			}
			if cv.B {
				if o, d := it.run(x.Body.List); d {
					return o, true
				}
			} else if x.Else != nil {
				if o, d := it.run([]ast.Stmt{x.Else}); d {
					return o, true
				}
			}
		case *ast.BranchStmt:
			switch x.Tok {
			case token.BREAK:
				if x.Label == nil {
					return iterOutcome{Kind: "break", Pos: x.Pos()}, true
				}
			case token.CONTINUE:
				if x.Label == nil {
					return iterOutcome{Kind: "fall", Pos: x.Pos()}, true
				}
			}
			return und(x.Pos(), "labelled or unmodelled branch")
		case *ast.ReturnStmt:
			o := iterOutcome{Pos: x.Pos()}
			if len(x.Results) == 0 {
				ev := it.env.vars[it.errObj]
				switch {
				case it.errObj == nil || !ev.OK:
					return und(x.Pos(), "bare return with an unknown error value")
				case ev.I == 0:
					o.Kind = "accept"
				default:
					o.Kind = "reject"
				}
				if it.acc != nil {
					o.RetVal = it.env.vars[it.acc]
				}
				return o, true
			}
			if it.errIndex >= 0 && it.errIndex < len(x.Results) {
				er := ast.Unparen(x.Results[it.errIndex])
				if tv, ok := it.info.Types[er]; ok && tv.IsNil() {
					o.Kind = "accept"
				} else if id, ok := er.(*ast.Ident); ok && it.info.ObjectOf(id) == it.errObj {
					ev := it.env.vars[it.errObj]
					switch {
					case !ev.OK:
						return und(x.Pos(), "returns an unknown error value")
					case ev.I == 0:
						o.Kind = "accept"
					default:
						o.Kind = "reject"
					}
				} else {
					o.Kind = "reject"
				}
			} else {
				o.Kind = "accept"
			}
			if o.Kind == "accept" && it.acc != nil {
				r0 := ast.Unparen(x.Results[0])
				if be, ok := r0.(*ast.BinaryExpr); ok && be.Op == token.OR && it.isAbstractAcc(identObj(it.info, be.X)) {
					it.events = append(it.events, iterEvent{Kind: "return-or", Target: it.acc, Val: it.env.eval(be.Y), Pos: x.Pos()})
				} else if ok && be.Op == token.OR && it.isAbstractAcc(identObj(it.info, be.Y)) {
					it.events = append(it.events, iterEvent{Kind: "return-or", Target: it.acc, Val: it.env.eval(be.X), Pos: x.Pos()})
				} else {
					o.RetVal = it.env.eval(r0)
				}
			} else if o.Kind == "accept" && len(x.Results) > 0 {
				o.RetVal = it.env.eval(ast.Unparen(x.Results[0]))
			}
			return o, true
		default:
			return und(s.Pos(), "statement form not modelled")
		}
	}
	return iterOutcome{Kind: "fall"}, false
}

func identObj(info *types.Info, e ast.Expr) types.Object {
	if id, ok := ast.Unparen(e).(*ast.Ident); ok {
		return info.ObjectOf(id)
	}
	return nil
}

// indVar is a variable whose only writes are one unconditional constant step per iteration.
type indVar struct{ Init, Step int64 }

// findInduction returns the induction variables of loop within fd.
func findInduction(info *types.Info, fd *ast.FuncDecl, loop *ast.ForStmt) map[types.Object]indVar {
	steps := map[types.Object]int64{}
	stepStmt := map[types.Object]ast.Stmt{}
	cand := func(s ast.Stmt) {
		switch x := s.(type) {
		case *ast.IncDecStmt:
			if o := identObj(info, x.X); o != nil {
				d := int64(1)
				if x.Tok == token.DEC {
					d = -1
				}
				steps[o], stepStmt[o] = d, s
			}
		case *ast.AssignStmt:
			if x.Tok == token.ADD_ASSIGN && len(x.Lhs) == 1 {
				if o := identObj(info, x.Lhs[0]); o != nil {
					if k, ok := constIntOf(info, x.Rhs[0]); ok {
						steps[o], stepStmt[o] = k, s
					}
				}
			}
		}
	}
	for _, s := range loop.Body.List {
		cand(s)
	}
	if loop.Post != nil {
		cand(loop.Post)
	}
	res := map[types.Object]indVar{}
	for o, st := range steps {
		if _, isVar := o.(*types.Var); !isVar {
			continue
		}
		init, okInit, other := int64(0), true, 0
		ast.Inspect(fd, func(n ast.Node) bool {
			switch x := n.(type) {
			case *ast.Field:
				for _, nm := range x.Names {
					if info.ObjectOf(nm) == o && fd.Type.Params != nil {
						for _, pf := range fd.Type.Params.List {
							if pf == x {
								okInit = false // a parameter does not start at zero
							}
						}
					}
				}
			case *ast.ValueSpec:
				for i, nm := range x.Names {
					if info.ObjectOf(nm) == o && i < len(x.Values) {
						if k, ok := constIntOf(info, x.Values[i]); ok {
							init = k
						} else {
							okInit = false
						}
					}
				}
			case *ast.IncDecStmt:
				if ast.Stmt(x) != stepStmt[o] && identObj(info, x.X) == o {
					other++
				}
			case *ast.AssignStmt:
				if ast.Stmt(x) == stepStmt[o] {
					return true
				}
				for i, l := range x.Lhs {
					if identObj(info, l) != o {
						continue
					}
					if x.Tok == token.DEFINE && len(x.Lhs) == len(x.Rhs) {
						if k, ok := constIntOf(info, x.Rhs[i]); ok {
							init = k
							continue
						}
					}
					other++
				}
			}
			return true
		})
		if okInit && other == 0 {
			res[o] = indVar{Init: init, Step: st}
		}
	}
	return res
}
