package main

import (
	"fmt"
	"go/ast"
	"go/types"
	"sort"
	"strings"

	"golang.org/x/tools/go/packages"
)

// C07 — source formatting is idempotent and meaning-preserving.
//
// The formatter is parse -> print. Necessary conditions visible in code shape, decided per language pair
// (parser, printer) / (w2parser, w2printer): the printer dispatches on every node type the paired parser can build,
// every syntactic field the parser stores is read by the printer, and format.File pairs each language with its own
// parser and printer.

func init() {
	pn := "internal/printer/nodes.go"
	register(&Property{ID: "C07", Run: runC07, Mutants: []Mutant{
		{Name: ".wz printer: 注: comments are not line comments", File: "internal/printer/w2printer/printer_comment.go", Old: "\treturn text[0] == '#' || len(text) > 1 && text[1] == '/' || isZhuComment(text)", New: "\treturn text[0] == '#' || len(text) > 1 && text[1] == '/'", Expect: "zhu-comment-is-line-comment"},
		{Name: ".wz printer: 结构 printed at the name's position", File: "internal/printer/w2printer/printer_type_struct.go", Old: "\tp.print(pos, token.Zh_结构, token.K_点)", New: "\tp.print(s.Pos(), token.Zh_结构, token.K_点)", Expect: "keyword-at-declaration-position"},
		{Name: ".wz printer: group keyword printed at the colon's position", File: "internal/printer/w2printer/printer_file.go", Old: "p.print(d.Pos(), tok, token.COLON)", New: "p.print(d.Lparen, tok, token.COLON)", Expect: "keyword-at-declaration-position"},
		{Name: ".wa printer: line-comment test forgets the '#' style", File: "internal/printer/printer.go", Old: "\treturn text[0] == '#' || len(text) > 1 && text[1] == '/'", New: "\treturn len(text) > 1 && text[1] == '/'", Expect: "hash-comment-is-line-comment"},
		{Name: ".wz printer: line break after a comment decided from the second byte again", File: "internal/printer/w2printer/printer_comment.go", Old: "\t\tif isLineComment(last.Text) ||", New: "\t\tif len(last.Text) > 1 && last.Text[1] == '/' ||", Expect: "hash-comment-is-line-comment"},
		{Name: ".wa printer: '#*' taken for a block comment", File: "internal/printer/printer.go", Old: "\treturn len(text) > 1 && text[0] == '/' && text[1] == '*'", New: "\treturn len(text) > 1 && text[1] == '*'", Expect: "hash-comment-is-line-comment"},
		{Name: "plain import folded into an aliased import of the same path", File: "internal/ast/import.go", Old: "\tif importPath(next) != importPath(prev) || importName(next) != importName(prev) {\n\t\treturn false\n\t}", New: "\tif importPath(next) != importPath(prev) {\n\t\treturn false\n\t}\n\tif name := importName(prev); name != \"\" && name != importName(next) {\n\t\treturn false\n\t}", Expect: "import-dedup-exact"},
		{Name: "commented duplicate import removed with its comment", File: "internal/ast/import.go", Old: "\treturn prev.(*ImportSpec).Comment == nil\n", New: "\treturn prev.(*ImportSpec).Comment == nil || next.(*ImportSpec).Comment != nil\n", Expect: "import-dedup-exact"},
		{Name: "wa printer: var elided for untyped local declarations", File: pn, Old: " || !valueSpecsHaveType(d.Specs) {", New: " {", Expect: "keyword-elision-needs-type"},
		{Name: "wa printer: spread call gets a trailing comma before the dots", File: pn, Old: "p.exprList(x.Lparen, x.Args, depth, 0, x.Ellipsis, false)", New: "p.exprList(x.Lparen, x.Args, depth, commaTerm, x.Rparen, false)", Expect: "printer-sibling-agreement"},
		{Name: "wa printer: only string literals bypass the tabwriter", File: "internal/printer/printer.go", Old: "\t\t\tdata = x.Value\n\t\t\tisLit = true", New: "\t\t\tdata = x.Value\n\t\t\tisLit = x.Kind == token.STRING", Expect: "printer-origin-agreement"},
		{Name: "wz printer: literals are not shielded from the tabwriter", File: "internal/printer/w2printer/printer.go", Old: "\t\t\tdata = x.Value\n\t\t\tisLit = true", New: "\t\t\tdata = x.Value\n\t\t\tisLit = false", Expect: "printer-sibling-agreement"},
		{Name: "printer loses the statement arm for empty statements", File: pn, Old: "\tcase *ast.EmptyStmt:\n\t\t// nothing to do\n", New: "", Expect: "node-exhaustive :: internal/printer"},
		{Name: "printer no longer prints the slice capacity", File: pn, Old: "\t\tindices := []ast.Expr{x.Low, x.High}\n\t\tif x.Max != nil {\n\t\t\tindices = append(indices, x.Max)\n\t\t}", New: "\t\tindices := []ast.Expr{x.Low, x.High}", Expect: "field-coverage :: internal/printer: SliceExpr.Max"},
		{Name: "wz sources sent through the wa pipeline", File: "internal/format/format.go", Old: "golden, err := _SourceFile_wz(text)", New: "golden, err := SourceFile(text)", Expect: "language-pairing"},
	}})
}

// fields of ast nodes that are not syntax: resolution results and bookkeeping. One reason per row.
var c07NonSyntax = map[string]string{
	"Ident.Obj":          "resolution result (declared object), rebuilt by the parser on re-parse",
	"File.Scope":         "resolution result",
	"File.Unresolved":    "resolution result",
	"File.Imports":       "derived list of the import specs that are printed as declarations",
	"File.Comments":      "comments are interspersed by the printer's comment machinery through node positions, not by a field read at one node",
	"File.W2Mode":        "language flag of the file, not syntax",
	"File.Name":          "only written for the empty placeholder file returned on a parse error (w2parser.ParseFile); .wz files carry no package clause",
	"Package.Scope":      "resolution result",
	"Package.Imports":    "resolution result",
	"Package.Files":      "container, not printed as a node",
	"Package.Name":       "container, not printed as a node",
	"Package.W2Mode":     "language flag, not syntax",
	"FuncType.Tok":       "keyword spelling chosen by the printer for its language",
	"CaseClause.Tok":     "keyword is determined by the node: case when List != nil, default otherwise",
	"DeferStmt.Tok":      "keyword is determined by the node type; each printer prints its own language's spelling",
	"ReturnStmt.Tok":     "keyword is determined by the node type",
	"ForStmt.Tok":        "keyword is determined by the node type",
	"RangeStmt.ForTok":   "keyword is determined by the node type",
	"IfStmt.Tok":         "keyword is determined by the node type",
	"SwitchStmt.Tok":     "keyword is determined by the node type",
	"TypeSwitchStmt.Tok": "keyword is determined by the node type",
	"StructType.Tok":     "keyword is determined by the node type",
	"InterfaceType.Tok":  "keyword is determined by the node type",
	"EmptyStmt.Implicit": "whether the semicolon was written does not change the program",
	"SliceExpr.Slice3":   "implied by Max != nil in every program the parser accepts",
	"Scope.Outer":        "scope bookkeeping",
	"Scope.Objects":      "scope bookkeeping",
	"Object.Kind":        "object bookkeeping",
	"Object.Name":        "object bookkeeping",
	"Object.Decl":        "object bookkeeping",
	"Object.Data":        "object bookkeeping",
	"Object.Type":        "object bookkeeping",
	"CommentGroup.List":  "printed by the comment machinery",
}

func runC07(c *Ctx) {
	c.Explain = "Decides necessary structural clauses of 'formatting preserves the program' for both surface syntaxes: (1) node-exhaustive: every type switch over ast.Expr / ast.Stmt / ast.Decl / ast.Spec in a printer that ends in a panicking (or absent) default lists every concrete node type the paired parser constructs; " +
		"(2) field-coverage: every non-positional, syntactic field of an AST node that the paired parser stores is read somewhere in the printer (a field the printer never reads cannot survive format); (3) language-pairing: format.File sends each detected language to the parser and the printer of that same language; " +
		"(4) printer-sibling-agreement / printer-origin-agreement: every function, and inside functions that differ every switch arm, whose canonical syntax tree was equal between the .wa printer, the .wz printer and go/printer (the printer both were forked from, read from GOROOT) when the rule was armed (frozen list c07_siblings.txt) is still equal — a one-sided edit to shared formatting code is reported. " +
		"NOT decided: idempotence, comment placement, line breaking, that the printed text re-parses to the same tree."
	c.Trusted = []string{"go/packages, go/types (x/tools v0.29.0)"}
	p := c.Load(LoadOpt{Light: true}, "./internal/ast", "./internal/parser", "./internal/parser/w2parser", "./internal/printer", "./internal/printer/w2printer", "./internal/format")
	astp := p.MustPkg("node-exhaustive", "internal/ast")
	if astp == nil {
		return
	}
	pairs := [][2]string{{"internal/parser", "internal/printer"}, {"internal/parser/w2parser", "internal/printer/w2printer"}}
	for _, pr := range pairs {
		pa, pp := p.MustPkg("node-exhaustive", pr[0]), p.MustPkg("node-exhaustive", pr[1])
		if pa == nil || pp == nil {
			continue
		}
		c07Pair(c, p, astp, pa, pp, pr[1])
	}
	if fp := p.MustPkg("language-pairing", "internal/format"); fp != nil {
		c07Pairing(c, p, fp)
	}
	c07ImportDedup(c, p, astp)
	c07HashComments(c)
	if wz := p.Pkg("internal/printer/w2printer"); wz != nil {
		c07WzPrinter(c, p, wz)
	}
	if wa, wz := p.MustPkg("printer-sibling-agreement", "internal/printer"), p.MustPkg("printer-sibling-agreement", "internal/printer/w2printer"); wa != nil && wz != nil {
		c07SiblingAgreement(c, p, wa, wz)
		c07KeywordElision(c, p, wa)
	}
}

func c07Pair(c *Ctx, p *Prog, astp, pa, pp *packages.Package, label string) {
	// concrete node types the parser constructs (composite literals of ast struct types)
	built := map[string]bool{}
	for _, f := range pa.Syntax {
		ast.Inspect(f, func(n ast.Node) bool {
			if cl, ok := n.(*ast.CompositeLit); ok {
				if nt, _ := structOf(pa.TypesInfo.TypeOf(cl), "internal/ast"); nt != nil {
					built[nt.Obj().Name()] = true
				}
			}
			return true
		})
	}
	c.Min("node-exhaustive", label+": node types built by the paired parser", len(built), 40)
	ifaces := map[string]*types.Interface{}
	for _, n := range []string{"Expr", "Stmt", "Decl", "Spec"} {
		if tn, ok := astp.Types.Scope().Lookup(n).(*types.TypeName); ok {
			ifaces[n] = tn.Type().Underlying().(*types.Interface)
		}
	}
	// (1) type switches in the printer
	info := pp.TypesInfo
	nsw := 0
	for _, f := range pp.Syntax {
		for _, d := range f.Decls {
			fd, ok := d.(*ast.FuncDecl)
			if !ok || fd.Body == nil {
				continue
			}
			ast.Inspect(fd.Body, func(n ast.Node) bool {
				ts, ok := n.(*ast.TypeSwitchStmt)
				if !ok {
					return true
				}
				var x ast.Expr
				switch a := ts.Assign.(type) {
				case *ast.AssignStmt:
					if ta, ok := a.Rhs[0].(*ast.TypeAssertExpr); ok {
						x = ta.X
					}
				case *ast.ExprStmt:
					if ta, ok := a.X.(*ast.TypeAssertExpr); ok {
						x = ta.X
					}
				}
				if x == nil {
					return true
				}
				tt := info.TypeOf(x)
				nt, ok := tt.(*types.Named)
				if !ok || nt.Obj().Pkg() == nil || !strings.HasSuffix(nt.Obj().Pkg().Path(), "internal/ast") {
					return true
				}
				iface, ok := ifaces[nt.Obj().Name()]
				if !ok {
					return true
				}
				arms := TypeSwitchArms(info, ts)
				// only total dispatchers: a default that panics / reports, or no default with an unreachable after
				hasDefault, defaultPanics := false, false
				cases := map[string]bool{}
				for _, a := range arms {
					if a.Default {
						hasDefault = true
						defaultPanics = isPanicOnly(info, a.Body) || strings.Contains(nodeString(p, a.Clause), "unreachable")
						continue
					}
					for _, t := range a.Types {
						cases[namedTypeName(t)] = true
					}
				}
				if !hasDefault || !defaultPanics {
					return true // a partial switch (special-casing a few kinds): not a dispatcher
				}
				if len(cases) < 6 {
					return true
				}
				nsw++
				var missing []string
				for name := range built {
					tn, ok := astp.Types.Scope().Lookup(name).(*types.TypeName)
					if !ok {
						continue
					}
					if types.Implements(types.NewPointer(tn.Type()), iface) && !cases[name] {
						missing = append(missing, name)
					}
				}
				sort.Strings(missing)
				key := fmt.Sprintf("%s.%s: switch over ast.%s", label, declName(fd), nt.Obj().Name())
				c.Check(len(missing) == 0, "node-exhaustive", key, p.Pos(ts.Pos()), fmt.Sprintf("%d cases cover every node the parser builds", len(cases)),
					fmt.Sprintf("the paired parser constructs ast.%s node(s) %s, which this printer dispatcher sends to its panicking default: formatting a file that contains such a node crashes", nt.Obj().Name(), strings.Join(missing, ", ")))
				return true
			})
		}
	}
	c.Min("node-exhaustive", label+": total dispatchers over Expr/Stmt/Decl/Spec", nsw, 2)

	// (2) field coverage
	_, writes := FieldAccesses(pa, "internal/ast", nil)
	reads, _ := FieldAccesses(pp, "internal/ast", nil)
	fields := StructFields(astp)
	var keys []string
	for k := range writes {
		keys = append(keys, k)
	}
	sort.Strings(keys)
	n := 0
	for _, k := range keys {
		fv, ok := fields[k]
		if !ok {
			continue
		}
		if _, non := c07NonSyntax[k]; non {
			continue
		}
		ft := fv.Type().String()
		if strings.HasSuffix(ft, "token.Pos") {
			continue // positions steer layout only
		}
		n++
		c.Check(len(reads[k]) > 0, "field-coverage", label+": "+k, p.Pos(writes[k][0].Pos), "read by the printer",
			fmt.Sprintf("the parser stores ast.%s (e.g. in %s) but no function of %s ever reads it: whatever the field holds is dropped when the file is formatted", k, writes[k][0].Func, label))
	}
	c.Min("field-coverage", label+": syntactic fields stored by the parser", n, 70)
}

func c07Pairing(c *Ctx, p *Prog, fp *packages.Package) {
	const rule = "language-pairing"
	info := fp.TypesInfo
	// pipeline functions: which parser / printer packages does each use
	uses := func(fd *ast.FuncDecl) map[string]bool {
		out := map[string]bool{}
		if fd == nil {
			return out
		}
		seen := map[*ast.FuncDecl]bool{}
		var walk func(fd *ast.FuncDecl, depth int)
		walk = func(fd *ast.FuncDecl, depth int) {
			if fd == nil || seen[fd] || depth > 4 {
				return
			}
			seen[fd] = true
			for _, call := range callsIn(info, fd.Body.List) {
				fn := CalleeOf(info, call)
				if fn == nil || fn.Pkg() == nil {
					continue
				}
				path := fn.Pkg().Path()
				switch {
				case strings.HasSuffix(path, "internal/parser"), strings.HasSuffix(path, "internal/parser/w2parser"), strings.HasSuffix(path, "internal/printer"), strings.HasSuffix(path, "internal/printer/w2printer"):
					out[short(path)] = true
				case fn.Pkg() == fp.Types:
					walk(FuncDecl(fp, fn.Name()), depth+1)
					if sig, ok := fn.Type().(*types.Signature); ok && sig.Recv() != nil {
						walk(FuncDecl(fp, namedTypeName(sig.Recv().Type())+"."+fn.Name()), depth+1)
					}
				}
			}
			// method values such as cfg.Fprint
			ast.Inspect(fd.Body, func(n ast.Node) bool {
				if se, ok := n.(*ast.SelectorExpr); ok {
					if fn, ok := info.ObjectOf(se.Sel).(*types.Func); ok && fn.Pkg() != nil {
						pth := fn.Pkg().Path()
						if strings.HasSuffix(pth, "internal/printer") || strings.HasSuffix(pth, "internal/printer/w2printer") {
							out[short(pth)] = true
						}
					}
				}
				return true
			})
		}
		walk(fd, 0)
		return out
	}
	file := p.MustFunc(rule, fp, "File")
	if file == nil {
		return
	}
	// format.File is read once per language with the detected language fixed (c07_lang.go): whatever the form of the
	// dispatch (switch arms, shared arms with an inner test, a function-valued local), the functions that can run for
	// that language must use the parser and the printer of that language and no others.
	n := 0
	var langs []string
	for k := range langConstNames() {
		langs = append(langs, k)
	}
	sort.Strings(langs)
	for _, k := range langs {
		w := langConstNames()[k]
		calledFns, dispatches := langCalls(info, fp, file, k)
		if dispatches == 0 {
			c.Undecided(rule, "format.File: dispatch on the detected language", p.Pos(file.Pos()), "no switch on, or comparison of, the result of xlang.DetectLang found")
			return
		}
		n++
		got := map[string]bool{}
		for fn := range calledFns {
			for u := range uses(FuncDecl(fp, fn.Name())) {
				got[u] = true
			}
		}
		var gl []string
		for g := range got {
			gl = append(gl, g)
		}
		sort.Strings(gl)
		good := got[w[0]] && got[w[1]] && len(got) == 2
		c.Check(good, rule, "format.File: "+k, p.Pos(file.Pos()), "uses "+strings.Join(gl, " + "),
			fmt.Sprintf("sources detected as %s are formatted with %s; they must be parsed by %s and printed by %s (another pairing rejects or rewrites the program in the other surface syntax)", k, strings.Join(gl, " + "), w[0], w[1]))
	}
	c.Min(rule, "language arms", n, 2)
}
