package main

import (
	"fmt"
	"go/ast"
	"go/token"
	"go/types"
	"os"
	"sort"
	"strings"

	"golang.org/x/tools/go/packages"
)

// index-loop-covers-list — a rule shared by the checks whose anchored code walks lists of operands, types, fields or
// bytes with an index: a three-clause loop whose body indexes a list X with the loop variable covers the whole list —
// ascending `for k := 0; k < len(X); k++`, descending `for k := len(X) - 1; k >= 0; k--` (or a range loop). An
// off-by-one in such a loop skips the first or the last element (the last parameter of a call is not popped, the last
// field is not printed) or runs past the end. Loops that are partial by design (a separator before every element but
// the first, a scan that starts after a prefix) are listed in loopExceptions with the reason, keyed by function, list
// and bounds: a change of the bounds of such a loop is reported like any other.

type loopSite struct {
	Key   string
	Pos   token.Pos
	Canon bool
	Why   string
}

func indexLoops(pk *packages.Package, only func(name string) bool) []loopSite {
	info := pk.TypesInfo
	var out []loopSite
	for _, name := range sortedDeclNames(pk) {
		if only != nil && !only(name) {
			continue
		}
		fd := AllFuncDecls(pk)[name]
		if fd.Body == nil {
			continue
		}
		seq := map[string]int{}
		ld := newLocalDefs(info, fd)
		ast.Inspect(fd.Body, func(n ast.Node) bool {
			fs, ok := n.(*ast.ForStmt)
			if !ok || fs.Init == nil || fs.Cond == nil || fs.Post == nil {
				return true
			}
			as, ok := fs.Init.(*ast.AssignStmt)
			if !ok || len(as.Lhs) != 1 || len(as.Rhs) != 1 {
				return true
			}
			id, ok := as.Lhs[0].(*ast.Ident)
			if !ok {
				return true
			}
			v := info.ObjectOf(id)
			inc, ok := fs.Post.(*ast.IncDecStmt)
			if !ok {
				return true
			}
			if pid, ok := inc.X.(*ast.Ident); !ok || info.ObjectOf(pid) != v {
				return true
			}
			// lists indexed with the loop variable in the body (slices, arrays, strings)
			lists := map[string]bool{}
			ast.Inspect(fs.Body, func(m ast.Node) bool {
				ix, ok := m.(*ast.IndexExpr)
				if !ok {
					return true
				}
				if iid, ok := ast.Unparen(ix.Index).(*ast.Ident); ok && info.ObjectOf(iid) == v {
					switch info.TypeOf(ix.X).Underlying().(type) {
					case *types.Slice, *types.Array, *types.Basic:
						lists[types.ExprString(ix.X)] = true
					}
				}
				return true
			})
			if len(lists) == 0 {
				return true
			}
			var ls []string
			for l := range lists {
				ls = append(ls, l)
			}
			sort.Strings(ls)
			initS := strings.ReplaceAll(types.ExprString(as.Rhs[0]), " ", "")
			condS := strings.ReplaceAll(types.ExprString(fs.Cond), " ", "")
			canon, why := false, ""
			lenOf := func(s string) (string, bool) {
				if strings.HasPrefix(s, "len(") && strings.HasSuffix(s, ")") {
					return s[4 : len(s)-1], true
				}
				return "", false
			}
			switch inc.Tok {
			case token.INC:
				// k := 0; k < len(L)
				if be, ok := ast.Unparen(fs.Cond).(*ast.BinaryExpr); ok && be.Op == token.LSS && initS == "0" {
					if l, ok := lenOf(strings.ReplaceAll(types.ExprString(be.Y), " ", "")); ok {
						if lid, ok := ast.Unparen(be.X).(*ast.Ident); ok && info.ObjectOf(lid) == v {
							canon = true
							_ = l
						}
					}
				}
				if !canon {
					why = "ascending from " + initS + " while " + condS
				}
			case token.DEC:
				// k := len(L)-1; k >= 0
				if be, ok := ast.Unparen(fs.Cond).(*ast.BinaryExpr); ok && be.Op == token.GEQ && strings.ReplaceAll(types.ExprString(be.Y), " ", "") == "0" {
					// `len(L)-1`, or `n-1` with n a local defined once as len(L)
					initR := strings.ReplaceAll(ld.render(as.Rhs[0]), " ", "")
					if (strings.HasPrefix(initS, "len(") && strings.HasSuffix(initS, ")-1")) || (strings.HasPrefix(initR, "(len(") && strings.HasSuffix(initR, ")-1)")) {
						if lid, ok := ast.Unparen(be.X).(*ast.Ident); ok && info.ObjectOf(lid) == v {
							canon = true
						}
					}
				}
				if !canon {
					why = "descending from " + initS + " while " + condS
				}
			}
			key := fmt.Sprintf("%s.%s: %s over %s", short(pk.PkgPath), name, id.Name, strings.Join(ls, ","))
			if !canon {
				key += " [" + why + "]"
			}
			seq[key]++
			if seq[key] > 1 {
				key = fmt.Sprintf("%s #%d", key, seq[key])
			}
			out = append(out, loopSite{Key: key, Pos: fs.Pos(), Canon: canon, Why: why})
			return true
		})
	}
	return out
}

// loopExceptions: index loops that are partial by design, confirmed by reading (key -> reason).
var loopExceptions = map[string]string{}

func indexLoopRule(c *Ctx, p *Prog, pk *packages.Package, only func(name string) bool) int {
	const rule = "index-loop-covers-list"
	sites := indexLoops(pk, only)
	dump := os.Getenv("VERIF_LOOP_DUMP") == "1"
	n := 0
	for _, s := range sites {
		if dump && !s.Canon {
			fmt.Printf("LOOP\t%s\t%s\n", s.Key, p.Pos(s.Pos))
		}
		n++
		if why, ok := loopExceptions[s.Key]; ok {
			c.OK(rule, s.Key, p.Pos(s.Pos), "partial by design: "+why)
			continue
		}
		c.Check(s.Canon, rule, s.Key, p.Pos(s.Pos), "covers the whole list",
			"this loop indexes the list with its loop variable but does not run over the whole list ("+s.Why+"): the first or the last element is skipped, or the index runs past the end")
	}
	return n
}
