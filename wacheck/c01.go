package main

import (
	"fmt"
	"go/ast"
	"go/constant"
	"go/types"
	"regexp"
	"sort"
	"strings"

	"golang.org/x/tools/go/packages"
)

func init() {
	em := "internal/backends/compiler_wat/wir/instruction_emitter.go"
	register(&Property{ID: "C01", Run: runC01, Mutants: []Mutant{
		{Name: "next_rune accepts the surrogate range", File: "waroot/src/runtime/string.wa", Old: "\t\t\t} else if p0 == 0xED {\n\t\t\t\thi = 0x9F\n\t\t\t}\n", New: "\t\t\t}\n", Expect: "rune-decoder-agrees-with-go"},
		{Name: "next_rune reads the continuation byte without looking at the length", File: "waroot/src/runtime/string.wa", Old: "\t\tif n >= 2 {\n", New: "\t\tif n >= 1 {\n", Expect: "rune-decoder-agrees-with-go"},
		{Name: "next_rune ends the iteration at an invalid byte", File: "waroot/src/runtime/string.wa", Old: "\treturn true, iter.pos, RuneError, iter.pos + 1\n", New: "\treturn\n", Expect: "rune-decoder-agrees-with-go"},
		{Name: "second byte of an i64 constant taken from bit 9", File: "internal/backends/compiler_wat/wir/value_basic.go", Old: "\t\tsi := uint64(int64(i))\n\t\tb[0] = byte(si & 0xFF)\n\t\tb[1] = byte((si >> 8) & 0xFF)", New: "\t\tsi := uint64(int64(i))\n\t\tb[0] = byte(si & 0xFF)\n\t\tb[1] = byte((si >> 9) & 0xFF)", Expect: "const-bytes :: I64: byte layout"},
		{Name: "third byte of an f32 constant written twice", File: "internal/backends/compiler_wat/wir/value_basic.go", Old: "\t\tsi := math.Float32bits(float32(f))\n\t\tb[0] = byte(si & 0xFF)\n\t\tb[1] = byte((si >> 8) & 0xFF)\n\t\tb[2] = byte((si >> 16) & 0xFF)\n\t\tb[3] = byte((si >> 24) & 0xFF)", New: "\t\tsi := math.Float32bits(float32(f))\n\t\tb[0] = byte(si & 0xFF)\n\t\tb[1] = byte((si >> 8) & 0xFF)\n\t\tb[2] = byte((si >> 16) & 0xFF)\n\t\tb[2] = byte((si >> 24) & 0xFF)", Expect: "const-bytes :: F32: byte layout"},
		{Name: "string ordering decodes runes again", File: "waroot/src/runtime/string.wa", Old: "\tfor i := 0; i < n; i++ {\n\t\tif x[i] < y[i] {\n\t\t\treturn -1\n\t\t} else if x[i] > y[i] {\n\t\t\treturn 1\n\t\t}\n\t}\n", New: "\ti1 := stringToIter(x)\n\ti2 := stringToIter(y)\n\tfor i := 0; i < n; i++ {\n\t\t_, _, v1, p1 := next_rune(i1)\n\t\ti1.pos = p1\n\t\t_, _, v2, p2 := next_rune(i2)\n\t\ti2.pos = p2\n\t\tif v1 < v2 {\n\t\t\treturn -1\n\t\t} else if v1 > v2 {\n\t\t\treturn 1\n\t\t}\n\t}\n", Expect: "string-order-bytewise"},
		{Name: "labelled continue of a three-clause for goes to the loop head", File: "internal/ssa/builder.go", Old: "\t\tlabel._break = done\n\t\tlabel._continue = cont\n", New: "\t\tlabel._break = done\n\t\tlabel._continue = loop\n", Expect: "labelled-jump-targets"},
		{Name: "range loop label breaks to the loop block", File: "internal/ssa/builder.go", Old: "\t\tlabel._break = done\n\t\tlabel._continue = loop\n", New: "\t\tlabel._break = loop\n\t\tlabel._continue = loop\n", Expect: "labelled-jump-targets"},
		{Name: "named results reloaded after defers only for a bare return", File: "internal/ssa/builder.go", Old: "\t\tfn.emit(new(RunDefers))\n\t\tif fn.namedResults != nil {", New: "\t\tfn.emit(new(RunDefers))\n\t\tif fn.namedResults != nil && len(results) == 0 {", Expect: "named-results-around-defers"},
		{Name: "deferred calls run before the return operands are stored", File: "internal/ssa/builder.go", Old: "\t\t// Run function calls deferred in this\n\t\t// function when explicitly returning from it.\n\t\tfn.emit(new(RunDefers))\n\t\tif fn.namedResults != nil {", New: "\t\tif fn.namedResults != nil {", Expect: "named-results-around-defers"},
		{Name: "append in place always copies from the first element up", File: "internal/backends/compiler_wat/wir/value_slice.go", Old: "\t\t\tif_true = append(if_true, wat.NewInstIf(backward, nil, nil))\n", New: "\t\t\t_ = backward\n\t\t\tif_true = append(if_true, wat.NewInstDrop())\n", Expect: "append-overlap-direction"},
		{Name: "append reallocates when it exactly fills the capacity", File: "internal/backends/compiler_wat/wir/value_slice.go", Old: "\tf.Insts = append(f.Insts, x.ExtractByName(\"c\").EmitPush()...)\n\tf.Insts = append(f.Insts, wat.NewInstLe(wat.U32{}))", New: "\tf.Insts = append(f.Insts, x.ExtractByName(\"c\").EmitPush()...)\n\tf.Insts = append(f.Insts, wat.NewInstLt(wat.U32{}))", Expect: "append-in-place-threshold"},
		{Name: "unsigned division formats as div_s", File: "internal/backends/compiler_wat/wir/wat/instruction_arith.go", Old: "sb.WriteString(\"i32.div_u\")", New: "sb.WriteString(\"i32.div_s\")", Expect: "mnemonic-by-type :: instDiv"},
		{Name: "u64 shr formats arithmetic", File: "internal/backends/compiler_wat/wir/wat/instruction_bit.go", Old: "sb.WriteString(\".shr_u\")", New: "sb.WriteString(\".shr_s\")", Expect: "instShr"},
		{Name: "u16 treated as signed wat type", File: "internal/backends/compiler_wat/wir/value_type.go", Old: "case *U32, *U8, *U16, *Bool:\n\t\treturn wat.U32{}", New: "case *U32, *U8, *Bool:\n\t\treturn wat.U32{}\n\tcase *U16:\n\t\treturn wat.I32{}", Expect: "kind-signedness :: U16"},
		{Name: "u8 multiplication loses its mask", File: em, Old: "\t\t\tinsts = append(insts, wat.NewInstMul(toWatType(ret_type)))\n\t\t}\n\n\t\tif ret_type.Equal(m.U8) {\n\t\t\tinsts = append(insts, wat.NewInstConst(wat.I32{}, \"255\"))\n\t\t\tinsts = append(insts, wat.NewInstAnd(wat.I32{}))\n\t\t} else if", New: "\t\t\tinsts = append(insts, wat.NewInstMul(toWatType(ret_type)))\n\t\t}\n\n\t\tif false {\n\t\t} else if", Expect: "narrow-mask :: binop Mul U8"},
		{Name: "u16 mask constant wrong", File: em, Old: "\t\t\tinsts = append(insts, wat.NewInstSub(toWatType(ret_type)))\n\t\t}\n\n\t\tif ret_type.Equal(m.U8) {\n\t\t\tinsts = append(insts, wat.NewInstConst(wat.I32{}, \"255\"))\n\t\t\tinsts = append(insts, wat.NewInstAnd(wat.I32{}))\n\t\t} else if ret_type.Equal(m.U16) {\n\t\t\tinsts = append(insts, wat.NewInstConst(wat.I32{}, \"65535\"))", New: "\t\t\tinsts = append(insts, wat.NewInstSub(toWatType(ret_type)))\n\t\t}\n\n\t\tif ret_type.Equal(m.U8) {\n\t\t\tinsts = append(insts, wat.NewInstConst(wat.I32{}, \"255\"))\n\t\t\tinsts = append(insts, wat.NewInstAnd(wat.I32{}))\n\t\t} else if ret_type.Equal(m.U16) {\n\t\t\tinsts = append(insts, wat.NewInstConst(wat.I32{}, \"65536\"))", Expect: "narrow-mask :: binop Sub U16"},
		{Name: "token SHR lowered to Shl", File: "internal/backends/compiler_wat/compile_func.go", Old: "case token.SHR:\n\t\treturn g.module.EmitBinOp(x.value, y.value, wat.OpCodeShr)", New: "case token.SHR:\n\t\treturn g.module.EmitBinOp(x.value, y.value, wat.OpCodeShl)", Expect: "operator-lowering :: SHR"},
		{Name: "OpCodeGe emits gt", File: em, Old: "insts = append(insts, wat.NewInstGe(toWatType(x.Type())))", New: "insts = append(insts, wat.NewInstGt(toWatType(x.Type())))", Expect: "opcode-constructor :: Ge"},
		{Name: "mixed-width shift extends signed", File: em, Old: "\t\t\tinsts = append(insts, wat.NewInstConvert_i64_extend_i32_u())\n\t\t\tinsts = append(insts, wat.NewInstShr(toWatType(ret_type)))", New: "\t\t\tinsts = append(insts, wat.NewInstConvert_i32_wrap_i64())\n\t\t\tinsts = append(insts, wat.NewInstShr(toWatType(ret_type)))", Expect: "shift-count-adaptation :: Shr"},
		{Name: "u32 -> i64 sign-extends", File: em, Old: "\t\tcase xt.Equal(m.U8), xt.Equal(m.U16), xt.Equal(m.U32):\n\t\t\tinsts = append(insts, wat.NewInstConvert_i64_extend_i32_u())\n\n\t\tcase xt.Equal(m.I64), xt.Equal(m.U64):\n\t\t\tbreak\n\n\t\tcase xt.Equal(m.F32):\n\t\t\tinsts = append(insts, wat.NewInstConvert_i64_trunc_f32_s())", New: "\t\tcase xt.Equal(m.U8), xt.Equal(m.U16), xt.Equal(m.U32):\n\t\t\tinsts = append(insts, wat.NewInstConvert_i64_extend_i32_s())\n\n\t\tcase xt.Equal(m.I64), xt.Equal(m.U64):\n\t\t\tbreak\n\n\t\tcase xt.Equal(m.F32):\n\t\t\tinsts = append(insts, wat.NewInstConvert_i64_trunc_f32_s())", Expect: "conversion :: U32->I64"},
		{Name: "f64 -> f32 promotes", File: em, Old: "insts = append(insts, wat.NewInstConvert_f32_demote_f64())", New: "insts = append(insts, wat.NewInstConvert_f64_promote_f32())", Expect: "conversion :: F64->F32"},
		{Name: "i64 constant parsed with 32 bits", File: "internal/backends/compiler_wat/wir/value_basic.go", Old: "i, _ := strconv.ParseInt(v.Name(), 0, 64)", New: "i, _ := strconv.ParseInt(v.Name(), 0, 32)", Expect: "const-bytes :: I64"},
		{Name: "operands pushed in reverse for Sub", File: em, Old: "\tcase wat.OpCodeSub:\n\t\tret_type = x.Type()\n\t\tinsts = append(insts, x.EmitPushNoRetain()...)\n\t\tinsts = append(insts, y.EmitPushNoRetain()...)", New: "\tcase wat.OpCodeSub:\n\t\tret_type = x.Type()\n\t\tinsts = append(insts, y.EmitPushNoRetain()...)\n\t\tinsts = append(insts, x.EmitPushNoRetain()...)", Expect: "operand-order :: binop Sub"},
		{Name: "convert constructor prints another mnemonic", File: "internal/backends/compiler_wat/wir/wat/instruction_convert.go", Old: "sb.WriteString(\"f64.convert_i32_u\")", New: "sb.WriteString(\"f64.convert_i32_s\")", Expect: "constructor-mnemonic :: instConvert_f64_convert_i32_u"},
	}})
}

var reMnemonic = regexp.MustCompile(`^(i32|i64|f32|f64)\.([a-z0-9_]+)$`)

// watTypeInfo: properties of the wir/wat value types.
var watTypeInfo = map[string]struct {
	prefix string
	signed bool
	float  bool
}{"I32": {"i32", true, false}, "U32": {"i32", false, false}, "I64": {"i64", true, false}, "U64": {"i64", false, false}, "F32": {"f32", false, true}, "F64": {"f64", false, true}}

// kinds of the Wa basic value types as the back end names them (wir.*): width in bits, signedness, float.
type waKind struct {
	bits   int
	signed bool
	float  bool
}

var waKinds = map[string]waKind{
	"U8": {8, false, false}, "U16": {16, false, false}, "U32": {32, false, false}, "U64": {64, false, false},
	"I8": {8, true, false}, "I16": {16, true, false}, "I32": {32, true, false}, "I64": {64, true, false},
	"RUNE": {32, true, false}, "Rune": {32, true, false}, "F32": {32, true, true}, "F64": {64, true, true},
	"BOOL": {8, false, false}, "Bool": {8, false, false},
}

// wantConversion gives the wasm conversion instruction(s) Go semantics require for src -> dst (both basic numeric kinds).
// alt lists acceptable alternatives (for narrow unsigned destinations both truncations agree on every in-range value).
func wantConversion(src, dst waKind) (want string, alt []string) {
	w := func(k waKind) string {
		if k.bits == 64 {
			return "64"
		}
		return "32"
	}
	su := func(signed bool) string {
		if signed {
			return "_s"
		}
		return "_u"
	}
	switch {
	case src.float && dst.float:
		if src.bits == dst.bits {
			return "", nil
		}
		if dst.bits == 32 {
			return "f32.demote_f64", nil
		}
		return "f64.promote_f32", nil
	case src.float && !dst.float:
		base := "i" + w(dst) + ".trunc_f" + fmt.Sprint(src.bits)
		if dst.bits < 32 {
			return base + su(dst.signed), []string{base + "_s", base + "_u"}
		}
		return base + su(dst.signed), nil
	case !src.float && dst.float:
		return "f" + fmt.Sprint(dst.bits) + ".convert_i" + w(src) + su(src.signed), nil
	default:
		if w(src) == w(dst) {
			return "", nil
		}
		if w(dst) == "64" {
			return "i64.extend_i32" + su(src.signed), nil
		}
		return "i32.wrap_i64", nil
	}
}

// condKinds parses `a.Equal(m.K), b.Equal(m.J)` / `x.Equal(m.K) || x.Equal(m.J)` case expressions into kind names.
func condKinds(e ast.Expr, recv string) []string {
	var out []string
	ast.Inspect(e, func(n ast.Node) bool {
		call, ok := n.(*ast.CallExpr)
		if !ok {
			return true
		}
		se, ok := call.Fun.(*ast.SelectorExpr)
		if !ok || se.Sel.Name != "Equal" || len(call.Args) != 1 {
			return true
		}
		if !strings.HasPrefix(types.ExprString(se.X), recv) {
			return true
		}
		if a, ok := call.Args[0].(*ast.SelectorExpr); ok {
			out = append(out, a.Sel.Name)
		} else {
			out = append(out, types.ExprString(call.Args[0]))
		}
		return true
	})
	return out
}

// appendedConstructors lists, in order, the wat.NewInst* constructor calls appended to `insts` in the statements
// (top level only), with the printed arguments.
type ctorCall struct {
	Name string
	Args []string
	Node ast.Node
}

func appendedCtors(info *types.Info, stmts []ast.Stmt, target string, deep bool) []ctorCall {
	var out []ctorCall
	visit := func(s ast.Stmt) {
		as, ok := s.(*ast.AssignStmt)
		if !ok || len(as.Rhs) != 1 {
			return
		}
		call, ok := as.Rhs[0].(*ast.CallExpr)
		if !ok {
			return
		}
		if id, ok := call.Fun.(*ast.Ident); !ok || id.Name != "append" || len(call.Args) < 2 || types.ExprString(call.Args[0]) != target {
			return
		}
		for _, a := range call.Args[1:] {
			if c, ok := ast.Unparen(a).(*ast.CallExpr); ok {
				name := types.ExprString(c.Fun)
				var args []string
				for _, x := range c.Args {
					args = append(args, types.ExprString(x))
				}
				out = append(out, ctorCall{name, args, c})
			}
		}
	}
	for _, s := range stmts {
		if deep {
			ast.Inspect(s, func(n ast.Node) bool {
				if st, ok := n.(ast.Stmt); ok {
					visit(st)
				}
				return true
			})
		} else {
			visit(s)
		}
	}
	return out
}

func runC01(c *Ctx) {
	c.Explain = "Decides the operator/conversion lowering tables of the WebAssembly back end (not program behaviour): (1) every type-dispatching instruction formatter prints, for each wat value type, a specification mnemonic with that type's prefix and signedness, and every fixed constructor prints the mnemonic its name spells; " +
		"(2) Wa basic kinds map to wat types of the right signedness; (3) each Wa operator token is lowered to its own OpCode and each OpCode arm of EmitBinOp/EmitUnOp builds that operation's instruction on the operand type with operands in source order; " +
		"(4) results that can leave the range of u8/u16 (Add, Sub, Mul, Shl, unary -, unary ^) are masked with 255/65535 on every path; (5) mixed-width shifts adapt the count with wrap / unsigned extend; " +
		"(6) the (source kind, destination kind) conversion matrix of EmitGenConvert emits the conversion Go's semantics require (sign/zero extension by source signedness, truncation signedness by destination, narrow masks); " +
		"(7) constant materialisation parses each kind with its own signedness and bit size; (8) the generated append helper reuses the backing array exactly when new_len <= cap (unsigned), which is what Go's append aliasing depends on. " +
		"NOT decided: anything value-level; control flow, closures, the rest of slices, strings, maps, interfaces, defer; the runtime library."
	c.Trusted = []string{"go/packages, go/types (x/tools v0.29.0)", "embedded WebAssembly instruction table", "Go conversion/operator semantics table in c01.go"}
	p := c.Load(LoadOpt{Light: true}, "./internal/backends/compiler_wat/...", "./internal/ssa")
	c01NamedResults(c, p, p.Pkg("internal/ssa"))
	if sp := p.MustPkg("labelled-jump-targets", "internal/ssa"); sp != nil {
		c01LabelTargets(c, p, sp)
	}
	if std := LoadWaStd(c, "string-order-bytewise"); std != nil {
		c01StringOrder(c, std)
		c01RuneDecoder(c, std)
	}
	watPk := p.MustPkg("mnemonic-by-type", "internal/backends/compiler_wat/wir/wat")
	wir := p.MustPkg("opcode-constructor", "internal/backends/compiler_wat/wir")
	cw := p.MustPkg("operator-lowering", "internal/backends/compiler_wat")
	if watPk == nil || wir == nil || cw == nil {
		return
	}
	c01Helpers = map[*types.Func]*ast.FuncDecl{}
	for _, f := range wir.Syntax {
		for _, d := range f.Decls {
			if fd, ok := d.(*ast.FuncDecl); ok && fd.Body != nil {
				if fn, ok := wir.TypesInfo.Defs[fd.Name].(*types.Func); ok {
					c01Helpers[fn] = fd
				}
			}
		}
	}

	// ---- (1) formatters
	ctorMnemonic := map[string]map[string]string{} // constructor -> wat type ("" for fixed) -> mnemonic
	nFmt := 0
	fds := AllFuncDecls(watPk)
	var names []string
	for n := range fds {
		names = append(names, n)
	}
	sort.Strings(names)
	for _, name := range names {
		fd := fds[name]
		if !strings.HasSuffix(name, ".Format") || !strings.HasPrefix(name, "inst") || fd.Body == nil {
			continue
		}
		tname := name[:strings.Index(name, ".")]
		// type switch on i.typ.(type)?
		var ts *ast.TypeSwitchStmt
		for _, s := range fd.Body.List {
			if x, ok := s.(*ast.TypeSwitchStmt); ok {
				ts = x
			}
		}
		litIn := func(stmts []ast.Stmt) []string {
			var out []string
			for _, s := range stmts {
				ast.Inspect(s, func(n ast.Node) bool {
					if bl, ok := n.(*ast.BasicLit); ok {
						if tv, ok := watPk.TypesInfo.Types[bl]; ok && tv.Value != nil && tv.Value.Kind() == constant.String {
							v := constant.StringVal(tv.Value)
							if reMnemonic.MatchString(v) {
								out = append(out, v)
							}
						}
					}
					return true
				})
			}
			return out
		}
		if ts != nil {
			ops := map[string]bool{}
			rows := map[string]string{}
			for _, arm := range TypeSwitchArms(watPk.TypesInfo, ts) {
				ms := litIn(arm.Body)
				for _, t := range arm.Types {
					tn := namedTypeName(t)
					ti, ok := watTypeInfo[tn]
					if !ok {
						continue
					}
					// an arm shared by several types prints the type's own name followed by ".op"
					m := ""
					if len(ms) > 0 {
						m = ms[0]
					} else if suf := dotSuffixLiterals(watPk.TypesInfo, arm.Body); len(suf) == 1 && strings.Contains(nodeString(p, &ast.BlockStmt{List: arm.Body}), ".typ.Name()") {
						m = ti.prefix + suf[0]
					}
					if m == "" || !reMnemonic.MatchString(m) {
						continue
					}
					nFmt++
					mm := reMnemonic.FindStringSubmatch(m)
					prefixOK := mm[1] == ti.prefix
					suffix := ""
					if strings.HasSuffix(mm[2], "_s") {
						suffix = "s"
					} else if strings.HasSuffix(mm[2], "_u") {
						suffix = "u"
					}
					signOK := true
					if !ti.float && suffix != "" {
						signOK = (suffix == "s") == ti.signed
					}
					if ti.float && suffix != "" {
						signOK = false
					}
					op := strings.TrimSuffix(strings.TrimSuffix(mm[2], "_s"), "_u")
					ops[op] = true
					rows[tn] = m
					c.Check(prefixOK && signOK && wasmSpec[m] != nil, "mnemonic-by-type", tname+" "+tn, p.Pos(arm.Clause.Pos()), m,
						fmt.Sprintf("%s prints %q for operands of wat type %s: wrong type prefix, signedness, or not a WebAssembly mnemonic", tname, m, tn))
				}
			}
			if len(ops) > 1 {
				var l []string
				for o := range ops {
					l = append(l, o)
				}
				sort.Strings(l)
				c.Fail("mnemonic-by-type", tname+" operation", p.Pos(fd.Pos()), fmt.Sprintf("arms of %s.Format print different operations %v", tname, l))
			}
			ctorMnemonic["New"+strings.ToUpper(tname[:1])+tname[1:]] = rows
			continue
		}
		// typ.Name() + ".op" formatters and fixed constructors
		ms := litIn(fd.Body.List)
		if strings.HasPrefix(tname, "instConvert_") && len(ms) == 1 {
			nFmt++
			want := strings.Replace(strings.TrimPrefix(tname, "instConvert_"), "_", ".", 1)
			c.Check(ms[0] == want && wasmSpec[want] != nil, "constructor-mnemonic", tname, p.Pos(fd.Pos()), ms[0], fmt.Sprintf("%s prints %q; its name spells %q", tname, ms[0], want))
			ctorMnemonic["NewI"+tname[1:]] = map[string]string{"": ms[0]}
			continue
		}
		// suffix form: sb.WriteString(i.typ.Name()); sb.WriteString(".add")
		var sfx []string
		ast.Inspect(fd.Body, func(n ast.Node) bool {
			if bl, ok := n.(*ast.BasicLit); ok {
				if tv, ok := watPk.TypesInfo.Types[bl]; ok && tv.Value != nil && tv.Value.Kind() == constant.String {
					v := constant.StringVal(tv.Value)
					if strings.HasPrefix(v, ".") && len(v) > 1 {
						// ".load offset=" / ".const " : the operation is the leading identifier
						id := regexp.MustCompile(`^[a-z0-9_]+`).FindString(v[1:])
						if id != "" {
							sfx = append(sfx, id)
						}
					}
				}
			}
			return true
		})
		if len(sfx) == 1 {
			rows := map[string]string{}
			for tn, ti := range watTypeInfo {
				rows[tn] = ti.prefix + "." + sfx[0]
			}
			ctorMnemonic["New"+strings.ToUpper(tname[:1])+tname[1:]] = rows
			// the operation must be the one the type name spells, for the types it is used with
			want := strings.ToLower(strings.TrimPrefix(tname, "inst"))
			nFmt++
			okAny := wasmSpec["i32."+sfx[0]] != nil || wasmSpec["f64."+sfx[0]] != nil
			c.Check(sfx[0] == want && okAny, "constructor-mnemonic", tname, p.Pos(fd.Pos()), "<type>."+sfx[0], fmt.Sprintf("%s prints <type>.%s; its name spells %q", tname, sfx[0], want))
		}
	}
	c.Min("mnemonic-by-type", "formatter rows", nFmt, 60)

	// ---- (2) kind -> wat type
	if fd := p.MustFunc("kind-signedness", wir, "toWatType"); fd != nil {
		n := 0
		for _, s := range fd.Body.List {
			ts, ok := s.(*ast.TypeSwitchStmt)
			if !ok {
				continue
			}
			for _, arm := range TypeSwitchArms(wir.TypesInfo, ts) {
				ret := ""
				for _, st := range arm.Body {
					if r, ok := st.(*ast.ReturnStmt); ok && len(r.Results) == 1 {
						ret = strings.TrimSuffix(strings.TrimPrefix(types.ExprString(r.Results[0]), "wat."), "{}")
					}
				}
				for _, t := range arm.Types {
					tn := namedTypeName(t)
					k, ok := waKinds[tn]
					if !ok || ret == "" {
						continue
					}
					n++
					ti := watTypeInfo[ret]
					wantPrefix := "i32"
					if k.float {
						wantPrefix = fmt.Sprintf("f%d", k.bits)
					} else if k.bits == 64 {
						wantPrefix = "i64"
					}
					good := ti.prefix == wantPrefix && (k.float || tn == "Bool" || ti.signed == k.signed)
					c.Check(good, "kind-signedness", tn, p.Pos(arm.Clause.Pos()), tn+" -> wat."+ret, fmt.Sprintf("Wa kind %s (%d bits, signed=%v) is lowered to wat.%s: comparisons, division, remainder and right shifts of this kind use the wrong signedness or width", tn, k.bits, k.signed, ret))
				}
			}
		}
		c.Min("kind-signedness", "kinds", n, 10)
	}

	// ---- (3) token -> OpCode
	opName := map[string]string{"ADD": "Add", "SUB": "Sub", "MUL": "Mul", "QUO": "Quo", "REM": "Rem", "EQL": "Eql", "NEQ": "Ne", "LSS": "Lt", "GTR": "Gt", "LEQ": "Le", "GEQ": "Ge",
		"AND": "And", "OR": "Or", "XOR": "Xor", "SHL": "Shl", "SHR": "Shr", "AND_NOT": "AndNot", "SPACESHIP": "Comp", "NOT": "Not"}
	for _, fn := range []string{"genBinOp", "genUnOp"} {
		fd := p.MustFunc("operator-lowering", cw, "functionGenerator."+fn)
		if fd == nil {
			continue
		}
		n := 0
		for _, sw := range FindSwitches(fd, func(e ast.Expr) bool { return strings.HasSuffix(types.ExprString(e), ".Op") }) {
			for _, arm := range SwitchArms(cw.TypesInfo, sw) {
				for _, k := range arm.Consts {
					want, ok := opName[k.Name]
					if !ok {
						continue
					}
					got := ""
					for _, call := range callsIn(cw.TypesInfo, arm.Body) {
						if f := CalleeOf(cw.TypesInfo, call); f != nil && (f.Name() == "EmitBinOp" || f.Name() == "EmitUnOp") {
							got = strings.TrimPrefix(types.ExprString(call.Args[len(call.Args)-1]), "wat.OpCode")
							// operands in source order
							if f.Name() == "EmitBinOp" && len(call.Args) == 3 {
								c.Check(strings.HasPrefix(types.ExprString(call.Args[0]), "x") && strings.HasPrefix(types.ExprString(call.Args[1]), "y"), "operand-order", "lowering "+k.Name, p.Pos(call.Pos()), "EmitBinOp(x, y, ...)", "operands of "+k.Name+" are passed to EmitBinOp in reverse order")
							}
						}
					}
					if got == "" {
						continue // e.g. unary * is a load
					}
					n++
					c.Check(got == want, "operator-lowering", k.Name, p.Pos(arm.Clause.Pos()), "OpCode"+got, fmt.Sprintf("Wa operator token %s is lowered to wat.OpCode%s; it must be wat.OpCode%s", k.Name, got, want))
				}
			}
		}
		c.Min("operator-lowering", fn+" arms", n, map[string]int{"genBinOp": 18, "genUnOp": 3}[fn])
	}

	// ---- (3b,4,5) EmitBinOp / EmitUnOp arms
	ctorOf := map[string]string{"Add": "NewInstAdd", "Sub": "NewInstSub", "Mul": "NewInstMul", "Quo": "NewInstDiv", "Rem": "NewInstRem", "Lt": "NewInstLt", "Gt": "NewInstGt", "Le": "NewInstLe", "Ge": "NewInstGe",
		"And": "NewInstAnd", "Or": "NewInstOr", "Xor": "NewInstXor", "Shl": "NewInstShl", "Shr": "NewInstShr"}
	needMask := map[string]bool{"Add": true, "Sub": true, "Mul": true, "Shl": true}
	if fd := p.MustFunc("opcode-constructor", wir, "Module.EmitBinOp"); fd != nil {
		n := 0
		for _, sw := range FindSwitches(fd, func(e ast.Expr) bool { return types.ExprString(e) == "op" }) {
			for _, arm := range SwitchArms(wir.TypesInfo, sw) {
				for _, k := range arm.Consts {
					op := strings.TrimPrefix(k.Name, "OpCode")
					loc := p.Pos(arm.Clause.Pos())
					if want, ok := ctorOf[op]; ok {
						n++
						ctors := appendedCtors(wir.TypesInfo, arm.Body, "insts", true)
						found, wrongArg := false, ""
						for _, cc := range ctors {
							if cc.Name == "wat."+want {
								found = true
								if len(cc.Args) == 1 && cc.Args[0] != "toWatType(ret_type)" && cc.Args[0] != "toWatType(x.Type())" {
									wrongArg = cc.Args[0]
								}
							}
						}
						// no sibling operation constructor
						other := ""
						for _, cc := range ctors {
							for o, cn := range ctorOf {
								if cc.Name == "wat."+cn && cn != want && !(op == "Comp") {
									// And is used for masks (with wat.I32{}): allowed when its argument is the literal type
									if (cn == "NewInstAnd") && len(cc.Args) == 1 && cc.Args[0] == "wat.I32{}" {
										continue
									}
									other = o
								}
							}
						}
						c.Check(found && wrongArg == "" && other == "", "opcode-constructor", op, loc, "wat."+want+"(operand type)",
							fmt.Sprintf("EmitBinOp arm for OpCode%s: constructor %s found=%v, typed by %q, foreign operation %q", op, want, found, wrongArg, other))
						// operand order: first x push then y push
						order := pushOrder(arm.Body)
						c.Check(order == "xy", "operand-order", "binop "+op, loc, "x pushed before y", "EmitBinOp arm for OpCode"+op+" pushes its operands in the order "+order+": non-commutative operations compute y op x")
					}
					if needMask[op] {
						for kind, cst := range map[string]string{"U8": "255", "U16": "65535"} {
							c.Check(maskedOnAllPaths(wir.TypesInfo, arm.Body, kind, cst), "narrow-mask", "binop "+op+" "+kind, loc, "masked with "+cst,
								fmt.Sprintf("result of %s on %s is not masked with %s on every path: values wrap at 32 bits instead of %s bits", op, kind, cst, strings.TrimPrefix(kind, "U")))
						}
					}
					if op == "Quo" {
						// Go defines x / -1 for the most negative x (the quotient is x, by two's-complement overflow);
						// wasm's div_s traps on it. The arm must therefore treat the divisor -1 itself: a comparison or a
						// select/if has to be emitted besides the division.
						guarded := false
						for _, cc := range appendedCtors(wir.TypesInfo, arm.Body, "insts", true) {
							switch cc.Name {
							case "wat.NewInstEq", "wat.NewInstNe", "wat.NewInstSelect", "wat.NewInstIf":
								guarded = true
							}
						}
						c.Check(guarded, "signed-quotient-overflow", op, loc, "the divisor -1 is handled explicitly",
							"the Quo arm emits the wasm division with the raw operands: for signed integers div_s traps (integer overflow) on the most negative value divided by -1, where Go defines the quotient to be the dividend")
					}
					if op == "Shl" || op == "Shr" {
						adaptProblem := shiftAdaptProblem(wir, arm.Body, ctorOf[op])
						c.Check(adaptProblem == "", "shift-count-adaptation", op, loc, "count wrapped for 32-bit value/64-bit count, zero-extended for 64-bit value/32-bit count (16 width combinations evaluated)",
							"shift arm does not bring the count to the width of the shifted value in every operand-width combination: "+adaptProblem)
						// Go defines shifts by counts >= the operand width (0, or the sign for signed >>); the wasm shift
						// instructions use the count modulo the width. The arm must therefore bound the count itself:
						// some comparison of the count (Lt/Le/Ge/Gt), a select, or a min/clamp helper has to be emitted.
						bounded := false
						for _, cc := range appendedCtors(wir.TypesInfo, arm.Body, "insts", true) {
							switch cc.Name {
							case "wat.NewInstLt", "wat.NewInstLe", "wat.NewInstGe", "wat.NewInstGt", "wat.NewInstSelect", "wat.NewInstIf":
								bounded = true
							}
						}
						c.Check(bounded, "shift-count-range", op, loc, "counts >= the operand width are handled explicitly",
							"the "+op+" arm emits the wasm shift with the raw count: wasm uses the count modulo the operand width, Go shifts by the full count (x << 32 is 0 for a 32-bit x, Wa computes x << 0)")
					}
				}
			}
		}
		c.Min("opcode-constructor", "EmitBinOp arithmetic arms", n, 14)
	}
	if fd := p.MustFunc("opcode-constructor", wir, "Module.EmitUnOp"); fd != nil {
		for _, sw := range FindSwitches(fd, func(e ast.Expr) bool { return types.ExprString(e) == "op" }) {
			for _, arm := range SwitchArms(wir.TypesInfo, sw) {
				for _, k := range arm.Consts {
					op := strings.TrimPrefix(k.Name, "OpCode")
					loc := p.Pos(arm.Clause.Pos())
					ctors := appendedCtors(wir.TypesInfo, arm.Body, "insts", true)
					hasC := func(n string) bool {
						for _, cc := range ctors {
							if cc.Name == "wat."+n {
								return true
							}
						}
						return false
					}
					switch op {
					case "Sub":
						c.Check(hasC("NewInstSub") && hasC("NewInstNeg"), "opcode-constructor", "unary Sub", loc, "0 - x / neg", "unary minus arm lacks NewInstSub (integers) or NewInstNeg (floats)")
					case "Xor":
						c.Check(hasC("NewInstXor"), "opcode-constructor", "unary Xor", loc, "-1 xor x", "unary ^ arm lacks NewInstXor")
					case "Not":
						c.Check(hasC("NewInstEqz"), "opcode-constructor", "unary Not", loc, "eqz", "unary ! arm lacks NewInstEqz")
					}
					if op == "Sub" || op == "Xor" {
						for kind, cst := range map[string]string{"U8": "255", "U16": "65535"} {
							// for Sub the mask sits in the integer branch
							c.Check(maskedSomewhere(wir.TypesInfo, arm.Body, kind, cst), "narrow-mask", "unop "+op+" "+kind, loc, "masked with "+cst,
								fmt.Sprintf("result of unary %s on %s is not masked with %s", op, kind, cst))
						}
					}
				}
			}
		}
	}

	// ---- (6) conversion matrix
	c01Conversions(c, p, wir)

	// ---- (8) append reuses the backing array iff new_len <= cap
	if s, fd := seqOf(p, wir, "Slice.genAppendFunc"); fd == nil {
		c.Undecided("append-in-place-threshold", "Slice.genAppendFunc", "", "function not found")
	} else {
		// the comparison that feeds the first `if`: push new_len; push x.c; Le(U32)
		verdict, detail := false, "the comparison of new_len with the capacity was not found"
		for i := 2; i < len(s.Events); i++ {
			e := s.Events[i]
			if e.Kind != "ctor" || !(e.Name == "Le" || e.Name == "Lt" || e.Name == "Ge" || e.Name == "Gt") {
				continue
			}
			a, b := s.Events[i-2], s.Events[i-1]
			if a.Kind != "deleg" || b.Kind != "deleg" || a.Name != "EmitPush" || b.Name != "EmitPush" {
				continue
			}
			isLen := strings.HasPrefix(a.Recv, "NewLocal(\"new_len\"")
			isCap := strings.Contains(b.Recv, "ExtractByName(\"c\")")
			if !isLen || !isCap {
				continue
			}
			unsigned := len(e.Args) == 1 && strings.Contains(e.Args[0], "U32")
			verdict = e.Name == "Le" && unsigned
			detail = fmt.Sprintf("the helper compares new_len %s cap on %v", map[string]string{"Le": "<=", "Lt": "<", "Ge": ">=", "Gt": ">"}[e.Name], e.Args)
			break
		}
		c.Check(verdict, "append-in-place-threshold", "Slice.genAppendFunc: new_len <= cap (u32)", p.Pos(fd.Pos()), "reuse iff new_len <= cap", detail+"; Go's append writes into the existing backing array exactly when the new length does not exceed the capacity (unsigned comparison): with another test an append that exactly fills the capacity reallocates, and slices sharing the array stop seeing each other's writes")
	}

	// ---- (8b) append in place copies in the right direction when source and destination overlap (added after
	// probing: `q = append(q[:2], q[1:]...)`, the insert-by-shift idiom, gave 1 99 2 2 2 2 — the in-place branch always
	// copied from the first element up, overwriting elements it had not read yet). The generated loop advances both
	// pointers by a local step, and before the loop a test `dest > src` (unsigned) exists under which that step is
	// set to 0 - item_size.
	if s, fd := seqOf(p, wir, "Slice.genAppendFunc"); fd != nil {
		const arule = "append-overlap-direction"
		isLocal := func(recv, name string) bool { return strings.HasPrefix(recv, "NewLocal(\""+name+"\"") }
		test, negStep := false, false
		stepName := ""
		var constSteps []string
		ev := s.Events
		for i := 2; i < len(ev); i++ {
			e := ev[i]
			if e.Kind == "ctor" && e.Name == "Gt" && ev[i-2].Kind == "deleg" && ev[i-1].Kind == "deleg" && isLocal(ev[i-2].Recv, "dest") && isLocal(ev[i-1].Recv, "src") && len(e.Args) == 1 && strings.Contains(e.Args[0], "U32") {
				// … and it decides an `if` (within the next few instructions: the test may be combined with y_len != 0)
				for j := i + 1; j < len(ev) && j <= i+5; j++ {
					if ev[j].Kind == "ctor" && ev[j].Name == "If" && len(ev[j].Args) >= 1 && ev[j].Args[0] != "nil" {
						test = true
					}
				}
			}
			// ptr += X : EmitPush(ptr) EmitPush(X) Add EmitPop(ptr), for ptr in {src, dest}, X a single push
			if e.Kind == "ctor" && e.Name == "Add" && i+1 < len(ev) && ev[i-2].Kind == "deleg" && ev[i-1].Kind == "deleg" && ev[i+1].Kind == "deleg" && ev[i+1].Name == "EmitPop" {
				for _, ptr := range []string{"src", "dest"} {
					if isLocal(ev[i-2].Recv, ptr) && isLocal(ev[i+1].Recv, ptr) && ev[i-2].Name == "EmitPush" && ev[i-1].Name == "EmitPush" {
						x := ev[i-1].Recv
						if strings.HasPrefix(x, "NewLocal(") {
							stepName = x
						} else if strings.HasPrefix(x, "NewConst(") && !strings.HasPrefix(x, "NewConst(\"1\"") {
							// only inside the in-place loop (first loop of the function) — the reallocating branch copies
							// into a fresh array, where the direction does not matter
							if len(ev[i].Guards) > 0 && !strings.HasPrefix(ev[i].Guards[len(ev[i].Guards)-1], "!") {
								constSteps = append(constSteps, ptr+" += "+x)
							}
						}
					}
				}
			}
			// step = 0 - item_size : EmitPush(NewConst("0")) EmitPush(item_size) Sub EmitPop(step)
			if e.Kind == "ctor" && e.Name == "Sub" && i+1 < len(ev) && ev[i-2].Kind == "deleg" && strings.HasPrefix(ev[i-2].Recv, "NewConst(\"0\"") && ev[i+1].Kind == "deleg" && ev[i+1].Name == "EmitPop" && strings.HasPrefix(ev[i+1].Recv, "NewLocal(") {
				negStep = true
			}
		}
		good := test && negStep && stepName != ""
		detail := fmt.Sprintf("direction test dest >u src: %v; step negated under it: %v; pointers advanced by a local: %v", test, negStep, stepName != "")
		c.Check(good, arule, "Slice.genAppendFunc: in-place copy", p.Pos(fd.Pos()), "from the last element down when dest > src", detail+": the in-place branch of append copies from the first element up whatever the positions of the two ranges; when the appended slice shares the backing array and starts before the end of the target (`append(s[:i+1], s[i:]...)`) elements are overwritten before they are read")
	}

	// ---- (7) constant bytes
	if fd := p.MustFunc("const-bytes", wir, "aBasic.Bin"); fd != nil {
		n := 0
		for _, s := range fd.Body.List {
			ts, ok := s.(*ast.TypeSwitchStmt)
			if !ok {
				continue
			}
			for _, arm := range TypeSwitchArms(wir.TypesInfo, ts) {
				// make([]byte, N), ParseX(..., bits)
				size, bits, fn := int64(-1), int64(-1), ""
				parseCalls := map[string]int64{}
				type parseCall struct {
					fn   string
					bits int64
				}
				var parseSeq []parseCall
				for _, call := range callsIn(wir.TypesInfo, arm.Body) {
					name := types.ExprString(call.Fun)
					if name == "make" && len(call.Args) == 2 {
						if tv, ok := wir.TypesInfo.Types[call.Args[1]]; ok && tv.Value != nil {
							size, _ = constant.Int64Val(tv.Value)
						}
					}
					if strings.HasPrefix(name, "strconv.Parse") && len(call.Args) >= 2 {
						fn = strings.TrimPrefix(name, "strconv.")
						if tv, ok := wir.TypesInfo.Types[call.Args[len(call.Args)-1]]; ok && tv.Value != nil {
							bits, _ = constant.Int64Val(tv.Value)
						}
						parseSeq = append(parseSeq, parseCall{fn, bits})
					}
				}
				// the first parser of the arm is the primary one; a later one is a fallback for another spelling
				extraOK := true
				if len(parseSeq) > 0 {
					fn, bits = parseSeq[0].fn, parseSeq[0].bits
					for _, pc := range parseSeq[1:] {
						if pc.bits != bits || !(fn == "ParseUint" && pc.fn == "ParseInt" && bits == 64) {
							extraOK = false
						}
					}
				}
				_ = parseCalls
				// the bytes are laid out little-endian: b[k] = byte((v >> 8k) & 0xFF) for every k below the size
				if size > 0 {
					probs := littleEndianPacking(wir.TypesInfo, arm.Body, size)
					var tns []string
					for _, t := range arm.Types {
						tns = append(tns, namedTypeName(t))
					}
					c.Check(len(probs) == 0, "const-bytes", strings.Join(tns, ",")+": byte layout", p.Pos(arm.Clause.Pos()), fmt.Sprintf("b[k] = byte(v >> 8k) for k < %d", size),
						"the static-data bytes of a constant of kind "+strings.Join(tns, ",")+" are not its little-endian representation: "+strings.Join(probs, "; ")+" — every global or composite literal of that kind is initialised to another value")
				}
				for _, t := range arm.Types {
					tn := namedTypeName(t)
					k, ok := waKinds[tn]
					if !ok || fn == "" {
						continue
					}
					n++
					wantFn := "ParseInt"
					if !k.signed {
						wantFn = "ParseUint"
					}
					if k.float {
						wantFn = "ParseFloat"
					}
					wantBits := int64(k.bits)
					good := fn == wantFn && bits == wantBits && size*8 == wantBits && extraOK
					c.Check(good, "const-bytes", tn, p.Pos(arm.Clause.Pos()), fmt.Sprintf("%s(..., %d) into %d bytes", fn, bits, size),
						fmt.Sprintf("constant of kind %s is materialised with strconv.%s(..., %d) into %d bytes; the kind needs %s with bit size %d (the parse error is dropped, so an out-of-range or negative literal silently becomes the clamp value or 0)", tn, fn, bits, size, wantFn, wantBits))
				}
			}
		}
		c.Min("const-bytes", "kinds", n, 10)
	}
}

// pushOrder returns "xy", "yx" or "?" from the first x.EmitPush*/y.EmitPush* appends at top level (or in the first branch).
func pushOrder(stmts []ast.Stmt) string {
	var seq []string
	var walk func(list []ast.Stmt) bool
	walk = func(list []ast.Stmt) bool {
		for _, s := range list {
			switch x := s.(type) {
			case *ast.AssignStmt:
				str := types.ExprString(x.Rhs[0])
				if strings.Contains(str, "x.EmitPush") {
					seq = append(seq, "x")
				} else if strings.Contains(str, "y.EmitPush") {
					seq = append(seq, "y")
				} else if strings.Contains(str, "x.emitEq(y)") {
					seq = append(seq, "x", "y")
				}
			case *ast.IfStmt:
				if len(seq) < 2 {
					walk(x.Body.List)
				}
			}
			if len(seq) >= 2 {
				return true
			}
		}
		return false
	}
	walk(stmts)
	if len(seq) < 2 {
		return "?"
	}
	return seq[0] + seq[1]
}

// maskedOnAllPaths: the arm contains, at its top level, `if ret_type.Equal(m.<kind>) { ...NewInstConst(I32, cst); NewInstAnd(I32) }`
// (possibly as an else-if), after the operation.
func maskedOnAllPaths(info *types.Info, stmts []ast.Stmt, kind, cst string) bool {
	return maskedOnAllPathsVar(info, stmts, kind, cst, "ret_type", "insts", 0)
}

// c01Helpers maps the functions of the package under analysis to their declarations, so that a mask emitted by a
// helper (`insts = append(insts, m.helper(ret_type)...)`) is found in the helper's body.
var c01Helpers map[*types.Func]*ast.FuncDecl

func maskedOnAllPathsVar(info *types.Info, stmts []ast.Stmt, kind, cst, typeVar, target string, depth int) bool {
	for _, s := range stmts {
		// delegation to a helper that receives the result type
		if as, isAs := s.(*ast.AssignStmt); isAs && depth < 2 && len(as.Rhs) == 1 {
			if app, isCall := as.Rhs[0].(*ast.CallExpr); isCall && types.ExprString(app.Fun) == "append" && len(app.Args) == 2 && app.Ellipsis.IsValid() {
				if hc, isHC := ast.Unparen(app.Args[1]).(*ast.CallExpr); isHC {
					if fd := c01Helpers[CalleeOf(info, hc)]; fd != nil && fd.Body != nil {
						// which parameter carries the type, which variable collects the instructions
						var params []string
						for _, f := range fd.Type.Params.List {
							for _, nm := range f.Names {
								params = append(params, nm.Name)
							}
						}
						tv := ""
						for i, a := range hc.Args {
							if types.ExprString(a) == typeVar && i < len(params) {
								tv = params[i]
							}
						}
						tgt := "insts"
						if fd.Type.Results != nil && len(fd.Type.Results.List) > 0 && len(fd.Type.Results.List[0].Names) > 0 {
							tgt = fd.Type.Results.List[0].Names[0].Name
						}
						if tv != "" && maskedOnAllPathsVar(info, fd.Body.List, kind, cst, tv, tgt, depth+1) {
							return true
						}
					}
				}
			}
		}
		ifs, ok := s.(*ast.IfStmt)
		for ok && ifs != nil {
			ks := condKinds(ifs.Cond, typeVar)
			if len(ks) == 1 && ks[0] == kind {
				ctors := appendedCtors(info, ifs.Body.List, target, false)
				if len(ctors) == 2 && ctors[0].Name == "wat.NewInstConst" && len(ctors[0].Args) == 2 && ctors[0].Args[1] == `"`+cst+`"` && ctors[1].Name == "wat.NewInstAnd" {
					return true
				}
				return false
			}
			next, isIf := ifs.Else.(*ast.IfStmt)
			if !isIf {
				break
			}
			ifs = next
		}
	}
	return false
}

func maskedSomewhere(info *types.Info, stmts []ast.Stmt, kind, cst string) bool {
	if maskedOnAllPaths(info, stmts, kind, cst) {
		return true
	}
	found := false
	for _, s := range stmts {
		ast.Inspect(s, func(n ast.Node) bool {
			if b, ok := n.(*ast.BlockStmt); ok && maskedOnAllPaths(info, b.List, kind, cst) {
				found = true
			}
			return true
		})
	}
	return found
}

// shiftAdaptOK checks the four-way operand width dispatch of a shift arm.
func shiftAdaptOK(info *types.Info, stmts []ast.Stmt, shiftCtor string) bool {
	for _, s := range stmts {
		ifs, ok := s.(*ast.IfStmt)
		if !ok || !strings.Contains(types.ExprString(ifs.Cond), "Size()") {
			continue
		}
		okWrap, okExt, okSame := false, false, false
		for ifs != nil {
			cond := strings.ReplaceAll(types.ExprString(ifs.Cond), " ", "")
			ctors := appendedCtors(info, ifs.Body.List, "insts", false)
			var names []string
			for _, cc := range ctors {
				names = append(names, strings.TrimPrefix(cc.Name, "wat."))
			}
			seq := strings.Join(names, ",")
			switch {
			case cond == "x.Type().Size()<=4&&y.Type().Size()==8":
				okWrap = strings.HasSuffix(seq, "NewInstConvert_i32_wrap_i64,"+shiftCtor)
			case cond == "x.Type().Size()==8&&y.Type().Size()<=4":
				okExt = strings.HasSuffix(seq, "NewInstConvert_i64_extend_i32_u,"+shiftCtor)
			case strings.Contains(cond, "x.Type().Size()<=4&&y.Type().Size()<=4") && strings.Contains(cond, "x.Type().Size()==8&&y.Type().Size()==8"):
				okSame = strings.HasSuffix(seq, shiftCtor) && !strings.Contains(seq, "Convert")
			}
			next, isIf := ifs.Else.(*ast.IfStmt)
			if !isIf {
				break
			}
			ifs = next
		}
		return okWrap && okExt && okSame
	}
	return false
}

func c01Conversions(c *Ctx, p *Prog, wir *packages.Package) {
	const rule = "conversion"
	fd := p.MustFunc(rule, wir, "Module.EmitGenConvert")
	if fd == nil {
		return
	}
	// arms are read with the package's emitter helpers expanded (inline.go): a source-type switch shared by several
	// destination arms through `insts = append(insts, m.emitToI32Signed(xt)...)` is the same table written once
	fd = &ast.FuncDecl{Recv: fd.Recv, Name: fd.Name, Type: fd.Type, Body: InlinedBody(wir, fd)}
	info := wir.TypesInfo
	var outer *ast.SwitchStmt
	for _, s := range fd.Body.List {
		if sw, ok := s.(*ast.SwitchStmt); ok && sw.Tag == nil {
			outer = sw
		}
	}
	if outer == nil {
		c.Undecided(rule, "EmitGenConvert: outer switch", p.Pos(fd.Pos()), "tagless switch on the destination type not found")
		return
	}
	numeric := func(k string) bool { _, ok := waKinds[k]; return ok && k != "BOOL" }
	n := 0
	covered := map[string]bool{}
	for _, cl := range outer.Body.List {
		cc := cl.(*ast.CaseClause)
		var dsts []string
		for _, e := range cc.List {
			dsts = append(dsts, condKinds(e, "typ")...)
		}
		allNum := len(dsts) > 0
		for _, d := range dsts {
			if !numeric(d) {
				allNum = false
			}
		}
		if !allNum {
			continue
		}
		// inner switch
		var inner *ast.SwitchStmt
		for _, s := range cc.Body {
			if sw, ok := s.(*ast.SwitchStmt); ok && sw.Tag == nil {
				inner = sw
			}
		}
		if inner == nil {
			c.Undecided(rule, "->"+strings.Join(dsts, ","), p.Pos(cc.Pos()), "inner switch on the source type not found")
			continue
		}
		// trailing mask after the inner switch
		trail := appendedCtors(info, cc.Body, "insts", false)
		mask := ""
		for i, t := range trail {
			if t.Name == "wat.NewInstConst" && len(t.Args) == 2 && i+1 < len(trail) && trail[i+1].Name == "wat.NewInstAnd" {
				mask = strings.Trim(t.Args[1], `"`)
			}
		}
		for _, icl := range inner.Body.List {
			icc := icl.(*ast.CaseClause)
			var srcs []string
			for _, e := range icc.List {
				srcs = append(srcs, condKinds(e, "xt")...)
			}
			ctors := appendedCtors(info, icc.Body, "insts", false)
			var got []string
			for _, ct := range ctors {
				if strings.HasPrefix(ct.Name, "wat.NewInstConvert_") {
					got = append(got, strings.Replace(strings.TrimPrefix(ct.Name, "wat.NewInstConvert_"), "_", ".", 1))
				}
			}
			for _, d := range dsts {
				for _, s := range srcs {
					if !numeric(s) {
						continue
					}
					n++
					key := strings.ToUpper(s) + "->" + strings.ToUpper(d)
					covered[key] = true
					want, alt := wantConversion(waKinds[s], waKinds[d])
					g := strings.Join(got, "+")
					good := g == want
					for _, a := range alt {
						if g == a {
							good = true
						}
					}
					c.Check(good, rule, key, p.Pos(icc.Pos()), "emits "+orNone(g), fmt.Sprintf("conversion %s emits %s; Go semantics require %s", key, orNone(g), orNone(want)))
					// narrow destination mask
					if dk := waKinds[d]; !dk.float && !dk.signed && dk.bits < 32 {
						wantMask := map[int]string{8: "255", 16: "65535"}[dk.bits]
						c.Check(mask == wantMask, "narrow-mask", "convert "+key, p.Pos(cc.Pos()), "masked with "+mask, fmt.Sprintf("conversion to %s is masked with %q, want %s", d, mask, wantMask))
					}
				}
			}
		}
	}
	c.Min(rule, "(source, destination) pairs", n, 70)
	// completeness over the kinds the back end supports (signed 8/16-bit kinds are marked Todo in the source)
	kinds := []string{"U8", "U16", "I32", "U32", "RUNE", "I64", "U64", "F32", "F64"}
	for _, s := range kinds {
		for _, d := range kinds {
			if s == d {
				continue
			}
			key := s + "->" + d
			if covered[key] {
				continue
			}
			// identical wat representation needs no arm only if the outer arm exists and falls out of the inner switch with nothing: that is the "missing" case
			want, _ := wantConversion(waKinds[s], waKinds[d])
			c.Check(false, rule, key, p.Pos(fd.Pos()), "", fmt.Sprintf("conversion %s has no arm in EmitGenConvert: the value is pushed unconverted (Go semantics require %s)", key, orNone(want)))
		}
	}
}

func orNone(s string) string {
	if s == "" {
		return "no instruction"
	}
	return s
}
