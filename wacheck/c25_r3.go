package main

import (
	"go/ast"
	"go/token"
	"go/types"
	"strings"

	"golang.org/x/tools/go/packages"
)

// C25 rule returned-payload-fresh: a packet returned by a ReadPacket method is a view of the buffer it was assembled
// in (`buf.Bytes()`). That buffer must belong to the call — declared in the method — and not to the reader: a buffer
// that lives in a field of the receiver (or is a pointer to one) is reset and refilled by the next call, which
// rewrites every payload the caller still holds from earlier packets.

func c25ReturnedPayloadFresh(c *Ctx, p *Prog, pk *packages.Package) {
	const rule = "returned-payload-fresh"
	info := pk.TypesInfo
	n := 0
	for _, f := range pk.Syntax {
		for _, d := range f.Decls {
			fd, ok := d.(*ast.FuncDecl)
			if !ok || fd.Body == nil || fd.Recv == nil || len(fd.Recv.List) != 1 || len(fd.Recv.List[0].Names) != 1 || !strings.HasPrefix(fd.Name.Name, "ReadPacket") {
				continue
			}
			recv := info.ObjectOf(fd.Recv.List[0].Names[0])
			// locals: definition expressions
			defs := map[types.Object]ast.Expr{}
			ast.Inspect(fd.Body, func(nd ast.Node) bool {
				if as, ok := nd.(*ast.AssignStmt); ok && as.Tok == token.DEFINE && len(as.Lhs) == len(as.Rhs) {
					for i, l := range as.Lhs {
						if o := identObj(info, l); o != nil {
							defs[o] = as.Rhs[i]
						}
					}
				}
				return true
			})
			// is e (the receiver of .Bytes()) owned by the receiver object?
			var fieldOfRecv func(e ast.Expr, depth int) bool
			fieldOfRecv = func(e ast.Expr, depth int) bool {
				e = ast.Unparen(e)
				if depth > 4 {
					return false
				}
				switch x := e.(type) {
				case *ast.UnaryExpr:
					if x.Op == token.AND {
						return fieldOfRecv(x.X, depth+1)
					}
				case *ast.SelectorExpr:
					if identObj(info, x.X) == recv {
						// a field of the receiver that is itself a buffer (not another reader we delegate to)
						t := info.TypeOf(x)
						if pt, ok := t.(*types.Pointer); ok {
							t = pt.Elem()
						}
						if nt, ok := t.(*types.Named); ok && nt.Obj().Name() == "Buffer" {
							return true
						}
					}
					return fieldOfRecv(x.X, depth+1)
				case *ast.Ident:
					if o := info.ObjectOf(x); o != nil {
						if d, ok := defs[o]; ok {
							return fieldOfRecv(d, depth+1)
						}
					}
				}
				return false
			}
			views := 0
			bad := ""
			ast.Inspect(fd.Body, func(nd ast.Node) bool {
				call, ok := nd.(*ast.CallExpr)
				if !ok {
					return true
				}
				se, ok := call.Fun.(*ast.SelectorExpr)
				if !ok || se.Sel.Name != "Bytes" || len(call.Args) != 0 {
					return true
				}
				views++
				if fieldOfRecv(se.X, 0) {
					bad = p.Pos(call.Pos())
				}
				return true
			})
			if views == 0 {
				continue
			}
			n++
			c.Check(bad == "", rule, recvTypeName(fd.Recv.List[0].Type)+"."+fd.Name.Name, p.Pos(fd.Pos()), "packets are views of a buffer declared in the call",
				recvTypeName(fd.Recv.List[0].Type)+"."+fd.Name.Name+" returns a view of a buffer that is a field of the reader ("+bad+"): the next ReadPacket resets and refills that buffer, so payloads returned earlier change under the caller")
		}
	}
	c.Min(rule, "ReadPacket methods returning buffer views", n, 2)
}
