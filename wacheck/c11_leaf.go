package main

import (
	"go/ast"
	"go/constant"
	"go/types"
	"strings"

	"golang.org/x/tools/go/packages"
)

// leafWorlds evaluates a leaf emitter of aBlock (EmitPush, EmitRelease) for the four combinations of the two facts it
// branches on — is the value a constant, is its name "0" — with emiteval.go. The nil block is the constant 0; only
// for it may reference counting be skipped. How the emitter writes the test (early return, inverted condition around
// the tail, a helper) does not matter: what is emitted in each world does.
//
// The result maps a world name to the emitted tokens; und is the reason the evaluation did not decide (or "").
func leafWorlds(wp *packages.Package, fd *ast.FuncDecl) (worlds map[string][]string, und string) {
	info := wp.TypesInfo
	worlds = map[string][]string{}
	if fd == nil || fd.Body == nil || fd.Recv == nil || len(fd.Recv.List) != 1 || len(fd.Recv.List[0].Names) != 1 {
		return nil, "not a method with a named receiver"
	}
	recv := fd.Recv.List[0].Names[0].Name
	if fd.Type.Results == nil || len(fd.Type.Results.List) != 1 {
		return nil, "no instruction-list result"
	}
	var res types.Object
	if len(fd.Type.Results.List[0].Names) == 1 {
		res = info.Defs[fd.Type.Results.List[0].Names[0]]
	}
	// the value of ValueKindConst, and one other kind
	var kConst int64 = -1
	if o := wp.Types.Scope().Lookup("ValueKindConst"); o != nil {
		if k, ok := o.(*types.Const); ok {
			kConst, _ = constant.Int64Val(k.Val())
		}
	}
	if kConst < 0 {
		return nil, "ValueKindConst not found"
	}
	for _, w := range []struct {
		name    string
		isConst bool
		nm      string
	}{{"const 0", true, "0"}, {"const 1", true, "1"}, {"variable named 0", false, "0"}, {"variable", false, "$x"}} {
		ev := newEmitEval(wp)
		w := w
		ev.Hook = func(e ast.Expr) (evVal, bool) {
			call, ok := ast.Unparen(e).(*ast.CallExpr)
			if !ok || len(call.Args) != 0 {
				return evVal{}, false
			}
			se, ok := call.Fun.(*ast.SelectorExpr)
			if !ok {
				return evVal{}, false
			}
			if id, ok := se.X.(*ast.Ident); !ok || id.Name != recv {
				return evVal{}, false
			}
			switch se.Sel.Name {
			case "Kind":
				if w.isConst {
					return evVal{K: evInt, I: kConst}, true
				}
				return evVal{K: evInt, I: kConst + 1000}, true
			case "Name":
				return evVal{K: evStr, S: w.nm}, true
			}
			return evVal{}, false
		}
		env := evEnv{}
		if res != nil {
			env[res] = evVal{K: evNil}
		}
		rets, _ := ev.run(fd.Body.List, env)
		if ev.Und != "" {
			return nil, w.name + ": " + ev.Und
		}
		var out evVal
		switch {
		case len(rets) == 1:
			out = rets[0]
		case res != nil:
			out = env[res]
		}
		if out.K != evList && out.K != evNil {
			return nil, w.name + ": the result is not a list of instructions the evaluator could follow"
		}
		worlds[w.name] = out.L
	}
	return worlds, ""
}

// leafTokens abstracts the tokens of a leaf emitter: push (the value itself), retain, release, other.
func leafTokens(seq []string) string {
	var out []string
	for _, t := range seq {
		switch {
		case strings.Contains(t, "runtime.Block.Retain"):
			out = append(out, "Retain")
		case strings.Contains(t, "runtime.Block.Release"):
			out = append(out, "Release")
		case strings.HasPrefix(t, "push("):
			out = append(out, "push")
		case strings.HasPrefix(t, "pop("):
			out = append(out, "pop")
		default:
			out = append(out, t)
		}
	}
	return strings.Join(out, " ")
}
