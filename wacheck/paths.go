package main

import (
	"fmt"
	"go/constant"
	"go/token"
	"go/types"

	"golang.org/x/tools/go/ssa"
)

// E7: path rules on SSA control-flow graphs.

func isErrorType(t types.Type) bool {
	n, ok := t.(*types.Named)
	return ok && n.Obj().Pkg() == nil && n.Obj().Name() == "error"
}

func isNilConst(v ssa.Value) bool {
	c, ok := v.(*ssa.Const)
	return ok && c.Value == nil
}

// calleeName returns "pkgpath.Name" / "pkgpath.T.M" of a static callee, "" otherwise.
func calleeName(c *ssa.CallCommon) string {
	if f := c.StaticCallee(); f != nil {
		if f.Object() != nil {
			if fn, ok := f.Object().(*types.Func); ok {
				return FuncFullName(fn)
			}
		}
		return f.String()
	}
	if c.IsInvoke() && c.Method != nil {
		return "invoke." + c.Method.Name()
	}
	return ""
}

func callOf(ins ssa.Instruction) *ssa.CallCommon {
	switch c := ins.(type) {
	case *ssa.Call:
		return &c.Call
	case *ssa.Defer:
		return &c.Call
	case *ssa.Go:
		return &c.Call
	}
	return nil
}

// noReturn says whether the call never returns (os.Exit, log.Fatal*, panic builtin handled separately).
func noReturnCall(c *ssa.CallCommon) bool {
	switch calleeName(c) {
	case "os.Exit", "log.Fatal", "log.Fatalf", "log.Fatalln", "runtime.Goexit":
		return true
	}
	return false
}

// ErrTest describes an `if err != nil` / `if err == nil` test.
type ErrTest struct {
	If      *ssa.If
	Err     ssa.Value
	NonNil  *ssa.BasicBlock // successor taken when the error is non-nil
	Nil     *ssa.BasicBlock
	Ignored bool // both successors coincide (empty body)
}

func errTests(fn *ssa.Function) []ErrTest {
	var out []ErrTest
	for _, b := range fn.Blocks {
		if len(b.Instrs) == 0 {
			continue
		}
		ifi, ok := b.Instrs[len(b.Instrs)-1].(*ssa.If)
		if !ok {
			continue
		}
		bo, ok := ifi.Cond.(*ssa.BinOp)
		if !ok || (bo.Op != token.NEQ && bo.Op != token.EQL) {
			continue
		}
		var ev ssa.Value
		if isNilConst(bo.Y) && isErrorType(bo.X.Type()) {
			ev = bo.X
		} else if isNilConst(bo.X) && isErrorType(bo.Y.Type()) {
			ev = bo.Y
		} else {
			continue
		}
		t := ErrTest{If: ifi, Err: ev}
		if bo.Op == token.NEQ {
			t.NonNil, t.Nil = b.Succs[0], b.Succs[1]
		} else {
			t.NonNil, t.Nil = b.Succs[1], b.Succs[0]
		}
		t.Ignored = t.NonNil == t.Nil
		out = append(out, t)
	}
	return out
}

// Outcome of one path.
type Outcome struct {
	Kind  string    // "exit", "return", "panic", "fallthrough-limit"
	Val   ssa.Value // exit argument or returned error
	Instr ssa.Instruction
	Trace []*ssa.BasicBlock
	Stores map[ssa.Value]ssa.Value // last store per address along the path
	Calls []*ssa.CallCommon       // calls made along the path (in order)
}

// walkPaths enumerates acyclic paths from block start (instruction index 0) and reports their outcomes.
// Paths are cut at os.Exit-like calls and at panics. A block is visited at most once per path.
func walkPaths(start *ssa.BasicBlock, limit int) []Outcome {
	var out []Outcome
	type frame struct{}
	var rec func(b *ssa.BasicBlock, seen map[*ssa.BasicBlock]bool, trace []*ssa.BasicBlock, stores map[ssa.Value]ssa.Value, calls []*ssa.CallCommon)
	rec = func(b *ssa.BasicBlock, seen map[*ssa.BasicBlock]bool, trace []*ssa.BasicBlock, stores map[ssa.Value]ssa.Value, calls []*ssa.CallCommon) {
		if len(out) >= limit {
			return
		}
		if seen[b] {
			return // loop back-edge: the loop exit is explored through the other successor
		}
		seen[b] = true
		defer delete(seen, b)
		trace = append(trace, b)
		st := stores
		copied := false
		for _, ins := range b.Instrs {
			switch x := ins.(type) {
			case *ssa.Store:
				if !copied {
					n := map[ssa.Value]ssa.Value{}
					for k, v := range st {
						n[k] = v
					}
					st, copied = n, true
				}
				st[x.Addr] = x.Val
			case *ssa.Call:
				calls = append(calls[:len(calls):len(calls)], &x.Call)
				if noReturnCall(&x.Call) {
					var v ssa.Value
					if len(x.Call.Args) > 0 {
						v = x.Call.Args[0]
					}
					out = append(out, Outcome{Kind: "exit", Val: v, Instr: ins, Trace: append([]*ssa.BasicBlock(nil), trace...), Stores: st, Calls: calls})
					return
				}
			case *ssa.Panic:
				out = append(out, Outcome{Kind: "panic", Val: x.X, Instr: ins, Trace: append([]*ssa.BasicBlock(nil), trace...), Stores: st, Calls: calls})
				return
			case *ssa.Return:
				var v ssa.Value
				for _, r := range x.Results {
					if isErrorType(r.Type()) {
						v = r
					}
				}
				out = append(out, Outcome{Kind: "return", Val: v, Instr: ins, Trace: append([]*ssa.BasicBlock(nil), trace...), Stores: st, Calls: calls})
				return
			}
		}
		for _, s := range b.Succs {
			rec(s, seen, trace, st, calls)
		}
	}
	rec(start, map[*ssa.BasicBlock]bool{}, nil, map[ssa.Value]ssa.Value{}, nil)
	return out
}

// resolveThroughStores follows a load of a local named-result slot back to the last value stored on the path.
func resolveThroughStores(v ssa.Value, stores map[ssa.Value]ssa.Value) ssa.Value {
	for i := 0; i < 4; i++ {
		u, ok := v.(*ssa.UnOp)
		if !ok || u.Op != token.MUL {
			return v
		}
		if s, ok := stores[u.X]; ok {
			v = s
			continue
		}
		return v
	}
	return v
}

func constInt(v ssa.Value) (int64, bool) {
	c, ok := v.(*ssa.Const)
	if !ok || c.Value == nil || c.Value.Kind() != constant.Int {
		return 0, false
	}
	i, ok := constant.Int64Val(c.Value)
	return i, ok
}

func blockPos(p *Prog, b *ssa.BasicBlock) string {
	for _, ins := range b.Instrs {
		if ins.Pos().IsValid() {
			return p.Pos(ins.Pos())
		}
	}
	return ""
}

func instrPos(p *Prog, ins ssa.Instruction, fallback *ssa.BasicBlock) string {
	if ins != nil && ins.Pos().IsValid() {
		return p.Pos(ins.Pos())
	}
	if fallback != nil {
		return blockPos(p, fallback)
	}
	return ""
}

// describeErrSource names the call that produced an error value.
func describeErrSource(v ssa.Value) string {
	switch x := v.(type) {
	case *ssa.Extract:
		if c, ok := x.Tuple.(*ssa.Call); ok {
			n := calleeName(&c.Call)
			if n == "" {
				n = "dynamic call"
			}
			return short(n)
		}
	case *ssa.Call:
		n := calleeName(&x.Call)
		if n == "" {
			n = "dynamic call"
		}
		return short(n)
	case *ssa.UnOp:
		if x.Op == token.MUL {
			return "load(" + x.X.Name() + ")"
		}
	case *ssa.Phi:
		return "phi"
	}
	return fmt.Sprintf("%T", v)
}
