package main

import (
	"fmt"
	"go/ast"
	"go/token"
	"go/types"
	"strings"
)

// C06 root marking, lookup form (added after a seeded change rewrote the root section of DoPass): besides the
// "for every function, is it named by a root?" form (rootMarked), roots may be marked by looking each root up in the
// function table. In that form the loops are universal over the roots: every root field must be looked up and the
// result marked, and no jump may leave a root loop early after a mark — a `break`, a labelled `continue` to an outer
// root loop or a `return` skips the roots that have not been visited yet.

// rootLookedUp reports whether DoPass marks p.funcs[<root>] reachable, and lists jumps that skip later roots.
func rootLookedUp(info *types.Info, p *Prog, dp *ast.FuncDecl, root string) (found bool, problems []string) {
	recvT, field := root[:strings.Index(root, ".")], root[strings.Index(root, ".")+1:]
	// path of enclosing nodes for every node
	parent := map[ast.Node]ast.Node{}
	var stack []ast.Node
	ast.Inspect(dp.Body, func(n ast.Node) bool {
		if n == nil {
			stack = stack[:len(stack)-1]
			return true
		}
		if len(stack) > 0 {
			parent[n] = stack[len(stack)-1]
		}
		stack = append(stack, n)
		return true
	})
	rangeVarField := map[types.Object]*ast.RangeStmt{}
	ast.Inspect(dp.Body, func(n ast.Node) bool {
		if rs, ok := n.(*ast.RangeStmt); ok {
			if se, ok := rs.X.(*ast.SelectorExpr); ok && se.Sel.Name == field {
				if sel, ok := info.Selections[se]; ok && namedTypeName(sel.Recv()) == recvT {
					if id, ok := rs.Value.(*ast.Ident); ok && info.Defs[id] != nil {
						rangeVarField[info.Defs[id]] = rs
					}
				}
			}
		}
		return true
	})
	isRoot := func(e ast.Expr) bool {
		switch x := ast.Unparen(e).(type) {
		case *ast.SelectorExpr:
			if x.Sel.Name == field {
				if sel, ok := info.Selections[x]; ok && namedTypeName(sel.Recv()) == recvT {
					return true
				}
			}
		case *ast.Ident:
			if o := info.Uses[x]; o != nil && rangeVarField[o] != nil {
				return true
			}
		}
		return false
	}
	isLookup := func(e ast.Expr) bool {
		ix, ok := ast.Unparen(e).(*ast.IndexExpr)
		return ok && strings.HasSuffix(types.ExprString(ix.X), ".funcs") && isRoot(ix.Index)
	}
	// variables holding a lookup
	holds := map[types.Object]bool{}
	ast.Inspect(dp.Body, func(n ast.Node) bool {
		if as, ok := n.(*ast.AssignStmt); ok && len(as.Rhs) == 1 && isLookup(as.Rhs[0]) {
			if id, ok := as.Lhs[0].(*ast.Ident); ok {
				if o := info.Defs[id]; o != nil {
					holds[o] = true
				}
			}
		}
		return true
	})
	ast.Inspect(dp.Body, func(n ast.Node) bool {
		call, ok := n.(*ast.CallExpr)
		if !ok || len(call.Args) != 1 {
			return true
		}
		if f := CalleeOf(info, call); f == nil || f.Name() != "markFuncReachable" {
			return true
		}
		arg := ast.Unparen(call.Args[0])
		marked := isLookup(arg)
		if id, ok := arg.(*ast.Ident); ok && holds[info.Uses[id]] {
			marked = true
		}
		if !marked {
			return true
		}
		found = true
		// enclosing loops, innermost first
		var loops []ast.Node
		var markStmt ast.Node = call
		for x := parent[call]; x != nil; x = parent[x] {
			switch x.(type) {
			case *ast.RangeStmt, *ast.ForStmt:
				loops = append(loops, x)
			}
		}
		if len(loops) == 0 {
			return true
		}
		// the statement list the mark sits in, up to the innermost loop body: jumps in the same lists after it
		labelOf := func(loop ast.Node) string {
			if ls, ok := parent[loop].(*ast.LabeledStmt); ok {
				return ls.Label.Name
			}
			return ""
		}
		for x := markStmt; x != nil && x != loops[0]; x = parent[x] {
			blk, ok := parent[x].(*ast.BlockStmt)
			if !ok {
				continue
			}
			after := false
			for _, s := range blk.List {
				if s == x {
					after = true
					continue
				}
				if !after {
					continue
				}
				switch j := s.(type) {
				case *ast.ReturnStmt:
					problems = append(problems, fmt.Sprintf("%s: return after marking a root of %s: the remaining roots are never looked at", p.Pos(j.Pos()), root))
				case *ast.BranchStmt:
					switch {
					case j.Tok == token.BREAK && j.Label == nil:
						problems = append(problems, fmt.Sprintf("%s: break after marking a root of %s leaves the loop over the roots: the remaining ones are never looked at", p.Pos(j.Pos()), root))
					case (j.Tok == token.CONTINUE || j.Tok == token.BREAK) && j.Label != nil && j.Label.Name != labelOf(loops[0]):
						problems = append(problems, fmt.Sprintf("%s: `%s %s` after marking a root of %s jumps out of the inner loop over the roots: the remaining roots of that group (e.g. the other entries of the same element segment) are never looked at and the functions they name are stripped although the table still refers to them", p.Pos(j.Pos()), j.Tok, j.Label.Name, root))
					case j.Tok == token.BREAK && j.Label != nil:
						problems = append(problems, fmt.Sprintf("%s: `break %s` after marking a root of %s: the remaining roots are never looked at", p.Pos(j.Pos()), j.Label.Name, root))
					}
				}
			}
		}
		return true
	})
	return found, problems
}

// funcLoopLeftEarly: in the comparison form the outer loop is universal over the module's functions. A jump that
// leaves that loop after a mark (return, break out of it) leaves the later functions undecided, i.e. white.
func funcLoopLeftEarly(info *types.Info, p *Prog, dp *ast.FuncDecl) (n int, problems []string) {
	parent := map[ast.Node]ast.Node{}
	var stack []ast.Node
	ast.Inspect(dp.Body, func(nd ast.Node) bool {
		if nd == nil {
			stack = stack[:len(stack)-1]
			return true
		}
		if len(stack) > 0 {
			parent[nd] = stack[len(stack)-1]
		}
		stack = append(stack, nd)
		return true
	})
	ast.Inspect(dp.Body, func(nd ast.Node) bool {
		call, ok := nd.(*ast.CallExpr)
		if !ok {
			return true
		}
		if f := CalleeOf(info, call); f == nil || f.Name() != "markFuncReachable" {
			return true
		}
		var funcsLoop ast.Node
		for x := parent[call]; x != nil && funcsLoop == nil; x = parent[x] {
			if l, ok := x.(*ast.RangeStmt); ok && strings.HasSuffix(types.ExprString(l.X), ".Funcs") {
				funcsLoop = x
			}
		}
		if funcsLoop == nil {
			return true
		}
		n++
		label := ""
		if ls, ok := parent[funcsLoop].(*ast.LabeledStmt); ok {
			label = ls.Label.Name
		}
		for x := ast.Node(call); x != nil && x != funcsLoop; x = parent[x] {
			blk, ok := parent[x].(*ast.BlockStmt)
			if !ok {
				continue
			}
			after := false
			for _, s := range blk.List {
				if s == x {
					after = true
					continue
				}
				if !after {
					continue
				}
				switch j := s.(type) {
				case *ast.ReturnStmt:
					problems = append(problems, fmt.Sprintf("%s: return after marking one function: the functions after it in the module are never tested against the roots", p.Pos(j.Pos())))
				case *ast.BranchStmt:
					binds := ast.Node(nil) // what an unlabelled break leaves
					for y := ast.Node(blk); y != nil && binds == nil; y = parent[y] {
						switch y.(type) {
						case *ast.RangeStmt, *ast.ForStmt, *ast.SwitchStmt, *ast.TypeSwitchStmt, *ast.SelectStmt:
							binds = y
						}
					}
					if j.Tok == token.BREAK && ((j.Label != nil && j.Label.Name == label) || (j.Label == nil && binds == funcsLoop)) {
						problems = append(problems, fmt.Sprintf("%s: break out of the loop over the module's functions after marking one: the functions after it are never tested against the roots and are stripped even when exported, started or in a table", p.Pos(j.Pos())))
					}
				}
			}
		}
		return true
	})
	return n, problems
}
