package main

import (
	"fmt"
	"go/ast"
	"go/token"
	"go/types"
	"sort"
	"strings"

	"golang.org/x/tools/go/packages"
)

// C06 root marking, lookup form (added after a seeded change rewrote the root section of DoPass): besides the
// "for every function, is it named by a root?" form (rootMarked), roots may be marked by looking each root up in the
// function table. In that form the loops are universal over the roots: every root field must be looked up and the
// result marked, and no jump may leave a root loop early after a mark — a `break`, a labelled `continue` to an outer
// root loop or a `return` skips the roots that have not been visited yet.

// rootLookedUp reports whether DoPass marks p.funcs[<root>] reachable, and lists jumps that skip later roots.
func rootLookedUp(info *types.Info, p *Prog, dp *ast.FuncDecl, root string) (found bool, problems []string) {
	recvT, field := root[:strings.Index(root, ".")], root[strings.Index(root, ".")+1:]
	// path of enclosing nodes for every node
	parent := map[ast.Node]ast.Node{}
	var stack []ast.Node
	ast.Inspect(dp.Body, func(n ast.Node) bool {
		if n == nil {
			stack = stack[:len(stack)-1]
			return true
		}
		if len(stack) > 0 {
			parent[n] = stack[len(stack)-1]
		}
		stack = append(stack, n)
		return true
	})
	rangeVarField := map[types.Object]*ast.RangeStmt{}
	ast.Inspect(dp.Body, func(n ast.Node) bool {
		if rs, ok := n.(*ast.RangeStmt); ok {
			if se, ok := rs.X.(*ast.SelectorExpr); ok && se.Sel.Name == field {
				if sel, ok := info.Selections[se]; ok && namedTypeName(sel.Recv()) == recvT {
					if id, ok := rs.Value.(*ast.Ident); ok && info.Defs[id] != nil {
						rangeVarField[info.Defs[id]] = rs
					}
				}
			}
		}
		return true
	})
	isRoot := func(e ast.Expr) bool {
		switch x := ast.Unparen(e).(type) {
		case *ast.SelectorExpr:
			if x.Sel.Name == field {
				if sel, ok := info.Selections[x]; ok && namedTypeName(sel.Recv()) == recvT {
					return true
				}
			}
		case *ast.Ident:
			if o := info.Uses[x]; o != nil && rangeVarField[o] != nil {
				return true
			}
		}
		return false
	}
	isLookup := func(e ast.Expr) bool {
		ix, ok := ast.Unparen(e).(*ast.IndexExpr)
		return ok && strings.HasSuffix(types.ExprString(ix.X), ".funcs") && isRoot(ix.Index)
	}
	// variables holding a lookup
	holds := map[types.Object]bool{}
	ast.Inspect(dp.Body, func(n ast.Node) bool {
		if as, ok := n.(*ast.AssignStmt); ok && len(as.Rhs) == 1 && isLookup(as.Rhs[0]) {
			if id, ok := as.Lhs[0].(*ast.Ident); ok {
				if o := info.Defs[id]; o != nil {
					holds[o] = true
				}
			}
		}
		return true
	})
	ast.Inspect(dp.Body, func(n ast.Node) bool {
		call, ok := n.(*ast.CallExpr)
		if !ok || len(call.Args) != 1 {
			return true
		}
		if f := CalleeOf(info, call); f == nil || f.Name() != "markFuncReachable" {
			return true
		}
		arg := ast.Unparen(call.Args[0])
		marked := isLookup(arg)
		if id, ok := arg.(*ast.Ident); ok && holds[info.Uses[id]] {
			marked = true
		}
		if !marked {
			return true
		}
		found = true
		// enclosing loops, innermost first
		var loops []ast.Node
		var markStmt ast.Node = call
		for x := parent[call]; x != nil; x = parent[x] {
			switch x.(type) {
			case *ast.RangeStmt, *ast.ForStmt:
				loops = append(loops, x)
			}
		}
		if len(loops) == 0 {
			return true
		}
		// the statement list the mark sits in, up to the innermost loop body: jumps in the same lists after it
		labelOf := func(loop ast.Node) string {
			if ls, ok := parent[loop].(*ast.LabeledStmt); ok {
				return ls.Label.Name
			}
			return ""
		}
		for x := markStmt; x != nil && x != loops[0]; x = parent[x] {
			blk, ok := parent[x].(*ast.BlockStmt)
			if !ok {
				continue
			}
			after := false
			for _, s := range blk.List {
				if s == x {
					after = true
					continue
				}
				if !after {
					continue
				}
				switch j := s.(type) {
				case *ast.ReturnStmt:
					problems = append(problems, fmt.Sprintf("%s: return after marking a root of %s: the remaining roots are never looked at", p.Pos(j.Pos()), root))
				case *ast.BranchStmt:
					switch {
					case j.Tok == token.BREAK && j.Label == nil:
						problems = append(problems, fmt.Sprintf("%s: break after marking a root of %s leaves the loop over the roots: the remaining ones are never looked at", p.Pos(j.Pos()), root))
					case (j.Tok == token.CONTINUE || j.Tok == token.BREAK) && j.Label != nil && j.Label.Name != labelOf(loops[0]):
						problems = append(problems, fmt.Sprintf("%s: `%s %s` after marking a root of %s jumps out of the inner loop over the roots: the remaining roots of that group (e.g. the other entries of the same element segment) are never looked at and the functions they name are stripped although the table still refers to them", p.Pos(j.Pos()), j.Tok, j.Label.Name, root))
					case j.Tok == token.BREAK && j.Label != nil:
						problems = append(problems, fmt.Sprintf("%s: `break %s` after marking a root of %s: the remaining roots are never looked at", p.Pos(j.Pos()), j.Label.Name, root))
					}
				}
			}
		}
		return true
	})
	return found, problems
}

// funcLoopLeftEarly: in the comparison form the outer loop is universal over the module's functions. A jump that
// leaves that loop after a mark (return, break out of it) leaves the later functions undecided, i.e. white.
func funcLoopLeftEarly(info *types.Info, p *Prog, dp *ast.FuncDecl) (n int, problems []string) {
	parent := map[ast.Node]ast.Node{}
	var stack []ast.Node
	ast.Inspect(dp.Body, func(nd ast.Node) bool {
		if nd == nil {
			stack = stack[:len(stack)-1]
			return true
		}
		if len(stack) > 0 {
			parent[nd] = stack[len(stack)-1]
		}
		stack = append(stack, nd)
		return true
	})
	ast.Inspect(dp.Body, func(nd ast.Node) bool {
		call, ok := nd.(*ast.CallExpr)
		if !ok {
			return true
		}
		if f := CalleeOf(info, call); f == nil || f.Name() != "markFuncReachable" {
			return true
		}
		var funcsLoop ast.Node
		for x := parent[call]; x != nil && funcsLoop == nil; x = parent[x] {
			if l, ok := x.(*ast.RangeStmt); ok {
				if strings.HasSuffix(types.ExprString(l.X), ".Funcs") {
					funcsLoop = x
				}
				// … or the loop over the collected names of all functions (imports and definitions)
				if v, ok := l.Value.(*ast.Ident); ok {
					if _, isNames := c06NameVars(info, dp)[info.ObjectOf(v)]; isNames {
						funcsLoop = x
					}
				}
			}
		}
		if funcsLoop == nil {
			return true
		}
		n++
		label := ""
		if ls, ok := parent[funcsLoop].(*ast.LabeledStmt); ok {
			label = ls.Label.Name
		}
		for x := ast.Node(call); x != nil && x != funcsLoop; x = parent[x] {
			blk, ok := parent[x].(*ast.BlockStmt)
			if !ok {
				continue
			}
			after := false
			for _, s := range blk.List {
				if s == x {
					after = true
					continue
				}
				if !after {
					continue
				}
				switch j := s.(type) {
				case *ast.ReturnStmt:
					problems = append(problems, fmt.Sprintf("%s: return after marking one function: the functions after it in the module are never tested against the roots", p.Pos(j.Pos())))
				case *ast.BranchStmt:
					binds := ast.Node(nil) // what an unlabelled break leaves
					for y := ast.Node(blk); y != nil && binds == nil; y = parent[y] {
						switch y.(type) {
						case *ast.RangeStmt, *ast.ForStmt, *ast.SwitchStmt, *ast.TypeSwitchStmt, *ast.SelectStmt:
							binds = y
						}
					}
					if j.Tok == token.BREAK && ((j.Label != nil && j.Label.Name == label) || (j.Label == nil && binds == funcsLoop)) {
						problems = append(problems, fmt.Sprintf("%s: break out of the loop over the module's functions after marking one: the functions after it are never tested against the roots and are stripped even when exported, started or in a table", p.Pos(j.Pos())))
					}
				}
			}
		}
		return true
	})
	return n, problems
}

// c06MarkNames finds the reachability mark by what the pass does with it: the field assigned a constant at the top of
// the marking function is the mark field and that constant means "reachable"; the constant DoPass assigns to the same
// field before marking starts means "not reached yet". Renaming the field or the constants does not move the rules.
func c06MarkNames(info *types.Info, dp, mark *ast.FuncDecl) (field, marked, unmarked string) {
	field, marked, unmarked = "color", "black", "white"
	if mark == nil || mark.Body == nil {
		return
	}
	for _, s := range mark.Body.List {
		as, ok := s.(*ast.AssignStmt)
		if !ok || len(as.Lhs) != 1 || len(as.Rhs) != 1 {
			continue
		}
		se, ok := as.Lhs[0].(*ast.SelectorExpr)
		if !ok {
			continue
		}
		if k := constOfExpr(info, as.Rhs[0]); k.Name != "" {
			field, marked = se.Sel.Name, k.Name
			break
		}
	}
	if dp != nil && dp.Body != nil {
		ast.Inspect(dp.Body, func(n ast.Node) bool {
			as, ok := n.(*ast.AssignStmt)
			if !ok || len(as.Lhs) != 1 || len(as.Rhs) != 1 {
				return true
			}
			if se, ok := as.Lhs[0].(*ast.SelectorExpr); ok && se.Sel.Name == field {
				if k := constOfExpr(info, as.Rhs[0]); k.Name != "" && k.Name != marked {
					unmarked = k.Name
				}
			}
			return true
		})
	}
	return
}

// rootViaPredicate: the third form of root marking — `if p.isRoot(fn) { p.markFuncReachable(p.funcs[fn.Name]) }` with
// a predicate of the package that answers true under the comparison of the function's name with the root field.
func rootViaPredicate(info *types.Info, pk *packages.Package, dp *ast.FuncDecl, root string) bool {
	recvT, field := root[:strings.Index(root, ".")], root[strings.Index(root, ".")+1:]
	preds := map[*types.Func]bool{}
	for _, f := range pk.Syntax {
		for _, d := range f.Decls {
			fd, ok := d.(*ast.FuncDecl)
			if !ok || fd.Body == nil || fd.Type.Results == nil || len(fd.Type.Results.List) != 1 {
				continue
			}
			if t := info.TypeOf(fd.Type.Results.List[0].Type); t == nil || !types.Identical(t, types.Typ[types.Bool]) {
				continue
			}
			rangeVars := map[types.Object]bool{}
			ast.Inspect(fd.Body, func(n ast.Node) bool {
				if rs, ok := n.(*ast.RangeStmt); ok {
					if se, ok := rs.X.(*ast.SelectorExpr); ok && se.Sel.Name == field {
						if sel, ok := info.Selections[se]; ok && namedTypeName(sel.Recv()) == recvT {
							if id, ok := rs.Value.(*ast.Ident); ok && info.Defs[id] != nil {
								rangeVars[info.Defs[id]] = true
							}
						}
					}
				}
				return true
			})
			isRoot := func(e ast.Expr) bool {
				switch x := ast.Unparen(e).(type) {
				case *ast.SelectorExpr:
					if x.Sel.Name == field {
						if sel, ok := info.Selections[x]; ok && namedTypeName(sel.Recv()) == recvT {
							return true
						}
					}
				case *ast.Ident:
					return rangeVars[info.Uses[x]]
				}
				return false
			}
			isFuncName := func(e ast.Expr) bool {
				se, ok := ast.Unparen(e).(*ast.SelectorExpr)
				if !ok || se.Sel.Name != "Name" {
					return false
				}
				sel, ok := info.Selections[se]
				return ok && namedTypeName(sel.Recv()) == "Func"
			}
			ast.Inspect(fd.Body, func(n ast.Node) bool {
				ifs, ok := n.(*ast.IfStmt)
				if !ok {
					return true
				}
				mentions := false
				ast.Inspect(ifs.Cond, func(m ast.Node) bool {
					if be, ok := m.(*ast.BinaryExpr); ok && be.Op == token.EQL {
						if (isFuncName(be.X) && isRoot(be.Y)) || (isFuncName(be.Y) && isRoot(be.X)) {
							mentions = true
						}
					}
					return true
				})
				if !mentions {
					return true
				}
				for _, s := range ifs.Body.List {
					if r, ok := s.(*ast.ReturnStmt); ok && len(r.Results) == 1 {
						if id, ok := r.Results[0].(*ast.Ident); ok && id.Name == "true" {
							if fo, ok := info.Defs[fd.Name].(*types.Func); ok {
								preds[fo] = true
							}
						}
					}
				}
				return true
			})
		}
	}
	if len(preds) == 0 {
		return false
	}
	found := false
	ast.Inspect(dp.Body, func(n ast.Node) bool {
		ifs, ok := n.(*ast.IfStmt)
		if !ok {
			return true
		}
		call, ok := ast.Unparen(ifs.Cond).(*ast.CallExpr)
		if !ok || !preds[CalleeOf(info, call)] {
			return true
		}
		for _, c2 := range callsIn(info, ifs.Body.List) {
			if f := CalleeOf(info, c2); f != nil && f.Name() == "markFuncReachable" {
				found = true
			}
		}
		return true
	})
	return found
}

// names of the reachability mark, resolved by c06MarkNames on every run
var markField, markedName, unmarkedName = "color", "black", "white"

func declOfFunc(pk *packages.Package, fn *types.Func) *ast.FuncDecl {
	for _, f := range pk.Syntax {
		for _, d := range f.Decls {
			if fd, ok := d.(*ast.FuncDecl); ok && pk.TypesInfo.Defs[fd.Name] == fn {
				return fd
			}
		}
	}
	return nil
}

// markTestOf classifies a condition as a test of the reachability mark: +1 "is marked reachable", -1 "is not marked",
// 0 not a test of the mark. The mark may be an enumeration compared with its constants or a boolean tested directly.
func markTestOf(info *types.Info, e ast.Expr) int {
	e = ast.Unparen(e)
	switch x := e.(type) {
	case *ast.UnaryExpr:
		if x.Op == token.NOT {
			return -markTestOf(info, x.X)
		}
	case *ast.SelectorExpr:
		if x.Sel.Name == markField {
			if t := info.TypeOf(x); t != nil {
				if b, ok := t.Underlying().(*types.Basic); ok && b.Info()&types.IsBoolean != 0 {
					if markedName == "true" {
						return +1
					}
					if markedName == "false" {
						return -1
					}
				}
			}
		}
	case *ast.BinaryExpr:
		if x.Op != token.EQL && x.Op != token.NEQ {
			return 0
		}
		sel, k := x.X, x.Y
		if se, ok := ast.Unparen(sel).(*ast.SelectorExpr); !ok || se.Sel.Name != markField {
			sel, k = x.Y, x.X
		}
		se, ok := ast.Unparen(sel).(*ast.SelectorExpr)
		if !ok || se.Sel.Name != markField {
			return 0
		}
		v := 0
		switch constOfExpr(info, k).Name {
		case markedName:
			v = +1
		case unmarkedName:
			v = -1
		}
		if x.Op == token.NEQ {
			v = -v
		}
		return v
	}
	return 0
}

// rootMentionFn returns a predicate "this expression compares the function's name with the root field" (directly or
// through a range variable over the field), as rootMarked reads it.
func rootMentionFn(info *types.Info, dp *ast.FuncDecl, root string) func(ast.Node) bool {
	recvT, field := root[:strings.Index(root, ".")], root[strings.Index(root, ".")+1:]
	rangeVars := map[types.Object]bool{}
	ast.Inspect(dp.Body, func(n ast.Node) bool {
		if rs, ok := n.(*ast.RangeStmt); ok {
			if se, ok := rs.X.(*ast.SelectorExpr); ok && se.Sel.Name == field {
				if id, ok := rs.Value.(*ast.Ident); ok && info.ObjectOf(id) != nil {
					rangeVars[info.ObjectOf(id)] = true
				}
			}
		}
		return true
	})
	return func(e ast.Node) bool {
		mentions := false
		if e == nil {
			return false
		}
		ast.Inspect(e, func(m ast.Node) bool {
			be, ok := m.(*ast.BinaryExpr)
			if !ok || be.Op != token.EQL {
				return true
			}
			for _, pair := range [][2]ast.Expr{{be.X, be.Y}, {be.Y, be.X}} {
				if !isFuncNameExpr(info, pair[0], c06NameVars(info, dp)) {
					continue
				}
				switch o := ast.Unparen(pair[1]).(type) {
				case *ast.SelectorExpr:
					if o.Sel.Name == field {
						if sel, ok := info.Selections[o]; ok && namedTypeName(sel.Recv()) == recvT {
							mentions = true
						}
					}
				case *ast.Ident:
					if rangeVars[info.ObjectOf(o)] {
						mentions = true
					}
				}
			}
			return true
		})
		return mentions
	}
}

// rootViaFlag: the fourth form of root marking — a boolean local collects "this function is a root"
// (`isRoot := fn.Name == p.m.Start`, `if fn.Name == v { isRoot = true }`) and one `if isRoot { mark }` follows. The
// flag is only ever set (to true, to a comparison, or to itself || …) after its definition: a later `isRoot = false`
// would forget a root and the form is then not recognised.
func rootViaFlag(info *types.Info, dp *ast.FuncDecl, root string) bool {
	mention := rootMentionFn(info, dp, root)
	isBool := func(e ast.Expr) bool {
		t := info.TypeOf(e)
		if t == nil {
			return false
		}
		b, ok := t.Underlying().(*types.Basic)
		return ok && b.Info()&types.IsBoolean != 0
	}
	carries := map[types.Object]bool{}
	spoiled := map[types.Object]bool{}
	var walk func(n ast.Node, under bool)
	walk = func(n ast.Node, under bool) {
		ast.Inspect(n, func(m ast.Node) bool {
			if m == nil || m == n {
				return true
			}
			switch x := m.(type) {
			case *ast.IfStmt:
				if x.Init != nil {
					walk(x.Init, under)
				}
				walk(x.Body, under || mention(x.Cond))
				if x.Else != nil {
					walk(x.Else, under)
				}
				return false
			case *ast.AssignStmt:
				if len(x.Lhs) != 1 || len(x.Rhs) != 1 {
					return true
				}
				id, ok := x.Lhs[0].(*ast.Ident)
				if !ok || !isBool(id) {
					return true
				}
				obj := info.ObjectOf(id)
				rhs := ast.Unparen(x.Rhs[0])
				isTrue := types.ExprString(rhs) == "true"
				selfOr := false
				if be, ok := rhs.(*ast.BinaryExpr); ok && be.Op == token.LOR {
					if l, ok := ast.Unparen(be.X).(*ast.Ident); ok && info.ObjectOf(l) == obj {
						selfOr = true
					}
				}
				switch {
				case mention(rhs) && (x.Tok == token.DEFINE || selfOr):
					carries[obj] = true
				case isTrue && under:
					carries[obj] = true
				case isTrue, selfOr, x.Tok == token.DEFINE:
					// sets only, or the definition
				default:
					spoiled[obj] = true
				}
			}
			return true
		})
	}
	walk(dp.Body, false)
	found := false
	ast.Inspect(dp.Body, func(n ast.Node) bool {
		ifs, ok := n.(*ast.IfStmt)
		if !ok {
			return true
		}
		for _, cj := range conjuncts(ifs.Cond) {
			id, ok := ast.Unparen(cj).(*ast.Ident)
			if !ok {
				continue
			}
			obj := info.ObjectOf(id)
			if !carries[obj] || spoiled[obj] {
				continue
			}
			for _, call := range callsIn(info, ifs.Body.List) {
				if f := CalleeOf(info, call); f != nil && f.Name() == "markFuncReachable" {
					found = true
				}
			}
		}
		return true
	})
	return found
}

// c06NameVars: range variables of dp that stand for "the name of a function of the module": `for _, name := range
// names` where the local names is filled by appending the Name of the module's functions and/or the FuncName of its
// function imports. The result maps the variable to which of the two sources feed its list.
type nameSources struct{ funcs, imports bool }

func c06NameVars(info *types.Info, dp *ast.FuncDecl) map[types.Object]nameSources {
	lists := map[types.Object]nameSources{}
	ast.Inspect(dp.Body, func(n ast.Node) bool {
		as, ok := n.(*ast.AssignStmt)
		if !ok || len(as.Lhs) != 1 || len(as.Rhs) != 1 {
			return true
		}
		call, ok := as.Rhs[0].(*ast.CallExpr)
		if !ok || len(call.Args) != 2 {
			return true
		}
		if id, ok := call.Fun.(*ast.Ident); !ok || id.Name != "append" {
			return true
		}
		l, ok := as.Lhs[0].(*ast.Ident)
		if !ok {
			return true
		}
		se, ok := ast.Unparen(call.Args[1]).(*ast.SelectorExpr)
		if !ok {
			return true
		}
		sel, ok := info.Selections[se]
		if !ok {
			return true
		}
		src := lists[info.ObjectOf(l)]
		switch {
		case se.Sel.Name == "Name" && namedTypeName(sel.Recv()) == "Func":
			src.funcs = true
		case se.Sel.Name == "FuncName" && namedTypeName(sel.Recv()) == "ImportSpec":
			src.imports = true
		default:
			return true
		}
		lists[info.ObjectOf(l)] = src
		return true
	})
	out := map[types.Object]nameSources{}
	ast.Inspect(dp.Body, func(n ast.Node) bool {
		rs, ok := n.(*ast.RangeStmt)
		if !ok {
			return true
		}
		if x, ok := ast.Unparen(rs.X).(*ast.Ident); ok {
			if src, ok := lists[info.ObjectOf(x)]; ok {
				if v, ok := rs.Value.(*ast.Ident); ok {
					out[info.ObjectOf(v)] = src
				}
			}
		}
		return true
	})
	return out
}

// isFuncNameExpr: e is the name of a function of the module — fn.Name with fn a *ast.Func, or a name variable.
func isFuncNameExpr(info *types.Info, e ast.Expr, nameVars map[types.Object]nameSources) bool {
	switch x := ast.Unparen(e).(type) {
	case *ast.SelectorExpr:
		if x.Sel.Name != "Name" {
			return false
		}
		sel, ok := info.Selections[x]
		return ok && namedTypeName(sel.Recv()) == "Func"
	case *ast.Ident:
		_, ok := nameVars[info.ObjectOf(x)]
		return ok
	}
	return false
}

// c06ImportRoots: are function imports considered when the roots are marked? Either the names that are compared with
// the roots include the imports' FuncName, or a loop over the imports marks.
func c06ImportRoots(info *types.Info, dp *ast.FuncDecl) bool {
	for _, src := range c06NameVars(info, dp) {
		if src.imports {
			return true
		}
	}
	found := false
	ast.Inspect(dp.Body, func(n ast.Node) bool {
		rs, ok := n.(*ast.RangeStmt)
		if !ok || !strings.HasSuffix(types.ExprString(rs.X), ".Imports") {
			return true
		}
		for _, call := range callsIn(info, rs.Body.List) {
			if f := CalleeOf(info, call); f != nil && f.Name() == "markFuncReachable" {
				found = true
			}
		}
		return true
	})
	return found
}

// exportNameNonEmpty: do the conditions contain a conjunct `<Func.ExportName or ExportSpec.Name> != ""`?
func exportNameNonEmpty(info *types.Info, conds []ast.Expr) bool {
	for _, cnd := range conds {
		for _, e := range conjuncts(cnd) {
			be, ok := ast.Unparen(e).(*ast.BinaryExpr)
			if !ok || be.Op != token.NEQ {
				continue
			}
			x, y := be.X, be.Y
			if types.ExprString(ast.Unparen(x)) == `""` {
				x, y = y, x
			}
			if types.ExprString(ast.Unparen(y)) != `""` {
				continue
			}
			switch selField(info, x) {
			case "Func.ExportName", "ExportSpec.Name":
				return true
			}
		}
	}
	return false
}

// c06IndexGuard: the pass marks and removes functions by name; removal shifts the function index space. Before it
// removes anything DoPass must therefore establish that nothing names a function by index and that every function has
// a name: an `if <guard> { return p.m }` at the top of DoPass whose guard (a predicate of the package, or the condition
// itself) reads the names of the functions and function imports and the function references of exports and element
// segments. Returns the fields the guard does not read.
func c06IndexGuard(info *types.Info, pk *packages.Package, dp *ast.FuncDecl) (found bool, missing []string) {
	need := map[string]bool{"Func.Name": false, "ImportSpec.FuncName": false, "ExportSpec.FuncIdx": false, "ElemSection.Values": false}
	read := func(n ast.Node) {
		ast.Inspect(n, func(m ast.Node) bool {
			if se, ok := m.(*ast.SelectorExpr); ok {
				if f := selField(info, se); f != "" {
					if _, ok := need[f]; ok {
						need[f] = true
					}
				}
			}
			return true
		})
	}
	for _, s := range dp.Body.List {
		ifs, ok := s.(*ast.IfStmt)
		if !ok {
			// only statements that do not remove or mark may precede the guard
			continue
		}
		returnsModule := false
		for _, bs := range ifs.Body.List {
			if r, ok := bs.(*ast.ReturnStmt); ok && len(r.Results) == 1 && strings.HasSuffix(types.ExprString(r.Results[0]), ".m") {
				returnsModule = true
			}
		}
		if !returnsModule {
			continue
		}
		found = true
		read(ifs.Cond)
		for _, call := range callsIn(info, []ast.Stmt{&ast.ExprStmt{X: ifs.Cond}}) {
			if fn := CalleeOf(info, call); fn != nil && fn.Pkg() == pk.Types {
				if hd := declOfFunc(pk, fn); hd != nil && hd.Body != nil {
					read(hd.Body)
				}
			}
		}
		break
	}
	for f, ok := range need {
		if !ok {
			missing = append(missing, f)
		}
	}
	sort.Strings(missing)
	return
}
