package main

import (
	"fmt"
	"strings"
)

// E5: a small reader for the .wat / .wat.ws sources the compiler embeds. Independent of the repository's WAT parser:
// an s-expression tokenizer, function headers, and the flat instruction stream with block/loop/if nesting.

type sx struct {
	atom string // "" for lists
	str  bool   // atom is a string literal
	list []*sx
	line int
}

func (s *sx) isList() bool { return s.atom == "" && !s.str }
func (s *sx) head() string {
	if s.isList() && len(s.list) > 0 && !s.list[0].isList() {
		return s.list[0].atom
	}
	return ""
}

// parseSx parses WAT text into top-level s-expressions. Atoms outside any list are returned as atoms.
func parseSx(src string) ([]*sx, error) {
	var stack []*sx
	root := &sx{}
	cur := root
	line := 1
	i := 0
	n := len(src)
	push := func(x *sx) { cur.list = append(cur.list, x) }
	for i < n {
		ch := src[i]
		switch {
		case ch == '\n':
			line++
			i++
		case ch == ' ' || ch == '\t' || ch == '\r':
			i++
		case ch == ';' && i+1 < n && src[i+1] == ';':
			for i < n && src[i] != '\n' {
				i++
			}
		case ch == '(' && i+1 < n && src[i+1] == ';':
			depth := 1
			i += 2
			for i < n && depth > 0 {
				if src[i] == '\n' {
					line++
				}
				if src[i] == '(' && i+1 < n && src[i+1] == ';' {
					depth++
					i += 2
					continue
				}
				if src[i] == ';' && i+1 < n && src[i+1] == ')' {
					depth--
					i += 2
					continue
				}
				i++
			}
		case ch == '(':
			x := &sx{line: line}
			push(x)
			stack = append(stack, cur)
			cur = x
			i++
		case ch == ')':
			if len(stack) == 0 {
				return nil, fmt.Errorf("line %d: unbalanced ')'", line)
			}
			cur = stack[len(stack)-1]
			stack = stack[:len(stack)-1]
			i++
		case ch == '"':
			j := i + 1
			for j < n && src[j] != '"' {
				if src[j] == '\\' {
					j++
				}
				if j < n && src[j] == '\n' {
					line++
				}
				j++
			}
			push(&sx{atom: src[i+1 : min(j, n)], str: true, line: line})
			i = j + 1
		default:
			j := i
			for j < n && !strings.ContainsRune(" \t\r\n()\";", rune(src[j])) {
				j++
			}
			if j == i { // a lone ';'
				j = i + 1
			}
			push(&sx{atom: src[i:j], line: line})
			i = j
		}
	}
	if len(stack) != 0 {
		return nil, fmt.Errorf("line %d: unbalanced '('", cur.line)
	}
	return root.list, nil
}

type watIns struct {
	Op    string
	Args  []string // immediate atoms following the mnemonic on the same logical instruction (best effort: $names, numbers, k=v)
	Line  int
	Depth int // block nesting depth at this instruction
}

type watFunc struct {
	Name       string
	Params     []string // value types
	ParamNames []string // $names, "" for anonymous parameters
	Results    []string
	Locals     int
	Export     string
	Import     [2]string
	Body       []watIns
	Line       int
	File       string
}

type watModule struct {
	Funcs   []*watFunc
	ByName  map[string]*watFunc
	Refs    []watRef // function references outside call instructions: elem, start, export
	Globals map[string]bool
}

type watRef struct {
	Kind, Name string
	Line       int
}

var watValTypes = map[string]bool{"i32": true, "i64": true, "f32": true, "f64": true, "funcref": true, "externref": true, "v128": true}

// parseWatFragments reads a .ws file: a sequence of top-level module fields (func, global, memory, import, export, data, elem, table, type, start).
func parseWatFragments(file, src string, m *watModule) error {
	tops, err := parseSx(src)
	if err != nil {
		return fmt.Errorf("%s: %v", file, err)
	}
	if m.ByName == nil {
		m.ByName = map[string]*watFunc{}
		m.Globals = map[string]bool{}
	}
	var fields []*sx
	for _, t := range tops {
		if t.head() == "module" {
			fields = append(fields, t.list[1:]...)
		} else {
			fields = append(fields, t)
		}
	}
	for _, f := range fields {
		switch f.head() {
		case "func":
			fn := readWatFunc(f)
			fn.File = file
			m.Funcs = append(m.Funcs, fn)
			if fn.Name != "" {
				m.ByName[fn.Name] = fn
			}
		case "import":
			// (import "a" "b" (func $name ...))
			var mod, fld string
			strs := 0
			for _, c := range f.list[1:] {
				if c.str {
					if strs == 0 {
						mod = c.atom
					} else {
						fld = c.atom
					}
					strs++
				}
				if c.head() == "func" {
					fn := readWatFunc(c)
					fn.File = file
					fn.Import = [2]string{mod, fld}
					m.Funcs = append(m.Funcs, fn)
					if fn.Name != "" {
						m.ByName[fn.Name] = fn
					}
				}
				if c.head() == "global" && len(c.list) > 1 && strings.HasPrefix(c.list[1].atom, "$") {
					m.Globals[c.list[1].atom] = true
				}
			}
		case "global":
			if len(f.list) > 1 && strings.HasPrefix(f.list[1].atom, "$") {
				m.Globals[f.list[1].atom] = true
			}
		case "start":
			if len(f.list) > 1 {
				m.Refs = append(m.Refs, watRef{"start", f.list[1].atom, f.line})
			}
		case "export":
			for _, c := range f.list[1:] {
				if c.head() == "func" && len(c.list) > 1 {
					m.Refs = append(m.Refs, watRef{"export", c.list[1].atom, c.line})
				}
			}
		case "elem":
			for _, c := range f.list[1:] {
				if !c.isList() && !c.str && strings.HasPrefix(c.atom, "$") {
					m.Refs = append(m.Refs, watRef{"elem", c.atom, c.line})
				}
			}
		}
	}
	return nil
}

func readWatFunc(f *sx) *watFunc {
	fn := &watFunc{Line: f.line}
	items := f.list[1:]
	if len(items) > 0 && !items[0].isList() && strings.HasPrefix(items[0].atom, "$") {
		fn.Name = items[0].atom
		items = items[1:]
	}
	depth := 0
	var flat func(items []*sx)
	flat = func(items []*sx) {
		for k := 0; k < len(items); k++ {
			it := items[k]
			if it.isList() {
				switch it.head() {
				case "param":
					if depth > 0 || len(fn.Body) > 0 {
						break // a block type, not the function's signature
					}
					pname := ""
					for _, c := range it.list[1:] {
						if !c.isList() && strings.HasPrefix(c.atom, "$") {
							pname = c.atom
						}
						if watValTypes[c.atom] {
							fn.Params = append(fn.Params, c.atom)
							fn.ParamNames = append(fn.ParamNames, pname)
							pname = ""
						}
					}
				case "result":
					if depth == 0 && len(fn.Body) == 0 {
						for _, c := range it.list[1:] {
							if watValTypes[c.atom] {
								fn.Results = append(fn.Results, c.atom)
							}
						}
					} else if n := len(fn.Body); n > 0 && (fn.Body[n-1].Op == "block" || fn.Body[n-1].Op == "loop" || fn.Body[n-1].Op == "if") {
						// block type: remember the result arity on the opening instruction
						for _, c := range it.list[1:] {
							if watValTypes[c.atom] {
								fn.Body[n-1].Args = append(fn.Body[n-1].Args, "result:"+c.atom)
							}
						}
					}
				case "local":
					for _, c := range it.list[1:] {
						if watValTypes[c.atom] {
							fn.Locals++
						}
					}
				case "export":
					if len(it.list) > 1 {
						fn.Export = it.list[1].atom
					}
				case "type":
				default:
					// folded instruction: operands first, then the operator
					if h := it.head(); h != "" {
						flat(it.list[1:])
						fn.Body = append(fn.Body, watIns{Op: h, Line: it.line, Depth: depth})
					}
				}
				continue
			}
			if it.str {
				continue
			}
			op := it.atom
			if strings.HasPrefix(op, "$") || op == "" || isWatImmediate(op) {
				// immediate of the previous instruction
				if len(fn.Body) > 0 {
					fn.Body[len(fn.Body)-1].Args = append(fn.Body[len(fn.Body)-1].Args, op)
				}
				continue
			}
			switch op {
			case "end":
				depth--
			case "else":
				fn.Body = append(fn.Body, watIns{Op: op, Line: it.line, Depth: depth - 1})
				continue
			}
			fn.Body = append(fn.Body, watIns{Op: op, Line: it.line, Depth: depth})
			switch op {
			case "block", "loop", "if":
				depth++
			}
		}
	}
	flat(items)
	return fn
}

func isWatImmediate(s string) bool {
	if s == "" {
		return false
	}
	c := s[0]
	if c >= '0' && c <= '9' || c == '-' || c == '+' {
		return true
	}
	if strings.HasPrefix(s, "offset=") || strings.HasPrefix(s, "align=") {
		return true
	}
	switch s {
	case "nan", "inf":
		return true
	}
	if watValTypes[s] {
		return true
	}
	return false
}

// Calls lists the direct call targets of a function body.
func (f *watFunc) Calls() []watRef {
	var out []watRef
	for _, in := range f.Body {
		if (in.Op == "call" || in.Op == "return_call" || in.Op == "ref.func") && len(in.Args) > 0 {
			out = append(out, watRef{in.Op, in.Args[0], in.Line})
		}
	}
	return out
}
