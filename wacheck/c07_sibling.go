package main

import (
	_ "embed"
	"fmt"
	"go/ast"
	"go/build"
	"go/parser"
	"go/token"
	"os"
	"path/filepath"
	"sort"
	"strings"

	"golang.org/x/tools/go/packages"
)

// C07 rules printer-sibling-agreement and printer-origin-agreement.
//
// internal/printer (the .wa printer), internal/printer/w2printer (the .wz printer) and go/printer (the printer both
// were forked from) implement one formatting algorithm; the forks differ where the surface syntaxes differ. Every
// function — and, inside functions that differ, every switch arm — whose canonical syntax tree was equal between two
// of them when the rules were armed (frozen list c07_siblings.txt) must stay equal: a one-sided edit to shared code is
// a way for one language's formatter to stop preserving programs while the other (and the tests written for it)
// still do. The rule does not say that code which differs is wrong: such functions and arms are not instances.

//go:embed c07_siblings.txt
var c07Siblings string

func parseGoDir(dir string) []*ast.File {
	var out []*ast.File
	ents, err := os.ReadDir(dir)
	if err != nil {
		return nil
	}
	fset := token.NewFileSet()
	for _, e := range ents {
		n := e.Name()
		if !strings.HasSuffix(n, ".go") || strings.HasSuffix(n, "_test.go") {
			continue
		}
		if f, err := parser.ParseFile(fset, filepath.Join(dir, n), nil, 0); err == nil {
			out = append(out, f)
		}
	}
	return out
}

func declKey(fd *ast.FuncDecl) string {
	key := fd.Name.Name
	if fd.Recv != nil && len(fd.Recv.List) == 1 {
		t := fd.Recv.List[0].Type
		if st, ok := t.(*ast.StarExpr); ok {
			t = st.X
		}
		if id, ok := t.(*ast.Ident); ok {
			key = id.Name + "." + key
		}
	}
	return key
}

func pkgFuncs(files []*ast.File) map[string]*ast.FuncDecl {
	out := map[string]*ast.FuncDecl{}
	for _, f := range files {
		for _, d := range f.Decls {
			if fd, ok := d.(*ast.FuncDecl); ok && fd.Body != nil {
				out[declKey(fd)] = fd
			}
		}
	}
	return out
}

// switchArms returns the canonical bodies of every case clause in fd, keyed by the canonical case list.
func switchArms(fd *ast.FuncDecl) map[string]string {
	out := map[string]string{}
	ast.Inspect(fd.Body, func(n ast.Node) bool {
		cc, ok := n.(*ast.CaseClause)
		if !ok {
			return true
		}
		// names the arm declares itself are positional; names from the enclosing function stay as written
		o := canonOptsFor(nil, cc)
		var labs []string
		for _, e := range cc.List {
			labs = append(labs, canonAST(e, o))
		}
		key := strings.Join(labs, ",")
		if key == "" {
			key = "default"
		}
		var ss []string
		for _, s := range cc.Body {
			ss = append(ss, canonAST(s, o))
		}
		k := key
		for i := 2; ; i++ {
			if _, dup := out[k]; !dup {
				break
			}
			k = fmt.Sprintf("%s#%d", key, i)
		}
		out[k] = strings.Join(ss, "\n")
		return true
	})
	return out
}

func funcCanon(fd *ast.FuncDecl) string {
	var pre map[string]string
	if fd.Recv != nil && len(fd.Recv.List) == 1 && len(fd.Recv.List[0].Names) == 1 {
		pre = map[string]string{fd.Recv.List[0].Names[0].Name: "$recv"}
	}
	return canonFunc(fd.Type, fd.Body, pre)
}

func c07SiblingAgreement(c *Ctx, p *Prog, wa, wz *packages.Package) {
	goFiles := parseGoDir(filepath.Join(build.Default.GOROOT, "src", "go", "printer"))
	sets := map[string]map[string]*ast.FuncDecl{"wa": pkgFuncs(wa.Syntax), "wz": pkgFuncs(wz.Syntax), "go": pkgFuncs(goFiles)}
	fileOf := func(side string, fd *ast.FuncDecl) string {
		if side == "go" {
			return "GOROOT/src/go/printer"
		}
		return p.Pos(fd.Pos())
	}
	ruleOf := func(a, b string) string {
		if b == "go" {
			return "printer-origin-agreement"
		}
		return "printer-sibling-agreement"
	}
	names := map[string]string{"wa": "internal/printer", "wz": "internal/printer/w2printer", "go": "go/printer"}
	dump := os.Getenv("VERIF_C07_DUMP") == "1"
	want := map[string]bool{}
	for _, l := range strings.Split(c07Siblings, "\n") {
		l = strings.TrimSpace(l)
		if l != "" && !strings.HasPrefix(l, "#") {
			want[l] = true
		}
	}
	seen := map[string]bool{}
	counts := map[string]int{}
	for _, pair := range [][2]string{{"wa", "wz"}, {"wa", "go"}, {"wz", "go"}} {
		a, b := sets[pair[0]], sets[pair[1]]
		rule := ruleOf(pair[0], pair[1])
		var keys []string
		for k := range a {
			if _, ok := b[k]; ok {
				keys = append(keys, k)
			}
		}
		sort.Strings(keys)
		for _, k := range keys {
			id := fmt.Sprintf("func %s~%s %s", pair[0], pair[1], k)
			eq := funcCanon(a[k]) == funcCanon(b[k])
			if dump {
				if eq {
					fmt.Println(id)
				}
			} else if want[id] {
				seen[id] = true
				counts[rule]++
				c.Check(eq, rule, fmt.Sprintf("%s: %s vs %s", k, names[pair[0]], names[pair[1]]), fileOf(pair[0], a[k]), "same function in both printers",
					fmt.Sprintf("%s was the same function in %s and %s and no longer is (first difference: %s): shared formatting code was changed on one side only, so one language's formatter now prints this construct differently from the printer it is a copy of", k, names[pair[0]], names[pair[1]], firstDiff(funcCanon(a[k]), funcCanon(b[k]))))
			}
			if eq {
				continue
			}
			aa, bb := switchArms(a[k]), switchArms(b[k])
			var labs []string
			for lab := range aa {
				if _, ok := bb[lab]; ok {
					labs = append(labs, lab)
				}
			}
			sort.Strings(labs)
			for _, lab := range labs {
				aid := fmt.Sprintf("arm %s~%s %s :: %s", pair[0], pair[1], k, lab)
				armEq := aa[lab] == bb[lab]
				if dump {
					if armEq && aa[lab] != "" {
						fmt.Println(aid)
					}
					continue
				}
				if !want[aid] {
					continue
				}
				seen[aid] = true
				counts[rule]++
				short := lab
				if len(short) > 70 {
					short = short[:70] + "…"
				}
				c.Check(armEq, rule, fmt.Sprintf("%s, case %s: %s vs %s", k, short, names[pair[0]], names[pair[1]]), fileOf(pair[0], a[k]), "same switch arm in both printers",
					fmt.Sprintf("in %s the arm `case %s` was the same in %s and %s and no longer is (first difference: %s): shared formatting code was changed on one side only", k, short, names[pair[0]], names[pair[1]], firstDiff(aa[lab], bb[lab])))
			}
		}
	}
	if dump {
		return
	}
	var missing []string
	for k := range want {
		if !seen[k] {
			missing = append(missing, k)
		}
	}
	sort.Strings(missing)
	for _, k := range missing {
		r := "printer-sibling-agreement"
		if strings.Contains(k, "~go ") {
			r = "printer-origin-agreement"
		}
		c.Undecided(r, k, "", "the frozen instance no longer resolves on both sides (function or arm renamed, removed or relabelled): it is not being compared any more")
	}
	c.Min("printer-sibling-agreement", "frozen sibling instances", counts["printer-sibling-agreement"], 60)
	c.Min("printer-origin-agreement", "frozen origin instances", counts["printer-origin-agreement"], 60)
}
