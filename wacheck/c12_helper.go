package main

import (
	"fmt"
	"go/ast"
	"go/token"
	"go/types"
	"regexp"
	"strings"

	"golang.org/x/tools/go/packages"
)

// C12 rule helper-local-ownership (also a necessary condition of C11).
//
// Besides the code of user functions the back end generates small helper functions (array indexing by a run-time
// index, map helpers, append, copy, comparison …) as `var f Function … m.AddFunc(&f)`. These have no epilogue:
// whatever their locals (f.Locals) own when the function ends has to be released or handed to the caller by the
// generator itself. For every local of a possibly reference-counted type:
//   - a local that takes ownership of a retained value (X.EmitPush() … L.EmitPop()) is released (L.EmitRelease())
//     or is moved out as the function's result (a final L.EmitPushNoRetain()); otherwise each call leaks a reference;
//   - a local that only borrows (X.EmitPushNoRetain() … L.EmitPopNoRelease()) is not moved out as the result: the
//     caller owns what a helper returns and will release it.

var c12ScalarTypeNames = map[string]bool{"U8": true, "U16": true, "U32": true, "U64": true, "I8": true, "I16": true, "I32": true, "I64": true, "F32": true, "F64": true,
	"BOOL": true, "RUNE": true, "UPTR": true, "INT": true, "UINT": true, "_u32": true, "_i32": true, "_u64": true, "_i64": true, "_bool": true}

// Type expressions of helper locals that are never reference counted: the length / capacity / raw data pointer
// members of a slice or string header, raw pointer types (`_u8_ptr`, `_base_ptr`: plain addresses into a block that
// is kept alive by the header), fixed-width integers, and the type of another such local.
var c12ScalarTypeRe = regexp.MustCompile(`(_ptr|\._u8|\._u16|\._u32|\._u64|\._i32|\._i64|ExtractByName\("[ldc]"\)\.Type\(\)|_len\.Type\(\)|_cap\.Type\(\))$`)

// mode "leak" reports the first clause (C12), mode "borrow" the second (C11).
func c12HelperLocals(c *Ctx, p *Prog, wp *packages.Package, mode string, more ...*packages.Package) {
	const rule = "helper-local-ownership"
	nFuncs, nLocals := 0, 0
	for _, pk := range append([]*packages.Package{wp}, more...) {
		if pk == nil {
			continue
		}
		f, l := c12HelperLocalsIn(c, p, pk, mode)
		nFuncs += f
		nLocals += l
	}
	c.Min(rule, "generated helper functions with locals", nFuncs, 6)
	c.Min(rule, "possibly reference-counted helper locals", nLocals, 8)
}

func c12HelperLocalsIn(c *Ctx, p *Prog, wp *packages.Package, mode string) (nFuncs, nLocals int) {
	const rule = "helper-local-ownership"
	info := wp.TypesInfo
	registerPredicates(wp)
	for _, file := range wp.Syntax {
		for _, d := range file.Decls {
			fd, ok := d.(*ast.FuncDecl)
			if !ok || fd.Body == nil {
				continue
			}
			// locals registered in f.Locals, with the type expression they were created with
			type loc struct {
				obj types.Object
				typ string
			}
			var locals []loc
			created := map[types.Object]string{}
			scopeOf := map[types.Object]*ast.BlockStmt{} // innermost block the local is created in (a loop body: a fresh local per round)
			var blocks []*ast.BlockStmt
			ast.Inspect(fd.Body, func(n ast.Node) bool {
				if b, ok := n.(*ast.BlockStmt); ok {
					blocks = append(blocks, b)
				}
				return true
			})
			innermost := func(pos token.Pos) *ast.BlockStmt {
				var best *ast.BlockStmt
				for _, b := range blocks {
					if b.Pos() <= pos && pos < b.End() && (best == nil || b.Pos() >= best.Pos()) {
						best = b
					}
				}
				return best
			}
			defText := map[types.Object]string{} // emitseq prints a receiver that is a local as its definition
			ast.Inspect(fd.Body, func(n ast.Node) bool {
				as, ok := n.(*ast.AssignStmt)
				if !ok || len(as.Lhs) != 1 || len(as.Rhs) != 1 {
					return true
				}
				call, ok := as.Rhs[0].(*ast.CallExpr)
				if !ok {
					return true
				}
				fn := types.ExprString(call.Fun)
				if (fn == "NewLocal" || strings.HasSuffix(fn, ".NewLocal")) && len(call.Args) == 2 {
					if o := identObj(info, as.Lhs[0]); o != nil {
						created[o] = strings.ReplaceAll(types.ExprString(call.Args[1]), " ", "")
						scopeOf[o] = innermost(as.Pos())
						defText[o] = strings.ReplaceAll(types.ExprString(call), " ", "")
					}
				}
				if fn == "append" && len(call.Args) == 2 && strings.HasSuffix(types.ExprString(call.Args[0]), ".Locals") {
					if o := identObj(info, call.Args[1]); o != nil {
						locals = append(locals, loc{o, created[o]})
					}
				}
				return true
			})
			if len(locals) == 0 {
				continue
			}
			nFuncs++
			seqNo := map[string]int{}
			seq := emitSequence(info, fd)
			var ev []emEvent
			for _, e := range seq.Events {
				if e.Kind == "deleg" || e.Kind == "call" {
					ev = append(ev, e)
				}
			}
			for _, l := range locals {
				t := l.typ
				scalar := c12ScalarTypeRe.MatchString(t)
				if i := strings.LastIndex(t, "."); i >= 0 && c12ScalarTypeNames[t[i+1:]] {
					scalar = true
				}
				if scalar || t == "" {
					continue
				}
				nLocals++
				name := l.obj.Name()
				isL := func(recv string) bool { return recv == name || (defText[l.obj] != "" && recv == defText[l.obj]) }
				ownsRetained, borrows, released := false, false, false
				// events of the block the local lives in (same-named locals of other loops are other locals)
				evAll := ev
				if sc := scopeOf[l.obj]; sc != nil && sc != fd.Body {
					var in []emEvent
					for _, e := range evAll {
						if sc.Pos() <= e.Pos && e.Pos < sc.End() {
							in = append(in, e)
						}
					}
					ev = in
				}
				for i, e := range ev {
					if e.Kind != "deleg" || !isL(e.Recv) {
						continue
					}
					switch e.Name {
					case "EmitPop", "EmitPopNoRelease":
						// what was pushed just before?
						// (the nearest earlier event that leaves a value on the stack: resets of globals, releases and
						// pops in between do not)
						src := "owned"
						for k := i - 1; k >= 0; k-- {
							if ev[k].Kind == "deleg" && (ev[k].Name == "EmitInit" || ev[k].Name == "EmitRelease" || strings.HasPrefix(ev[k].Name, "EmitPop") || strings.HasPrefix(ev[k].Name, "EmitStore")) {
								continue
							}
							if ev[k].Kind == "deleg" && strings.HasSuffix(ev[k].Name, "NoRetain") {
								src = "borrowed"
							}
							break
						}
						if src == "owned" {
							ownsRetained = true
						} else {
							borrows = true
						}
					case "EmitRelease":
						released = true
					}
				}
				last := ""
				if len(ev) > 0 {
					if e := ev[len(ev)-1]; e.Kind == "deleg" && isL(e.Recv) {
						last = e.Name
					}
				}
				construct := fmt.Sprintf("%s: local %s (%s)", declName(fd), name, t)
				if sc := scopeOf[l.obj]; sc != nil && sc != fd.Body {
					seqNo[declName(fd)+name+t]++
					if k := seqNo[declName(fd)+name+t]; k > 1 {
						construct += fmt.Sprintf(" #%d", k)
					}
				}
				at := p.Pos(l.obj.Pos())
				switch {
				case mode == "leak" && ownsRetained && !released && last != "EmitPushNoRetain":
					c.Fail(rule, construct, at, "the local takes ownership of a retained value and is neither released nor moved out as the result ("+lastOr(last, "no final push")+"): the generated helper has no epilogue, so every call leaks one reference to that value")
				case mode == "borrow" && borrows && !ownsRetained && last == "EmitPushNoRetain":
					c.Fail(rule, construct, at, "the local only borrows its value (pushed without retain, popped without release) and is returned without retain: the caller owns what a helper returns and releases it, so the value's owner loses a reference it still uses (premature free)")
				case mode == "borrow" && borrows && !ownsRetained && released:
					c.Fail(rule, construct, at, "the local only borrows its value (loaded or pushed without retain) and is released all the same: the helper drops a reference it never took, so every call takes one reference away from an object that other owners still use — it is freed while referenced (use after free, later a double free)")
				default:
					c.OK(rule, construct, at, "owned value released or moved out; borrowed value not returned")
				}
				ev = evAll
			}
		}
	}
	return nFuncs, nLocals
}

func lastOr(s, d string) string {
	if s == "" {
		return d
	}
	return "final " + s
}
