package main

import (
	"fmt"
	"go/ast"
	"go/constant"
	"go/types"
	"strings"
)

// C02 rule gas-string-literal: data segments reach the native build as `.ascii "…"` strings written by toGasString
// (one copy per native translator). Its per-byte decision is evaluated for all 256 byte values (finite domain): a byte
// is either written raw or through a format string. The text for every pair of bytes is then read back by the rules
// of the GNU assembler for string literals (\ddd octal up to three digits, \xhh…, \b \f \n \r \t \\ \", an unescaped
// " ends the string); the bytes read back must be the bytes written, otherwise the native memory image differs from
// the WebAssembly one.

// gasDecode reads the body of a gas string literal; ok=false when the literal ends early or is malformed.
func gasDecode(s string) ([]byte, bool) {
	var out []byte
	for i := 0; i < len(s); i++ {
		ch := s[i]
		if ch == '"' {
			return out, false
		}
		if ch != '\\' {
			out = append(out, ch)
			continue
		}
		i++
		if i >= len(s) {
			return out, false
		}
		switch e := s[i]; {
		case e >= '0' && e <= '7':
			v, n := 0, 0
			for n < 3 && i < len(s) && s[i] >= '0' && s[i] <= '7' {
				v = v*8 + int(s[i]-'0')
				i++
				n++
			}
			i--
			out = append(out, byte(v))
		case e == 'x' || e == 'X':
			v, n := 0, 0
			i++
			for i < len(s) && strings.ContainsRune("0123456789abcdefABCDEF", rune(s[i])) {
				d := strings.IndexByte("0123456789abcdef", strings.ToLower(string(s[i]))[0])
				v = v*16 + d
				i++
				n++
			}
			i--
			if n == 0 {
				return out, false
			}
			out = append(out, byte(v))
		case e == 'b':
			out = append(out, 8)
		case e == 'f':
			out = append(out, 12)
		case e == 'n':
			out = append(out, 10)
		case e == 'r':
			out = append(out, 13)
		case e == 't':
			out = append(out, 9)
		case e == '\\' || e == '"':
			out = append(out, e)
		default:
			out = append(out, e) // unknown escape: gas warns and keeps the character
		}
	}
	return out, true
}

func c02GasString(c *Ctx, p *Prog) {
	const rule = "gas-string-literal"
	n := 0
	for _, rel := range []string{"internal/native/wat2x64", "internal/native/wat2la", "internal/native/wat2rv", "internal/native/wat2arm64"} {
		pk := p.Pkg(rel)
		if pk == nil {
			continue
		}
		fd := FuncDecl(pk, "toGasString")
		if fd == nil {
			continue // this translator does not write gas strings
		}
		n++
		info := pk.TypesInfo
		construct := rel + ".toGasString"
		loc := p.Pos(fd.Pos())
		// for _, b := range data { if COND { WriteByte(b) } else { WriteString(Sprintf(FORMAT, b)) } }
		var loop *ast.RangeStmt
		for _, s := range fd.Body.List {
			if rs, ok := s.(*ast.RangeStmt); ok {
				loop = rs
			}
		}
		var ifs *ast.IfStmt
		if loop != nil && len(loop.Body.List) == 1 {
			ifs, _ = loop.Body.List[0].(*ast.IfStmt)
		}
		if ifs == nil || loop.Value == nil {
			c.Undecided(rule, construct, loc, "expected `for _, b := range data { if <raw?> { … } else { … } }`")
			continue
		}
		bObj := identObj(info, loop.Value)
		// what each arm writes for byte b: "raw" or a format string
		armText := func(stmts []ast.Stmt) (raw bool, format string, ok bool) {
			if len(stmts) != 1 {
				return false, "", false
			}
			es, isEs := stmts[0].(*ast.ExprStmt)
			if !isEs {
				return false, "", false
			}
			call, isCall := es.X.(*ast.CallExpr)
			if !isCall || len(call.Args) != 1 {
				return false, "", false
			}
			f := CalleeOf(info, call)
			if f == nil {
				return false, "", false
			}
			switch f.Name() {
			case "WriteByte":
				return identObj(info, call.Args[0]) == bObj, "", identObj(info, call.Args[0]) == bObj
			case "WriteString":
				sp, isSp := ast.Unparen(call.Args[0]).(*ast.CallExpr)
				if !isSp || len(sp.Args) != 2 || identObj(info, sp.Args[1]) != bObj {
					return false, "", false
				}
				if g := CalleeOf(info, sp); g == nil || FuncFullName(g) != "fmt.Sprintf" {
					return false, "", false
				}
				if tv, has := info.Types[sp.Args[0]]; has && tv.Value != nil && tv.Value.Kind() == constant.String {
					return false, constant.StringVal(tv.Value), true
				}
			}
			return false, "", false
		}
		var elseList []ast.Stmt
		if eb, ok := ifs.Else.(*ast.BlockStmt); ok {
			elseList = eb.List
		}
		tRaw, tFmt, ok1 := armText(ifs.Body.List)
		eRaw, eFmt, ok2 := armText(elseList)
		if !ok1 || !ok2 {
			c.Undecided(rule, construct, loc, "an arm of the per-byte decision is neither WriteByte(b) nor WriteString(fmt.Sprintf(<constant format>, b))")
			continue
		}
		emit := make([]string, 256)
		undecided := false
		for b := 0; b < 256; b++ {
			env := &fenv{info: info, vars: map[types.Object]fval{bObj: fInt(int64(b))}}
			v := env.eval(ifs.Cond)
			if !v.OK || !v.IsBool {
				undecided = true
				break
			}
			raw, format := eRaw, eFmt
			if v.B {
				raw, format = tRaw, tFmt
			}
			if raw {
				emit[b] = string([]byte{byte(b)})
			} else {
				emit[b] = fmt.Sprintf(format, byte(b))
			}
		}
		if undecided {
			c.Undecided(rule, construct, loc, "the condition `"+types.ExprString(ifs.Cond)+"` is not decided by the finite evaluator")
			continue
		}
		var bad []string
		for a := 0; a < 256 && len(bad) < 6; a++ {
			for b := 0; b < 256 && len(bad) < 6; b++ {
				got, ok := gasDecode(emit[a] + emit[b])
				if !ok || len(got) != 2 || got[0] != byte(a) || got[1] != byte(b) {
					bad = append(bad, fmt.Sprintf("bytes %#02x %#02x are written as %q, which the assembler reads as % x", a, b, emit[a]+emit[b], got))
				}
			}
		}
		c.Check(len(bad) == 0, rule, construct, loc, "every pair of bytes is read back unchanged by the assembler's string-literal rules (65536 pairs)",
			construct+": "+strings.Join(bad, "; ")+": the native memory image differs from the WebAssembly one for data segments containing these bytes")
	}
	c.Min(rule, "toGasString copies", n, 1)
}
