package main

import (
	"fmt"
	"go/ast"
	"go/constant"
	"go/token"
	"go/types"
	"regexp"
	"sort"
	"strings"

	"golang.org/x/tools/go/packages"
)

// linerule.go — rule line-terminated, shared by C02 (the native translators write GNU assembler text) and C03 (wat2c
// writes C). Added after a defect found on the unchanged tree: `fmt.Fprintf(w, "    # memory.init")` without the
// newline made the next template — the instruction that loads the memory base — part of the comment.
//
// The text a function writes to its writer is followed statement by statement (branches joined, loop bodies read
// twice so that the end of one iteration meets the start of the next). After a piece that leaves the line *open* —
// for assembler text: it does not end in "\n"; for C: its last line holds a `//` comment and does not end in "\n" —
// the next piece must not begin a new line of its own (indentation, a directive, a label) unless it starts with a
// newline (or is a Fprintln); a piece that continues the open line (an operand written separately) is fine; in C, where a comment may be continued by more
// comment text, the next piece must not hold code (`;`, `{`, `}`) before its first newline. A call into a function of the package that is handed
// the writer counts as a piece that begins with text when that function's first write does, and leaves the line
// open when the function can return with it open.

type lineMode int

const (
	lineAsm lineMode = iota // every instruction on its own line
	lineC                   // only a `//` comment makes the rest of the line dead
)

type lineOpen struct {
	pos  token.Pos
	text string
}

// lineState: the writers (by the text of the writer expression) whose current line is open.
type lineState struct {
	open map[string]lineOpen
}

func (s lineState) with(w string, o *lineOpen) lineState {
	out := lineState{open: map[string]lineOpen{}}
	for k, v := range s.open {
		out.open[k] = v
	}
	if o == nil {
		delete(out.open, w)
	} else {
		out.open[w] = *o
	}
	return out
}

func joinLine(a, b lineState) lineState {
	out := lineState{open: map[string]lineOpen{}}
	for k, v := range b.open {
		out.open[k] = v
	}
	for k, v := range a.open {
		out.open[k] = v
	}
	return out
}

type lineSummary struct {
	startsText bool // some path's first write is text that does not begin with a newline
	endsOpen   bool
	openBy     lineOpen // the piece that leaves the line open
	writes     int
	done       bool
}

type lineWalker struct {
	p           *Prog
	pk          *packages.Package
	info        *types.Info
	mode        lineMode
	decls       map[*types.Func]*ast.FuncDecl
	sums        map[*types.Func]*lineSummary
	active      map[*types.Func]bool
	provisional map[*types.Func]*lineSummary
	reports     map[token.Pos]string // offending write -> message
}

func (lw *lineWalker) openAfter(format string) bool {
	if strings.HasSuffix(format, "\n") || format == "" {
		return false
	}
	tail := format
	if i := strings.LastIndexByte(format, '\n'); i >= 0 {
		tail = format[i+1:]
	}
	if lw.mode == lineC {
		return strings.Contains(tail, "//")
	}
	return strings.TrimSpace(tail) != "" || tail != ""
}

// writerArg: the argument the call hands to the callee's io.Writer parameter ("" when it has none).
func (lw *lineWalker) writerArg(fn *types.Func, call *ast.CallExpr) string {
	sig, ok := fn.Type().(*types.Signature)
	if !ok {
		return ""
	}
	for i := 0; i < sig.Params().Len() && i < len(call.Args); i++ {
		if strings.HasSuffix(sig.Params().At(i).Type().String(), "io.Writer") {
			return strings.TrimPrefix(types.ExprString(call.Args[i]), "&")
		}
	}
	return ""
}

func (lw *lineWalker) write(call *ast.CallExpr, w string, st lineState, startsText bool, leavesOpen bool, text string) lineState {
	if o, isOpen := st.open[w]; startsText && isOpen {
		if _, dup := lw.reports[call.Pos()]; !dup {
			lw.reports[call.Pos()] = fmt.Sprintf("%s is written while the line opened by %s at %s is not ended", text, o.text, lw.p.Pos(o.pos))
		}
	}
	if leavesOpen {
		return st.with(w, &lineOpen{pos: call.Pos(), text: text})
	}
	return st.with(w, nil)
}

func (lw *lineWalker) call(call *ast.CallExpr, st lineState, sum *lineSummary, virgin *bool) lineState {
	fn := CalleeOf(lw.info, call)
	if fn == nil {
		return st
	}
	if fn.Pkg() != nil && fn.Pkg().Path() == "fmt" {
		w := ""
		if len(call.Args) > 0 {
			w = strings.TrimPrefix(types.ExprString(call.Args[0]), "&")
		}
		switch fn.Name() {
		case "Fprintf":
			if len(call.Args) < 2 {
				return st
			}
			tv, ok := lw.info.Types[call.Args[1]]
			if !ok || tv.Value == nil || tv.Value.Kind() != constant.String {
				*virgin = false
				return st.with(w, nil)
			}
			f := constant.StringVal(tv.Value)
			if f == "" {
				return st
			}
			startsText := !strings.HasPrefix(f, "\n")
			if lw.mode == lineAsm && startsText {
				// a piece may continue the line another piece began (an operand written separately); what must not
				// land on an open line is the start of a new one: indentation, a directive or a label
				startsText = f[0] == ' ' || f[0] == '\t' || f[0] == '.' || f[0] == '#' || regexp.MustCompile(`^[A-Za-z_$][\w.$]*:`).MatchString(f)
			}
			if lw.mode == lineC && startsText {
				// more comment text may follow a comment; what must not is code
				head := f
				if i := strings.IndexByte(f, '\n'); i >= 0 {
					head = f[:i]
				}
				startsText = strings.ContainsAny(head, ";{}")
			}
			if *virgin {
				*virgin = false
				if startsText {
					sum.startsText = true
				}
			}
			sum.writes++
			return lw.write(call, w, st, startsText, lw.openAfter(f), fmt.Sprintf("%q", f))
		case "Fprintln":
			*virgin = false
			sum.writes++
			return st.with(w, nil)
		case "Fprint":
			*virgin = false
			sum.writes++
			return st.with(w, nil)
		}
		return st
	}
	fd := lw.decls[fn]
	w := lw.writerArg(fn, call)
	if fd == nil || w == "" {
		return st
	}
	cs := lw.summary(fn)
	if cs == nil || cs.writes == 0 {
		return st
	}
	if *virgin {
		*virgin = false
		if cs.startsText {
			sum.startsText = true
		}
	}
	sum.writes++
	out := lw.write(call, w, st, cs.startsText, cs.endsOpen, "the first piece of "+fn.Name()+"(..)")
	if cs.endsOpen {
		out = out.with(w, &lineOpen{pos: cs.openBy.pos, text: cs.openBy.text})
	}
	return out
}

func (lw *lineWalker) summary(fn *types.Func) *lineSummary {
	if s, ok := lw.sums[fn]; ok && s.done {
		return s
	}
	if lw.active[fn] {
		// recursion: the summary of the previous round (nil in the first: the call is read as writing whole lines)
		return lw.provisional[fn]
	}
	fd := lw.decls[fn]
	if fd == nil || fd.Body == nil {
		return nil
	}
	lw.active[fn] = true
	var s *lineSummary
	for round := 0; round < 3; round++ {
		s = lw.summaryOnce(fd)
		if prev := lw.provisional[fn]; prev != nil && prev.startsText == s.startsText && prev.endsOpen == s.endsOpen {
			break
		}
		cp := *s
		lw.provisional[fn] = &cp
	}
	s.done = true
	lw.sums[fn] = s
	delete(lw.active, fn)
	return s
}

func (lw *lineWalker) summaryOnce(fd *ast.FuncDecl) *lineSummary {
	s := &lineSummary{}
	virgin := true
	var ends lineState
	end := lw.stmts(fd.Body.List, lineState{}, s, &virgin, &ends)
	ends = joinLine(ends, end)
	// the function's own writer parameter
	s.endsOpen = false
	if fd.Type.Params != nil {
		for _, f := range fd.Type.Params.List {
			if t := lw.info.TypeOf(f.Type); t != nil && strings.HasSuffix(t.String(), "io.Writer") {
				for _, nm := range f.Names {
					if o, isOpen := ends.open[nm.Name]; isOpen {
						s.endsOpen = true
						s.openBy = o
					}
				}
			}
		}
	}
	return s
}

func (lw *lineWalker) exprCalls(e ast.Node, st lineState, sum *lineSummary, virgin *bool) lineState {
	if e == nil {
		return st
	}
	ast.Inspect(e, func(n ast.Node) bool {
		switch x := n.(type) {
		case *ast.FuncLit:
			return false
		case *ast.CallExpr:
			// arguments first
			for _, a := range x.Args {
				st = lw.exprCalls(a, st, sum, virgin)
			}
			st = lw.call(x, st, sum, virgin)
			return false
		}
		return true
	})
	return st
}

func (lw *lineWalker) stmts(list []ast.Stmt, st lineState, sum *lineSummary, virgin *bool, ends *lineState) lineState {
	for _, s := range list {
		st = lw.stmt(s, st, sum, virgin, ends)
	}
	return st
}

func (lw *lineWalker) stmt(s ast.Stmt, st lineState, sum *lineSummary, virgin *bool, ends *lineState) lineState {
	switch x := s.(type) {
	case nil:
		return st
	case *ast.BlockStmt:
		return lw.stmts(x.List, st, sum, virgin, ends)
	case *ast.ExprStmt:
		return lw.exprCalls(x.X, st, sum, virgin)
	case *ast.AssignStmt:
		for _, r := range x.Rhs {
			st = lw.exprCalls(r, st, sum, virgin)
		}
		return st
	case *ast.DeclStmt:
		return lw.exprCalls(x, st, sum, virgin)
	case *ast.ReturnStmt:
		for _, r := range x.Results {
			st = lw.exprCalls(r, st, sum, virgin)
		}
		*ends = joinLine(*ends, st)
		return lineState{}
	case *ast.IfStmt:
		st = lw.stmt(x.Init, st, sum, virgin, ends)
		st = lw.exprCalls(x.Cond, st, sum, virgin)
		v1, v2 := *virgin, *virgin
		a := lw.stmts(x.Body.List, st, sum, &v1, ends)
		b := st
		if x.Else != nil {
			b = lw.stmt(x.Else, st, sum, &v2, ends)
		}
		*virgin = v1 || v2
		return joinLine(a, b)
	case *ast.SwitchStmt, *ast.TypeSwitchStmt:
		var body *ast.BlockStmt
		if sw, ok := x.(*ast.SwitchStmt); ok {
			st = lw.stmt(sw.Init, st, sum, virgin, ends)
			body = sw.Body
		} else {
			body = x.(*ast.TypeSwitchStmt).Body
		}
		out := lineState{}
		hasDefault := false
		anyVirgin := false
		for _, cl := range body.List {
			cc := cl.(*ast.CaseClause)
			if cc.List == nil {
				hasDefault = true
			}
			v := *virgin
			out = joinLine(out, lw.stmts(cc.Body, st, sum, &v, ends))
			anyVirgin = anyVirgin || v
		}
		if !hasDefault {
			out = joinLine(out, st)
			anyVirgin = anyVirgin || *virgin
		}
		*virgin = anyVirgin
		return out
	case *ast.ForStmt:
		st = lw.stmt(x.Init, st, sum, virgin, ends)
		v := *virgin
		e1 := lw.stmts(x.Body.List, st, sum, &v, ends)
		v2 := v
		e2 := lw.stmts(x.Body.List, joinLine(e1, st), sum, &v2, ends)
		return joinLine(joinLine(e1, e2), st)
	case *ast.RangeStmt:
		v := *virgin
		e1 := lw.stmts(x.Body.List, st, sum, &v, ends)
		v2 := v
		e2 := lw.stmts(x.Body.List, joinLine(e1, st), sum, &v2, ends)
		return joinLine(joinLine(e1, e2), st)
	case *ast.LabeledStmt:
		return lw.stmt(x.Stmt, st, sum, virgin, ends)
	case *ast.DeferStmt, *ast.GoStmt:
		return st
	}
	return st
}

// lineTerminatedRule: one obligation per function of pk that writes text.
func lineTerminatedRule(c *Ctx, p *Prog, pk *packages.Package, prefix string, mode lineMode) int {
	const rule = "line-terminated"
	lw := &lineWalker{p: p, pk: pk, info: pk.TypesInfo, mode: mode, decls: map[*types.Func]*ast.FuncDecl{}, sums: map[*types.Func]*lineSummary{}, active: map[*types.Func]bool{}, provisional: map[*types.Func]*lineSummary{}, reports: map[token.Pos]string{}}
	names := map[*types.Func]string{}
	for name, fd := range AllFuncDecls(pk) {
		if fo, ok := pk.TypesInfo.Defs[fd.Name].(*types.Func); ok && fd.Body != nil {
			lw.decls[fo] = fd
			names[fo] = name
		}
	}
	var fns []*types.Func
	for fo := range lw.decls {
		fns = append(fns, fo)
	}
	sort.Slice(fns, func(i, j int) bool { return names[fns[i]] < names[fns[j]] })
	n := 0
	for _, fo := range fns {
		s := lw.summary(fo)
		if s == nil || s.writes == 0 {
			continue
		}
		fd := lw.decls[fo]
		var msgs []string
		var poss []token.Pos
		for pos := range lw.reports {
			if pos >= fd.Pos() && pos < fd.End() {
				poss = append(poss, pos)
			}
		}
		sort.Slice(poss, func(i, j int) bool { return poss[i] < poss[j] })
		for _, pos := range poss {
			msgs = append(msgs, p.Pos(pos)+": "+lw.reports[pos])
		}
		n++
		loc := p.Pos(fd.Pos())
		if len(poss) > 0 {
			loc = p.Pos(poss[0])
		}
		why := "the two pieces land on one line: "
		if mode == lineC {
			why = "the piece lands behind a `//` comment and is not compiled: "
		} else {
			why += "behind a `#` the instruction is a comment, otherwise the assembler rejects the line — "
		}
		c.Check(len(msgs) == 0, rule, prefix+names[fo], loc, fmt.Sprintf("%d writes, every open line is ended before the next piece", s.writes), why+strings.Join(msgs, "; "))
	}
	return n
}
