package main

import (
	"fmt"
	"go/ast"
	"go/constant"
	"go/token"
	"go/types"
	"strings"

	"golang.org/x/tools/go/packages"
)

// C22 rules for the non-ASCII path of internal/lsp/diff, which no longer is the origin's code: the origin measured
// edit offsets with utf8.RuneLen of the decoded runes, which is wrong for bytes that are not valid UTF-8 (they decode
// to U+FFFD, 3 bytes, but occupy 1, and all compare equal) — repaired in wa-lang/wa by decoding with an offset table.
//
//   rune-offsets-from-source — (decoder) the function that turns a text into runes records, for every rune, the byte
//       offset at which it starts: the offset appended is the loop position, the position advances by the size the
//       decoder reported (not by the length of the re-encoded rune), the table ends with len(text), and a byte that is
//       not valid UTF-8 (RuneError with size 1) gets a value of its own above utf8.MaxRune;
//       (edits) the function that calls lcs.DiffRunes builds each Edit from the offset table of the first text at
//       d.Start / d.End and cuts the replacement out of the second text with its table at d.ReplStart / d.ReplEnd;
//       (callers) every caller passes (before, after) in that order.

type localDefs struct {
	info *types.Info
	defs map[types.Object][]string // rendered definitions
	rng  map[types.Object]string   // range value variable -> rendered range expression
	rhs  map[types.Object]ast.Expr // single-definition locals: the defining expression (whole-value definitions only)
}

func newLocalDefs(info *types.Info, fd *ast.FuncDecl) *localDefs {
	ld := &localDefs{info: info, defs: map[types.Object][]string{}, rng: map[types.Object]string{}, rhs: map[types.Object]ast.Expr{}}
	type pending struct {
		obj types.Object
		rhs ast.Expr
		idx int // -1: whole value
	}
	var pend []pending
	var ranges []*ast.RangeStmt
	ast.Inspect(fd.Body, func(n ast.Node) bool {
		switch x := n.(type) {
		case *ast.AssignStmt:
			if len(x.Lhs) == len(x.Rhs) {
				for i, l := range x.Lhs {
					if id, ok := l.(*ast.Ident); ok && id.Name != "_" {
						if x.Tok == token.DEFINE || x.Tok == token.ASSIGN {
							pend = append(pend, pending{info.ObjectOf(id), x.Rhs[i], -1})
						} else {
							pend = append(pend, pending{info.ObjectOf(id), nil, -1}) // op-assign: not a single definition
						}
					}
				}
			} else if len(x.Rhs) == 1 {
				for i, l := range x.Lhs {
					if id, ok := l.(*ast.Ident); ok && id.Name != "_" {
						pend = append(pend, pending{info.ObjectOf(id), x.Rhs[0], i})
					}
				}
			}
		case *ast.IncDecStmt:
			if id, ok := x.X.(*ast.Ident); ok {
				pend = append(pend, pending{info.ObjectOf(id), nil, -1})
			}
		case *ast.RangeStmt:
			ranges = append(ranges, x)
		}
		return true
	})
	count := map[types.Object]int{}
	for _, pd := range pend {
		count[pd.obj]++
	}
	// render in source order so that earlier definitions are available to later ones
	for _, pd := range pend {
		if count[pd.obj] != 1 || pd.rhs == nil {
			continue
		}
		s := ld.render(pd.rhs)
		if pd.idx >= 0 {
			s = fmt.Sprintf("%s#%d", s, pd.idx)
		}
		ld.defs[pd.obj] = []string{s}
		if pd.idx < 0 {
			ld.rhs[pd.obj] = pd.rhs
		}
	}
	for _, r := range ranges {
		if id, ok := r.Value.(*ast.Ident); ok && id.Name != "_" {
			ld.rng[info.ObjectOf(id)] = "elem(" + ld.render(r.X) + ")"
		}
	}
	return ld
}

// render prints e with every local that has exactly one definition replaced by that definition.
func (ld *localDefs) render(e ast.Expr) string {
	switch x := ast.Unparen(e).(type) {
	case *ast.Ident:
		obj := ld.info.ObjectOf(x)
		if d, ok := ld.defs[obj]; ok && len(d) == 1 {
			return d[0]
		}
		if r, ok := ld.rng[obj]; ok {
			return r
		}
		return x.Name
	case *ast.SelectorExpr:
		if id, ok := x.X.(*ast.Ident); ok {
			if _, isPkg := ld.info.Uses[id].(*types.PkgName); isPkg {
				return id.Name + "." + x.Sel.Name
			}
		}
		return ld.render(x.X) + "." + x.Sel.Name
	case *ast.IndexExpr:
		return ld.render(x.X) + "[" + ld.render(x.Index) + "]"
	case *ast.SliceExpr:
		lo, hi := "", ""
		if x.Low != nil {
			lo = ld.render(x.Low)
		}
		if x.High != nil {
			hi = ld.render(x.High)
		}
		return ld.render(x.X) + "[" + lo + ":" + hi + "]"
	case *ast.CallExpr:
		// conversions between string and []byte do not change the bytes
		if tv, ok := ld.info.Types[x.Fun]; ok && tv.IsType() && len(x.Args) == 1 {
			if isStringOrBytes(tv.Type) && isStringOrBytes(ld.info.TypeOf(x.Args[0])) {
				return ld.render(x.Args[0])
			}
		}
		var as []string
		for _, a := range x.Args {
			as = append(as, ld.render(a))
		}
		return ld.render(x.Fun) + "(" + strings.Join(as, ",") + ")"
	case *ast.BinaryExpr:
		return "(" + ld.render(x.X) + x.Op.String() + ld.render(x.Y) + ")"
	case *ast.BasicLit:
		return x.Value
	}
	return types.ExprString(e)
}

func isStringOrBytes(t types.Type) bool {
	if t == nil {
		return false
	}
	switch u := t.Underlying().(type) {
	case *types.Basic:
		return u.Info()&types.IsString != 0
	case *types.Slice:
		b, ok := u.Elem().Underlying().(*types.Basic)
		return ok && b.Kind() == types.Uint8
	}
	return false
}

func c22RunePath(c *Ctx, p *Prog, pk *packages.Package) {
	const rule = "rune-offsets-from-source"
	info := pk.TypesInfo
	calleeIs := func(call *ast.CallExpr, pkgSuffix string, names ...string) bool {
		fn := CalleeOf(info, call)
		if fn == nil || fn.Pkg() == nil || !strings.HasSuffix(fn.Pkg().Path(), pkgSuffix) {
			return false
		}
		for _, n := range names {
			if fn.Name() == n {
				return true
			}
		}
		return false
	}
	// ---- decoders
	decoders := map[string]bool{}
	for _, name := range sortedDeclNames(pk) {
		fd := AllFuncDecls(pk)[name]
		if fd.Body == nil || fd.Type.Results == nil || fd.Type.Results.NumFields() != 2 {
			continue
		}
		var loop *ast.ForStmt
		var dec *ast.AssignStmt
		ast.Inspect(fd.Body, func(n ast.Node) bool {
			fs, ok := n.(*ast.ForStmt)
			if !ok || loop != nil {
				return true
			}
			for _, s := range fs.Body.List {
				if as, ok := s.(*ast.AssignStmt); ok && len(as.Rhs) == 1 && len(as.Lhs) == 2 {
					if call, ok := as.Rhs[0].(*ast.CallExpr); ok && calleeIs(call, "unicode/utf8", "DecodeRuneInString", "DecodeRune") {
						loop, dec = fs, as
					}
				}
			}
			return true
		})
		if loop == nil {
			continue
		}
		decoders[name] = true
		key := "decoder " + name
		pos := p.Pos(dec.Pos())
		call := dec.Rhs[0].(*ast.CallExpr)
		rID, _ := dec.Lhs[0].(*ast.Ident)
		szID, _ := dec.Lhs[1].(*ast.Ident)
		se, _ := ast.Unparen(call.Args[0]).(*ast.SliceExpr)
		if rID == nil || szID == nil || se == nil || se.Low == nil || se.High != nil {
			c.Undecided(rule, key, pos, "the decode step is not of the form `r, sz := utf8.DecodeRune…(text[i:])`")
			continue
		}
		iID, _ := ast.Unparen(se.Low).(*ast.Ident)
		textS := types.ExprString(se.X)
		if iID == nil {
			c.Undecided(rule, key, pos, "the position decoded from is not a variable")
			continue
		}
		iObj, szObj, rObj := info.ObjectOf(iID), info.ObjectOf(szID), info.ObjectOf(rID)
		// (a) the position advances by the decoded size, once, at the top level of the loop body
		var problems []string
		adv, advIdx := 0, -1
		ast.Inspect(loop.Body, func(n ast.Node) bool {
			switch x := n.(type) {
			case *ast.AssignStmt:
				for _, l := range x.Lhs {
					if id, ok := l.(*ast.Ident); ok && info.ObjectOf(id) == iObj {
						okForm := x.Tok == token.ADD_ASSIGN && len(x.Rhs) == 1
						if okForm {
							if rid, ok := ast.Unparen(x.Rhs[0]).(*ast.Ident); !ok || info.ObjectOf(rid) != szObj {
								okForm = false
							}
						}
						if !okForm {
							problems = append(problems, "the position "+iID.Name+" is changed by `"+nodeText(x)+"`, not advanced by the size the decoder reported ("+szID.Name+"): offsets drift from the source text wherever a rune's encoding is not the canonical one (invalid bytes occupy 1 byte, U+FFFD re-encodes to 3)")
						}
						adv++
					}
				}
			case *ast.IncDecStmt:
				if id, ok := x.X.(*ast.Ident); ok && info.ObjectOf(id) == iObj {
					problems = append(problems, "the position "+iID.Name+" advances by one per rune")
					adv++
				}
			}
			return true
		})
		for k, s := range loop.Body.List {
			if as, ok := s.(*ast.AssignStmt); ok && as.Tok == token.ADD_ASSIGN {
				if id, ok := as.Lhs[0].(*ast.Ident); ok && info.ObjectOf(id) == iObj {
					advIdx = k
				}
			}
		}
		if loop.Post != nil {
			problems = append(problems, "the loop has a post statement `"+nodeText(loop.Post)+"` besides the advance by the decoded size")
		}
		if adv != 1 || advIdx < 0 {
			problems = append(problems, fmt.Sprintf("the position is advanced %d times in the loop body (want exactly once, unconditionally)", adv))
		}
		// (b) appends: offsets get the position (before the advance), runes get the rune, both unconditionally
		appendOf := func(s ast.Stmt) (dst string, val ast.Expr, ok bool) {
			as, isAs := s.(*ast.AssignStmt)
			if !isAs || len(as.Lhs) != 1 || len(as.Rhs) != 1 {
				return "", nil, false
			}
			call, isCall := as.Rhs[0].(*ast.CallExpr)
			if !isCall || len(call.Args) != 2 || types.ExprString(call.Fun) != "append" || types.ExprString(call.Args[0]) != types.ExprString(as.Lhs[0]) {
				return "", nil, false
			}
			return types.ExprString(as.Lhs[0]), call.Args[1], true
		}
		var offsName, runesName string
		for k, s := range loop.Body.List {
			dst, val, ok := appendOf(s)
			if !ok {
				continue
			}
			t := info.TypeOf(val)
			if id, isID := ast.Unparen(val).(*ast.Ident); isID && info.ObjectOf(id) == iObj {
				offsName = dst
				if advIdx >= 0 && k > advIdx {
					problems = append(problems, "the offset is recorded after the position was advanced: every rune gets the offset of the next one")
				}
			} else if id, isID := ast.Unparen(val).(*ast.Ident); isID && info.ObjectOf(id) == rObj {
				runesName = dst
			} else if b, isB := t.Underlying().(*types.Basic); isB && b.Info()&types.IsInteger != 0 && dst != "" {
				if sl, isSl := info.TypeOf(s.(*ast.AssignStmt).Lhs[0]).Underlying().(*types.Slice); isSl {
					if eb, _ := sl.Elem().Underlying().(*types.Basic); eb != nil && eb.Kind() == types.Int {
						offsName = dst
						problems = append(problems, "the offset table receives `"+types.ExprString(val)+"`, not the position "+iID.Name+" the rune was decoded at")
					}
				}
			}
		}
		if offsName == "" {
			problems = append(problems, "no statement of the loop body appends the position "+iID.Name+" to an offset table on every iteration")
		}
		if runesName == "" {
			problems = append(problems, "no statement of the loop body appends the decoded rune "+rID.Name+" on every iteration")
		}
		// (b') both lists start empty: a pre-sized list (`make([]rune, n)` / `make([]rune, 1, n)`) puts zero elements in
		// front of the decoded ones and every index the differ reports is off by that many
		for _, s := range fd.Body.List {
			if s == ast.Stmt(loop) {
				break
			}
			as, ok := s.(*ast.AssignStmt)
			if !ok || len(as.Lhs) != len(as.Rhs) {
				continue
			}
			for i, l := range as.Lhs {
				id, ok := l.(*ast.Ident)
				if !ok || (id.Name != runesName && id.Name != offsName) {
					continue
				}
				if call, ok := ast.Unparen(as.Rhs[i]).(*ast.CallExpr); ok && types.ExprString(call.Fun) == "make" && len(call.Args) >= 2 {
					if v, isConst := constIntOf(info, call.Args[1]); !isConst || v != 0 {
						problems = append(problems, id.Name+" starts with `"+types.ExprString(call)+"`, not empty: the elements it already holds sit in front of the decoded ones")
					}
				}
			}
		}
		// (c) the table ends with len(text)
		if offsName != "" {
			final := false
			seenLoop := false
			for _, s := range fd.Body.List {
				if s == ast.Stmt(loop) {
					seenLoop = true
					continue
				}
				if !seenLoop {
					continue
				}
				if dst, val, ok := appendOf(s); ok && dst == offsName && types.ExprString(ast.Unparen(val)) == "len("+textS+")" {
					final = true
				}
			}
			if !final {
				problems = append(problems, "after the loop the offset table "+offsName+" is not closed with len("+textS+"): an edit that ends at the end of the text indexes past the table")
			}
		}
		// (d) an invalid byte gets its own value
		marked := false
		for _, s := range loop.Body.List {
			ifs, ok := s.(*ast.IfStmt)
			if !ok || ifs.Else != nil {
				continue
			}
			conj := map[string]bool{}
			var split func(e ast.Expr)
			split = func(e ast.Expr) {
				if be, ok := ast.Unparen(e).(*ast.BinaryExpr); ok && be.Op == token.LAND {
					split(be.X)
					split(be.Y)
					return
				}
				conj[types.ExprString(ast.Unparen(e))] = true
			}
			split(ifs.Cond)
			isErr := conj[rID.Name+" == utf8.RuneError"] || conj["utf8.RuneError == "+rID.Name]
			isOne := conj[szID.Name+" == 1"] || conj["1 == "+szID.Name] || conj[szID.Name+" < 2"] || conj[szID.Name+" <= 1"]
			if !isErr && !isOne {
				continue
			}
			if len(conj) != 2 || !isErr || !isOne {
				problems = append(problems, "the test for an invalid byte is `"+types.ExprString(ifs.Cond)+"`: a byte is invalid exactly when the decoder returns utf8.RuneError with size 1 (a U+FFFD written in the text decodes to RuneError with size 3 and is an ordinary rune)")
			}
			for _, bs := range ifs.Body.List {
				as, ok := bs.(*ast.AssignStmt)
				if !ok || len(as.Lhs) != 1 || len(as.Rhs) != 1 {
					continue
				}
				if id, ok := as.Lhs[0].(*ast.Ident); !ok || info.ObjectOf(id) != rObj {
					continue
				}
				be, ok := ast.Unparen(as.Rhs[0]).(*ast.BinaryExpr)
				if !ok || be.Op != token.ADD {
					continue
				}
				var kv constant.Value
				var other ast.Expr
				if tv, ok := info.Types[be.X]; ok && tv.Value != nil {
					kv, other = tv.Value, be.Y
				} else if tv, ok := info.Types[be.Y]; ok && tv.Value != nil {
					kv, other = tv.Value, be.X
				}
				if kv == nil {
					continue
				}
				k, _ := constant.Int64Val(kv)
				if k <= 0x10FFFF {
					problems = append(problems, fmt.Sprintf("invalid bytes are mapped to %d + byte, which collides with valid runes (must lie above utf8.MaxRune)", k))
				}
				if k > 0x7fffff00 {
					problems = append(problems, "the base for invalid bytes overflows a rune when a byte is added")
				}
				// the byte added is text[i]
				okByte := false
				ast.Inspect(other, func(m ast.Node) bool {
					if ix, ok := m.(*ast.IndexExpr); ok && types.ExprString(ix.X) == textS {
						if id, ok := ast.Unparen(ix.Index).(*ast.Ident); ok && info.ObjectOf(id) == iObj {
							okByte = true
						}
					}
					return true
				})
				if !okByte {
					problems = append(problems, "the value given to an invalid byte does not depend on the byte at the current position ("+textS+"["+iID.Name+"]): different invalid bytes compare equal and a change between them is not reported")
				}
				marked = true
			}
		}
		if !marked {
			problems = append(problems, "a byte that is not valid UTF-8 keeps the value utf8.RuneError: all invalid bytes (and a U+FFFD written in the text) compare equal, so `\\xff` -> `\\xfe` yields no edit")
		}
		c.Check(len(problems) == 0, rule, key, pos, "offset = loop position, advance = decoded size, table closed with len(text), invalid bytes distinct", strings.Join(problems, "; "))
	}
	c.Min(rule, "rune decoders with an offset table", len(decoders), 1)

	// ---- the function that turns lcs diffs into edits
	users := map[string]bool{}
	for _, name := range sortedDeclNames(pk) {
		fd := AllFuncDecls(pk)[name]
		if fd.Body == nil {
			continue
		}
		var dcall *ast.CallExpr
		ast.Inspect(fd.Body, func(n ast.Node) bool {
			if call, ok := n.(*ast.CallExpr); ok && calleeIs(call, "internal/lsp/diff/lcs", "DiffRunes") {
				dcall = call
			}
			return true
		})
		if dcall == nil {
			continue
		}
		users[name] = true
		key := "edits " + name
		ld := newLocalDefs(info, fd)
		var params []string
		for _, fl := range fd.Type.Params.List {
			for _, nm := range fl.Names {
				params = append(params, nm.Name)
			}
		}
		if len(params) != 2 {
			c.Undecided(rule, key, p.Pos(fd.Pos()), "expected two text parameters")
			continue
		}
		var decName string
		for d := range decoders {
			decName = d
		}
		A, B := params[0], params[1]
		runesOf := func(t string) string { return decName + "(" + t + ")#0" }
		offsOf := func(t string) string { return decName + "(" + t + ")#1" }
		var problems []string
		if got, want := ld.render(dcall.Args[0]), runesOf(A); got != want {
			problems = append(problems, "the first sequence given to lcs.DiffRunes is "+got+", want the runes of "+A)
		}
		if got, want := ld.render(dcall.Args[1]), runesOf(B); got != want {
			problems = append(problems, "the second sequence given to lcs.DiffRunes is "+got+", want the runes of "+B)
		}
		elem := "elem(" + ld.render(dcall) + ")"
		nEdit := 0
		ast.Inspect(fd.Body, func(n ast.Node) bool {
			cl, ok := n.(*ast.CompositeLit)
			if !ok || namedTypeName(info.TypeOf(cl)) != "Edit" {
				return true
			}
			nEdit++
			vals := map[string]ast.Expr{}
			order := []string{"Start", "End", "New"}
			for i, el := range cl.Elts {
				if kv, ok := el.(*ast.KeyValueExpr); ok {
					vals[types.ExprString(kv.Key)] = kv.Value
				} else if i < len(order) {
					vals[order[i]] = el
				}
			}
			want := map[string]string{
				"Start": offsOf(A) + "[" + elem + ".Start]",
				"End":   offsOf(A) + "[" + elem + ".End]",
				"New":   B + "[" + offsOf(B) + "[" + elem + ".ReplStart]:" + offsOf(B) + "[" + elem + ".ReplEnd]]",
			}
			for _, f := range order {
				v, ok := vals[f]
				if !ok {
					problems = append(problems, "the Edit has no "+f)
					continue
				}
				if got := ld.render(v); got != want[f] {
					problems = append(problems, fmt.Sprintf("Edit.%s is %s, want %s (the byte offsets of the runes lcs.DiffRunes names, in the text they index)", f, got, want[f]))
				}
			}
			return true
		})
		if nEdit != 1 {
			problems = append(problems, fmt.Sprintf("%d Edit literals (want one, built per lcs diff)", nEdit))
		}
		c.Check(len(problems) == 0, rule, key, p.Pos(dcall.Pos()), "Edit{offs(before)[d.Start], offs(before)[d.End], after[offs(after)[d.ReplStart]:offs(after)[d.ReplEnd]]}", strings.Join(problems, "; "))
	}
	c.Min(rule, "functions that turn rune diffs into edits", len(users), 1)

	// ---- callers pass (before, after) in order
	nCall := 0
	for _, name := range sortedDeclNames(pk) {
		fd := AllFuncDecls(pk)[name]
		if fd.Body == nil || users[name] {
			continue
		}
		ld := newLocalDefs(info, fd)
		var params []string
		for _, fl := range fd.Type.Params.List {
			for _, nm := range fl.Names {
				params = append(params, nm.Name)
			}
		}
		ast.Inspect(fd.Body, func(n ast.Node) bool {
			call, ok := n.(*ast.CallExpr)
			if !ok || len(call.Args) != 2 {
				return true
			}
			fn := CalleeOf(info, call)
			if fn == nil || fn.Pkg() != pk.Types || !users[fn.Name()] {
				return true
			}
			nCall++
			if len(params) != 2 {
				c.Undecided(rule, "caller "+name, p.Pos(call.Pos()), "caller does not have two text parameters")
				return true
			}
			g0, g1 := ld.render(call.Args[0]), ld.render(call.Args[1])
			c.Check(g0 == params[0] && g1 == params[1], rule, "caller "+name, p.Pos(call.Pos()), "passes ("+params[0]+", "+params[1]+") unchanged",
				fmt.Sprintf("%s calls %s(%s, %s): the texts must be passed as (%s, %s) — swapped or altered texts give edits for another pair of texts", name, fn.Name(), g0, g1, params[0], params[1]))
			return true
		})
	}
	c.Min(rule, "callers of the rune path", nCall, 2)
}

func nodeText(n ast.Node) string {
	switch x := n.(type) {
	case ast.Expr:
		return types.ExprString(x)
	case *ast.AssignStmt:
		var l, r []string
		for _, e := range x.Lhs {
			l = append(l, types.ExprString(e))
		}
		for _, e := range x.Rhs {
			r = append(r, types.ExprString(e))
		}
		return strings.Join(l, ", ") + " " + x.Tok.String() + " " + strings.Join(r, ", ")
	case *ast.IncDecStmt:
		return types.ExprString(x.X) + x.Tok.String()
	}
	return fmt.Sprintf("%T", n)
}
