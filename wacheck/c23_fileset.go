package main

import (
	"fmt"
	"go/ast"
	"go/token"
	"go/types"
	"strings"

	"golang.org/x/tools/go/packages"
)

// C23 extra rules (added after seeded changes were missed):
//   fileset-range-reserved — a file added to a FileSet reserves the Pos range [base, base+capacity] (it may grow up to
//       its capacity later). The next file's base is advanced by exactly what was stored as the file's capacity, plus
//       one for EOF; advancing by less (the current size) lets the next file's range start inside this one's, and
//       positions of the grown file resolve to the other file.
//   fileset-cache-invalidation — FileSet.last caches the file found by the previous lookup. Every method that writes
//       the file list also writes the cache (to the new file, or to nil): a stale cache answers lookups from a file
//       that is no longer in the list (after FromJson / Read into a used set).

func c23FileSet(c *Ctx, p *Prog, tk *packages.Package) {
	const r1, r2 = "fileset-range-reserved", "fileset-cache-invalidation"
	info := tk.TypesInfo
	if fd := p.MustFunc(r1, tk, "FileSet.addFile"); fd != nil {
		var capObj types.Object
		var adv ast.Expr
		ast.Inspect(fd.Body, func(n ast.Node) bool {
			switch x := n.(type) {
			case *ast.CompositeLit:
				if namedTypeName(info.TypeOf(x)) == "File" {
					for _, el := range x.Elts {
						if kv, ok := el.(*ast.KeyValueExpr); ok && types.ExprString(kv.Key) == "capacity" {
							capObj = identObj(info, kv.Value)
						}
					}
				}
			case *ast.AssignStmt:
				if x.Tok == token.ADD_ASSIGN && len(x.Lhs) == 1 && types.ExprString(x.Lhs[0]) == "base" {
					adv = x.Rhs[0]
				}
			}
			return true
		})
		if capObj == nil || adv == nil {
			c.Undecided(r1, "FileSet.addFile", p.Pos(fd.Pos()), "the File literal's capacity or the `base += …` statement was not found")
		} else {
			// adv = <capacity> + 1
			ok := false
			if be, isBin := ast.Unparen(adv).(*ast.BinaryExpr); isBin && be.Op == token.ADD {
				x, y := be.X, be.Y
				if _, isK := constIntOf(info, x); isK {
					x, y = y, x
				}
				k, isK := constIntOf(info, y)
				ok = identObj(info, x) == capObj && isK && k >= 1
			}
			c.Check(ok, r1, "FileSet.addFile", p.Pos(adv.Pos()), "base advances by the stored capacity + 1",
				fmt.Sprintf("addFile stores capacity %s in the file but advances the set's base by `%s`: the next file's range can start inside the range this file may still grow into, and positions in the grown part resolve to the wrong file, line and column", capObj.Name(), types.ExprString(adv)))
		}
	}
	// cache invalidation
	n := 0
	for _, f := range tk.Syntax {
		for _, d := range f.Decls {
			fd, ok := d.(*ast.FuncDecl)
			if !ok || fd.Body == nil || fd.Recv == nil || len(fd.Recv.List) != 1 || recvTypeName(fd.Recv.List[0].Type) != "FileSet" {
				continue
			}
			var lists [][]ast.Stmt
			ast.Inspect(fd.Body, func(nd ast.Node) bool {
				switch x := nd.(type) {
				case *ast.BlockStmt:
					lists = append(lists, x.List)
				case *ast.CaseClause:
					lists = append(lists, x.Body)
				}
				return true
			})
			k := 0
			for _, l := range lists {
				for i, s := range l {
					as, ok := s.(*ast.AssignStmt)
					if !ok || len(as.Lhs) != 1 || !strings.HasSuffix(types.ExprString(as.Lhs[0]), ".files") {
						continue
					}
					n++
					k++
					wrote := false
					for _, t := range l[i+1:] {
						if a2, ok := t.(*ast.AssignStmt); ok && len(a2.Lhs) == 1 && strings.HasSuffix(types.ExprString(a2.Lhs[0]), ".last") {
							wrote = true
						}
					}
					c.Check(wrote, r2, fmt.Sprintf("FileSet.%s: write #%d of the file list", fd.Name.Name, k), p.Pos(as.Pos()), "followed by a write of the lookup cache",
						"FileSet."+fd.Name.Name+" replaces or extends the file list without touching the lookup cache `last`: a later lookup of a position in the cached file's old range is answered from that stale file (wrong file name and line table)")
				}
			}
		}
	}
	c.Min(r2, "writes of FileSet.files", n, 2)
}
