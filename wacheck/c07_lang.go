package main

import (
	"go/ast"
	"go/token"
	"go/types"
	"strings"

	"golang.org/x/tools/go/packages"
)

// langCalls reads format.File for one fixed detected language: the functions of the package that can be called when
// xlang.DetectLang answered the constant named lang. A switch on the detected language takes the arm that lists the
// constant (or default), `lang == K` / `lang != K` tests are decided, other conditions take both branches, and
// function-valued locals (`f := SourceFile; if lang == Wz { f = _SourceFile_wz }; f(text)`) are followed.
// dispatches reports how many language tests were decided (0: the function does not dispatch on the language).
func langCalls(info *types.Info, fp *packages.Package, fd *ast.FuncDecl, lang string) (called map[*types.Func]bool, dispatches int) {
	called = map[*types.Func]bool{}
	langVars := map[types.Object]bool{}
	isLang := func(e ast.Expr) bool {
		e = ast.Unparen(e)
		if call, ok := e.(*ast.CallExpr); ok {
			if fn := CalleeOf(info, call); fn != nil && fn.Name() == "DetectLang" {
				return true
			}
		}
		if id, ok := e.(*ast.Ident); ok {
			return langVars[info.ObjectOf(id)]
		}
		return false
	}
	// +1 true, -1 false, 0 unknown
	var cond func(e ast.Expr) int
	cond = func(e ast.Expr) int {
		e = ast.Unparen(e)
		switch x := e.(type) {
		case *ast.UnaryExpr:
			if x.Op == token.NOT {
				return -cond(x.X)
			}
		case *ast.BinaryExpr:
			switch x.Op {
			case token.LAND:
				a, b := cond(x.X), cond(x.Y)
				if a < 0 || b < 0 {
					return -1
				}
				if a > 0 && b > 0 {
					return +1
				}
				return 0
			case token.LOR:
				a, b := cond(x.X), cond(x.Y)
				if a > 0 || b > 0 {
					return +1
				}
				if a < 0 && b < 0 {
					return -1
				}
				return 0
			case token.EQL, token.NEQ:
				l, k := x.X, x.Y
				if !isLang(l) {
					l, k = x.Y, x.X
				}
				if !isLang(l) {
					return 0
				}
				name := constOfExpr(info, k).Name
				if name == "" {
					return 0
				}
				dispatches++
				v := -1
				if name == lang {
					v = +1
				}
				if x.Op == token.NEQ {
					v = -v
				}
				return v
			}
		}
		return 0
	}
	type binds map[types.Object]map[*types.Func]bool
	copyB := func(b binds) binds {
		n := binds{}
		for k, v := range b {
			m := map[*types.Func]bool{}
			for f := range v {
				m[f] = true
			}
			n[k] = m
		}
		return n
	}
	merge := func(a, b binds) binds {
		n := copyB(a)
		for k, v := range b {
			if n[k] == nil {
				n[k] = map[*types.Func]bool{}
			}
			for f := range v {
				n[k][f] = true
			}
		}
		return n
	}
	funcOf := func(e ast.Expr) *types.Func {
		switch x := ast.Unparen(e).(type) {
		case *ast.Ident:
			if f, ok := info.ObjectOf(x).(*types.Func); ok && f.Pkg() == fp.Types {
				return f
			}
		}
		return nil
	}
	var exprs func(n ast.Node, b binds)
	exprs = func(n ast.Node, b binds) {
		if n == nil {
			return
		}
		ast.Inspect(n, func(m ast.Node) bool {
			call, ok := m.(*ast.CallExpr)
			if !ok {
				return true
			}
			if fn := CalleeOf(info, call); fn != nil && fn.Pkg() == fp.Types {
				called[fn] = true
			} else if id, ok := ast.Unparen(call.Fun).(*ast.Ident); ok {
				for f := range b[info.ObjectOf(id)] {
					called[f] = true
				}
			}
			return true
		})
	}
	var stmts func(list []ast.Stmt, b binds) (binds, bool)
	stmts = func(list []ast.Stmt, b binds) (binds, bool) {
		for _, s := range list {
			switch x := s.(type) {
			case *ast.AssignStmt:
				for _, r := range x.Rhs {
					exprs(r, b)
				}
				if len(x.Lhs) == len(x.Rhs) {
					for i, l := range x.Lhs {
						id, ok := l.(*ast.Ident)
						if !ok {
							continue
						}
						obj := info.ObjectOf(id)
						if isLang(x.Rhs[i]) {
							langVars[obj] = true
						}
						if f := funcOf(x.Rhs[i]); f != nil {
							b[obj] = map[*types.Func]bool{f: true}
						}
					}
				}
			case *ast.ReturnStmt:
				exprs(x, b)
				return b, true
			case *ast.BlockStmt:
				var t bool
				b, t = stmts(x.List, b)
				if t {
					return b, true
				}
			case *ast.IfStmt:
				if x.Init != nil {
					b, _ = stmts([]ast.Stmt{x.Init}, b)
				}
				exprs(x.Cond, b)
				v := cond(x.Cond)
				var elseList []ast.Stmt
				switch e := x.Else.(type) {
				case *ast.BlockStmt:
					elseList = e.List
				case *ast.IfStmt:
					elseList = []ast.Stmt{e}
				}
				switch {
				case v > 0:
					var t bool
					b, t = stmts(x.Body.List, b)
					if t {
						return b, true
					}
				case v < 0:
					var t bool
					b, t = stmts(elseList, b)
					if t {
						return b, true
					}
				default:
					b1, t1 := stmts(x.Body.List, copyB(b))
					b2, t2 := stmts(elseList, copyB(b))
					switch {
					case t1 && t2:
						return b, true
					case t1:
						b = b2
					case t2:
						b = b1
					default:
						b = merge(b1, b2)
					}
				}
			case *ast.SwitchStmt:
				if x.Init != nil {
					b, _ = stmts([]ast.Stmt{x.Init}, b)
				}
				if x.Tag != nil {
					exprs(x.Tag, b)
				}
				if x.Tag != nil && isLang(x.Tag) {
					dispatches++
					var take, def *ast.CaseClause
					for _, cs := range x.Body.List {
						cc := cs.(*ast.CaseClause)
						if cc.List == nil {
							def = cc
						}
						for _, e := range cc.List {
							if constOfExpr(info, e).Name == lang {
								take = cc
							}
						}
					}
					if take == nil {
						take = def
					}
					if take != nil {
						var t bool
						b, t = stmts(take.Body, b)
						if t {
							return b, true
						}
					}
					continue
				}
				// another switch: any arm
				acc := copyB(b)
				for _, cs := range x.Body.List {
					cc := cs.(*ast.CaseClause)
					for _, e := range cc.List {
						exprs(e, b)
					}
					b1, t1 := stmts(cc.Body, copyB(b))
					if !t1 {
						acc = merge(acc, b1)
					}
				}
				b = acc
			case *ast.ForStmt:
				b1, _ := stmts(x.Body.List, copyB(b))
				b = merge(b, b1)
			case *ast.RangeStmt:
				exprs(x.X, b)
				b1, _ := stmts(x.Body.List, copyB(b))
				b = merge(b, b1)
			default:
				exprs(s, b)
			}
		}
		return b, false
	}
	stmts(fd.Body.List, binds{})
	return called, dispatches
}

func langConstNames() map[string][2]string {
	return map[string][2]string{
		"LangType_Wa": {"internal/parser", "internal/printer"},
		"LangType_Wz": {"internal/parser/w2parser", "internal/printer/w2printer"},
	}
}

var _ = strings.HasPrefix
