package main

import (
	"fmt"
	"go/token"
	"go/types"
	"sort"
	"strings"

	"golang.org/x/tools/go/packages"
	"golang.org/x/tools/go/ssa"
)

func init() {
	f := "internal/lsp/server_text_sync.go"
	register(&Property{ID: "C21", Run: runC21, Mutants: []Mutant{
		{Name: "range end computed from the column delta on an ASCII fast path", File: "internal/lsp/protocol/mapper.go", Old: "\tend, err := m.PositionOffset(r.End)\n\tif err != nil {\n\t\treturn 0, 0, err\n\t}\n\treturn start, end, nil", New: "\tif !m.nonASCII && r.End.Line == r.Start.Line && r.End.Character >= r.Start.Character {\n\t\tend := start + int(r.End.Character-r.Start.Character)\n\t\tif end > len(m.Content) {\n\t\t\treturn 0, 0, fmt.Errorf(\"column is beyond end of file\")\n\t\t}\n\t\treturn start, end, nil\n\t}\n\tend, err := m.PositionOffset(r.End)\n\tif err != nil {\n\t\treturn 0, 0, err\n\t}\n\treturn start, end, nil", Expect: "range-end-validated"},
		{Name: "rangeLength (UTF-16 units) compared with the byte length of the range", File: f, Old: "\t\tvar buf bytes.Buffer\n\t\tbuf.Write(content[:start])", New: "\t\tif change.RangeLength != 0 && int(change.RangeLength) != end-start {\n\t\t\treturn nil, fmt.Errorf(\"%w: range length mismatch\", jsonrpc2.ErrInternal)\n\t\t}\n\t\tvar buf bytes.Buffer\n\t\tbuf.Write(content[:start])", Expect: "utf16-byte-mixing"},
		{Name: "an empty change list empties the document", File: "internal/lsp/server_text_sync.go", Old: "\t\treturn nil, fmt.Errorf(\"%w: no content changes provided\", jsonrpc2.ErrInternal)", New: "\t\treturn nil, nil", Expect: "change-result-is-text"},
		{Name: "didOpen keeps the text of an earlier session", File: "internal/lsp/server_text_sync.go", Old: "\tp.fileMap[params.TextDocument.URI.Path()] = params.TextDocument.Text\n", New: "\tif _, ok := p.fileMap[params.TextDocument.URI.Path()]; !ok {\n\t\tp.fileMap[params.TextDocument.URI.Path()] = params.TextDocument.Text\n\t}\n", Expect: "open-replaces-text"},
		{Name: "a valid U+FFFD is taken for invalid UTF-8", File: "internal/lsp/protocol/mapper.go", Old: "if sz == 1 && r == utf8.RuneError {", New: "if r == utf8.RuneError {", Expect: "invalid-utf8-test"},
		{Name: "store happens before the error check", File: f, Old: "\ttext, err := p.changedText(params.TextDocument.URI, params.ContentChanges)\n\tif err != nil {\n\t\treturn err\n\t}\n", New: "\ttext, err := p.changedText(params.TextDocument.URI, params.ContentChanges)\n\tp.fileMap[params.TextDocument.URI.Path()] = string(text)\n\tif err != nil {\n\t\treturn err\n\t}\n", Expect: "error-implies-no-store"},
		{Name: "successful change is not stored", File: f, Old: "\tp.fileMap[params.TextDocument.URI.Path()] = string(text)\n\treturn nil\n}\nfunc (s *LSPServer) changedText", New: "\treturn nil\n}\nfunc (s *LSPServer) changedText", Expect: "success-implies-store"},
		{Name: "store keyed by the raw URI", File: f, Old: "\tp.fileMap[params.TextDocument.URI.Path()] = string(text)\n\treturn nil", New: "\tp.fileMap[string(params.TextDocument.URI)] = string(text)\n\treturn nil", Expect: "key-consistency"},
		{Name: "mapper built once on the original content", File: f, Old: "\tfor _, change := range changes {\n\t\tm := protocol.NewMapper(uri, content)\n", New: "\tm := protocol.NewMapper(uri, content)\n\tfor _, change := range changes {\n", Expect: "sequential-application"},
		{Name: "replacement text written after the tail", File: f, Old: "\t\tbuf.WriteString(change.Text)\n\t\tbuf.Write(content[end:])", New: "\t\tbuf.Write(content[end:])\n\t\tbuf.WriteString(change.Text)", Expect: "splice-order"},
		{Name: "hover handler rewrites the document store", File: "internal/lsp/server_hover.go", Old: "\tp.logger.Println(\"Hover.text:\", p.fileMap[params.TextDocument.URI.Path()])", New: "\tp.logger.Println(\"Hover.text:\", p.fileMap[params.TextDocument.URI.Path()])\n\tp.fileMap[params.TextDocument.URI.Path()] = strings.TrimSpace(p.fileMap[params.TextDocument.URI.Path()])", Expect: "who-writes-the-store"},
		{Name: "invalid range tolerated", File: f, Old: "\t\tif end < start {\n\t\t\treturn nil, fmt.Errorf(\"%w: invalid range for content change\", jsonrpc2.ErrInternal)\n\t\t}\n", New: "\t\tif end < start {\n\t\t\tend = start\n\t\t}\n", Expect: "range-rejection"},
	}})
}

func isFileMapField(v ssa.Value) bool {
	// the map value is a load of FieldAddr(..., fileMap)
	u, ok := v.(*ssa.UnOp)
	if !ok || u.Op != token.MUL {
		return false
	}
	fa, ok := u.X.(*ssa.FieldAddr)
	if !ok {
		return false
	}
	st, ok := fa.X.Type().Underlying().(*types.Pointer)
	if !ok {
		return false
	}
	s, ok := st.Elem().Underlying().(*types.Struct)
	return ok && s.Field(fa.Field).Name() == "fileMap"
}

func runC21(c *Ctx) {
	c.Explain = "Decides the store discipline of the language server's document cache (LSPServer.fileMap): (1) only DidOpen and DidChange write it; (2) in DidChange the store is dominated by the err == nil outcome of changedText, and changedText/applyIncrementalChanges never write it and work on a fresh copy; " +
		"(3) every path of DidChange that returns nil passes through the store; (4) every read and write of the cache derives its key with URI.Path(); (5) incremental changes are applied sequentially: the position mapper is rebuilt inside the loop on the loop-carried content, the new content is prefix + change text + suffix in that order, and a range with end < start or a nil range is rejected with an error. " +
		"NOT decided: the UTF-16 position arithmetic of protocol.Mapper (value-level)."
	c.Trusted = []string{"go/packages, go/types, go/ssa (x/tools v0.29.0)"}
	p := c.Load(LoadOpt{}, "./internal/lsp")
	pk := p.MustPkg("who-writes-the-store", "internal/lsp")
	if pk == nil {
		return
	}
	c21SyncExtra(c, p, pk)
	c21Units(c, p, pk, p.MustPkg("range-end-validated", "internal/lsp/protocol"))
	{
		var lspPkgs []*packages.Package
		for rel, q := range p.All {
			if strings.Contains(rel, "internal/lsp") {
				lspPkgs = append(lspPkgs, q)
			}
		}
		c21RuneError(c, p, lspPkgs)
	}
	p.BuildSSA()
	sp := p.SSAPkg(pk)
	const r1, r2, r3, r4, r5, r6, r7 = "who-writes-the-store", "error-implies-no-store", "success-implies-store", "key-consistency", "sequential-application", "splice-order", "range-rejection"

	// all functions of the package (methods included)
	var fns []*ssa.Function
	for _, m := range sp.Members {
		switch x := m.(type) {
		case *ssa.Function:
			fns = append(fns, x)
		case *ssa.Type:
			for _, t := range []types.Type{x.Type(), types.NewPointer(x.Type())} {
				ms := p.SSA.MethodSets.MethodSet(t)
				for i := 0; i < ms.Len(); i++ {
					if f := p.SSA.MethodValue(ms.At(i)); f != nil && f.Pkg == sp && f.Synthetic == "" {
						fns = append(fns, f)
					}
				}
			}
		}
	}
	seenFn := map[*ssa.Function]bool{}
	var all []*ssa.Function
	var addFn func(f *ssa.Function)
	addFn = func(f *ssa.Function) {
		if seenFn[f] {
			return
		}
		seenFn[f] = true
		all = append(all, f)
		for _, a := range f.AnonFuncs {
			addFn(a)
		}
	}
	for _, f := range fns {
		addFn(f)
	}
	sort.Slice(all, func(i, j int) bool { return all[i].String() < all[j].String() })
	c.Count("functions_scanned", len(all))

	writers := map[string]bool{}
	nAccess := 0
	for _, f := range all {
		for _, b := range f.Blocks {
			for _, ins := range b.Instrs {
				var m, key ssa.Value
				kind := ""
				switch x := ins.(type) {
				case *ssa.MapUpdate:
					m, key, kind = x.Map, x.Key, "write"
				case *ssa.Lookup:
					m, key, kind = x.X, x.Index, "read"
				default:
					continue
				}
				if !isFileMapField(m) {
					continue
				}
				nAccess++
				if kind == "write" {
					writers[f.Name()] = true
				}
				// (4) key derivation
				good := false
				if call, ok := key.(*ssa.Call); ok && strings.HasSuffix(calleeName(&call.Call), "protocol.DocumentURI.Path") {
					good = true
				}
				c.Check(good, r4, fmt.Sprintf("%s: %s of fileMap", short(f.String()), kind), p.Pos(ins.Pos()), "key is URI.Path()", "the document cache is accessed with a key that is not URI.Path(): reads and writes of the same document use different keys")
			}
		}
	}
	c.Min(r4, "fileMap accesses", nAccess, 5)
	var wl []string
	for w := range writers {
		wl = append(wl, w)
	}
	sort.Strings(wl)
	for _, w := range wl {
		c.Check(w == "DidOpen" || w == "DidChange", r1, "fileMap written by "+w, "", "document notifications own the cache", "function "+w+" writes the document cache; only DidOpen and DidChange may (any other writer makes the server's copy diverge from the client's)")
	}
	c.Check(writers["DidOpen"] && writers["DidChange"], r1, "DidOpen and DidChange write fileMap", "", "both notification handlers store the text", fmt.Sprintf("writers found: %v", wl))

	// (2)+(3) DidChange
	dc := p.SSAFunc(pk, "LSPServer.DidChange")
	if dc == nil {
		c.Undecided(r2, "anchor:LSPServer.DidChange", "", "does not resolve")
	} else {
		var store *ssa.MapUpdate
		var stores []*ssa.MapUpdate
		for _, b := range dc.Blocks {
			for _, ins := range b.Instrs {
				if mu, ok := ins.(*ssa.MapUpdate); ok && isFileMapField(mu.Map) {
					store = mu
					stores = append(stores, mu)
				}
			}
		}
		if store == nil {
			c.Fail(r3, "DidChange: successful path stores", p.Pos(dc.Pos()), "DidChange never stores the changed text: the server's copy stays at the opened version")
		}
		// The text producers: calls into the package whose first result flows (through conversions and phis) into the
		// stored value, whatever they are called — today changedText, which may be inlined into DidChange, in which
		// case applyIncrementalChanges is the producer and the full-text change is read in place.
		producers, otherRoots := c21TextProducers(store)
		textProducerCalls = producers
		var tests []ErrTest
		for _, t := range errTests(dc) {
			if ex, ok := t.Err.(*ssa.Extract); ok {
				if call, ok := ex.Tuple.(*ssa.Call); ok && producers[call] {
					tests = append(tests, t)
				}
			}
		}
		if store == nil || len(producers) == 0 || len(tests) < len(producers) {
			c.Fail(r2, "DidChange: store vs changedText error", p.Pos(dc.Pos()), fmt.Sprintf("the store, or the error test on the call that computes the stored text, was not found (%d producing calls, %d tested)", len(producers), len(tests)))
		} else {
			// no store is reachable from the failing outcome of a producer
			allDom := true
			for _, test := range tests {
				if test.Ignored {
					allDom = false
				}
				for _, st := range stores {
					if blockReaches(test.NonNil, st.Block()) {
						allDom = false
					}
				}
			}
			// … and none before the outcome was tested
			for pc := range producers {
				for _, st := range stores {
					if storeAfterUntestedProducer(pc, tests, st) {
						allDom = false
					}
				}
			}
			c.Check(allDom, r2, "DidChange: store vs changedText error", p.Pos(store.Pos()), "no store is reachable once the computation of the text failed", "the document is stored on a path where computing the changed text returned an error: an invalid range corrupts the stored text")
			// the stored value is the computed text (or the full text of the only change)
			c.Check(len(otherRoots) == 0, r2, "DidChange: stored value", p.Pos(store.Pos()), "stores the text computed from the change", "the stored value is not only the text computed from the change: it can also be "+strings.Join(otherRoots, ", "))
			// (3) all nil-returning paths pass through the store
			outs := walkPaths(dc.Blocks[0], 5000)
			nOK := 0
			for _, o := range outs {
				if o.Kind != "return" || o.Val == nil || !isNilConst(resolveThroughStores(o.Val, o.Stores)) {
					continue
				}
				through := false
				calledChanged := false
				for _, b := range o.Trace {
					if b == store.Block() {
						through = true
					}
				}
				for _, cc := range o.Calls {
					for pc := range producers {
						if cc == &pc.Call {
							calledChanged = true
						}
					}
				}
				if through {
					nOK++
					continue
				}
				construct := "DidChange: return nil without storing (after changedText)"
				if !calledChanged {
					construct = "DidChange: return nil without storing (before changedText)"
				}
				c.Fail(r3, construct, instrPos(p, o.Instr, o.Trace[len(o.Trace)-1]), "a change notification is acknowledged (nil) without updating the stored document: the server's copy no longer equals the client's")
			}
			c.Check(nOK > 0, r3, "DidChange: successful path stores", p.Pos(store.Pos()), fmt.Sprintf("%d nil-returning paths pass through the store", nOK), "no successful path stores the document")
		}
	}

	c21ChangeResult(c, p, pk)

	// (5) applyIncrementalChanges
	ai := p.SSAFunc(pk, "LSPServer.applyIncrementalChanges")
	if ai == nil {
		c.Undecided(r5, "anchor:LSPServer.applyIncrementalChanges", "", "does not resolve")
		return
	}
	// fresh copy: content starts as a string->[]byte conversion of the cache lookup
	// The per-change work may sit in the loop body or in a helper of the package the loop calls
	// (`updated, err := applyContentChange(uri, content, &changes[i])`): the rules read the function and the helpers
	// it calls directly; what a rule finds in a helper is carried to the call site (parameter -> argument, returned
	// value -> extracted result, returned error -> tested and returned by the caller).
	funcs := []*ssa.Function{ai}
	siteOf := map[*ssa.Function]*ssa.Call{}
	for _, b := range ai.Blocks {
		for _, ins := range b.Instrs {
			if call, ok := ins.(*ssa.Call); ok {
				if g := call.Call.StaticCallee(); g != nil && g != ai && g.Pkg == ai.Pkg && len(g.Blocks) > 0 && siteOf[g] == nil {
					funcs = append(funcs, g)
					siteOf[g] = call
				}
			}
		}
	}
	var phi *ssa.Phi
	var newMapper *ssa.Call
	var mapperIn *ssa.Function
	for _, f := range funcs {
		for _, b := range f.Blocks {
			for _, ins := range b.Instrs {
				if call, ok := ins.(*ssa.Call); ok && strings.HasSuffix(calleeName(&call.Call), "protocol.NewMapper") {
					newMapper, mapperIn = call, f
				}
			}
		}
	}
	// returnsBytes: some return of g answers buffer.Bytes() as its first result
	returnsBytes := func(g *ssa.Function) bool {
		for _, b := range g.Blocks {
			if r, ok := b.Instrs[len(b.Instrs)-1].(*ssa.Return); ok && len(r.Results) > 0 {
				if call, ok := r.Results[0].(*ssa.Call); ok && strings.HasSuffix(calleeName(&call.Call), "bytes.Buffer.Bytes") {
					return true
				}
			}
		}
		return false
	}
	if newMapper == nil {
		c.Fail(r5, "applyIncrementalChanges: NewMapper", p.Pos(ai.Pos()), "no position mapper is built")
	} else {
		arg := newMapper.Call.Args[1]
		loopSite := newMapper
		if mapperIn != ai {
			// the helper must build the mapper from a parameter; the caller's argument is what counts
			if prm, ok := arg.(*ssa.Parameter); ok {
				for k, q := range mapperIn.Params {
					if q == prm && k < len(siteOf[mapperIn].Call.Args) {
						arg = siteOf[mapperIn].Call.Args[k]
					}
				}
			}
			loopSite = siteOf[mapperIn]
		}
		phi, _ = arg.(*ssa.Phi)
		good := false
		detail := "the mapper is not built from the loop-carried content"
		if phi != nil {
			fromCopy, fromBuf := false, false
			for _, e := range phi.Edges {
				switch x := e.(type) {
				case *ssa.Convert:
					if _, ok := x.X.(*ssa.Lookup); ok {
						fromCopy = true
					}
				case *ssa.Call:
					if strings.HasSuffix(calleeName(&x.Call), "bytes.Buffer.Bytes") {
						fromBuf = true
					}
				case *ssa.Extract:
					if call, ok := x.Tuple.(*ssa.Call); ok && x.Index == 0 {
						if g := call.Call.StaticCallee(); g != nil && siteOf[g] != nil && returnsBytes(g) {
							fromBuf = true
						}
					}
				}
			}
			good = fromCopy && fromBuf
			if !fromCopy {
				detail = "the working content is not a fresh []byte copy of the cached string"
			}
			if !fromBuf {
				detail = "the content carried into the next change is not the spliced buffer"
			}
		}
		// the call must be inside the loop: its block is reachable from itself
		inLoop := false
		if loopSite.Block() != nil {
			seen := map[*ssa.BasicBlock]bool{}
			var q []*ssa.BasicBlock
			q = append(q, loopSite.Block().Succs...)
			for len(q) > 0 {
				b := q[0]
				q = q[1:]
				if seen[b] {
					continue
				}
				seen[b] = true
				if b == loopSite.Block() {
					inLoop = true
				}
				q = append(q, b.Succs...)
			}
		}
		c.Check(good && inLoop, r5, "applyIncrementalChanges: mapper per change", p.Pos(newMapper.Pos()), "NewMapper is called inside the loop on the content produced by the previous change", detail+fmt.Sprintf(" (inside loop: %v): later changes are positioned against stale text", inLoop))
	}
	// splice order within one block: Write(content[:start]) ; WriteString(change.Text) ; Write(content[end:])
	var seq []string
	var allBlocks []*ssa.BasicBlock
	for _, f := range funcs {
		allBlocks = append(allBlocks, f.Blocks...)
	}
	for _, b := range allBlocks {
		var local []string
		for _, ins := range b.Instrs {
			call, ok := ins.(*ssa.Call)
			if !ok {
				continue
			}
			n := calleeName(&call.Call)
			switch {
			case strings.HasSuffix(n, "bytes.Buffer.Write") && len(call.Call.Args) == 2:
				if sl, ok := call.Call.Args[1].(*ssa.Slice); ok {
					if sl.Low == nil && sl.High != nil {
						local = append(local, "prefix")
					} else if sl.Low != nil && sl.High == nil {
						local = append(local, "suffix")
					} else {
						local = append(local, "slice?")
					}
				}
			case strings.HasSuffix(n, "bytes.Buffer.WriteString"):
				local = append(local, "text")
			}
		}
		if len(local) > 0 {
			seq = local
		}
	}
	c.Check(strings.Join(seq, ",") == "prefix,text,suffix", r6, "applyIncrementalChanges: splice", p.Pos(ai.Pos()), "content[:start] + change.Text + content[end:]", fmt.Sprintf("the new content is assembled as %v; it must be prefix, replacement text, suffix", seq))
	// range rejection: `end < start` and nil range lead to a non-nil error return
	rej := 0
	rejIn := map[*ssa.Function]bool{}
	for _, b := range allBlocks {
		ifi, ok := b.Instrs[len(b.Instrs)-1].(*ssa.If)
		if !ok {
			continue
		}
		bo, ok := ifi.Cond.(*ssa.BinOp)
		if !ok {
			continue
		}
		isRangeTest := false
		if bo.Op == token.LSS || bo.Op == token.GTR {
			if _, ok1 := bo.X.(*ssa.Extract); ok1 {
				if _, ok2 := bo.Y.(*ssa.Extract); ok2 {
					isRangeTest = true
				}
			}
		}
		isNilRange := bo.Op == token.EQL && isNilConst(bo.Y) && strings.Contains(bo.X.Type().String(), "protocol.Range")
		if !isRangeTest && !isNilRange {
			continue
		}
		bad := false
		for _, o := range walkPaths(b.Succs[0], 200) {
			if o.Kind != "return" || o.Val == nil || isNilConst(o.Val) {
				bad = true
			}
		}
		rej++
		rejIn[b.Parent()] = true
		what := "end < start"
		if isNilRange {
			what = "nil range"
		}
		c.Check(!bad, r7, "applyIncrementalChanges: "+what, instrPos(p, ifi, b), "rejected with an error", "an invalid change ("+what+") is not rejected with an error on every path")
	}
	// a rejection made in a helper counts only if the loop turns the helper's error into its own
	for g := range rejIn {
		if g == ai {
			continue
		}
		site := siteOf[g]
		propagated := false
		for _, b := range ai.Blocks {
			ifi, ok := b.Instrs[len(b.Instrs)-1].(*ssa.If)
			if !ok {
				continue
			}
			bo, ok := ifi.Cond.(*ssa.BinOp)
			if !ok || bo.Op != token.NEQ || !isNilConst(bo.Y) {
				continue
			}
			ex, ok := bo.X.(*ssa.Extract)
			if !ok || ex.Tuple != ssa.Value(site) {
				continue
			}
			propagated = true
			for _, o := range walkPaths(b.Succs[0], 200) {
				if o.Kind != "return" || o.Val == nil || isNilConst(o.Val) {
					propagated = false
				}
			}
		}
		c.Check(propagated, r7, "applyIncrementalChanges: error of "+g.Name()+" is returned", p.Pos(site.Pos()), "tested and returned", "the rejection is made in "+g.Name()+" but applyIncrementalChanges does not return its error on every path: the invalid change is applied (or dropped) silently")
	}
	c.Check(rej >= 2, r7, "applyIncrementalChanges: invalid-range tests present", p.Pos(ai.Pos()), fmt.Sprintf("%d rejection tests", rej), fmt.Sprintf("only %d of the two rejection tests (nil range, end < start) remain: an invalid range is spliced into the stored text", rej))
}
