package main

import (
	"fmt"
	"strings"

	"golang.org/x/tools/go/packages"
)

// C07 import-dedup-exact (added after a seeded change was missed): formatting sorts each run of import specs and
// removes duplicates (ast.SortImports → sortSpecs → collapse). Removing a spec changes the syntax tree unless the
// spec that stays is the same import: same path AND same local name, and the removed one carries no comment. The rule
// evaluates `collapse` over every feasible truth assignment of its atomic tests (boolfn.go) and requires all three
// facts on every assignment that answers true.

func c07ImportDedup(c *Ctx, p *Prog, astp *packages.Package) {
	const rule = "import-dedup-exact"
	fd := p.MustFunc(rule, astp, "collapse")
	if fd == nil {
		return
	}
	loc := p.Pos(fd.Pos())
	outs, atoms, undec := boolFnTable(astp.TypesInfo, fd)
	if undec != "" {
		c.Undecided(rule, "collapse", loc, "collapse is outside the evaluated fragment: "+undec)
		return
	}
	if fd.Type.Params == nil || len(fd.Type.Params.List) == 0 {
		c.Undecided(rule, "collapse", loc, "no parameters")
		return
	}
	var params []string
	for _, f := range fd.Type.Params.List {
		for _, n := range f.Names {
			params = append(params, n.Name)
		}
	}
	if len(params) != 2 {
		c.Undecided(rule, "collapse", loc, "expected two parameters (the spec removed, the spec kept)")
		return
	}
	prev, next := params[0], params[1]
	pairKey := func(l, r string) string {
		if r < l {
			l, r = r, l
		}
		return l + " == " + r
	}
	eqKey := func(fn string) string { return pairKey(fn+"("+prev+")", fn+"("+next+")") }
	need := []struct{ what, key string }{
		{"the two specs import the same path", eqKey("importPath")},
		{"the two specs bind the same local name", eqKey("importName")},
		{"the removed spec has no comment", pairKey("nil", prev+".(*ImportSpec).Comment")},
	}
	have := map[string]bool{}
	for _, a := range atoms {
		have[a] = true
	}
	c.Count("truth_assignments_enumerated", len(outs))
	for _, nd := range need {
		construct := "collapse answers true only when " + nd.what
		if !have[nd.key] {
			c.Fail(rule, construct, loc, fmt.Sprintf("collapse never tests `%s` (atoms it tests: %s): a spec is removed although the one kept is a different import — the formatted file has one import fewer than the source", nd.key, strings.Join(atoms, "; ")))
			continue
		}
		bad := ""
		for _, o := range outs {
			if o.Val {
				if !o.Env[nd.key] && bad == "" {
					bad = envText(o.Env, atoms)
				}
			}
		}
		c.Check(bad == "", rule, construct, loc, "holds on every feasible assignment that answers true",
			fmt.Sprintf("collapse(%s, %s) answers true when %s: %s is removed by formatting although it is not a duplicate of the spec that stays (e.g. a plain import next to an aliased import of the same path) — parse(format(src)) has one ImportSpec fewer than parse(src) and uses of the lost name no longer resolve", prev, next, bad, prev))
	}
	c.Min(rule, "feasible truth assignments of collapse", len(outs), 4)
}
