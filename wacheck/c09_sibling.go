package main

import (
	_ "embed"
	"go/ast"
	"os"
)

// C09 rule parser-sibling-agreement: internal/parser (.wa) and internal/parser/w2parser (.wz) are copies of one
// parser that differ where the surface syntaxes differ. Functions, switch arms and top-level statements that were the
// same code on both sides when the rule was armed (frozen list c09_siblings.txt) must stay the same: a one-sided
// edit makes one language build a different tree for a construct both languages share.

//go:embed c09_siblings.txt
var c09Siblings string

func c09ParserSiblings(c *Ctx, p *Prog) {
	const rule = "parser-sibling-agreement"
	wa, wz := p.MustPkg(rule, "internal/parser"), p.MustPkg(rule, "internal/parser/w2parser")
	if wa == nil || wz == nil {
		return
	}
	pos := func(fd *ast.FuncDecl) string { return p.Pos(fd.Pos()) }
	a := sibSide{Tag: "wa", Name: "internal/parser", Funcs: pkgFuncs(wa.Syntax), Pos: pos}
	b := sibSide{Tag: "wz", Name: "internal/parser/w2parser", Funcs: pkgFuncs(wz.Syntax), Pos: pos}
	want, seen := parseFrozen(c09Siblings), map[string]bool{}
	dump := os.Getenv("VERIF_C09_DUMP") == "1"
	n := siblingAgreement(c, rule, a, b, want, seen, dump, "the .wa and the .wz parser no longer build the same tree for a construct the two syntaxes share, so the same program means different things in the two languages")
	if dump {
		return
	}
	reportMissingInstances(c, rule, want, seen)
	c.Min(rule, "frozen parser sibling instances", n, 60)
}
