package main

import (
	"fmt"
	"strings"
)

const c10Header8 = 8 // sizeof(heap_block_t): size word + next word

func (cp *c10Copy) loc(f *watFunc, line int) string {
	if line == 0 {
		line = f.Line
	}
	return fmt.Sprintf("%s:%d", cp.Rel, line)
}

func (cp *c10Copy) key(f *watFunc) string { return cp.Rel + " " + f.Name }

func wIsConst(t *wterm, k int64) bool { return t != nil && t.Op == "const" && t.K == k }

func wGlobal(name string) *wterm { return &wterm{Op: "global", Name: name} }

func wLoad(addr *wterm, off int64) *wterm { return &wterm{Op: "load", Args: []*wterm{addr}, Off: off} }

func wAdd(a, b *wterm) *wterm { return &wterm{Op: "op", Name: "add", Args: []*wterm{a, b}} }

// linDiffConst returns a-b when it is a constant.
func linDiffConst(a, b *wterm) (int64, bool) {
	return wLinSub(wLin(a), wLin(b)).isConst()
}

func findStores(p wpath, addr *wterm, off int64) []*wterm {
	var out []*wterm
	for _, e := range p.Events {
		if e.Kind == "store" && e.Off == off && wLinEqual(e.Args[0], addr) {
			out = append(out, e.Args[1])
		}
	}
	return out
}

func findGset(p wpath, name string) []wevent {
	var out []wevent
	for _, e := range p.Events {
		if e.Kind == "gset" && e.Name == name {
			out = append(out, e)
		}
	}
	return out
}

func findCalls(p wpath, name string) []wevent {
	var out []wevent
	for _, e := range p.Events {
		if e.Kind == "call" && e.Name == name {
			out = append(out, e)
		}
	}
	return out
}

// ---- grow-covers-block

func c10Grow(c *Ctx, cp *c10Copy) {
	const rule = "grow-covers-block"
	ps, f := cp.paths(c, rule, "new")
	if ps == nil {
		return
	}
	hp, ht := wGlobal("$__heap_ptr"), wGlobal("$__heap_top")
	var probs []string
	nSucc, nGrow := 0, 0
	for i, p := range ps {
		if p.End != "return" || len(p.Results) != 1 {
			continue
		}
		at := fmt.Sprintf("path %d (ends line %d)", i, p.Line)
		grows := 0
		var growArg *wterm
		for _, e := range p.Events {
			if e.Kind == "grow" {
				grows++
				growArg = e.Args[0]
			}
		}
		if wIsConst(p.Results[0], 0) {
			// failure: only after a failed grow
			failed := false
			for _, cd := range p.Conds {
				if cd.T.Op == "op" && len(cd.T.Args) == 2 && cd.T.Args[0].Op == "call" && cd.T.Args[0].Name == "memory.grow" {
					switch {
					case cd.T.Name == "lt_s" && wIsConst(cd.T.Args[1], 0) && cd.Taken, cd.T.Name == "eq" && wIsConst(cd.T.Args[1], -1) && cd.Taken,
						cd.T.Name == "ge_s" && wIsConst(cd.T.Args[1], 0) && !cd.Taken, cd.T.Name == "ne" && wIsConst(cd.T.Args[1], -1) && !cd.Taken:
						failed = true
					}
				}
			}
			// … or for a request beyond the sizes the property speaks about (0 to 2^30): a guard `size >=u K` with
			// K above 2^30 that refuses what a 4 GiB address space cannot hold anyway
			for _, cd := range p.Conds {
				if cd.T.Op == "op" && len(cd.T.Args) == 2 && cd.Taken && (cd.T.Name == "ge_u" || cd.T.Name == "gt_u") &&
					cd.T.Args[0].Op == "param" && cd.T.Args[1].Op == "const" && uint64(uint32(cd.T.Args[1].K)) > 1<<30 {
					failed = true
				}
			}
			if !failed {
				probs = append(probs, at+": returns 0 although memory.grow was not tried and found to fail")
			}
			continue
		}
		nSucc++
		if !wLinEqual(p.Results[0], hp) {
			probs = append(probs, at+": the block handed out is "+p.Results[0].String()+", not the bump pointer at entry")
		}
		gs := findGset(p, "$__heap_ptr")
		if len(gs) != 1 {
			probs = append(probs, at+": the bump pointer is not advanced exactly once")
			continue
		}
		bump := wLinSub(wLin(gs[0].Args[0]), wLin(hp))
		sizes := findStores(p, p.Results[0], 0)
		if len(sizes) != 1 {
			probs = append(probs, at+": the block's size word is not written exactly once")
			continue
		}
		want := wLin(wAdd(sizes[0], wConst(c10Header8)))
		if d, ok := wLinSub(bump, want).isConst(); !ok || d != 0 {
			probs = append(probs, fmt.Sprintf("%s: the bump pointer advances by %s but the block occupies payload %s + %d header bytes", at, bump, sizes[0], c10Header8))
			continue
		}
		// deficit D = heap_ptr + bump - heap_top
		deficit := wLinSub(wLin(gs[0].Args[0]), wLin(ht))
		if grows == 0 {
			// the path conditions must imply D <= 0
			ok := false
			for _, cd := range p.Conds {
				if cd.T.Op != "op" || len(cd.T.Args) != 2 {
					continue
				}
				d := wLinSub(wLin(cd.T.Args[0]), wLin(cd.T.Args[1]))
				same, _ := wLinSub(d, deficit).isConst()
				zero, isK := wLinSub(d, deficit).isConst()
				_ = same
				if !isK || zero != 0 {
					continue
				}
				switch cd.T.Name {
				case "ge_s", "gt_s", "ge_u", "gt_u":
					ok = ok || !cd.Taken
				case "le_s", "lt_s", "le_u", "lt_u":
					ok = ok || cd.Taken
				}
			}
			if !ok {
				probs = append(probs, at+": the block is handed out without growing although no test on this path shows heap_ptr + block <= heap_top")
			}
			continue
		}
		nGrow++
		// pages = ceil(X / 64K)
		var X *wterm
		if growArg.Op == "op" && (growArg.Name == "div_s" || growArg.Name == "div_u") && wIsConst(growArg.Args[1], 65536) {
			X = growArg.Args[0]
		} else if growArg.Op == "op" && growArg.Name == "shr_u" && wIsConst(growArg.Args[1], 16) {
			X = growArg.Args[0]
		}
		if X == nil {
			probs = append(probs, at+": the page count "+growArg.String()+" is not of the form (X + 65535) / 65536")
			continue
		}
		xl := wLinSub(wLin(X), wlin{C: 65535, Atoms: map[string]int64{}})
		short1, ok1 := wLinSub(xl, deficit).isConst() // X - D
		short2, ok2 := wLinSub(xl, bump).isConst()    // X - block
		switch {
		case ok1 && short1 >= 0, ok2 && short2 >= 0:
		case ok1:
			probs = append(probs, fmt.Sprintf("%s: memory grows by ceil((%s)/64K) pages, which is %d bytes short of the deficit heap_ptr + block - heap_top: a block whose end falls in that gap is handed out beyond the end of memory", at, xl, -short1))
		case ok2:
			probs = append(probs, fmt.Sprintf("%s: memory grows by ceil((%s)/64K) pages, %d bytes less than the block", at, xl, -short2))
		default:
			probs = append(probs, fmt.Sprintf("%s: the grown amount ceil((%s)/64K) pages is not comparable with the block size %s", at, xl, bump))
		}
		tops := findGset(p, "$__heap_top")
		wantTop := wLin(wAdd(ht, &wterm{Op: "op", Name: "mul", Args: []*wterm{growArg, wConst(65536)}}))
		if len(tops) != 1 {
			probs = append(probs, at+": heap_top is not updated exactly once after growing")
		} else if d, ok := wLinSub(wLin(tops[0].Args[0]), wantTop).isConst(); !ok || d != 0 {
			probs = append(probs, at+": heap_top becomes "+tops[0].Args[0].String()+", not heap_top + pages·65536")
		}
	}
	c.Check(len(probs) == 0, rule, cp.key(f), cp.loc(f, 0), "bump = payload + 8; pages = ceil(X/64K) with X >= deficit; heap_top += pages·64K; 0 only after a failed grow", f.Name+": "+strings.Join(probs, "; "))

	// ---- grow-decision-exact (added after differential probing of the allocator: `heap_ptr + block >= heap_top` was
	// evaluated with i32.ge_s, so with a heap above 2 GiB — or a sum that wraps — the grow branch was skipped and a
	// block beyond the end of memory was handed out; memory grew by ceil(block/64K) pages whatever room was left, so a
	// request that fits after a smaller growth failed at the configured maximum; and an exact fit took the grow branch).
	// The linear arithmetic of grow-covers-block is over the integers; this rule looks at the machine comparison:
	// the test that decides between bumping and growing compares the block with the room `heap_top - heap_ptr`
	// (a difference that cannot wrap) unsigned and strictly, and the pages asked for are ceil(deficit/64K) exactly.
	const drule = "grow-decision-exact"
	var dprobs []string
	nDec := 0
	room := wLinSub(wLin(ht), wLin(hp))
	for i, p := range ps {
		if p.End != "return" || len(p.Results) != 1 || wIsConst(p.Results[0], 0) {
			continue
		}
		at := fmt.Sprintf("path %d (ends line %d)", i, p.Line)
		gs := findGset(p, "$__heap_ptr")
		if len(gs) != 1 {
			continue
		}
		deficit := wLinSub(wLin(gs[0].Args[0]), wLin(ht))
		grows := false
		var growArg *wterm
		for _, e := range p.Events {
			if e.Kind == "grow" {
				grows, growArg = true, e.Args[0]
			}
		}
		for _, cd := range p.Conds {
			if cd.T.Op != "op" || len(cd.T.Args) != 2 {
				continue
			}
			d := wLinSub(wLin(cd.T.Args[0]), wLin(cd.T.Args[1]))
			if k, isK := wLinSub(d, deficit).isConst(); !isK || k != 0 {
				continue
			}
			nDec++
			if !strings.HasSuffix(cd.T.Name, "_u") {
				dprobs = append(dprobs, fmt.Sprintf("%s: the test `%s` that decides whether to grow is a signed comparison: addresses are unsigned, with the heap top above 2 GiB (or a sum that wraps) the branch goes the other way and a block beyond the end of memory is handed out", at, cd.T.String()))
			}
			r0, r1 := wLin(cd.T.Args[0]), wLin(cd.T.Args[1])
			k0, ok0 := wLinSub(r0, room).isConst()
			k1, ok1 := wLinSub(r1, room).isConst()
			if !(ok0 && k0 == 0) && !(ok1 && k1 == 0) {
				dprobs = append(dprobs, fmt.Sprintf("%s: the test `%s` compares a sum with heap_top instead of the block with the room heap_top - heap_ptr: heap_ptr + block can wrap round 2^32", at, cd.T.String()))
			}
			// strict: grow only when the block is larger than the room
			blockLeft := ok1 && k1 == 0
			strictGrow := (blockLeft && ((cd.T.Name == "gt_u" && cd.Taken == grows) || (cd.T.Name == "le_u" && cd.Taken != grows))) ||
				(!blockLeft && ((cd.T.Name == "lt_u" && cd.Taken == grows) || (cd.T.Name == "ge_u" && cd.Taken != grows)))
			if strings.HasSuffix(cd.T.Name, "_u") && !strictGrow {
				dprobs = append(dprobs, fmt.Sprintf("%s: the test `%s` sends a block that fits exactly into the grow branch: at the configured maximum the request fails although the room is there", at, cd.T.String()))
			}
		}
		if grows && growArg != nil && growArg.Op == "op" && len(growArg.Args) == 2 {
			xl := wLinSub(wLin(growArg.Args[0]), wlin{C: 65535, Atoms: map[string]int64{}})
			if k, isK := wLinSub(xl, deficit).isConst(); !isK || k != 0 {
				dprobs = append(dprobs, fmt.Sprintf("%s: memory grows by ceil((%s)/64K) pages, not by the deficit block - (heap_top - heap_ptr): when the smaller growth fits within the configured maximum and this one does not, the allocation fails although it can be satisfied", at, xl))
			}
			if growArg.Name == "div_s" {
				dprobs = append(dprobs, at+": the page count is computed with a signed division")
			}
		}
	}
	c.Check(len(dprobs) == 0, drule, cp.key(f), cp.loc(f, 0), "unsigned strict comparison of the block with heap_top - heap_ptr; pages = ceil(deficit/64K)", f.Name+": "+strings.Join(dprobs, "; "))
	c.Min(drule, "deciding comparisons on the successful paths of "+f.Name+" in "+cp.Rel, nDec, 2)
	c.Min(rule, "successful paths of "+f.Name+" in "+cp.Rel, nSucc, 2)
	c.Min(rule, "growing paths of "+f.Name+" in "+cp.Rel, nGrow, 1)
}

// ---- rover-follows-unlink

func c10Rover(c *Ctx, cp *c10Copy) {
	const rule = "rover-follows-unlink"
	ps, f := cp.paths(c, rule, "varying")
	if ps == nil {
		return
	}
	var probs []string
	n := 0
	for i, p := range ps {
		if p.End != "return" || len(p.Results) != 1 || wIsConst(p.Results[0], 0) {
			continue
		}
		n++
		at := fmt.Sprintf("path %d (returns a block at line %d)", i, p.Line)
		gs := findGset(p, "$__heap_l128_freep")
		if len(gs) == 0 {
			probs = append(probs, at+": the block is unlinked from the ring but the rover is not moved; if the block was the rover, the rover now points at a live block that is no longer in the ring")
			continue
		}
		rv := gs[len(gs)-1].Args[0]
		if wLinEqual(rv, p.Results[0]) {
			probs = append(probs, at+": the rover is set to the block being handed out")
			continue
		}
		// the rover is the node whose next link was rewritten
		if len(findStores(p, rv, 4)) == 0 {
			probs = append(probs, at+": the rover "+rv.String()+" is not the predecessor whose link was rewritten")
		}
	}
	c.Check(len(probs) == 0, rule, cp.key(f), cp.loc(f, 0), "every block-returning path moves the rover to the predecessor", f.Name+": "+strings.Join(probs, "; "))
	c.Min(rule, "block-returning paths of "+f.Name+" in "+cp.Rel, n, 2)
}

// ---- split-conserves

func c10Split(c *Ctx, cp *c10Copy) {
	const rule = "split-conserves"
	ps, f := cp.paths(c, rule, "varying")
	if ps == nil {
		return
	}
	var probs []string
	nSplit, nExact := 0, 0
	for i, p := range ps {
		if p.End != "return" || len(p.Results) != 1 || wIsConst(p.Results[0], 0) {
			continue
		}
		blk := p.Results[0]
		at := fmt.Sprintf("path %d (line %d)", i, p.Line)
		oldSize := wLoad(blk, 0)
		newSizes := findStores(p, blk, 0)
		// stores of a size word at another address: the remainder
		var rem, remSize *wterm
		for _, e := range p.Events {
			if e.Kind == "store" && e.Off == 0 && !wLinEqual(e.Args[0], blk) {
				rem, remSize = e.Args[0], e.Args[1]
			}
		}
		if rem == nil {
			nExact++
			if len(newSizes) != 0 {
				probs = append(probs, at+": the whole block is handed out but its size word is rewritten")
			}
			// predecessor now links to the block's successor
			gs := findGset(p, "$__heap_l128_freep")
			if len(gs) > 0 {
				if st := findStores(p, gs[len(gs)-1].Args[0], 4); len(st) == 0 || !wTermEqualLin(st[len(st)-1], wLoad(blk, 4)) {
					probs = append(probs, at+": the predecessor is not linked to the successor of the block taken")
				}
			}
			continue
		}
		nSplit++
		if len(newSizes) != 1 {
			probs = append(probs, at+": the allocated part's size word is not written exactly once")
			continue
		}
		n := newSizes[0]
		// remainder starts where the allocated part ends
		if d, ok := wLinSub(wLin(rem), wLin(wAdd(wAdd(blk, wConst(c10Header8)), n))).isConst(); !ok || d != 0 {
			probs = append(probs, fmt.Sprintf("%s: the remainder's header is placed at %s, the allocated part ends at block + %d + %s", at, rem, c10Header8, n))
		}
		// bytes add up: (8+n) + (8+remSize) = 8 + oldSize
		sum := wLinSub(wLin(wAdd(wAdd(n, remSize), wConst(2*c10Header8))), wLin(wAdd(oldSize, wConst(c10Header8))))
		if d, ok := sum.isConst(); !ok || d != 0 {
			probs = append(probs, fmt.Sprintf("%s: allocated part (%s + %d) and remainder (%s + %d) do not add up to the block that was split (%s + %d): %s bytes are lost or counted twice", at, n, c10Header8, remSize, c10Header8, oldSize, c10Header8, sum))
		}
		// guarded: oldSize >= n + 8 on this path
		guarded := false
		for _, cd := range p.Conds {
			if cd.T.Op == "op" && len(cd.T.Args) == 2 {
				d, ok := wLinSub(wLinSub(wLin(cd.T.Args[0]), wLin(cd.T.Args[1])), wLinSub(wLin(oldSize), wLin(n))).isConst()
				if ok && ((cd.T.Name == "ge_s" && cd.Taken && d <= -c10Header8) || (cd.T.Name == "gt_s" && cd.Taken && d <= -c10Header8+1) || (cd.T.Name == "lt_s" && !cd.Taken && d <= -c10Header8)) {
					guarded = true
				}
			}
		}
		if !guarded {
			probs = append(probs, at+": no test on the path shows that the block is at least header + request bytes large, the remainder's size may be negative")
		}
		// links: remainder.next = block.next ; predecessor.next = remainder
		if st := findStores(p, rem, 4); len(st) != 1 || !wTermEqualLin(st[0], wLoad(blk, 4)) {
			probs = append(probs, at+": the remainder does not inherit the successor of the block that was split")
		}
		linked := false
		for _, e := range p.Events {
			if e.Kind == "store" && e.Off == 4 && wLinEqual(e.Args[1], rem) && !wLinEqual(e.Args[0], blk) {
				linked = true
			}
		}
		if !linked {
			probs = append(probs, at+": the predecessor is not linked to the remainder")
		}
	}
	c.Check(len(probs) == 0, rule, cp.key(f), cp.loc(f, 0), "remainder starts at the end of the allocated part; sizes and headers add up; links rewritten", f.Name+": "+strings.Join(probs, "; "))
	c.Min(rule, "splitting paths of "+f.Name+" in "+cp.Rel, nSplit, 1)
	c.Min(rule, "exact-fit paths of "+f.Name+" in "+cp.Rel, nExact, 1)
}

func wTermEqualLin(a, b *wterm) bool { return wLinEqual(a, b) }

// ---- coalesce-conserves

func c10Coalesce(c *Ctx, cp *c10Copy) {
	const rule = "coalesce-conserves"
	ps, f := cp.paths(c, rule, "l128free")
	if ps == nil {
		return
	}
	if len(f.ParamNames) != 1 {
		c.Undecided(rule, cp.key(f), cp.loc(f, 0), "expected one parameter")
		return
	}
	bp := &wterm{Op: "param", Name: f.ParamNames[0]}
	var probs []string
	n := 0
	seen := map[string]bool{}
	for i, p := range ps {
		if p.End != "return" {
			continue
		}
		at := fmt.Sprintf("path %d", i)
		gs := findGset(p, "$__heap_l128_freep")
		if len(gs) != 1 {
			probs = append(probs, at+": the rover is not set exactly once")
			continue
		}
		pp := gs[0].Args[0] // the predecessor
		next := wLoad(pp, 4)
		// classify the two adjacency tests
		upper, lower := 0, 0 // 0 absent, 1 taken, -1 not taken
		for _, cd := range p.Conds {
			if cd.T.Op != "op" || cd.T.Name != "eq" || len(cd.T.Args) != 2 {
				continue
			}
			x, y := cd.T.Args[0], cd.T.Args[1]
			for k := 0; k < 2; k++ {
				if d, ok := wLinSub(wLin(x), wLin(wAdd(bp, wLoad(bp, 0)))).isConst(); ok && wLinEqual(y, next) {
					if d != c10Header8 {
						probs = append(probs, fmt.Sprintf("%s: the upper-neighbour test adds %d to block + size, the header is %d bytes", at, d, c10Header8))
					}
					upper = map[bool]int{true: 1, false: -1}[cd.Taken]
				}
				if d, ok := wLinSub(wLin(x), wLin(wAdd(pp, wLoad(pp, 0)))).isConst(); ok && wLinEqual(y, bp) {
					if d != c10Header8 {
						probs = append(probs, fmt.Sprintf("%s: the lower-neighbour test adds %d to predecessor + size, the header is %d bytes", at, d, c10Header8))
					}
					lower = map[bool]int{true: 1, false: -1}[cd.Taken]
				}
				x, y = y, x
			}
		}
		if upper == 0 || lower == 0 {
			probs = append(probs, at+": the adjacency tests (block end == successor, predecessor end == block) were not both found on the path")
			continue
		}
		sig := fmt.Sprint(upper, lower)
		if seen[sig] {
			continue // the same combination reached through another exit of the search loop
		}
		seen[sig] = true
		n++
		// expected state of bp after the upper step
		bpSize, bpNext := wLoad(bp, 0), next
		if upper == 1 {
			bpSize = wAdd(wAdd(wLoad(bp, 0), wLoad(next, 0)), wConst(c10Header8))
			bpNext = wLoad(next, 4)
			if st := findStores(p, bp, 0); len(st) != 1 || !wLinEqual(st[0], bpSize) {
				probs = append(probs, fmt.Sprintf("%s: merging with the upper neighbour must give size %s, the code stores %v", at, wLin(bpSize), st))
			}
		} else if st := findStores(p, bp, 0); len(st) != 0 {
			probs = append(probs, at+": the block's size is rewritten although it is not merged with its upper neighbour")
		}
		if st := findStores(p, bp, 4); lower != 1 && (len(st) == 0 || !wLinEqual(st[len(st)-1], bpNext)) {
			probs = append(probs, fmt.Sprintf("%s: the freed block's successor link must become %s", at, wLin(bpNext)))
		}
		if lower == 1 {
			want := wAdd(wAdd(wLoad(pp, 0), bpSize), wConst(c10Header8))
			if st := findStores(p, pp, 0); len(st) != 1 || !wLinEqual(st[0], want) {
				probs = append(probs, fmt.Sprintf("%s: merging into the lower neighbour must give size %s, the code stores %v", at, wLin(want), st))
			}
			if st := findStores(p, pp, 4); len(st) != 1 || !wLinEqual(st[0], bpNext) {
				probs = append(probs, fmt.Sprintf("%s: after merging into the lower neighbour its successor must be %s", at, wLin(bpNext)))
			}
		} else {
			if st := findStores(p, pp, 4); len(st) != 1 || !wLinEqual(st[0], bp) {
				probs = append(probs, at+": the predecessor is not linked to the freed block")
			}
			if st := findStores(p, pp, 0); len(st) != 0 {
				probs = append(probs, at+": the predecessor's size is rewritten although the block is not merged into it")
			}
		}
	}
	c.Check(len(probs) == 0, rule, cp.key(f), cp.loc(f, 0), "the four merge combinations store the sums of sizes and headers and relink the ring", f.Name+": "+strings.Join(probs, "; "))
	c.Min(rule, "merge combinations of "+f.Name+" in "+cp.Rel, n, 4)
}

// ---- class-ladder

func c10Ladder(c *Ctx, cp *c10Copy) {
	const rule = "class-ladder"
	ps, f := cp.paths(c, rule, "ladder")
	fixedPs, ff := cp.paths(c, rule, "isfixed")
	if ps == nil || fixedPs == nil {
		return
	}
	if len(f.ParamNames) != 1 || len(ff.ParamNames) != 1 {
		c.Undecided(rule, cp.key(f), cp.loc(f, 0), "expected one size parameter")
		return
	}
	base := wGlobal("$__heap_base")
	// evaluate a path's conditions for (mode, size); opaque "fixed lists enabled" calls take the mode's value
	holds := func(p wpath, param string, enabled bool, size int64) (bool, bool) {
		for _, cd := range p.Conds {
			var v int64
			if cd.T.Op == "call" && strings.Contains(cd.T.Name, "is_fixed_list_enabled") {
				if enabled {
					v = 1
				}
			} else if x, ok := wEval(cd.T, map[string]int64{param: size, "$__heap_lfixed_cap": map[bool]int64{true: 64, false: 0}[enabled]}); ok {
				// (the mode is the list capacity: 0 disables the fixed lists; the predicate may have been expanded in place)
				v = x
			} else {
				return false, false
			}
			if (v != 0) != cd.Taken {
				return false, true
			}
		}
		return true, true
	}
	ladder := func(enabled bool, size int64) (off, cls int64, why string) {
		var hit []wpath
		for _, p := range ps {
			if p.End != "return" || len(p.Results) != 2 {
				continue
			}
			h, ok := holds(p, f.ParamNames[0], enabled, size)
			if !ok {
				return 0, 0, "a path condition is not decided"
			}
			if h {
				hit = append(hit, p)
			}
		}
		if len(hit) != 1 {
			return 0, 0, fmt.Sprintf("%d paths apply", len(hit))
		}
		o, ok := linDiffConst(hit[0].Results[0], base)
		if !ok {
			return 0, 0, "the list head is not heap_base + constant"
		}
		k, ok := wEval(hit[0].Results[1], map[string]int64{f.ParamNames[0]: size})
		if !ok {
			return 0, 0, "the class size is not decided"
		}
		return o, k, ""
	}
	isFixed := func(enabled bool, size int64) (bool, string) {
		for _, p := range fixedPs {
			if p.End != "return" || len(p.Results) != 1 {
				continue
			}
			if h, ok := holds(p, ff.ParamNames[0], enabled, size); !ok {
				return false, "a path condition is not decided"
			} else if h {
				v, ok := wEval(p.Results[0], nil)
				return v != 0, map[bool]string{true: "", false: "result not constant"}[ok]
			}
		}
		return false, "no path applies"
	}
	var sizes []int64
	for s := int64(0); s <= 4200; s++ {
		sizes = append(sizes, s)
	}
	for k := uint(13); k <= 30; k++ {
		for d := int64(-9); d <= 9; d++ {
			if v := int64(1)<<k + d; v <= 1<<30 {
				sizes = append(sizes, v)
			}
		}
	}
	c.Count("ladder_sizes_evaluated", 2*len(sizes))
	var probs, und []string
	note := func(s string) {
		if len(probs) < 6 {
			probs = append(probs, s)
		}
	}
	for _, enabled := range []bool{true, false} {
		mode := map[bool]string{true: "fixed lists enabled", false: "fixed lists disabled"}[enabled]
		classOf := map[int64]int64{} // list offset -> class (fixed lists)
		for _, s := range sizes {
			off, cls, why := ladder(enabled, s)
			if why != "" {
				und = append(und, fmt.Sprintf("%s, size %d: %s", mode, s, why))
				break
			}
			at := fmt.Sprintf("%s, request %d", mode, s)
			switch {
			case cls <= 0:
				note(fmt.Sprintf("%s: class size %d; the ring scan accepts the first node with size >= request, and the ring's head has size 0, so the list head itself is handed out as a block", at, cls))
			case cls < s:
				note(fmt.Sprintf("%s: class size %d is smaller than the request", at, cls))
			case cls%8 != 0:
				note(fmt.Sprintf("%s: class size %d is not a multiple of 8", at, cls))
			}
			if off < 0 || off > 32 || off%8 != 0 {
				note(fmt.Sprintf("%s: list head at heap_base+%d is not one of the five list headers", at, off))
			}
			fx, why2 := isFixed(enabled, cls)
			if why2 != "" {
				und = append(und, at+": "+why2)
				break
			}
			if fx != (off < 32) {
				note(fmt.Sprintf("%s: class %d is served from the list at heap_base+%d but free() will treat a block of that size as %s", at, cls, off, map[bool]string{true: "fixed-size", false: "variable-size"}[fx]))
			}
			if off < 32 {
				if prev, ok := classOf[off]; ok && prev != cls {
					note(fmt.Sprintf("%s: the list at heap_base+%d holds blocks of %d and of %d bytes", at, off, prev, cls))
				}
				classOf[off] = cls
				// freed blocks of this class come back to the same list
				if o2, c2, w := ladder(enabled, cls); w == "" && (o2 != off || c2 != cls) {
					note(fmt.Sprintf("%s: a block of class %d is taken from heap_base+%d but returned to heap_base+%d", at, cls, off, o2))
				}
			}
		}
	}
	if len(und) > 0 {
		c.Undecided(rule, cp.key(f), cp.loc(f, 0), strings.Join(und, "; "))
		return
	}
	c.Check(len(probs) == 0, rule, cp.key(f), cp.loc(f, 0), fmt.Sprintf("classes positive, multiples of 8, >= request, consistent with free's routing (%d sizes × 2 modes)", len(sizes)), f.Name+": "+strings.Join(probs, "; "))
}

// ---- free-all-visits-every-node

func c10FreeAll(c *Ctx, cp *c10Copy) {
	const rule = "free-all-visits-every-node"
	ps, f := cp.paths(c, rule, "freeall")
	if ps == nil {
		return
	}
	var probs []string
	nBack, nExit := 0, 0
	var cursor *wterm
	for _, p := range ps {
		if p.End == "backedge" {
			nBack++
			calls := findCalls(p, cp.Name["l128free"])
			if len(calls) != 1 {
				probs = append(probs, "an iteration does not release exactly one node")
				continue
			}
			cursor = calls[0].Args[0]
			if cursor.Op != "unknown" {
				probs = append(probs, "the released node "+cursor.String()+" is not the loop cursor")
			}
		}
	}
	for i, p := range ps {
		if p.End != "return" {
			continue
		}
		// after the spill the list is empty: count 0 and no first node
		if len(f.ParamNames) == 1 {
			list := &wterm{Op: "param", Name: f.ParamNames[0]}
			cnt, nxt := findStores(p, list, 0), findStores(p, list, 4)
			if len(cnt) == 0 || !wIsConst(cnt[len(cnt)-1], 0) {
				probs = append(probs, fmt.Sprintf("path %d returns without resetting the list's node count to 0", i))
			}
			if len(nxt) == 0 || !wIsConst(nxt[len(nxt)-1], 0) {
				probs = append(probs, fmt.Sprintf("path %d returns without clearing the list's first-node link: the header still points at a block that now belongs to the variable-size ring, and the next spill releases it a second time", i))
			}
		}
		inLoop := false
		for _, cd := range p.Conds {
			if cd.T.Op == "unknown" && strings.HasPrefix(cd.T.Name, "loop-head") {
				inLoop = true
				continue
			}
			if !inLoop {
				continue
			}
			nExit++
			// the exit test: cursor == nil
			ok := false
			if cd.T.Op == "op" && cd.T.Name == "eqz" && cd.Taken && cursor != nil && wTermEqual(cd.T.Args[0], cursor) {
				ok = true
			}
			if cd.T.Op == "op" && cd.T.Name == "eq" && cd.Taken && cursor != nil && wTermEqual(cd.T.Args[0], cursor) && wIsConst(cd.T.Args[1], 0) {
				ok = true
			}
			if !ok {
				probs = append(probs, fmt.Sprintf("path %d leaves the loop on `%s` (line %d), which is not `cursor == nil`: the node the cursor stands on is not released and drops out of every list", i, cd.T, cd.Line))
			}
		}
	}
	c.Check(len(probs) == 0 && nBack > 0 && nExit > 0, rule, cp.key(f), cp.loc(f, 0), "each iteration releases the cursor; the loop is left only when the cursor is nil", f.Name+": "+strings.Join(probs, "; "))
}

// ---- fixed-list-push-pop

func c10FixedList(c *Ctx, cp *c10Copy) {
	const rule = "fixed-list-push-pop"
	// pop
	ps, f := cp.paths(c, rule, "fixedpop")
	if ps != nil && len(f.ParamNames) == 1 {
		list := &wterm{Op: "param", Name: f.ParamNames[0]}
		var probs []string
		n := 0
		for i, p := range ps {
			if p.End != "return" || len(p.Results) != 1 {
				continue
			}
			at := fmt.Sprintf("path %d", i)
			if wIsConst(p.Results[0], 0) {
				// empty only when the count is zero
				ok := false
				for _, cd := range p.Conds {
					if cd.T.Op == "op" && cd.T.Name == "eqz" && cd.Taken && wLinEqual(cd.T.Args[0], wLoad(list, 0)) {
						ok = true
					}
				}
				if !ok {
					probs = append(probs, at+": reports an empty list without the count being zero")
				}
				continue
			}
			n++
			head := wLoad(list, 4)
			if !wLinEqual(p.Results[0], head) {
				probs = append(probs, at+": the node returned is not the list's first node")
			}
			if st := findStores(p, list, 0); len(st) != 1 || !wLinEqual(st[0], wAdd(wLoad(list, 0), wConst(-1))) {
				probs = append(probs, at+": the node count is not decremented by one")
			}
			if st := findStores(p, list, 4); len(st) != 1 || !wLinEqual(st[0], wLoad(head, 4)) {
				probs = append(probs, at+": the list head is not advanced to the second node")
			}
		}
		c.Check(len(probs) == 0 && n > 0, rule, cp.key(f), cp.loc(f, 0), "pop returns the first node, advances the head, decrements the count", f.Name+": "+strings.Join(probs, "; "))
	}
	// push
	ps, f = cp.paths(c, rule, "fixedpush")
	if ps != nil && len(f.ParamNames) == 2 {
		list, blk := &wterm{Op: "param", Name: f.ParamNames[0]}, &wterm{Op: "param", Name: f.ParamNames[1]}
		var probs []string
		n, spill := 0, 0
		for i, p := range ps {
			if p.End != "return" {
				continue
			}
			n++
			at := fmt.Sprintf("path %d", i)
			spilled := len(findCalls(p, cp.Name["freeall"])) > 0
			// after a spill the list is empty: count and head are read again from memory, which the summary shows as the same loads
			if st := findStores(p, blk, 4); len(st) != 1 || !wLinEqual(st[0], wLoad(list, 4)) {
				probs = append(probs, at+": the pushed block does not inherit the old first node")
			}
			if st := findStores(p, list, 4); len(st) != 1 || !wLinEqual(st[0], blk) {
				probs = append(probs, at+": the list head does not become the pushed block")
			}
			if st := findStores(p, list, 0); len(st) != 1 || !wLinEqual(st[0], wAdd(wLoad(list, 0), wConst(1))) {
				probs = append(probs, at+": the node count is not incremented by one")
			}
			if spilled {
				spill++
				ok := false
				for _, cd := range p.Conds {
					if cd.T.Op == "op" && (cd.T.Name == "eq" || cd.T.Name == "ge_s" || cd.T.Name == "ge_u") && cd.Taken && wLinEqual(cd.T.Args[0], wLoad(list, 0)) && cd.T.Args[1].Op == "global" {
						ok = true
					}
				}
				if !ok {
					probs = append(probs, at+": the list is spilled without its count having reached the capacity")
				}
			}
		}
		c.Check(len(probs) == 0 && n >= 2 && spill >= 1, rule, cp.key(f), cp.loc(f, 0), "push links the block in front, counts it, spills the list when the count reached the capacity", f.Name+": "+strings.Join(probs, "; "))
	}
}

// ---- header-offset

func c10Header(c *Ctx, cp *c10Copy) {
	const rule = "header-offset"
	ps, f := cp.paths(c, rule, "malloc")
	if ps != nil {
		var probs []string
		n := 0
		producers := map[string]bool{cp.Name["fixedpop"]: true, cp.Name["varying"]: true, cp.Name["new"]: true}
		for i, p := range ps {
			if p.End != "return" || len(p.Results) != 1 || wIsConst(p.Results[0], 0) {
				continue
			}
			n++
			r := p.Results[0]
			ok := false
			if r.Op == "op" && r.Name == "add" {
				for k := 0; k < 2; k++ {
					if b := r.Args[k]; b.Op == "call" && producers[b.Name] && wIsConst(r.Args[1-k], c10Header8) {
						ok = true
					}
				}
			}
			if !ok {
				probs = append(probs, fmt.Sprintf("path %d returns %s, not <block from a free list or the bump area> + %d", i, r, c10Header8))
			}
		}
		c.Check(len(probs) == 0 && n >= 3, rule, cp.key(f), cp.loc(f, 0), fmt.Sprintf("every successful path returns block + %d", c10Header8), f.Name+": "+strings.Join(probs, "; "))
	}
	ps, f = cp.paths(c, rule, "free")
	if ps != nil && len(f.ParamNames) == 1 {
		ptr := &wterm{Op: "param", Name: f.ParamNames[0]}
		var probs []string
		n := 0
		for i, p := range ps {
			if p.End != "return" {
				continue
			}
			for _, e := range p.Events {
				if e.Kind != "call" || (e.Name != cp.Name["l128free"] && e.Name != cp.Name["fixedpush"]) {
					continue
				}
				n++
				blk := e.Args[len(e.Args)-1]
				if d, ok := linDiffConst(ptr, blk); !ok || d != c10Header8 {
					probs = append(probs, fmt.Sprintf("path %d releases %s; the block header of a pointer handed out by malloc is at pointer - %d", i, blk, c10Header8))
				}
				if e.Name == cp.Name["fixedpush"] {
					// the list is the one the ladder gives for the block's own size
					l := e.Args[0]
					if !(l.Op == "call" && l.Name == cp.Name["ladder"] && l.Idx == 0 && len(l.Args) == 1 && wLinEqual(l.Args[0], wLoad(blk, 0))) {
						probs = append(probs, fmt.Sprintf("path %d pushes the block onto %s, not onto the list its own size selects", i, l))
					}
				}
			}
		}
		c.Check(len(probs) == 0 && n >= 2, rule, cp.key(f), cp.loc(f, 0), fmt.Sprintf("free releases pointer - %d, fixed-size blocks onto the list their size selects", c10Header8), f.Name+": "+strings.Join(probs, "; "))
	}
}
