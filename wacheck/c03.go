package main

import (
	"fmt"
	"regexp"
	"sort"
	"strings"
)

func init() {
	f := "internal/wat/watutil/wat2c/wat2c_func.go"
	register(&Property{ID: "C03", Run: runC03, Mutants: []Mutant{
		{Name: "epilogue chosen from the last instruction visited", File: f, Old: "\tvar lastTok token.Token\n\tif n := len(fn.Body.List); n > 0 {\n\t\tlastTok = fn.Body.List[n-1].Token()\n\t}\n\tswitch tok := lastTok; tok {", New: "\tswitch tok := stk.LastInstruction().Token(); tok {", Expect: "epilogue-on-top-level-last"},
		{Name: "i32.load indexes memory with the signed address", File: f, Old: "\"%smemcpy(&R%d.i32, &%s_memory[(uint64_t)R%d.u32+%d], 4); // %s\\n\"", New: "\"%smemcpy(&R%d.i32, &%s_memory[R%d.i32+%d], 4); // %s\\n\"", Expect: "c-memory-address-unsigned :: i32.load"},
		{Name: "memory.fill reads its length signed", File: f, Old: "memset(&%s_memory[R%d.u32], R%d.i32, R%d.u32);", New: "memset(&%s_memory[R%d.u32], R%d.i32, R%d.i32);", Expect: "c-memory-address-unsigned :: memory.fill: length"},
		{Name: "memory.copy through memcpy", File: f, Old: "%smemmove(&%s_memory[R%d.u32], &%s_memory[R%d.u32], R%d.u32);", New: "%smemcpy(&%s_memory[R%d.u32], &%s_memory[R%d.u32], R%d.u32);", Expect: "c-memory-copy-overlap :: memory.copy"},
		{Name: "memory.init cuts the data with slot numbers", File: f, Old: "for _, x := range p.m.Data[i.DataIdx].Value {", New: "for _, x := range p.m.Data[i.DataIdx].Value[off:][:len] {", Expect: "slot-number-not-value :: wat2c wat2cWorker.buildFunc_ins"},
		{Name: "f64.min through C's fmin", File: f, Old: "R%d.f64 = F_MIN(R%d.f64, R%d.f64);", New: "R%d.f64 = fmin(R%d.f64, R%d.f64);", Expect: "c-template-semantics :: f64.min"},
		{Name: "prelude not written for f32.min/max", File: "internal/wat/watutil/wat2c/wat2c_helper.go", Old: "\tcase token.INS_F32_MIN, token.INS_F32_MAX:\n\t\treturn true\n", New: "", Expect: "c-prelude-emitted-for-users :: f32.m"},
		{Name: "C prelude: F_MIN orders the zeros the other way", File: "internal/wat/watutil/wat2c/_math_x.c", Old: "(signbit(x) ? (x) : (y))     \\\n   : ((x) < (y)) ? (x) : (y))", New: "(signbit(x) ? (y) : (x))     \\\n   : ((x) < (y)) ? (x) : (y))", Expect: "c-prelude-minmax :: F_MIN"},
		{Name: "C prelude: F_MAX picks the smaller operand", File: "internal/wat/watutil/wat2c/_math_x.c", Old: ": ((x) > (y)) ? (x) : (y))", New: ": ((x) < (y)) ? (x) : (y))", Expect: "c-prelude-minmax :: F_MAX"},
		{Name: "C prelude: F_MAX answers the other operand for a NaN", File: "internal/wat/watutil/wat2c/_math_x.c", Old: "#define F_MAX(x, y)                                            \\\n  ((((x) != (x)) || ((y) != (y))) ? ((x) + (y))", New: "#define F_MAX(x, y)                                            \\\n  (((x) != (x)) ? (y) : ((y) != (y)) ? (x)", Expect: "c-prelude-minmax :: F_MAX"},
		{Name: "data literal: question mark written raw", File: "internal/wat/watutil/wat2c/wat2c_code.go", Old: "+={}[]|:;'<>,./\", rune(x)):", New: "+={}[]|:;'<>,.?/\", rune(x)):", Expect: "c-data-literal :: buildMemory_data: `??x`"},
		{Name: "i32.add in signed arithmetic", File: f, Old: "R%d.i32 = (int32_t)((uint32_t)R%d.i32 + (uint32_t)R%d.i32);", New: "R%d.i32 = R%d.i32 + R%d.i32;", Expect: "c-template-semantics :: i32.add"},
		{Name: "i64.mul in signed arithmetic", File: f, Old: "R%d.i64 = (int64_t)((uint64_t)R%d.i64 * (uint64_t)R%d.i64);", New: "R%d.i64 = R%d.i64 * R%d.i64;", Expect: "c-template-semantics :: i64.mul"},
		{Name: "i64.shl shifts the signed value", File: f, Old: "R%d.i64 = (int64_t)((uint64_t)R%d.i64 << (((uint64_t)R%d.i64)&63));", New: "R%d.i64 = R%d.i64 << (((uint64_t)R%d.i64)&63);", Expect: "c-template-semantics :: i64.shl"},
		{Name: "C prelude: i32 rotate count stays signed", File: "internal/wat/watutil/wat2c/_math_x.c", Old: "#define I32_ROTL(x, y) ((int32_t)ROTL((uint32_t)(x), (uint32_t)(y), 31))", New: "#define I32_ROTL(x, y) ((int32_t)ROTL((uint32_t)(x), y, 31))", Expect: "c-template-semantics :: i32.rotl"},
		{Name: "f32.nearest rounds halves away from zero", File: f, Old: "R%d.f32 = rintf(R%d.f32);", New: "R%d.f32 = roundf(R%d.f32);", Expect: "c-template-semantics :: f32.nearest"},
		{Name: "f64.convert_i64_u converts the signed view", File: f, Old: "R%d.f64 = (double)(R%d.u64);", New: "R%d.f64 = (double)(R%d.i64);", Expect: "c-template-semantics :: f64.convert_i64_u"},
		{Name: "i32.shr_u masks the count with 63", File: f, Old: "R%d.i32 = (int32_t)((uint32_t)(R%d.i32)>>(uint32_t)(R%d.i32&31));", New: "R%d.i32 = (int32_t)((uint32_t)(R%d.i32)>>(uint32_t)(R%d.i32&63));", Expect: "c-template-semantics :: i32.shr_u"},
		{Name: "module-level exports not copied into the functions", File: "internal/wat/watutil/wat2c/wat2c.go", Old: "\t\t\tif fn.Name == e.FuncIdx && fn.ExportName == \"\" {\n\t\t\t\tfn.ExportName = e.Name\n\t\t\t}\n", New: "\t\t\t_ = fn\n", Expect: "c-export-forms-normalised"},
		{Name: "f64.store copies from memory into the register", File: f, Old: "\"%smemcpy(&%s_memory[(uint64_t)R%d.u32+%d], &R%d.f64, 8); // %s\\n\",\n\t\t\t\tindent, p.opt.Prefix, sp1, i.Offset, sp0,", New: "\"%smemcpy(&R%d.f64, &%s_memory[(uint64_t)R%d.u32+%d], 8); // %s\\n\",\n\t\t\t\tindent, sp0, p.opt.Prefix, sp1, i.Offset,", Expect: "c-memory-access-semantics :: f64.store"},
		{Name: "i32.store16 ignores the memarg offset", File: f, Old: "memcpy(&%s_memory[(uint64_t)R%d.u32+%d], &R_u16, 2); // %s\\n\",\n\t\t\t\tindent, sp0, p.opt.Prefix, sp1, i.Offset,", New: "memcpy(&%s_memory[(uint64_t)R%d.u32+%d], &R_u16, 2); // %s\\n\",\n\t\t\t\tindent, sp0, p.opt.Prefix, sp1, i.Offset*0,", Expect: "c-memory-access-semantics :: i32.store16"},
		{Name: "i32.const template ends in its comment without a newline", File: f, Old: "\"%sR%d.i32 = %d; // %s\\n\", indent, sp0, i.X, insString(i))", New: "\"%sR%d.i32 = %d; // %s\", indent, sp0, i.X, insString(i))", Expect: "line-terminated :: wat2c"},
		{Name: "br_table locates the first result after popping them", File: f, Old: "\t\t\t\t\tfirstResultOffset := retIdxList[0]\n", New: "\t\t\t\t\tfirstResultOffset := stk.Len() - len(destScopeResults)\n", Expect: "carried-results-located :: wat2c INS_BR_TABLE"},
		{Name: "br_table writes the moves before the case label", File: f, Old: "\t\t\t\t\t\tfmt.Fprintf(w, \"%s%s\\n\", indent, caseLabel)\n\t\t\t\t\t\tcaseLabel = \"\"\n", New: "", Expect: "switch-arm-statements-labelled :: wat2c INS_BR_TABLE: case label, results moved"},
		{Name: "br_table writes the label only when nothing was moved", File: f, Old: "\t\t\t\t\t\tfmt.Fprintf(w, \"%s%s\\n\", indent, caseLabel)\n\t\t\t\t\t\tcaseLabel = \"\"\n", New: "\t\t\t\t\t\tcaseLabel = \"\"\n", Expect: "switch-arm-statements-labelled :: wat2c INS_BR_TABLE: default label, results moved"},
		{Name: "br_table demands two labels", File: f, Old: "\t\tassert(len(i.XList) >= 1)\n", New: "\t\tassert(len(i.XList) > 1)\n", Expect: "br-table-accepts-default-only :: wat2c"},
		{Name: "memory.grow tests size+delta in int32 arithmetic", File: f, Old: "fmt.Fprintf(w, \"%sif((uint32_t)R%d.i32 <= (uint32_t)(%s_memory_init_max_pages-%s_memory_size)) {\\n\",\n\t\t\tindent, sp0, p.opt.Prefix, p.opt.Prefix,", New: "fmt.Fprintf(w, \"%sif(%s_memory_size+R%d.i32 <= %s_memory_init_max_pages) {\\n\",\n\t\t\tindent, p.opt.Prefix, sp0, p.opt.Prefix,", Expect: "c-memory-grow-no-wrap"},
		{Name: "memory.grow compares the delta signed", File: f, Old: "if((uint32_t)R%d.i32 <= (uint32_t)(%s_memory_init_max_pages-%s_memory_size)) {", New: "if(R%d.i32 <= (%s_memory_init_max_pages-%s_memory_size)) {", Expect: "c-memory-grow-no-wrap"},
		{Name: "implicit return pops the results first to last", File: f, Old: "\t\t\tfor i := len(fn.Type.Results) - 1; i >= 0; i-- {\n\t\t\t\txType := fn.Type.Results[i]\n\t\t\t\tspi := stk.Pop(xType)", New: "\t\t\tfor i, xType := range fn.Type.Results {\n\t\t\t\tspi := stk.Pop(xType)", Expect: "list-stack-order :: wat2cWorker.buildFunc_body"},
		{Name: "call pops its arguments first to last", File: f, Old: "\t\tfor k := len(argList) - 1; k >= 0; k-- {\n\t\t\tx := fnCallType.Params[k]", New: "\t\tfor k := 0; k < len(argList); k++ {\n\t\t\tx := fnCallType.Params[k]", Expect: "list-stack-order :: wat2cWorker.buildFunc_ins: Pop per element of fnCallType.Params"},
		{Name: "call pushes its results last to first", File: f, Old: "\t\t\tfor k, retType := range fnCallType.Results {\n\t\t\t\treti := stk.Push(retType)", New: "\t\t\tfor k := len(fnCallType.Results) - 1; k >= 0; k-- {\n\t\t\t\tretType := fnCallType.Results[k]\n\t\t\t\treti := stk.Push(retType)", Expect: "list-stack-order :: wat2cWorker.buildFunc_ins: Push per element of fnCallType.Results"},
		{Name: "C prelude: i64.ctz(0) answers 32", File: "internal/wat/watutil/wat2c/_math_x.c", Old: "#define I64_CTZ(x) ((x) ? __builtin_ctzll(x) : 64)", New: "#define I64_CTZ(x) ((x) ? __builtin_ctzll(x) : 32)", Expect: "c-prelude-bit-macros :: I64_CTZ"},
		{Name: "C prelude: i64 rotate masks the count with 31", File: "internal/wat/watutil/wat2c/_math_x.c", Old: "#define I64_ROTL(x, y) ((int64_t)ROTL((uint64_t)(x), (uint64_t)(y), 63))", New: "#define I64_ROTL(x, y) ((int64_t)ROTL((uint64_t)(x), (uint64_t)(y), 31))", Expect: "c-prelude-bit-macros :: I64_ROTL"},
		{Name: "C prelude: i32 rotate on the signed value", File: "internal/wat/watutil/wat2c/_math_x.c", Old: "#define I32_ROTR(x, y) ((int32_t)ROTR((uint32_t)(x), (uint32_t)(y), 31))", New: "#define I32_ROTR(x, y) ROTR(x, (uint32_t)(y), 31)", Expect: "c-prelude-bit-macros :: I32_ROTR: unsigned operand"},
		{Name: "val_t loses its unsigned 64-bit view", File: "internal/wat/watutil/wat2c/wat2c_code.go", Old: "\tfmt.Fprintf(w, \"  uint64_t  u64;\\n\")\n", New: "", Expect: "union-member-exists :: R<n>.u64"},
		{Name: "f64 constants printed with %f", File: f, Old: "\"%sR%d.f64 = %x; // %s\\n\"", New: "\"%sR%d.f64 = %f; // %s\\n\"", Expect: "float-literal-exact"},
		{Name: "br copies its results from the last to the first", File: f, Old: "\t\t\t\tfor i := 0; i < len(destScopeResults); i++ {\n\t\t\t\t\txType := destScopeResults[i]\n\t\t\t\t\treti := retIdxList[i]", New: "\t\t\t\tfor i := len(destScopeResults) - 1; i >= 0; i-- {\n\t\t\t\t\txType := destScopeResults[i]\n\t\t\t\t\treti := retIdxList[i]", Expect: "overlap-copy-direction"},
		{Name: "i32.rem_s without the -1 guard", File: f, Old: "\"%sR%d.i32 = R%d.i32 %% ((R%d.i32 == -1)? 1: R%d.i32); // %s\\n\",\n\t\t\tindent, ret0, sp1, sp0, sp0,", New: "\"%sR%d.i32 = R%d.i32 %% R%d.i32; // %s\\n\",\n\t\t\tindent, ret0, sp1, sp0,", Expect: "c-template-semantics :: i32.rem_s"},
		{Name: "memory.grow stores the old size before it adds the delta", File: "internal/wat/watutil/wat2c/wat2c_func.go", Old: "\t\t\tfmt.Fprintf(w, \"%sint32_t temp = %s_memory_size;\\n\",\n\t\t\t\tindent+indent, p.opt.Prefix,\n\t\t\t)", New: "\t\t\tfmt.Fprintf(w, \"%sR%d.i32 = %s_memory_size;\\n\",\n\t\t\t\tindent+indent, ret0, p.opt.Prefix,\n\t\t\t)", Old2: "\t\t\tfmt.Fprintf(w, \"%sR%d.i32 = temp;\\n\",\n\t\t\t\tindent+indent, ret0,\n\t\t\t)\n", New2: "", Expect: "operand-read-after-result-write :: memory.grow"},
		{Name: "br copies results only when they are above the current block's base", File: "internal/wat/watutil/wat2c/wat2c_func.go", Old: "\t\t\tif firstResultOffset > destScopeStackBase {", New: "\t\t\tif firstResultOffset > currentScopeStackBase {", Expect: "br-result-copy-guard"},
		{Name: "data literal: 'F' after a hex escape not split off", File: "internal/wat/watutil/wat2c/wat2c_code.go", Old: "if prevIsHexEscape && x <= 'F' {", New: "if prevIsHexEscape && x < 'F' {", Expect: "c-data-literal"},
		{Name: "data literal: double quote written raw", File: "internal/wat/watutil/wat2c/wat2c_code.go", Old: "\t\t\t\tsb.WriteString(\"\\\\\\\"\")", New: "\t\t\t\tsb.WriteString(\"\\\"\")", Expect: "c-data-literal"},
		{Name: "i32.lt_u compares signed", File: f, Old: "R%d.i32 = ((uint32_t)(R%d.i32)<(uint32_t)(R%d.i32))? 1: 0;", New: "R%d.i32 = (R%d.i32<R%d.i32)? 1: 0;", Expect: "c-template-semantics :: i32.lt_u"},
		{Name: "i64.sub operands swapped", File: f, Old: "fmt.Fprintf(w, \"%sR%d.i64 = (int64_t)((uint64_t)R%d.i64 - (uint64_t)R%d.i64); // %s\\n\",\n\t\t\tindent, ret0, sp1, sp0,", New: "fmt.Fprintf(w, \"%sR%d.i64 = (int64_t)((uint64_t)R%d.i64 - (uint64_t)R%d.i64); // %s\\n\",\n\t\t\tindent, ret0, sp0, sp1,", Expect: "c-template-semantics :: i64.sub"},
		{Name: "i64.shr_s mask 31", File: f, Old: "R%d.i64 = R%d.i64 >> (((uint64_t)R%d.i64)&63);", New: "R%d.i64 = R%d.i64 >> (((uint64_t)R%d.i64)&31);", Expect: "c-template-semantics :: i64.shr_s"},
		{Name: "i32.ge_s uses >", File: f, Old: "R%d.i32 = (R%d.i32>=R%d.i32)? 1: 0;", New: "R%d.i32 = (R%d.i32>R%d.i32)? 1: 0;", Expect: "c-template-semantics :: i32.ge_s"},
		{Name: "f64.lt reads the f32 view", File: f, Old: "R%d.i32 = (R%d.f64<R%d.f64)? 1: 0;", New: "R%d.i32 = (R%d.f64<R%d.f32)? 1: 0;", Expect: "c-slot-type :: f64.lt"},
		{Name: "i64.load16_s zero-extends", File: f, Old: "R%d.i64 = (int64_t)((int16_t)R_u16);", New: "R%d.i64 = (int64_t)((uint16_t)R_u16);", Expect: "c-memory-access-semantics :: i64.load16_s"},
		{Name: "i32.load8_u copies two bytes", File: f, Old: "memcpy(&R_u8, &%s_memory[(uint64_t)R%d.u32+%d], 1); R%d.i32 = (int32_t)((uint8_t)R_u8);", New: "memcpy(&R_u8, &%s_memory[(uint64_t)R%d.u32+%d], 2); R%d.i32 = (int32_t)((uint8_t)R_u8);", Expect: "c-memory-access-semantics :: i32.load8_u"},
		{Name: "i64.trunc_f64_u goes through int32", File: f, Old: "R%d.i64 = (int64_t)(uint64_t)(trunc(R%d.f64));", New: "R%d.i64 = (int64_t)(uint32_t)(trunc(R%d.f64));", Expect: "c-template-semantics :: i64.trunc_f64_u"},
		{Name: "f32.ceil uses floorf", File: f, Old: "R%d.f32 = ceilf(R%d.f32);", New: "R%d.f32 = floorf(R%d.f32);", Expect: "c-template-semantics :: f32.ceil"},
		{Name: "i32.rem_u divides", File: f, Old: "R%d.i32 = (int32_t)((uint32_t)(R%d.i32)%%(uint32_t)(R%d.i32));", New: "R%d.i32 = (int32_t)((uint32_t)(R%d.i32)/(uint32_t)(R%d.i32));", Expect: "c-template-semantics :: i32.rem_u"},
		{Name: "i64.extend_i32_u sign-extends", File: f, Old: "R%d.i64 = (int64_t)((uint32_t)(R%d.i32));", New: "R%d.i64 = (int64_t)((int32_t)(R%d.i32));", Expect: "c-template-semantics :: i64.extend_i32_u"},
		{Name: "i32.store16 pops the address as value", File: f, Old: "case token.INS_I64_EQZ:\n\t\tsp0 := stk.Pop(token.I64)", New: "case token.INS_I64_EQZ:\n\t\tsp0 := stk.Pop(token.I32)", Expect: "stack-effect :: wat2c i64.eqz"},
	}})
}

var reVerb = regexp.MustCompile(`%[-+# 0]*[0-9]*(?:\.[0-9]+)?[a-zA-Z%]`)
var reSlot = regexp.MustCompile(`R%d\.(\w+)`)

// slotRefs: for each "R%d.<field>" in the format, the argument expression bound to its %d.
type slotRef struct {
	Field string
	Arg   string
	Pos   int
}

func slotRefs(l TemplLine) []slotRef {
	// map verb index -> arg
	var verbPos []int
	for _, m := range reVerb.FindAllStringIndex(l.Format, -1) {
		if l.Format[m[0]:m[1]] == "%%" {
			continue
		}
		verbPos = append(verbPos, m[0])
	}
	argAt := func(pos int) string {
		for i, vp := range verbPos {
			if vp == pos && i < len(l.Args) {
				return l.Args[i]
			}
		}
		return ""
	}
	var out []slotRef
	for _, m := range reSlot.FindAllStringSubmatchIndex(l.Format, -1) {
		// "R%d" : the verb starts at m[0]+1
		out = append(out, slotRef{Field: l.Format[m[2]:m[3]], Arg: argAt(m[0] + 1), Pos: m[0]})
	}
	return out
}

var reCast = regexp.MustCompile(`\((?:u?int(?:8|16|32|64)_t|float|double)\)`)

// cNormal: strip casts, slot names, spaces and parentheses; keep operators and identifiers.
func cNormal(format string) string {
	s := format
	if i := strings.Index(s, "//"); i >= 0 {
		s = s[:i]
	}
	s = strings.TrimPrefix(s, "%s")
	s = reCast.ReplaceAllString(s, "")
	s = regexp.MustCompile(`R%d(?:\.\w+)?`).ReplaceAllString(s, "R")
	s = strings.NewReplacer(" ", "", "(", "", ")", "", "\n", "", "\t", "").Replace(s)
	s = strings.ReplaceAll(s, "%%", "%")
	return s
}

func runC03(c *Ctx) {
	c.Explain = "Decides the instruction-template dispatcher of the WAT-to-C translator (wat2c): (1) every WAT instruction token has an arm; (2) each fixed-signature arm pops/pushes the virtual operand stack per the WebAssembly signature; " +
		"(3) in every C template each R<n>.<view> names the union view of the type with which that slot was popped/pushed; (4) non-commutative templates put the second-popped slot on the left; " +
		"(5) the C operator / libm function / helper macro is the one for the mnemonic, unsigned mnemonics compute on unsigned views and signed ones do not, shift counts are masked with width-1, " +
		"narrow loads extend with the mnemonic's signedness and transfer the mnemonic's width, and integer conversions do not narrow through a smaller integer type. " +
		"(6) around the templates: list pops last-to-first and pushes first-to-last, carried results moved upwards, the memory.grow condition cannot wrap, every register view is a member of the emitted val_t, float values are printed as hexadecimal floating constants, the rotate macros work on the unsigned value, x rem_s -1 is guarded. " +
		"(7) the C statement of every numeric arm (123) and the statements of every load and store arm (23) are evaluated with the checker's own model of ISO C typing (promotions, usual arithmetic conversions, undefined behaviour for signed overflow, shift counts, division and out-of-range conversions; prelude macros expanded from _math_x.c) over a grid of boundary operands and a modelled linear memory, and the stored value is WebAssembly's; for the arms this decides, the shape rules of (4) and (5) are not applied. (8) branch arms: carried results are located before they are popped, br_table moves results after its case label, the epilogue is chosen on the last top-level instruction, no text is written behind an open // comment, data literals survive trigraph replacement, memory is indexed unsigned, memory.copy is memmove. " +
		"NOT decided: trap behaviour of C operators (division by zero, out-of-range float->int: operands WebAssembly traps on are not evaluated), memory bounds, the stack model of blocks and branches beyond these rules."
	c.Trusted = []string{"go/packages, go/types (x/tools v0.29.0)", "embedded WebAssembly instruction table", "C operator / libm table in c03.go"}
	c.Exhaust = true
	p := c.Load(LoadOpt{Light: true}, "./internal/wat/token", "./internal/wat/watutil/wat2c")
	ins, tk := watTokenTable(c, p, "exhaustive")
	pk := p.MustPkg("exhaustive", "internal/wat/watutil/wat2c")
	if tk == nil || pk == nil {
		return
	}
	c03DataLiteral(c, p, pk)
	c03BrResultCopy(c, p, pk)
	c03ListOrder(c, p, pk)
	c.Min("overlap-copy-direction", "result-moving loops of wat2c", copyDirection(c, p, pk, ""), 1)
	by := stackEffectRules(c, p, "wat2c", pk, ins)
	if by == nil {
		return
	}
	c03SlotAliasing(c, p, by, ins)
	c03MemoryGrow(c, p, by)
	c03UnionMembers(c, p, pk)
	c03IndexLoops(c, p, pk, 14)
	c03EpilogueDecision(c, p, pk)
	c.Min("line-terminated", "functions of wat2c that write C text", lineTerminatedRule(c, p, pk, "wat2c ", lineC), 5)
	c.Min("carried-results-located", "result moves in the branch arms of wat2c", carriedResultsLocated(c, p, pk, "wat2c"), 2)
	c.Min("switch-arm-statements-labelled", "br_table iterations of wat2c", switchArmStatementsLabelled(c, p, pk), 5)
	c.Min("br-table-accepts-default-only", "br_table arm of wat2c", brTableAcceptsDefaultOnly(c, p, pk, "wat2c"), 1)
	c.Min("float-literal-exact", "float values written into the generated C code", floatLiteralExact(c, p, pk, []string{"//"}, ""), 6)
	c03MemoryTemplates(c, p, by)
	c03ExportForms(c, p, pk)
	c.Min("slot-number-not-value", "functions of wat2c that hold slot numbers", slotNumberNotValue(c, p, pk, "wat2c "), 2)
	c03Prelude(c)
	c03PreludeMinMax(c)
	c03PreludeUsers(c, p, pk, by)
	var names []string
	for k := range ins {
		names = append(names, k)
	}
	sort.Strings(names)
	view := map[string]string{"i32": "i32", "u32": "i32", "i64": "i64", "u64": "i64", "f32": "f32", "f64": "f64"}
	cop := map[string]string{"add": "+", "sub": "-", "mul": "*", "div": "/", "div_s": "/", "div_u": "/", "rem_s": "%", "rem_u": "%", "and": "&", "or": "|", "xor": "^",
		"eq": "==", "ne": "!=", "lt": "<", "gt": ">", "le": "<=", "ge": ">=", "lt_s": "<", "lt_u": "<", "gt_s": ">", "gt_u": ">", "le_s": "<=", "le_u": "<=", "ge_s": ">=", "ge_u": ">="}
	libm := map[string]string{"abs": "fabs", "ceil": "ceil", "floor": "floor", "trunc": "trunc", "nearest": "rint", "sqrt": "sqrt", "min": "F_MIN", "max": "F_MAX", "copysign": "copysign"}
	// the numeric arms are decided by evaluation first (c03_csim.go); for an arm that evaluation decides, the shape
	// rules below (operator, casts, mask, operand order, cast chain) are not applied: an equivalent C expression would
	// trip them, and the evaluation sees the stored value itself
	semDecided := c03TemplateSemantics(c, p, by)
	for m := range c03MemoryAccessSemantics(c, p, by) {
		semDecided[m] = true
	}
	nops := 0
	for _, k := range names {
		m := ins[k]
		a, ok := by[k]
		sp := wasmSpec[m]
		if !ok || a.Fatal || sp == nil {
			continue
		}
		loc := p.Pos(a.Arm.Clause.Pos())
		shapeCheck := func(cond bool, rule, construct, loc, okd, bad string) {
			if semDecided[m] {
				if !cond {
					c.Note("shape rule [%s] not applied to %s (the arm is decided by evaluation): %s", rule, construct, bad)
				}
				return
			}
			c.Check(cond, rule, construct, loc, okd, bad)
		}
		for _, v := range a.Variants {
			varType := map[string]string{}
			for _, o := range v.Ops {
				if o.Var != "" && o.Type != "" {
					varType[o.Var] = o.Type
				}
			}
			// (3) slot views
			for _, l := range v.Lines {
				for _, r := range slotRefs(l) {
					t, isSlot := varType[r.Arg]
					if !isSlot {
						continue
					}
					if r.Field == "ref" {
						continue
					}
					c.Check(view[r.Field] == t, "c-slot-type", m+" "+r.Arg, loc, "R."+r.Field+" for "+t,
						fmt.Sprintf("template for %s reads/writes slot %s through the .%s view, but the slot was popped/pushed as %s", m, r.Arg, r.Field, t))
				}
			}
			if sp.Poly || len(m) < 5 || m[3] != '.' || v.Dyn {
				continue
			}
			t, op := m[:3], m[4:]
			// the single computing line: the one that writes the pushed slot (or, for stores, mentions memory)
			var line *TemplLine
			for i := range v.Lines {
				for _, r := range slotRefs(v.Lines[i]) {
					if r.Arg == v.varOf("push", 0) && r.Arg != "" {
						line = &v.Lines[i]
					}
				}
			}
			if line == nil && len(v.Lines) > 0 {
				line = &v.Lines[len(v.Lines)-1]
			}
			if line == nil {
				continue
			}
			norm := cNormal(line.Format)
			refs := slotRefs(*line)
			// (4) operand order
			if len(v.pops()) == 2 && (nonCommutative[op] || strings.Contains(op, "store")) && !strings.Contains(op, "store") {
				first := ""
				for _, r := range refs {
					if first == "" && (r.Arg == v.varOf("pop", 0) || r.Arg == v.varOf("pop", 1)) {
						first = r.Arg
					}
				}
				shapeCheck(first == v.varOf("pop", 1), "c-operand-order", m, loc, "left operand is the second popped slot",
					fmt.Sprintf("template for the non-commutative %s has %s as its left operand; the left operand is the second popped slot (%s)", m, first, v.varOf("pop", 1)))
			}
			if strings.Contains(op, "store") && len(v.pops()) == 2 {
				// value = first popped, address = second popped: the memory index must use the address slot
				// (the slot may be written behind a widening cast: `_memory[(uint64_t)R%d.u32+%d]`)
				idx := strings.Index(line.Format, "_memory[")
				end := -1
				if idx >= 0 {
					end = idx + strings.IndexByte(line.Format[idx:], ']')
				}
				good := false
				for _, r := range refs {
					if idx >= 0 && r.Pos >= idx+len("_memory[") && r.Pos < end {
						good = r.Arg == v.varOf("pop", 1)
						break
					}
				}
				shapeCheck(good, "c-operand-order", m, loc, "address is the second popped slot", "store template for "+m+" does not index memory with the address slot (second popped)")
			}
			// (5) operator / function
			isInt := t == "i32" || t == "i64"
			width := map[string]string{"i32": "32", "i64": "64", "f32": "32", "f64": "64"}[t]
			want := ""
			switch {
			case op == "eqz":
				want = "R=R==0?1:0;"
			case cop[op] != "" && (strings.HasPrefix(op, "eq") || strings.HasPrefix(op, "ne") || strings.HasPrefix(op, "lt") || strings.HasPrefix(op, "gt") || strings.HasPrefix(op, "le") || strings.HasPrefix(op, "ge")):
				want = "R=R" + cop[op] + "R?1:0;"
			case op == "rem_s":
				// x rem_s -1 is 0 in WebAssembly for every x; C's % is undefined for INT_MIN % -1 (idiv faults), so the
				// divisor -1 is replaced by 1 (x % 1 == 0)
				want = "R=R%R==-1?1:R;"
			case cop[op] != "":
				want = "R=R" + cop[op] + "R;"
			case op == "shl":
				want = "R=R<<R&MASK;"
			case op == "shr_s" || op == "shr_u":
				want = "R=R>>R&MASK;"
			case isInt && (op == "clz" || op == "ctz" || op == "popcnt"):
				want = "R=" + strings.ToUpper(t) + "_" + strings.ToUpper(op) + "R;"
			case isInt && (op == "rotl" || op == "rotr"):
				want = "R=" + strings.ToUpper(t) + "_" + strings.ToUpper(op) + "R,R;"
			case !isInt && op == "neg":
				want = "R=-R;"
			case !isInt && libm[op] != "":
				fn := libm[op]
				if t == "f32" {
					fn += "f"
				}
				if op == "min" || op == "max" {
					// C's fmin/fmax return the other operand for a NaN and do not order -0 below +0: the translator
					// goes through the prelude's F_MIN/F_MAX, whose definition is decided by c-prelude-minmax
					fn = "F_" + strings.ToUpper(op)
				}
				if op == "min" || op == "max" || op == "copysign" {
					want = "R=" + fn + "R,R;"
				} else {
					want = "R=" + fn + "R;"
				}
			}
			if want != "" {
				nops++
				got := norm
				if strings.Contains(want, "MASK") {
					// check the mask separately
					re := regexp.MustCompile(`&(\d+);$`)
					mm := re.FindStringSubmatch(got)
					wantMask := map[string]string{"32": "31", "64": "63"}[width]
					if mm == nil {
						shapeCheck(false, "c-shift-mask", m, loc, "masked", "shift count of "+m+" is not masked: counts >= "+width+" are undefined behaviour in C (WebAssembly takes the count modulo "+width+")")
					} else {
						shapeCheck(mm[1] == wantMask, "c-shift-mask", m, loc, "count & "+mm[1], fmt.Sprintf("shift count of %s is masked with %s; WebAssembly takes it modulo %s (mask %s)", m, mm[1], width, wantMask))
						got = re.ReplaceAllString(got, "&MASK;")
					}
				}
				shapeCheck(got == want, "c-operator", m, loc, "template computes "+want, fmt.Sprintf("template for %s computes `%s` (casts and parentheses removed); expected the shape `%s`", m, got, want))
			}
			// signedness
			if isInt && (strings.HasSuffix(op, "_u") || strings.HasSuffix(op, "_s")) && !strings.Contains(op, "load") && !strings.HasPrefix(op, "trunc") && !strings.HasPrefix(op, "extend") {
				un := strings.Count(line.Format, "(uint"+width+"_t)")
				operands := len(v.pops())
				if strings.HasSuffix(op, "_u") {
					shapeCheck(un >= operands, "c-signedness", m, loc, "operands are cast to unsigned", fmt.Sprintf("unsigned instruction %s computes on %d unsigned-cast operands of %d: the C operator is applied to signed views", m, un, operands))
				} else {
					// for shifts only the shifted value matters (the count is masked and non-negative either way)
					scope := line.Format
					if i := strings.Index(scope, ">>"); op == "shr_s" && i >= 0 {
						scope = scope[:i]
					}
					shapeCheck(!strings.Contains(scope, "(uint"), "c-signedness", m, loc, "no unsigned cast", "signed instruction "+m+" casts its (left) operand to an unsigned type")
				}
			}
			// narrow loads
			if strings.Contains(op, "load") || strings.Contains(op, "store") {
				bytes := map[string]string{"8": "1", "16": "2", "32": "4"}
				w := map[string]string{"32": "4", "64": "8"}[width]
				nb := ""
				for b, n := range bytes {
					if strings.Contains(op, "load"+b) || strings.Contains(op, "store"+b) {
						w, nb = n, b
					}
				}
				mc := regexp.MustCompile(`,\s*(\d+)\);`).FindStringSubmatch(line.Format)
				if mc == nil {
					c.Undecided("c-access-width", m, loc, "memcpy size not found in the template")
				} else {
					shapeCheck(mc[1] == w, "c-access-width", m, loc, mc[1]+" bytes", fmt.Sprintf("%s transfers %s bytes; the instruction accesses %s", m, mc[1], w))
				}
				if nb != "" && strings.Contains(op, "load") {
					signed := strings.HasSuffix(op, "_s")
					wantCast := "(int" + nb + "_t)"
					if !signed {
						wantCast = "(uint" + nb + "_t)"
					}
					shapeCheck(strings.Contains(line.Format, wantCast+"R_u"+nb), "c-load-extension", m, loc, "extends through "+wantCast, fmt.Sprintf("%s must extend the loaded value through %s; template: %s", m, wantCast, strings.TrimSpace(line.Format)))
				}
			}
			// integer conversions
			if isInt && (strings.HasPrefix(op, "trunc_f") || strings.HasPrefix(op, "extend_i32") || op == "wrap_i64") {
				casts := reCast.FindAllString(line.Format, -1)
				good := true
				why := ""
				switch {
				case strings.HasPrefix(op, "trunc_f"):
					fn := "trunc"
					if strings.Contains(op, "f32") {
						fn = "truncf"
					}
					if !strings.Contains(norm, "R="+fn+"R;") {
						good, why = false, "does not truncate with "+fn
					}
					for _, cst := range casts {
						if strings.HasSuffix(op, "_s") && cst != "(int"+width+"_t)" {
							good, why = false, "signed truncation goes through "+cst
						}
						if strings.HasSuffix(op, "_u") && cst != "(int"+width+"_t)" && cst != "(uint"+width+"_t)" {
							good, why = false, "unsigned truncation goes through "+cst
						}
					}
					if strings.HasSuffix(op, "_u") && !has(casts, "(uint"+width+"_t)") {
						good, why = false, "unsigned truncation does not convert through uint"+width+"_t"
					}
				case op == "extend_i32_s":
					if has(casts, "(uint32_t)") || !has(casts, "(int64_t)") {
						good, why = false, "sign extension must not pass through uint32_t"
					}
				case op == "extend_i32_u":
					if !has(casts, "(uint32_t)") {
						good, why = false, "zero extension must pass through uint32_t"
					}
				case op == "wrap_i64":
					if !has(casts, "(int32_t)") {
						good, why = false, "wrap must cast to int32_t"
					}
				}
				shapeCheck(good, "c-conversion", m, loc, "cast chain "+strings.Join(casts, ""), fmt.Sprintf("conversion template for %s: %s (%s)", m, why, strings.TrimSpace(line.Format)))
			}
			if !isInt && strings.HasPrefix(op, "convert_i") {
				// unsigned sources must read the unsigned view
				src := "i32"
				if strings.Contains(op, "i64") {
					src = "i64"
				}
				wantField := src
				if strings.HasSuffix(op, "_u") {
					wantField = "u" + src[1:]
				}
				good := false
				for _, r := range refs {
					if r.Arg == v.varOf("pop", 0) && r.Field == wantField {
						good = true
					}
				}
				shapeCheck(good, "c-conversion", m, loc, "reads ."+wantField, fmt.Sprintf("%s must read the source through the .%s view", m, wantField))
			}
		}
	}
	c.Min("c-operator", "arms with a decided operator shape", nops, 95)
}
