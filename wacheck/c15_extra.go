package main

import (
	"fmt"
	"go/ast"
	"strings"

	"golang.org/x/tools/go/packages"
)

// C15 extra rules (added after seeded changes were missed):
//
//   fast-path-bounds — internal/constant takes native int64 fast paths for small operands; the guards is32bit / is63bit
//       must accept exactly [-2^(s-1), 2^(s-1)-1] with s = 32 / 63, otherwise a product (sum) of two accepted operands
//       can wrap in int64 and a folded constant differs from the exact value.
//   float-rounding — fitsFloat32 and roundFloat32 (and the 64-bit pair) must round through the same single conversion
//       constant.Float32Val (Float64Val): rounding an exact value to float64 first and then to float32 rounds twice.

func c15FastPath(c *Ctx, p *Prog, cp *packages.Package) {
	const rule = "fast-path-bounds"
	for _, w := range []struct {
		fn string
		s  uint
	}{{"is32bit", 32}, {"is63bit", 63}} {
		fd := p.MustFunc(rule, cp, w.fn)
		if fd == nil {
			continue
		}
		var ret *ast.ReturnStmt
		for _, s := range fd.Body.List {
			if r, ok := s.(*ast.ReturnStmt); ok {
				ret = r
			}
		}
		lo, hi, ok := boundsOf(p, cp, ret)
		if !ok {
			c.Undecided(rule, w.fn, p.Pos(fd.Pos()), "the function does not return `L <= x && x <= U` with constant bounds")
			continue
		}
		wantLo, wantHi := -(int64(1) << (w.s - 1)), int64(1)<<(w.s-1)-1
		c.Check(lo == wantLo && hi == wantHi, rule, w.fn, p.Pos(fd.Pos()), fmt.Sprintf("[%d, %d]", lo, hi),
			fmt.Sprintf("%s accepts [%d, %d]; the native fast path it guards is exact only for [%d, %d]: two accepted operands can overflow int64 and the folded constant wraps", w.fn, lo, hi, wantLo, wantHi))
	}
}

func c15FloatRounding(c *Ctx, p *Prog, tp *packages.Package) {
	const rule = "float-rounding"
	info := tp.TypesInfo
	for _, w := range []struct{ fits, round, accessor string }{{"fitsFloat32", "roundFloat32", "Float32Val"}, {"fitsFloat64", "roundFloat64", "Float64Val"}} {
		for _, name := range []string{w.fits, w.round} {
			fd := p.MustFunc(rule, tp, name)
			if fd == nil {
				continue
			}
			var accessors []string
			ast.Inspect(fd.Body, func(n ast.Node) bool {
				if call, ok := n.(*ast.CallExpr); ok {
					if fn := CalleeOf(info, call); fn != nil && strings.HasSuffix(FuncFullName(fn), "internal/constant."+fn.Name()) && strings.HasSuffix(fn.Name(), "Val") {
						accessors = append(accessors, fn.Name())
					}
				}
				return true
			})
			good := len(accessors) == 1 && accessors[0] == w.accessor
			c.Check(good, rule, name, p.Pos(fd.Pos()), "rounds through constant."+w.accessor+" only",
				fmt.Sprintf("%s reads the exact constant through %v; it must round once, with constant.%s: going through another precision first rounds twice, so a constant near a rounding midpoint folds to a different value than the run-time conversion produces (and %s / %s disagree on overflow)", name, accessors, w.accessor, w.fits, w.round))
		}
	}
}
