package main

import (
	"fmt"
	"go/ast"
	"go/constant"
	"go/token"
	"go/types"
	"sort"
	"strings"

	"golang.org/x/tools/go/packages"
)

func init() {
	register(&Property{ID: "C04", Run: runC04, Mutants: []Mutant{
		{Name: "numeric type index handed through the merged type section", File: "internal/wat/watutil/wat2wasm_type.go", Old: "\t\tif idx >= 0 && idx < len(p.mWat.Types) {\n\t\t\treturn p.mustFindFuncTypeIndex(p.mWat.Types[idx].Type)\n\t\t}\n", New: "", Expect: "numeric-index-through-merge"},
		{Name: "loop block type index written as unsigned LEB", File: "internal/wat/watutil/wat2wasm_instruction.go", Old: "dst.Body = append(dst.Body, p.encodeInt32(idx)...)", New: "dst.Body = append(dst.Body, p.encodeUint32(uint32(idx))...)", Nth: 2, Expect: "immediate-signedness"},
		{Name: "i32.const operand written as unsigned LEB", File: "internal/wat/watutil/wat2wasm_instruction.go", Old: "p.encodeInt32(ins.X)", New: "p.encodeUint32(uint32(ins.X))", Expect: "immediate-signedness"},
		{Name: "call target written as signed LEB", File: "internal/wat/watutil/wat2wasm_instruction.go", Old: "\t\tdst.Body = append(dst.Body, wasm.OpcodeCall)\n\t\tdst.Body = append(dst.Body, p.encodeUint32(x)...)", New: "\t\tdst.Body = append(dst.Body, wasm.OpcodeCall)\n\t\tdst.Body = append(dst.Body, p.encodeInt32(int32(x))...)", Expect: "immediate-signedness"},
		{Name: "label search runs outermost-first (depth arithmetic kept)", File: "internal/wat/watutil/wat2wasm_helper.go", Old: "\tfor i := 0; i < len(p.labelScope); i++ {\n\t\tif s := p.labelScope[len(p.labelScope)-i-1]; s == label {\n\t\t\treturn wasm.Index(i)", New: "\tfor i, s := range p.labelScope {\n\t\tif s == label {\n\t\t\treturn wasm.Index(len(p.labelScope) - i - 1)", Expect: "label-resolution :: findLabelIndex"},
		{Name: "label depth off by one", File: "internal/wat/watutil/wat2wasm_helper.go", Old: "\t\t\treturn wasm.Index(i)\n\t\t}\n\t}\n\tpanic(fmt.Sprintf(\"wat2wasm: unknown label", New: "\t\t\treturn wasm.Index(i + 1)\n\t\t}\n\t}\n\tpanic(fmt.Sprintf(\"wat2wasm: unknown label", Expect: "label-resolution :: findLabelIndex"},
		{Name: "loop label never popped", File: "internal/wat/watutil/wat2wasm_instruction.go", Old: "\t\tins := i.(ast.Ins_Loop)\n\t\tp.enterLabelScope(ins.Label)\n\t\tdefer p.leaveLabelScope()\n", New: "\t\tins := i.(ast.Ins_Loop)\n\t\tp.enterLabelScope(ins.Label)\n", Expect: "label-resolution :: scope pairing: INS_LOOP"},
		{Name: "element indices alias one hoisted variable", File: "internal/wat/watutil/wat2wasm.go", Old: "\t\tinitList := []*wasm.Index{}\n\t\tfor _, ident := range x.Values {\n\t\t\tidx := p.findFuncIndex(ident)", New: "\t\tvar idx wasm.Index\n\t\tinitList := []*wasm.Index{}\n\t\tfor _, ident := range x.Values {\n\t\t\tidx = p.findFuncIndex(ident)", Expect: "pointer-aliasing :: internal/wat/watutil.wat2wasmWorker.buildElementSection"},
		{Name: "i32.div_u arm appends the div_s opcode", File: "internal/wat/watutil/wat2wasm_instruction.go", Old: "wasm.OpcodeI32DivU)", New: "wasm.OpcodeI32DivS)", Expect: "token-opcode :: i32.div_u"},
		{Name: "memory.fill loses its memory index byte", File: "internal/wat/watutil/wat2wasm_instruction.go", Old: "wasm.OpcodeMiscMemoryFill, 0x00)", New: "wasm.OpcodeMiscMemoryFill)", Expect: "token-opcode :: memory.fill"},
		{Name: "two token spellings swapped", File: "internal/wat/token/token.go", Old: "INS_I64_SHR_S:           \"i64.shr_s\",", New: "INS_I64_SHR_S:           \"i64.shr_u\",", Expect: "token-"},
		{Name: "imported memory built without the max-encoded flag", File: "internal/wat/watutil/wat2wasm.go", Old: "\t\t\t\tIsMaxEncoded: x.Memory.MaxPages > 0,\n", New: "", Expect: "limits-literal-agreement"},
		{Name: "vendored opcode constant changed", File: "internal/wasm/instruction.go", Old: "OpcodeI64Rotl   Opcode = 0x89", New: "OpcodeI64Rotl   Opcode = 0x8a", Old2: "OpcodeI64Rotr   Opcode = 0x8a", New2: "OpcodeI64Rotr   Opcode = 0x89", Expect: "i64.rotl"},
		{Name: "i64.load16_s default alignment 4", File: "internal/wat/parser/module_func_instruction.go", Old: "i.Align = 2", New: "i.Align = 4", Nth: 2, Expect: "default-align"},
		{Name: "findFuncIndex drops the import count", File: "internal/wat/watutil/wat2wasm_helper.go", Old: "return wasm.Index(importCount + i)\n\t\t}\n\t}\n\tpanic(fmt.Sprintf(\"wat2wasm: unknown func", New: "return wasm.Index(i)\n\t\t}\n\t}\n\tpanic(fmt.Sprintf(\"wat2wasm: unknown func", Expect: "index-space :: findFuncIndex"},
		{Name: "findGlobalIndex counts imports of every kind", File: "internal/wat/watutil/wat2wasm_helper.go", Old: "if x.ObjKind == token.GLOBAL {\n\t\t\tif x.GlobalName == ident {", New: "if x.ObjKind != token.FUNC {\n\t\t\tif x.GlobalName == ident {", Expect: "index-space :: findGlobalIndex"},
		{Name: "findFuncLocalIndex forgets params", File: "internal/wat/watutil/wat2wasm_helper.go", Old: "wasm.Index(len(fn.Type.Params) + i)", New: "wasm.Index(i)", Expect: "index-space :: findFuncLocalIndex"},
		{Name: "start section counter not advanced", File: "internal/wat/watutil/wat2wasm.go", Old: "\t\t\t\tbreak\n\t\t\t}\n\t\t\tstartIdx++\n\t\t}\n\t}\n\n\tp.mWasm.StartSection", New: "\t\t\t\tbreak\n\t\t\t}\n\t\t}\n\t}\n\n\tp.mWasm.StartSection", Expect: "index-space :: buildStartSection"},
		{Name: "export kind mismatch", File: "internal/wat/watutil/wat2wasm.go", Old: "spec.Type = wasm.ExternTypeTable\n\t\t\tspec.Index = p.findTableIndex(x.TableIdx)", New: "spec.Type = wasm.ExternTypeMemory\n\t\t\tspec.Index = p.findTableIndex(x.TableIdx)", Expect: "kind-table"},
		{Name: "value type table swapped", File: "internal/wat/watutil/wat2wasm_helper.go", Old: "case token.F32:\n\t\treturn wasm.ValueTypeF32", New: "case token.F32:\n\t\treturn wasm.ValueTypeF64", Expect: "kind-table"},
		{Name: "encodeAlign off by one", File: "internal/wat/watutil/wat2wasm_helper.go", Old: "case 8:\n\t\treturn 3", New: "case 8:\n\t\treturn 4", Expect: "align-log2"},
		{Name: "arm asserts the wrong AST type", File: "internal/wat/watutil/wat2wasm_instruction.go", Old: "ins := i.(ast.Ins_I64Load32U)", New: "ins := i.(ast.Ins_I64Load32S)", Expect: "type-assertion"},
		{Name: "parser dispatches i64.ge_u to the ge_s parser", File: "internal/wat/parser/module_func_instruction.go", Old: "return p.parseIns_I64GeU()", New: "return p.parseIns_I64GeS()", Expect: "parser-dispatch"},
		{Name: "code section emits locals in reverse role (params offset dropped in name section)", File: "internal/wat/watutil/wat2wasm.go", Old: "Index: wasm.Index(importFuncCount + i),\n\t\t\tName:  fn.Name,", New: "Index: wasm.Index(i),\n\t\t\tName:  fn.Name,", Expect: "index-space :: buildNameSection"},
	}})
}

// watTokenTable returns INS_* const name -> mnemonic, from the repository's token spelling table.
func watTokenTable(c *Ctx, p *Prog, rule string) (map[string]string, *packages.Package) {
	tk := p.MustPkg(rule, "internal/wat/token")
	if tk == nil {
		return nil, nil
	}
	tab, _ := KeyedStringTable(tk, "tokens")
	ins := map[string]string{}
	for k, v := range tab {
		if strings.HasPrefix(k, "INS_") {
			ins[k] = v
		}
	}
	return ins, tk
}

func runC04(c *Ctx) {
	c.Explain = "Decides table and index-space clauses of the WAT assembler (wat2wasm): (1) for every instruction token the arm of buildInstruction appends the opcode bytes the WebAssembly specification assigns to the mnemonic that token spells " +
		"(complete encoding for immediate-free instructions); (2) the AST type asserted in each arm is the type the parser builds for that token, and the parser dispatches each token to the parse function that accepts it; " +
		"(3) default memarg alignment is the natural alignment; (4) function/global/table/memory/local index spaces are imports-then-definitions (params-then-locals) at every site that turns a position into a wasm.Index; " +
		"(5) value-type, export-kind and alignment-exponent tables match the binary format. Oracle: an embedded copy of the specification's instruction table, cross-checked against the vendored wasm.Opcode* constants. " +
		"NOT decided: LEB128 encoding of immediates, label depth arithmetic, data/elem offsets, validity of the produced module, behaviour on malformed input."
	c.Trusted = []string{"go/packages, go/types (x/tools v0.29.0)", "embedded WebAssembly 1.0 instruction table (wasmspec.go)"}
	c.Exhaust = true
	p := c.Load(LoadOpt{Light: true}, "./internal/wat/...", "./internal/wasm")
	const rOp, rTA, rPD, rAl, rIx, rKind, rLog = "token-opcode", "type-assertion", "parser-dispatch", "default-align", "index-space", "kind-table", "align-log2"

	ins, tk := watTokenTable(c, p, rOp)
	wu := p.MustPkg(rOp, "internal/wat/watutil")
	ws := p.MustPkg(rOp, "internal/wasm")
	pr := p.MustPkg(rPD, "internal/wat/parser")
	if tk == nil || wu == nil || ws == nil || pr == nil {
		return
	}
	c.Min(rOp, "instruction tokens with a spelling", len(ins), 170)

	// oracle consistency: every token spelling is a known mnemonic, spellings are distinct,
	// and the vendored Opcode constants agree with the embedded table.
	seenSp := map[string]string{}
	var insNames []string
	for k := range ins {
		insNames = append(insNames, k)
	}
	sort.Strings(insNames)
	for _, k := range insNames {
		m := ins[k]
		if prev, dup := seenSp[m]; dup {
			c.Fail("token-spelling", m, "", fmt.Sprintf("tokens %s and %s spell the same mnemonic", prev, k))
		}
		seenSp[m] = k
		want := strings.ToLower(strings.ReplaceAll(strings.TrimPrefix(k, "INS_"), "_", "."))
		// INS_I32_DIV_S -> i32.div.s ; compare ignoring '.'/'_' distinctions
		norm := func(s string) string { return strings.NewReplacer(".", "", "_", "").Replace(s) }
		c.Check(norm(want) == norm(m) && wasmSpec[m] != nil, "token-spelling", m+" ("+k+")", "", "spelling names the token's own instruction and is a specification mnemonic",
			fmt.Sprintf("token %s is spelled %q: not the mnemonic its name denotes (scanner would assign the wrong token)", k, m))
	}
	opConsts := ConstsByPrefix(ws, "Opcode")
	miscConsts := ConstsByPrefix(ws, "OpcodeMisc")
	nOracle := 0
	for _, m := range wasmSpecOrder {
		sp := wasmSpec[m]
		cn := mnemonicToOpcodeConstName(m)
		if len(sp.Op) >= 2 && sp.Op[0] == 0xfc {
			cn = strings.Replace(cn, "Opcode", "OpcodeMisc", 1)
			if v, ok := miscConsts[cn]; ok {
				nOracle++
				iv, _ := constant.Int64Val(v)
				c.Check(byte(iv) == sp.Op[1], "opcode-constant", m, "", "wasm."+cn+" equals the specification's misc opcode", fmt.Sprintf("wasm.%s = %#x but the specification assigns 0xfc %#x to %s", cn, iv, sp.Op[1], m))
			}
			continue
		}
		if v, ok := opConsts[cn]; ok {
			nOracle++
			iv, _ := constant.Int64Val(v)
			c.Check(byte(iv) == sp.Op[0], "opcode-constant", m, "", "wasm."+cn+" equals the specification's opcode", fmt.Sprintf("wasm.%s = %#x but the specification assigns %#x to %s", cn, iv, sp.Op[0], m))
		}
	}
	c.Min("opcode-constant", "wasm.Opcode* constants matched by name", nOracle, 170)

	// ---- rule 1 + 2: buildInstruction arms
	info := wu.TypesInfo
	bi := p.MustFunc(rOp, wu, "wat2wasmWorker.buildInstruction")
	parserRet := map[string]string{} // INS_X -> ast type name built by the parser
	if pi := p.MustFunc(rPD, pr, "parser.parseInstruction"); pi != nil {
		sws := FindSwitches(pi, tagTypeIs(pr.TypesInfo, "internal/wat/token", "Token"))
		if len(sws) == 0 {
			c.Undecided(rPD, "parser.parseInstruction: switch", p.Pos(pi.Pos()), "token switch not found")
		} else {
			n := 0
			pfuncs := AllFuncDecls(pr)
			for _, arm := range SwitchArms(pr.TypesInfo, sws[0]) {
				if arm.Default {
					continue
				}
				// the arm must return the result of one parse function
				var callee *types.Func
				for _, call := range callsIn(pr.TypesInfo, arm.Body) {
					if f := CalleeOf(pr.TypesInfo, call); f != nil && strings.HasPrefix(f.Name(), "parseIns_") {
						callee = f
					}
				}
				for _, k := range arm.Consts {
					n++
					m := ins[k.Name]
					if callee == nil {
						c.Undecided(rPD, m, p.Pos(arm.Clause.Pos()), "arm does not call a parseIns_* function")
						continue
					}
					sig := callee.Type().(*types.Signature)
					rt := ""
					if sig.Results().Len() == 1 {
						rt = namedTypeName(sig.Results().At(0).Type())
					}
					parserRet[k.Name] = rt
					// the parse function must accept exactly this token
					fd := pfuncs["parser."+callee.Name()]
					acc := acceptedTokens(pr.TypesInfo, fd)
					ok := false
					for _, a := range acc {
						if a == k.Name {
							ok = true
						}
					}
					if isPanicOnlyFunc(pr.TypesInfo, fd) {
						ok = true // else/end: structural tokens consumed by their block parser
					}
					c.Check(ok, rPD, m, p.Pos(arm.Clause.Pos()), "dispatched to "+callee.Name()+" which accepts "+k.Name,
						fmt.Sprintf("token %s is dispatched to %s, which accepts %v: the instruction cannot be parsed (or is parsed as another instruction)", k.Name, callee.Name(), acc))
				}
			}
			c.Min(rPD, "parseInstruction arms", n, 170)
			// exhaustiveness of the parser switch over instruction tokens
			for _, k := range insNames {
				if _, ok := parserRet[k]; !ok {
					c.Fail(rPD, ins[k], p.Pos(sws[0].Pos()), "instruction token "+k+" has no arm in parseInstruction")
				}
			}
		}
	}

	if bi != nil {
		sws := FindSwitches(bi, func(e ast.Expr) bool {
			call, ok := e.(*ast.CallExpr)
			return ok && strings.HasSuffix(types.ExprString(call.Fun), ".Token")
		})
		if len(sws) == 0 {
			c.Undecided(rOp, "buildInstruction: switch i.Token()", p.Pos(bi.Pos()), "dispatch switch not found")
		} else {
			covered := map[string]bool{}
			n := 0
			for _, arm := range SwitchArms(info, sws[0]) {
				if arm.Default {
					continue
				}
				for _, k := range arm.Consts {
					n++
					covered[k.Name] = true
					m, ok := ins[k.Name]
					loc := p.Pos(arm.Clause.Pos())
					if !ok {
						c.Undecided(rOp, k.Name, loc, "case constant is not an instruction token with a spelling")
						continue
					}
					sp := wasmSpec[m]
					if sp == nil {
						c.Undecided(rOp, m, loc, "mnemonic is not in the embedded specification table")
						continue
					}
					if isPanicOnly(info, arm.Body) {
						c.Check(m == "else" || m == "end", rOp, m, loc, "structural token never reaches the encoder (folded into its block by the parser)", "arm panics: instruction "+m+" cannot be assembled")
						continue
					}
					seqs, complete := firstAppendSeqs(info, arm.Body, "dst.Body")
					bad := ""
					for i, s := range seqs {
						allowed := [][]byte{sp.Op}
						if m == "select" {
							allowed = [][]byte{{0x1b}, {0x1c, 0x01}} // select | select t* with a result vector of length 1
						}
						match := false
						for _, a := range allowed {
							if bytesHasPrefix(s, a) {
								match = true
							}
						}
						if !match {
							bad = fmt.Sprintf("arm appends %s first; the specification encodes %s as %s", hexBytes(s), m, hexBytes(sp.Op))
						} else if sp.Full != nil && complete[i] && len(s) != len(sp.Full) {
							bad = fmt.Sprintf("arm appends %s; the complete encoding of %s is %s", hexBytes(s), m, hexBytes(sp.Full))
						} else if sp.Full != nil && !complete[i] {
							bad = fmt.Sprintf("arm appends non-constant bytes after %s although %s has no variable immediates", hexBytes(s), m)
						}
					}
					if len(seqs) == 0 {
						bad = "arm appends nothing to dst.Body"
					}
					c.Check(bad == "", rOp, m, loc, "first appended bytes "+hexBytes(seqs[0])+" = specification opcode", bad)

					// rule 2: asserted AST type
					tas := typeAssertsIn(info, arm.Body)
					if want := parserRet[k.Name]; want != "" {
						for _, t := range tas {
							got := namedTypeName(t)
							if !strings.HasPrefix(got, "Ins_") {
								continue
							}
							c.Check(got == want, rTA, m, loc, "asserts ast."+got+" = the type the parser builds for "+k.Name,
								fmt.Sprintf("arm for %s asserts ast.%s but the parser builds ast.%s: the assertion panics at run time", k.Name, got, want))
						}
					}
					// memory instructions must use the instruction's own Align and Offset
					if sp.Imm == "memarg" {
						okA, okO := false, false
						for _, call := range callsIn(info, arm.Body) {
							fn := types.ExprString(call.Fun)
							if strings.HasSuffix(fn, ".encodeAlign") && len(call.Args) == 1 && types.ExprString(call.Args[0]) == "ins.Align" {
								okA = true
							}
							if strings.HasSuffix(fn, ".encodeUint64") && len(call.Args) == 1 && types.ExprString(call.Args[0]) == "ins.Offset" || strings.HasSuffix(fn, ".encodeUint32") && len(call.Args) == 1 && strings.Contains(types.ExprString(call.Args[0]), "ins.Offset") {
								okO = true
							}
						}
						c.Check(okA && okO, "memarg", m, loc, "memarg = encodeAlign(ins.Align) then LEB(ins.Offset)", "memarg of "+m+" is not built from ins.Align and ins.Offset")
					}
				}
			}
			c.Min(rOp, "buildInstruction arms", n, 170)
			for _, k := range insNames {
				if !covered[k] {
					c.Fail(rOp, ins[k], p.Pos(sws[0].Pos()), "instruction token "+k+" has no arm in buildInstruction (falls to default: panic)")
				}
			}
		}
	}

	// ---- rule 3: default alignment in the parser
	nAl := 0
	pfuncs := AllFuncDecls(pr)
	for _, k := range insNames {
		m := ins[k]
		sp := wasmSpec[m]
		if sp == nil || sp.Imm != "memarg" {
			continue
		}
		// find the parse function dispatched for this token
		var fd *ast.FuncDecl
		for name, f := range pfuncs {
			if strings.HasPrefix(name, "parser.parseIns_") {
				for _, a := range acceptedTokens(pr.TypesInfo, f) {
					if a == k {
						fd = f
					}
				}
			}
		}
		if fd == nil {
			c.Undecided(rAl, m, "", "no parse function accepts "+k)
			continue
		}
		defs := defaultAssignments(pr.TypesInfo, fd, "Align")
		nAl++
		if len(defs) != 1 {
			c.Undecided(rAl, m, p.Pos(fd.Pos()), fmt.Sprintf("expected one constant default for Align, found %v", defs))
			continue
		}
		c.Check(defs[0] == int64(sp.Align), rAl, m, p.Pos(fd.Pos()), fmt.Sprintf("default align %d = natural alignment", defs[0]),
			fmt.Sprintf("default alignment of %s is %d bytes; the text format's default is the natural alignment %d", m, defs[0], sp.Align))
		offs := defaultAssignments(pr.TypesInfo, fd, "Offset")
		if len(offs) == 1 {
			c.Check(offs[0] == 0, "default-offset", m, p.Pos(fd.Pos()), "default offset 0", fmt.Sprintf("default offset of %s is %d, not 0", m, offs[0]))
		}
	}
	c.Min(rAl, "memory instructions", nAl, 23)

	// ---- rule 5: small tables
	if fd := p.MustFunc(rLog, wu, "wat2wasmWorker.encodeAlign"); fd != nil {
		n := 0
		for _, sw := range FindSwitches(fd, func(ast.Expr) bool { return true }) {
			for _, arm := range SwitchArms(info, sw) {
				for _, k := range arm.Consts {
					if k.Val == nil || len(arm.Body) != 1 {
						continue
					}
					ret, ok := arm.Body[0].(*ast.ReturnStmt)
					if !ok || len(ret.Results) != 1 {
						continue
					}
					rv, ok := info.Types[ret.Results[0]]
					if !ok || rv.Value == nil {
						continue
					}
					a, _ := constant.Int64Val(k.Val)
					e, _ := constant.Int64Val(rv.Value)
					n++
					c.Check(a == 1<<uint(e), rLog, fmt.Sprintf("align=%d", a), p.Pos(arm.Clause.Pos()), fmt.Sprintf("exponent %d", e), fmt.Sprintf("align=%d bytes is encoded as exponent %d (2^%d != %d)", a, e, e, a))
				}
			}
		}
		c.Min(rLog, "encodeAlign arms", n, 4)
	}
	valtype := map[string]int64{"I32": 0x7f, "I64": 0x7e, "F32": 0x7d, "F64": 0x7c}
	if fd := p.MustFunc(rKind, wu, "wat2wasmWorker.buildValueType"); fd != nil {
		n := 0
		for _, sw := range FindSwitches(fd, func(ast.Expr) bool { return true }) {
			for _, arm := range SwitchArms(info, sw) {
				for _, k := range arm.Consts {
					want, ok := valtype[k.Name]
					if !ok || len(arm.Body) != 1 {
						continue
					}
					if ret, ok := arm.Body[0].(*ast.ReturnStmt); ok && len(ret.Results) == 1 {
						if rv, ok := info.Types[ret.Results[0]]; ok && rv.Value != nil {
							got, _ := constant.Int64Val(rv.Value)
							n++
							c.Check(got == want, rKind, "buildValueType: "+k.Name, p.Pos(arm.Clause.Pos()), fmt.Sprintf("%#x", got), fmt.Sprintf("value type %s is encoded as %#x; the binary format uses %#x", k.Name, got, want))
						}
					}
				}
			}
		}
		c.Min(rKind, "buildValueType arms", n, 4)
	}
	// typed select value types, global init opcodes
	if bi != nil {
		ast.Inspect(bi, func(n ast.Node) bool {
			sw, ok := n.(*ast.SwitchStmt)
			if !ok || sw.Tag == nil || types.ExprString(sw.Tag) != "ins.ResultTyp" {
				return true
			}
			for _, arm := range SwitchArms(info, sw) {
				for _, k := range arm.Consts {
					want, ok := valtype[k.Name]
					if !ok {
						continue
					}
					seqs, _ := firstAppendSeqs(info, arm.Body, "dst.Body")
					good := len(seqs) == 1 && len(seqs[0]) >= 1 && int64(seqs[0][len(seqs[0])-1]) == want
					c.Check(good, rKind, "typed select: "+k.Name, p.Pos(arm.Clause.Pos()), "value type byte matches", fmt.Sprintf("typed select result %s appends %v, want value type %#x", k.Name, seqs, want))
				}
			}
			return true
		})
	}
	if fd := p.MustFunc(rKind, wu, "wat2wasmWorker.buildConstantExpression"); fd != nil {
		wantOp := map[string][2]string{"I32": {"i32.const", "I32Value"}, "I64": {"i64.const", "I64Value"}, "F32": {"f32.const", "F32Value"}, "F64": {"f64.const", "F64Value"}}
		n := 0
		for _, sw := range FindSwitches(fd, func(ast.Expr) bool { return true }) {
			for _, arm := range SwitchArms(info, sw) {
				for _, k := range arm.Consts {
					w, ok := wantOp[k.Name]
					if !ok {
						continue
					}
					n++
					var op int64 = -1
					field := ""
					for _, s := range arm.Body {
						if as, ok := s.(*ast.AssignStmt); ok && len(as.Lhs) == 1 {
							if strings.HasSuffix(types.ExprString(as.Lhs[0]), ".Opcode") {
								if tv, ok := info.Types[as.Rhs[0]]; ok && tv.Value != nil {
									op, _ = constant.Int64Val(tv.Value)
								}
							}
							if strings.HasSuffix(types.ExprString(as.Lhs[0]), ".Data") {
								field = types.ExprString(as.Rhs[0])
							}
						}
					}
					c.Check(op == int64(wasmSpec[w[0]].Op[0]) && strings.Contains(field, "g."+w[1]), rKind, "global init: "+k.Name, p.Pos(arm.Clause.Pos()), w[0]+" of g."+w[1],
						fmt.Sprintf("global of type %s is initialised with opcode %#x data %s; want %s of g.%s", k.Name, op, field, w[0], w[1]))
				}
			}
		}
		c.Min(rKind, "global init arms", n, 4)
	}
	// export kinds
	if fd := p.MustFunc(rKind, wu, "wat2wasmWorker.buildExportSection"); fd != nil {
		kinds := map[string][3]string{"FUNC": {"0", "findFuncIndex", "FuncIdx"}, "TABLE": {"1", "findTableIndex", "TableIdx"}, "MEMORY": {"2", "findMemoryIndex", "MemoryIdx"}, "GLOBAL": {"3", "findGlobalIndex", "GlobalIdx"}}
		n := 0
		for _, sw := range FindSwitches(fd, func(ast.Expr) bool { return true }) {
			for _, arm := range SwitchArms(info, sw) {
				for _, k := range arm.Consts {
					w, ok := kinds[k.Name]
					if !ok {
						continue
					}
					n++
					typ, finder, arg := "", "", ""
					for _, s := range arm.Body {
						if as, ok := s.(*ast.AssignStmt); ok && len(as.Lhs) == 1 {
							l := types.ExprString(as.Lhs[0])
							if strings.HasSuffix(l, ".Type") {
								if tv, ok := info.Types[as.Rhs[0]]; ok && tv.Value != nil {
									typ = tv.Value.ExactString()
								}
							}
							if strings.HasSuffix(l, ".Index") {
								if call, ok := as.Rhs[0].(*ast.CallExpr); ok && len(call.Args) == 1 {
									if f := CalleeOf(info, call); f != nil {
										finder = f.Name()
									}
									arg = types.ExprString(call.Args[0])
								}
							}
						}
					}
					c.Check(typ == w[0] && finder == w[1] && strings.HasSuffix(arg, "."+w[2]), rKind, "export kind: "+k.Name, p.Pos(arm.Clause.Pos()), "extern type "+typ+", index via "+finder+"("+arg+")",
						fmt.Sprintf("export of kind %s gets extern type %s and index %s(%s); the binary format wants type %s and the %s index space of x.%s", k.Name, typ, finder, arg, w[0], strings.ToLower(k.Name), w[2]))
				}
			}
		}
		c.Min(rKind, "export kind arms", n, 4)
	}
	if fd := p.MustFunc(rKind, wu, "wat2wasmWorker.buildImportSection"); fd != nil {
		kinds := map[string]string{"FUNC": "0", "TABLE": "1", "MEMORY": "2", "GLOBAL": "3"}
		n := 0
		for _, sw := range FindSwitches(fd, func(ast.Expr) bool { return true }) {
			for _, arm := range SwitchArms(info, sw) {
				for _, k := range arm.Consts {
					w, ok := kinds[k.Name]
					if !ok {
						continue
					}
					n++
					typ := ""
					for _, s := range arm.Body {
						if as, ok := s.(*ast.AssignStmt); ok && len(as.Lhs) == 1 && strings.HasSuffix(types.ExprString(as.Lhs[0]), ".Type") {
							if tv, ok := info.Types[as.Rhs[0]]; ok && tv.Value != nil {
								typ = tv.Value.ExactString()
							}
						}
					}
					c.Check(typ == w, rKind, "import kind: "+k.Name, p.Pos(arm.Clause.Pos()), "extern type "+typ, fmt.Sprintf("import of kind %s gets extern type %s, want %s", k.Name, typ, w))
				}
			}
		}
		c.Min(rKind, "import kind arms", n, 4)
	}

	// ---- rule 4: index spaces
	c04IndexSpaces(c, p, wu)
	c04NumericThroughMerge(c, p, wu)
	c04LimitsLiterals(c, p, wu)	// ---- rule 6: label resolution; rule 7: per-iteration pointers
	c04LabelScope(c, p, wu)
	c04PointerAliasing(c, p, wu, p.Pkg("internal/wasm/binary"))
	// ---- rule 8: signedness of every LEB128 immediate
	c04ImmediateSignedness(c, p, wu)
	_ = token.NoPos
}

// acceptedTokens lists the token constants passed to p.acceptToken in the first statements of a parse function.
func acceptedTokens(info *types.Info, fd *ast.FuncDecl) []string {
	if fd == nil || fd.Body == nil {
		return nil
	}
	var out []string
	for _, s := range fd.Body.List {
		es, ok := s.(*ast.ExprStmt)
		if !ok {
			continue
		}
		call, ok := es.X.(*ast.CallExpr)
		if !ok || !strings.HasSuffix(types.ExprString(call.Fun), ".acceptToken") {
			continue
		}
		for _, a := range call.Args {
			if k := constOfExpr(info, a); strings.HasPrefix(k.Name, "INS_") {
				out = append(out, k.Name)
			}
		}
		if len(out) > 0 {
			return out // the first accept of an instruction token is the instruction's own
		}
	}
	return out
}

func isPanicOnlyFunc(info *types.Info, fd *ast.FuncDecl) bool {
	return fd != nil && fd.Body != nil && isPanicOnly(info, fd.Body.List)
}

// defaultAssignments returns the constants assigned to i.<field> in else-branches (the "not given" default).
func defaultAssignments(info *types.Info, fd *ast.FuncDecl, field string) []int64 {
	var out []int64
	ast.Inspect(fd.Body, func(n ast.Node) bool {
		ifs, ok := n.(*ast.IfStmt)
		if !ok {
			return true
		}
		els, ok := ifs.Else.(*ast.BlockStmt)
		if !ok {
			return true
		}
		for _, s := range els.List {
			if as, ok := s.(*ast.AssignStmt); ok && len(as.Lhs) == 1 {
				if sel, ok := as.Lhs[0].(*ast.SelectorExpr); ok && sel.Sel.Name == field {
					if tv, ok := info.Types[as.Rhs[0]]; ok && tv.Value != nil {
						v, _ := constant.Int64Val(tv.Value)
						out = append(out, v)
					}
				}
			}
		}
		return true
	})
	return out
}

// ---- index spaces -------------------------------------------------------------------------

// An index-space search function has the shape
//   [numeric fast path]
//   var n int ; for _, x := range Imports { if x.ObjKind == K { if x.<Name> == ident { return Index(n) } ; n++ } }
//   for i, d := range Defs { if d.Name == ident { return Index(n + i) } }     (or a single definition: return Index(n))
// The rule checks: the import loop counts exactly the imports of kind K, before/after discipline (test, then count),
// and each index returned from the definitions is <imports of that kind> + <position>.
func c04IndexSpaces(c *Ctx, p *Prog, wu *packages.Package) {
	const rule = "index-space"
	info := wu.TypesInfo
	type spec struct{ fn, kind, importField string }
	for _, s := range []spec{
		{"findFuncIndex", "FUNC", "FuncName"}, {"findGlobalIndex", "GLOBAL", "GlobalName"},
		{"findTableIndex", "TABLE", "Table.Name"}, {"findMemoryIndex", "MEMORY", "Memory.Name"},
	} {
		fd := p.MustFunc(rule, wu, "wat2wasmWorker."+s.fn)
		if fd == nil {
			continue
		}
		loc := p.Pos(fd.Pos())
		counter, problems := checkImportCountLoop(info, fd.Body.List, s.kind, s.importField, "return")
		if counter == "" {
			c.Undecided(rule, s.fn+": import loop", loc, "no `for range p.mWat.Imports` loop with a counter found: "+strings.Join(problems, "; "))
			continue
		}
		c.Check(len(problems) == 0, rule, s.fn+": import loop", loc, "counts imports of kind "+s.kind+" only, tests the name before counting, returns the counter", strings.Join(problems, "; "))
		// definitions
		nDef := 0
		for _, st := range fd.Body.List {
			switch x := st.(type) {
			case *ast.RangeStmt:
				if strings.HasSuffix(types.ExprString(x.X), ".Imports") {
					continue
				}
				nDef++
				key := ""
				if id, ok := x.Key.(*ast.Ident); ok {
					key = id.Name
				}
				for _, ret := range returnsIn(x.Body) {
					terms, ok := sumTerms(stripConv(info, ret.Results[0]))
					want := map[string]bool{counter: true, key: true}
					good := ok && len(terms) == 2 && want[terms[0]] && want[terms[1]] && terms[0] != terms[1]
					c.Check(good, rule, s.fn+": definition index", p.Pos(ret.Pos()), "index = "+counter+" + "+key, fmt.Sprintf("index of a defined %s is %s; the %s index space is imports then definitions, so it must be %s + %s", strings.ToLower(s.kind), types.ExprString(ret.Results[0]), strings.ToLower(s.kind), counter, key))
				}
			case *ast.IfStmt:
				// single definition (table / memory)
				if !strings.Contains(types.ExprString(x.Cond), "p.mWat.") {
					continue
				}
				nDef++
				for _, ret := range returnsIn(x.Body) {
					terms, ok := sumTerms(stripConv(info, ret.Results[0]))
					good := ok && len(terms) == 1 && terms[0] == counter
					c.Check(good, rule, s.fn+": definition index", p.Pos(ret.Pos()), "index = "+counter, fmt.Sprintf("index of the defined %s is %s, want the number of imported ones (%s)", strings.ToLower(s.kind), types.ExprString(ret.Results[0]), counter))
				}
			}
		}
		if nDef == 0 {
			c.Undecided(rule, s.fn+": definition index", loc, "no search over the module's own definitions found")
		}
	}
	// locals: params then locals
	if fd := p.MustFunc(rule, wu, "wat2wasmWorker.findFuncLocalIndex"); fd != nil {
		n := 0
		for _, st := range fd.Body.List {
			rs, ok := st.(*ast.RangeStmt)
			if !ok {
				continue
			}
			key := ""
			if id, ok := rs.Key.(*ast.Ident); ok {
				key = id.Name
			}
			over := types.ExprString(rs.X)
			for _, ret := range returnsIn(rs.Body) {
				n++
				terms, ok := sumTerms(stripConv(info, ret.Results[0]))
				sort.Strings(terms)
				if strings.HasSuffix(over, ".Type.Params") {
					c.Check(ok && len(terms) == 1 && terms[0] == key, rule, "findFuncLocalIndex: param index", p.Pos(ret.Pos()), "index = position in params", "index of a parameter is "+types.ExprString(ret.Results[0])+", want its position "+key)
				} else if strings.HasSuffix(over, ".Locals") {
					want := []string{key, "len(fn.Type.Params)"}
					sort.Strings(want)
					c.Check(ok && len(terms) == 2 && terms[0] == want[0] && terms[1] == want[1], rule, "findFuncLocalIndex: local index", p.Pos(ret.Pos()), "index = len(params) + position", "index of a local is "+types.ExprString(ret.Results[0])+"; locals are numbered after the parameters: len(fn.Type.Params) + "+key)
				}
			}
		}
		c.Min(rule, "findFuncLocalIndex returns", n, 2)
	}
	// start section
	if fd := p.MustFunc(rule, wu, "wat2wasmWorker.buildStartSection"); fd != nil {
		loc := p.Pos(fd.Pos())
		// accepted idiom A: StartSection = &idx with idx := p.findFuncIndex(p.mWat.Start)
		usesFinder := false
		for _, call := range callsIn(info, fd.Body.List) {
			if f := CalleeOf(info, call); f != nil && f.Name() == "findFuncIndex" && len(call.Args) == 1 && types.ExprString(call.Args[0]) == "p.mWat.Start" {
				usesFinder = true
			}
		}
		if usesFinder {
			c.OK(rule, "buildStartSection", loc, "start index resolved by findFuncIndex(p.mWat.Start)")
		} else {
			// idiom B: counter advanced over non-matching imported functions and non-matching definitions, break on match
			var loops []*ast.RangeStmt
			ast.Inspect(fd.Body, func(n ast.Node) bool {
				if rs, ok := n.(*ast.RangeStmt); ok {
					loops = append(loops, rs)
				}
				return true
			})
			var probs []string
			counter := ""
			seenImp, seenDef := false, false
			for _, rs := range loops {
				over := types.ExprString(rs.X)
				if strings.HasSuffix(over, ".Imports") {
					seenImp = true
					var pr []string
					counter, pr = checkImportCountLoop(info, []ast.Stmt{rs}, "FUNC", "FuncName", "break")
					probs = append(probs, pr...)
				} else if strings.HasSuffix(over, ".Funcs") {
					seenDef = true
					cn, pr := checkCountLoopBody(info, rs.Body.List, "break")
					if cn == "" {
						probs = append(probs, "the search over defined functions does not advance the index for functions that do not match")
					} else if counter != "" && cn != counter {
						probs = append(probs, "the two loops advance different counters")
					}
					probs = append(probs, pr...)
				}
			}
			if !seenImp || !seenDef {
				c.Undecided(rule, "buildStartSection", loc, "neither findFuncIndex nor the two counting search loops were recognised")
			} else {
				// the stored pointer must be the counter
				stored := false
				for _, st := range fd.Body.List {
					if as, ok := st.(*ast.AssignStmt); ok && len(as.Lhs) == 1 && strings.HasSuffix(types.ExprString(as.Lhs[0]), ".StartSection") {
						if u, ok := as.Rhs[0].(*ast.UnaryExpr); ok && u.Op == token.AND && types.ExprString(u.X) == counter {
							stored = true
						}
					}
				}
				if !stored {
					probs = append(probs, "StartSection is not set to the counted index")
				}
				c.Check(len(probs) == 0, rule, "buildStartSection", loc, "start index = imported functions before it + position among definitions", strings.Join(probs, "; "))
			}
		}
	}
	// name section: function indices
	if fd := p.MustFunc(rule, wu, "wat2wasmWorker.buildNameSection"); fd != nil {
		ast.Inspect(fd.Body, func(n ast.Node) bool {
			rs, ok := n.(*ast.RangeStmt)
			if !ok || !strings.HasSuffix(types.ExprString(rs.X), ".Funcs") {
				return true
			}
			key := ""
			if id, ok := rs.Key.(*ast.Ident); ok {
				key = id.Name
			}
			// direct composite literals {Index: ..., Name: fn.Name} / {Index:..., NameMap:...} at loop level
			for _, st := range rs.Body.List {
				as, ok := st.(*ast.AssignStmt)
				if !ok {
					continue
				}
				target := types.ExprString(as.Lhs[0])
				if target != "funcNames" && target != "localNames" {
					continue
				}
				ast.Inspect(as.Rhs[0], func(m ast.Node) bool {
					kv, ok := m.(*ast.KeyValueExpr)
					if !ok || types.ExprString(kv.Key) != "Index" {
						return true
					}
					terms, ok := sumTerms(stripConv(info, kv.Value))
					sort.Strings(terms)
					good := ok && len(terms) == 2 && ((terms[0] == key && terms[1] == "importFuncCount") || (terms[1] == key && terms[0] == "importFuncCount"))
					c.Check(good, rule, "buildNameSection: "+target+" index of a defined function", p.Pos(kv.Pos()), "importFuncCount + "+key, "name-section index of a defined function is "+types.ExprString(kv.Value)+", want importFuncCount + "+key)
					return true
				})
			}
			// locals inside the function: params at j, locals at len(params)+j
			for _, st := range rs.Body.List {
				inner, ok := st.(*ast.RangeStmt)
				if !ok {
					continue
				}
				jkey := ""
				if id, ok := inner.Key.(*ast.Ident); ok {
					jkey = id.Name
				}
				over := types.ExprString(inner.X)
				ast.Inspect(inner.Body, func(m ast.Node) bool {
					kv, ok := m.(*ast.KeyValueExpr)
					if !ok || types.ExprString(kv.Key) != "Index" {
						return true
					}
					terms, ok := sumTerms(stripConv(info, kv.Value))
					sort.Strings(terms)
					if strings.HasSuffix(over, ".Params") {
						c.Check(ok && len(terms) == 1 && terms[0] == jkey, rule, "buildNameSection: local-name index of a parameter", p.Pos(kv.Pos()), "position in params", "parameter name index is "+types.ExprString(kv.Value))
					} else if strings.HasSuffix(over, ".Locals") {
						good := ok && len(terms) == 2 && strings.Contains(strings.Join(terms, "+"), "len(fn.Type.Params)") && (terms[0] == jkey || terms[1] == jkey)
						c.Check(good, rule, "buildNameSection: local-name index of a local", p.Pos(kv.Pos()), "len(params) + position", "name-section index of a local is "+types.ExprString(kv.Value)+"; locals are numbered after the parameters (len(fn.Type.Params) + "+jkey+"), so local names are attached to the wrong locals")
					}
					return true
				})
			}
			return true
		})
		// entries per type definition are not functions
		ast.Inspect(fd.Body, func(n ast.Node) bool {
			rs, ok := n.(*ast.RangeStmt)
			if !ok || !strings.HasSuffix(types.ExprString(rs.X), ".Types") {
				return true
			}
			for _, st := range rs.Body.List {
				if as, ok := st.(*ast.AssignStmt); ok && types.ExprString(as.Lhs[0]) == "localNames" {
					c.Fail(rule, "buildNameSection: local-name entries for type definitions", p.Pos(as.Pos()), "a local-name map is appended for every (type ...) definition with the index of the first defined function: the name section gets duplicate, unsorted function indices that name no function")
				}
			}
			return true
		})
	}
	// element section and call: must resolve through findFuncIndex
	for _, fn := range []string{"buildElementSection"} {
		if fd := p.MustFunc(rule, wu, "wat2wasmWorker."+fn); fd != nil {
			ok := false
			for _, call := range callsIn(info, fd.Body.List) {
				if f := CalleeOf(info, call); f != nil && f.Name() == "findFuncIndex" {
					ok = true
				}
			}
			c.Check(ok, rule, fn+": element function indices", p.Pos(fd.Pos()), "resolved through findFuncIndex", "element segment entries are not resolved through findFuncIndex")
		}
	}
}

func returnsIn(n ast.Node) []*ast.ReturnStmt {
	var out []*ast.ReturnStmt
	ast.Inspect(n, func(m ast.Node) bool {
		if _, ok := m.(*ast.FuncLit); ok {
			return false
		}
		if r, ok := m.(*ast.ReturnStmt); ok && len(r.Results) >= 1 {
			out = append(out, r)
		}
		return true
	})
	return out
}

// stripConv removes type conversions and parentheses.
func stripConv(info *types.Info, e ast.Expr) ast.Expr {
	for {
		switch x := e.(type) {
		case *ast.ParenExpr:
			e = x.X
			continue
		case *ast.CallExpr:
			if len(x.Args) == 1 {
				if tv, ok := info.Types[x.Fun]; ok && tv.IsType() {
					e = x.Args[0]
					continue
				}
			}
		}
		return e
	}
}

// sumTerms flattens a + b + c into printed leaves; ok is false when another operator occurs.
func sumTerms(e ast.Expr) ([]string, bool) {
	switch x := e.(type) {
	case *ast.ParenExpr:
		return sumTerms(x.X)
	case *ast.BinaryExpr:
		if x.Op != token.ADD {
			return nil, false
		}
		l, ok1 := sumTerms(x.X)
		r, ok2 := sumTerms(x.Y)
		return append(l, r...), ok1 && ok2
	case *ast.BasicLit:
		if x.Value == "0" {
			return nil, true
		}
		return []string{x.Value}, true
	}
	return []string{types.ExprString(e)}, true
}

// checkImportCountLoop finds `for _, x := range ...Imports { if x.ObjKind == K { if x.F == ident { <exit> }; n++ } }`.
func checkImportCountLoop(info *types.Info, stmts []ast.Stmt, kind, field, exit string) (counter string, problems []string) {
	for _, st := range stmts {
		rs, ok := st.(*ast.RangeStmt)
		if !ok || !strings.HasSuffix(types.ExprString(rs.X), ".Imports") {
			continue
		}
		if len(rs.Body.List) != 1 {
			problems = append(problems, "import loop body is not a single kind test")
			return "", problems
		}
		ifs, ok := rs.Body.List[0].(*ast.IfStmt)
		if !ok {
			return "", append(problems, "import loop body is not an if")
		}
		be, ok := ifs.Cond.(*ast.BinaryExpr)
		if !ok || be.Op != token.EQL || !strings.HasSuffix(types.ExprString(be.X), ".ObjKind") {
			problems = append(problems, "imports are not filtered by `ObjKind == "+kind+"` ("+types.ExprString(ifs.Cond)+")")
		} else if k := constOfExpr(info, be.Y); k.Name != kind {
			problems = append(problems, "imports of kind "+k.Name+" are counted in the "+kind+" index space")
		}
		if ifs.Else != nil {
			problems = append(problems, "kind test has an else branch")
		}
		cn, pr := checkCountLoopBody(info, ifs.Body.List, exit)
		problems = append(problems, pr...)
		if cn == "" {
			return "", append(problems, "no counter increment found")
		}
		// name field
		if inner, ok := ifs.Body.List[0].(*ast.IfStmt); ok {
			if !strings.Contains(types.ExprString(inner.Cond), "."+field+" ==") {
				problems = append(problems, "import is matched on "+types.ExprString(inner.Cond)+", want its "+field)
			}
		}
		return cn, problems
	}
	return "", problems
}

// checkCountLoopBody: body must be [ if match { ...exit } ; n++ ] in this order.
func checkCountLoopBody(info *types.Info, body []ast.Stmt, exit string) (counter string, problems []string) {
	if len(body) != 2 {
		// tolerate a body consisting only of the match test (no counting)
		if len(body) == 1 {
			if _, ok := body[0].(*ast.IfStmt); ok {
				return "", nil
			}
		}
		return "", []string{"loop body is not `if match {...}; counter++`"}
	}
	ifs, ok := body[0].(*ast.IfStmt)
	inc, ok2 := body[1].(*ast.IncDecStmt)
	if !ok || !ok2 || inc.Tok != token.INC {
		if inc0, isInc := body[0].(*ast.IncDecStmt); isInc && inc0.Tok == token.INC {
			return types.ExprString(inc0.X), []string{"the counter is advanced before the name is tested (index off by one)"}
		}
		return "", []string{"loop body is not `if match {...}; counter++`"}
	}
	counter = types.ExprString(inc.X)
	// the match branch must leave the loop
	leaves := false
	ast.Inspect(ifs.Body, func(n ast.Node) bool {
		switch x := n.(type) {
		case *ast.ReturnStmt:
			if exit == "return" {
				leaves = true
				if len(x.Results) == 1 {
					terms, ok := sumTerms(stripConv(info, x.Results[0]))
					if !ok || len(terms) != 1 || terms[0] != counter {
						problems = append(problems, "index returned for a matching import is "+types.ExprString(x.Results[0])+", want the number of preceding imports of this kind ("+counter+")")
					}
				}
			}
		case *ast.BranchStmt:
			if exit == "break" && x.Tok == token.BREAK {
				leaves = true
			}
		}
		return true
	})
	if !leaves {
		problems = append(problems, "the match branch does not leave the loop")
	}
	return counter, problems
}
