package main

import (
	"go/ast"
	"go/token"
	"go/types"
	"strings"

	"golang.org/x/tools/go/packages"
)

// C21 extra rule (added after a seeded change was missed): utf8.DecodeRune reports an invalid encoding as
// (RuneError, 1); the replacement character U+FFFD itself decodes validly as (RuneError, 3). A test for invalid
// UTF-8 must therefore test the size together with the rune. A bare `r == utf8.RuneError` rejects documents that
// contain a real U+FFFD: positions after it are refused, the change is not applied and the server's copy goes stale.

func c21RuneError(c *Ctx, p *Prog, pks []*packages.Package) {
	const rule = "invalid-utf8-test"
	n := 0
	for _, pk := range pks {
		info := pk.TypesInfo
		for _, f := range pk.Syntax {
			for _, d := range f.Decls {
				fd, ok := d.(*ast.FuncDecl)
				if !ok || fd.Body == nil {
					continue
				}
				// parent map for conjunction lookup
				parent := map[ast.Node]ast.Node{}
				var stack []ast.Node
				ast.Inspect(fd.Body, func(nd ast.Node) bool {
					if nd == nil {
						stack = stack[:len(stack)-1]
						return true
					}
					if len(stack) > 0 {
						parent[nd] = stack[len(stack)-1]
					}
					stack = append(stack, nd)
					return true
				})
				isRuneError := func(e ast.Expr) bool {
					o := ObjOf(info, e)
					return o != nil && o.Pkg() != nil && o.Pkg().Path() == "unicode/utf8" && o.Name() == "RuneError"
				}
				ast.Inspect(fd.Body, func(nd ast.Node) bool {
					be, ok := nd.(*ast.BinaryExpr)
					if !ok || (be.Op != token.EQL && be.Op != token.NEQ) {
						return true
					}
					if !isRuneError(be.X) && !isRuneError(be.Y) {
						return true
					}
					n++
					// climb through && / parentheses / if-init, collecting sibling conjuncts
					sizeTested := false
					var cur ast.Node = be
					for {
						par := parent[cur]
						pe, isBin := par.(*ast.BinaryExpr)
						if pp, isParen := par.(*ast.ParenExpr); isParen {
							cur = pp
							continue
						}
						if !isBin || pe.Op != token.LAND {
							break
						}
						for _, side := range []ast.Expr{pe.X, pe.Y} {
							ast.Inspect(side, func(m ast.Node) bool {
								if cmp, ok := m.(*ast.BinaryExpr); ok && (cmp.Op == token.EQL || cmp.Op == token.LEQ || cmp.Op == token.LSS) {
									if v, ok := constIntOf(info, cmp.Y); ok && (v == 1 || (cmp.Op == token.LSS && v == 2)) {
										if t := info.TypeOf(cmp.X); t != nil && strings.Contains(t.String(), "int") {
											sizeTested = true
										}
									}
								}
								return true
							})
						}
						cur = pe
					}
					// an enclosing `if size == 1 { … r == RuneError … }` also counts
					for up := parent[cur]; up != nil && !sizeTested; up = parent[up] {
						if ifs, ok := up.(*ast.IfStmt); ok {
							ast.Inspect(ifs.Cond, func(m ast.Node) bool {
								if cmp, ok := m.(*ast.BinaryExpr); ok && cmp.Op == token.EQL {
									if v, ok := constIntOf(info, cmp.Y); ok && v == 1 {
										if t := info.TypeOf(cmp.X); t != nil && strings.Contains(t.String(), "int") && m != be {
											sizeTested = true
										}
									}
								}
								return true
							})
						}
					}
					c.Check(sizeTested, rule, short(pk.PkgPath)+"."+declName(fd)+": comparison with utf8.RuneError", p.Pos(be.Pos()), "tested together with size == 1",
						declName(fd)+" treats a rune equal to utf8.RuneError as invalid UTF-8 without testing that the decoded size is 1: a correctly encoded U+FFFD (size 3) in the document is taken for invalid text, the position is rejected and the edit is not applied")
					return true
				})
			}
		}
	}
	c.Min(rule, "comparisons with utf8.RuneError in the language server", n, 1)
	_ = types.Typ
}
