package main

import (
	"fmt"
	"go/ast"
	"io/fs"
	"path/filepath"
	"regexp"
	"sort"
	"strings"

	"golang.org/x/tools/go/packages"
)

func init() {
	f := "internal/native/wat2x64/func.go"
	register(&Property{ID: "C02", Run: runC02, Mutants: []Mutant{
		{Name: "x64 br_table pops the carried results before locating them", File: "internal/native/wat2x64/func.go", Old: "\t\t\t// 和 br 指令一样, 返回值保留在栈上: 每个分支按栈顶位置搬运, block 结束时统一重置栈\n", New: "\t\t\tfor k := len(defaultScopeContex.Result) - 1; k >= 0; k-- {\n\t\t\t\tstk.Pop(defaultScopeContex.Result[k])\n\t\t\t}\n", Expect: "branch-arm-model-balance :: wat2x64 INS_BR_TABLE"},
		{Name: "riscv br_table pops the carried results before locating them", File: "internal/native/wat2rv/func.go", Old: "\t\t\t// 和 br 指令一样, 返回值保留在栈上: 每个分支按栈顶位置搬运, block 结束时统一重置栈\n", New: "\t\t\tfor k := len(defaultScopeContex.Result) - 1; k >= 0; k-- {\n\t\t\t\tstk.Pop(defaultScopeContex.Result[k])\n\t\t\t}\n", Expect: "carried-results-located :: wat2rv INS_BR_TABLE"},
		{Name: "loong64 br_table demands two labels", File: "internal/native/wat2la/func.go", Old: "\t\tassert(len(i.XList) >= 1)\n", New: "\t\tassert(len(i.XList) > 1)\n", Expect: "br-table-accepts-default-only :: wat2la"},
		{Name: "x64 f32.min does not merge the two orders", File: "internal/native/wat2x64/func.go", Old: "\t\tfmt.Fprintf(w, \"    orps xmm4, xmm6 # +0/-0\\n\")\n", New: "", Expect: "x64-minmax-semantics :: f32.min"},
		{Name: "x64 f64.max merges the two orders with or", File: "internal/native/wat2x64/func.go", Old: "\"    andpd xmm4, xmm6 # +0/-0\\n\"", New: "\"    orpd xmm4, xmm6 # +0/-0\\n\"", Expect: "x64-minmax-semantics :: f64.max"},
		{Name: "x64 f32.max answers the second operand for a NaN", File: "internal/native/wat2x64/func.go", Old: "\t\tfmt.Fprintf(w, \"    ucomiss xmm4, xmm5\\n\")\n\t\tfmt.Fprintf(w, \"    jp   %s # NaN\\n\", labelNaN)\n\t\tfmt.Fprintf(w, \"    movaps xmm6, xmm5\\n\")\n\t\tfmt.Fprintf(w, \"    maxss xmm6, xmm4\\n\")", New: "\t\tfmt.Fprintf(w, \"    ucomiss xmm4, xmm5\\n\")\n\t\tfmt.Fprintf(w, \"    movaps xmm6, xmm5\\n\")\n\t\tfmt.Fprintf(w, \"    maxss xmm6, xmm4\\n\")", Expect: "x64-minmax-semantics :: f32.max"},
		{Name: "x64 i64.clz stores its result with a dword operand", File: "internal/native/wat2x64/func.go", Old: "\"    lzcnt rax, rax\\n\")\n\t\tfmt.Fprintf(w, \"    mov   qword ptr [rbp%+d], rax\\n\", ret0)", New: "\"    lzcnt rax, rax\\n\")\n\t\tfmt.Fprintf(w, \"    mov   dword ptr [rbp%+d], rax\\n\", ret0)", Expect: "x64-operand-size-agreement"},
		{Name: "x64 i64.trunc_f32_u forgets the top bit", File: "internal/native/wat2x64/func.go", Old: "\t\tfmt.Fprintf(w, \"    xor       rax, r10\\n\")\n", New: "", Expect: "x64-conversion-semantics :: i64.trunc_f32_u"},
		{Name: "x64 convert_i64_u halves without the sticky bit", File: "internal/native/wat2x64/func.go", Old: "\t\tfmt.Fprintf(w, \"    or       r10, rax\\n\")\n", New: "", Expect: "x64-conversion-semantics :: f32.convert_i64_u"},
		{Name: "x64 f64.convert_i32_u converts the signed 32-bit register", File: "internal/native/wat2x64/func.go", Old: "\t\tfmt.Fprintf(w, \"    # f64.convert_i32_u\\n\")\n\t\tfmt.Fprintf(w, \"    mov      eax, dword ptr [rbp%+d]\\n\", sp0)\n\t\tfmt.Fprintf(w, \"    cvtsi2sd xmm4, rax\\n\")", New: "\t\tfmt.Fprintf(w, \"    # f64.convert_i32_u\\n\")\n\t\tfmt.Fprintf(w, \"    mov      eax, dword ptr [rbp%+d]\\n\", sp0)\n\t\tfmt.Fprintf(w, \"    cvtsi2sd xmm4, eax\\n\")", Expect: "x64-conversion-semantics :: f64.convert_i32_u"},
		{Name: "x64 f64.convert_i32_s loads its operand as a qword", File: "internal/native/wat2x64/func.go", Old: "\t\tfmt.Fprintf(w, \"    # f64.convert_i32_s\\n\")\n\t\tfmt.Fprintf(w, \"    mov      eax, dword ptr [rbp%+d]\\n\", sp0)\n\t\tfmt.Fprintf(w, \"    cvtsi2sd xmm4, eax\\n\")", New: "\t\tfmt.Fprintf(w, \"    # f64.convert_i32_s\\n\")\n\t\tfmt.Fprintf(w, \"    mov      rax, qword ptr [rbp%+d]\\n\", sp0)\n\t\tfmt.Fprintf(w, \"    cvtsi2sd xmm4, rax\\n\")", Expect: "x64-conversion-semantics :: f64.convert_i32_s"},
		{Name: "x64 i64.shr_s shifts in zeros", File: "internal/native/wat2x64/func.go", Old: "\"    sar  rax, cl # cl 是 rcx 低8位\\n\"", New: "\"    shr  rax, cl # cl 是 rcx 低8位\\n\"", Expect: "x64-template-semantics :: i64.shr_s"},
		{Name: "x64 i32.ctz counts leading zeros", File: "internal/native/wat2x64/func.go", Old: "\"    tzcnt eax, eax\\n\"", New: "\"    lzcnt eax, eax\\n\"", Expect: "x64-template-semantics :: i32.ctz"},
		{Name: "x64 f32.floor rounds to nearest", File: "internal/native/wat2x64/func.go", Old: "\"    roundss xmm4, xmm4, 1\\n\"", New: "\"    roundss xmm4, xmm4, 0\\n\"", Expect: "x64-template-semantics :: f32.floor"},
		{Name: "x64 i32.lt_s compares unsigned", File: "internal/native/wat2x64/func.go", Old: "\"    setl  al\\n\"", New: "\"    setb  al\\n\"", Expect: "x64-template-semantics :: i32.lt_s"},
		{Name: "x64 i32.rotr rotates an undefined upper half in", File: "internal/native/wat2x64/func.go", Old: "\"    ror  eax, cl # cl 是 ecx 低8位\\n\"", New: "\"    ror  rax, cl # cl 是 ecx 低8位\\n\"", Expect: "x64-template-semantics :: i32.rotr"},
		{Name: "x64 i64.load32_s zero-extends", File: "internal/native/wat2x64/func.go", Old: "\"    movsxd rax, dword ptr [r10%+d]\\n\"", New: "\"    mov    eax, dword ptr [r10%+d]\\n\"", Expect: "x64-memory-access-semantics :: i64.load32_s"},
		{Name: "x64 i32.store16 writes four bytes", File: "internal/native/wat2x64/func.go", Old: "\"    mov word ptr [r10%+d], ax\\n\"", New: "\"    mov dword ptr [r10%+d], eax\\n\"", Expect: "x64-memory-access-semantics :: i32.store16"},
		{Name: "x64 i32.load reads its address as a qword", File: "internal/native/wat2x64/func.go", Old: "\t\tfmt.Fprintf(w, \"    # i32.load\\n\")\n\t\tfmt.Fprintf(w, \"    mov rax, qword ptr [rip+%s]\\n\", kMemoryAddrName)\n\t\tfmt.Fprintf(w, \"    mov r10d, dword ptr [rbp%+d]\\n\", sp0)", New: "\t\tfmt.Fprintf(w, \"    # i32.load\\n\")\n\t\tfmt.Fprintf(w, \"    mov rax, qword ptr [rip+%s]\\n\", kMemoryAddrName)\n\t\tfmt.Fprintf(w, \"    mov r10, qword ptr [rbp%+d]\\n\", sp0)", Expect: "x64-memory-access-semantics :: i32.load"},
		{Name: "x64 f64.store ignores the memarg offset", File: "internal/native/wat2x64/func.go", Old: "\"    movsd qword ptr [r10%+d], xmm4\\n\", i.Offset)", New: "\"    movsd qword ptr [r10%+d], xmm4\\n\", i.Offset+8)", Expect: "x64-memory-access-semantics :: f64.store"},
		{Name: "x64 memory.init comment swallows the next instruction", File: "internal/native/wat2x64/func.go", Old: "fmt.Fprintf(w, \"    # memory.init\\n\")", New: "fmt.Fprintf(w, \"    # memory.init\")", Expect: "line-terminated :: wat2x64 wat2X64Worker.buildFunc_ins"},
		{Name: "x64 select loses the newline after its last store", File: "internal/native/wat2x64/func.go", Old: "\t\tdefault:\n\t\t\tunreachable()\n\t\t}\n\t\tfmt.Fprintln(w)\n\n\tcase token.INS_LOCAL_GET:", New: "\t\tdefault:\n\t\t\tunreachable()\n\t\t}\n\n\tcase token.INS_LOCAL_GET:", Expect: "line-terminated :: wat2x64 wat2X64Worker.buildFunc"},
		{Name: "loong64 table offset comment swallows the ori", File: "internal/native/wat2la/table.go", Old: "\"    lu12i.w   $t1, 0x%X # offset\\n\"", New: "\"    lu12i.w   $t1, 0x%X\\n # offset\"", Expect: "line-terminated :: wat2la wat2laWorker.buildTable"},
		{Name: "x64 locals zeroed with a dword store", File: "internal/native/wat2x64/func.go", Old: "mov qword ptr [rbp%+d], 0 # local %s = 0", New: "mov dword ptr [rbp%+d], 0 # local %s = 0", Expect: "x64-local-init-width"},
		{Name: "x64 element offset not scaled", File: "internal/native/wat2x64/table.go", Old: "off := (int(elem.Offset) + j) * IntSize", New: "off := int(elem.Offset) + j*IntSize", Expect: "x64-elem-offset-scaled"},
		{Name: "x64 memory-return prologue stores rcx under every ABI", File: "internal/native/wat2x64/func.go", Old: "fnNative.Type.Return[1].Reg == 0 && p.cpuType == abi.X64Windows {", New: "fnNative.Type.Return[1].Reg == 0 {", Expect: "x64-caller-area-store-abi"},
		{Name: "x64 br copies its results from the last to the first", File: "internal/native/wat2x64/func.go", Old: "\t\t\t\tfor i := 0; i < len(destScopeContex.Result); i++ {\n\t\t\t\t\tswitch xType := destScopeContex.Result[i]; xType {", New: "\t\t\t\tfor i := len(destScopeContex.Result) - 1; i >= 0; i-- {\n\t\t\t\t\tswitch xType := destScopeContex.Result[i]; xType {", Expect: "overlap-copy-direction :: wat2x64"},
		{Name: "x64 float globals printed with %f", File: "internal/native/wat2x64/gas.go", Old: "fmt.Fprintf(w, \"%s: .long 0x%08X # float %v\\n\", name, math.Float32bits(v), v)", New: "fmt.Fprintf(w, \"%s: .float %f\\n\", name, v)", Expect: "float-literal-exact :: wat2x64"},
		{Name: "riscv numeric locals count the results", File: "internal/native/wat2rv/helper.go", Old: "\t\tidx = idx - len(fn.Type.Params)\n\t\treturn fn.Locals[idx].Type", New: "\t\tidx = idx - len(fn.Type.Params) - len(fn.Type.Results)\n\t\treturn fn.Locals[idx].Type", Expect: "local-index-space :: wat2rv"},
		{Name: "x64 i32.rem_s divides without the -1 guard", File: "internal/native/wat2x64/func.go", Old: "\t\tfmt.Fprintf(w, \"    cmp  r10d, -1\\n\")\n\t\tfmt.Fprintf(w, \"    je   %s\\n\", labelEnd)\n", New: "", Expect: "x64-rem-s-guard :: i32_rem_s"},
		{Name: "x64 call loop bound skips the first parameter", File: "internal/native/wat2x64/func.go", Old: "\t\tfor k := len(argList) - 1; k >= 0; k-- {\n\t\t\tx := fnCallType.Params[k]\n\t\t\targList[k] = stk.Pop(x.Type)", New: "\t\tfor k := len(argList) - 1; k > 0; k-- {\n\t\t\tx := fnCallType.Params[k]\n\t\t\targList[k] = stk.Pop(x.Type)", Expect: "index-loop-covers-list"},
		{Name: "x64 f32.neg flips the sign bit with a 64-bit xor", File: "internal/native/wat2x64/func.go", Old: "xor eax, 0x80000000", New: "xor rax, 0x80000000", Expect: "x64-imm-encodable :: f32.neg"},
		{Name: "x64 memory.grow loads its i32 operand as a qword", File: "internal/native/wat2x64/func.go", Old: "fmt.Fprintf(w, \"    mov eax, dword ptr [rbp%+d]\\n\", sp0)\n\t\tfmt.Fprintf(w, \"    add rax, r10\\n\")", New: "fmt.Fprintf(w, \"    mov rax, qword ptr [rbp%+d]\\n\", sp0)\n\t\tfmt.Fprintf(w, \"    add rax, r10\\n\")", Expect: "x64-slot-width :: memory.grow"},
		{Name: "the engine's memory.grow only compares the 32-bit sum with the maximum", File: "internal/3rdparty/wazero/internal/wasm/memory.go", Old: "if newPages > m.Max || newPages < currentPages {", New: "if newPages > m.Max {", Expect: "engine-grow-no-wrap"},
		{Name: "x64 br_if names its fall-through label after the target block", File: "internal/native/wat2x64/func.go", Old: "labelBrFallthroughId := p.makeLabelId(kLabelPrefixName_brFallthrough, destScopeContex.Label, p.genNextId())", New: "labelBrFallthroughId := p.makeLabelId(kLabelPrefixName_brFallthrough, destScopeContex.Label, destScopeContex.LabelSuffix)", Expect: "site-label-unique :: wat2x64 INS_BR_IF"},
		{Name: "loong64 br_table names its case labels after the target only", File: "internal/native/wat2la/func.go", Old: "\t\t\t\t\tp.gasFuncLabel(w, p.makeLabelId(kLabelPrefixName_brCase, fmt.Sprintf(\"%d.%s\", k, i.XList[k]), labelSuffix))", New: "\t\t\t\t\tp.gasFuncLabel(w, p.makeLabelId(kLabelPrefixName_brCase, i.XList[k], labelSuffix))", Expect: "site-label-unique :: wat2la INS_BR_TABLE"},
		{Name: "x64 call pops its arguments first to last", File: "internal/native/wat2x64/func.go", Old: "\t\tfor k := len(argList) - 1; k >= 0; k-- {\n\t\t\tx := fnCallType.Params[k]\n\t\t\targList[k] = stk.Pop(x.Type)", New: "\t\tfor k := 0; k < len(argList); k++ {\n\t\t\tx := fnCallType.Params[k]\n\t\t\targList[k] = stk.Pop(x.Type)", Expect: "list-stack-order :: wat2x64 "},
		{Name: "riscv if/else removes the then-results first to last", File: "internal/native/wat2rv/func.go", Old: "\t\t\t\tfor k := len(i.Results) - 1; k >= 0; k-- {\n\t\t\t\t\tretType := i.Results[k]\n\t\t\t\t\tstk.Pop(retType)", New: "\t\t\t\tfor k := 0; k < len(i.Results); k++ {\n\t\t\t\t\tretType := i.Results[k]\n\t\t\t\t\tstk.Pop(retType)", Expect: "list-stack-order :: wat2rv "},
		{Name: "x64 label lookup scans the scope stack outermost-first", File: "internal/native/wat2x64/stack_scope.go", Old: "\t\tfor i := len(p.stack) - 1; i >= 0; i-- {\n\t\t\tif ctx := p.stack[i]; ctx.Label == label {", New: "\t\tfor _, ctx := range p.stack {\n\t\t\tif ctx.Label == label {", Expect: "label-scope-innermost-first :: wat2x64"},
		{Name: "loong64 label lookup counts up from the oldest scope", File: "internal/native/wat2la/stack_scope.go", Old: "\t\tfor i := len(p.stack) - 1; i >= 0; i-- {\n\t\t\tif ctx := p.stack[i]; ctx.Label == label {", New: "\t\tfor i := 0; i < len(p.stack); i++ {\n\t\t\tif ctx := p.stack[i]; ctx.Label == label {", Expect: "label-scope-innermost-first :: wat2la"},
		{Name: "memory.grow to exactly the declared maximum fails natively", File: "internal/native/wat2x64/func.go", Old: "\t\tfmt.Fprintf(w, \"    ja  %s\\n\", labelElse)", New: "\t\tfmt.Fprintf(w, \"    jae %s\\n\", labelElse)", Expect: "memory-grow-limit"},
		{Name: "x64 data strings keep a raw backslash", File: "internal/native/wat2x64/utils.go", Old: "if b >= 32 && b <= 126 && b != '\"' && b != '\\\\' {", New: "if b >= 32 && b <= 126 && b != '\"' && b != '/' {", Expect: "gas-string-literal"},
		{Name: "riscv data strings escape with a variable number of octal digits", File: "internal/native/wat2rv/utils.go", Old: "fmt.Sprintf(\"\\\\%03o\", b)", New: "fmt.Sprintf(\"\\\\%o\", b)", Expect: "gas-string-literal"},
		{Name: "indirect calls record the caller's argument area", File: "internal/native/wat2x64/func.go", Old: "\t\t\tp.fnMaxCallArgsSize = fnCallNative.ArgsSize", New: "\t\t\tp.fnMaxCallArgsSize = fnNative.ArgsSize", Nth: 1, Expect: "running-maximum"},
		{Name: "f64.le loses its NaN guard", File: "internal/native/wat2x64/func.go", Old: "\t\tfmt.Fprintf(w, \"    setbe   al\\n\")\n\t\tfmt.Fprintf(w, \"    setnp   cl # set if not NaN\\n\")\n\t\tfmt.Fprintf(w, \"    and     al, cl\\n\")", New: "\t\tfmt.Fprintf(w, \"    setbe   al\\n\")", Nth: 1, Expect: "float-compare-truth-table :: f64.le"},
		{Name: "f32.ne is false on NaN", File: "internal/native/wat2x64/func.go", Old: "\t\tfmt.Fprintf(w, \"    setne   al\\n\")\n\t\tfmt.Fprintf(w, \"    setp    cl # set if NaN\\n\")\n\t\tfmt.Fprintf(w, \"    or      al, cl\\n\")", New: "\t\tfmt.Fprintf(w, \"    setne   al\\n\")", Expect: "float-compare-truth-table :: f32.ne"},
		{Name: "linux memmove helper copies in the wrong direction", File: "internal/native/wat2x64/assets/native-env-linux-x64.s", Old: "    cmp rdi, rsi ", New: "    cmp rsi, rdi ", Expect: "memmove-direction :: internal/native/wat2x64/assets/native-env-linux-x64.s"},
		{Name: "i64.lt_u uses the signed condition", File: f, Old: "fmt.Fprintf(w, \"    # i64.lt_u\\n\")\n\t\tfmt.Fprintf(w, \"    mov   r10, qword ptr [rbp%+d]\\n\", sp1)\n\t\tfmt.Fprintf(w, \"    mov   r11, qword ptr [rbp%+d]\\n\", sp0)\n\t\tfmt.Fprintf(w, \"    cmp   r10, r11\\n\")\n\t\tfmt.Fprintf(w, \"    setb  al\\n\")", New: "fmt.Fprintf(w, \"    # i64.lt_u\\n\")\n\t\tfmt.Fprintf(w, \"    mov   r10, qword ptr [rbp%+d]\\n\", sp1)\n\t\tfmt.Fprintf(w, \"    mov   r11, qword ptr [rbp%+d]\\n\", sp0)\n\t\tfmt.Fprintf(w, \"    cmp   r10, r11\\n\")\n\t\tfmt.Fprintf(w, \"    setl  al\\n\")", Expect: "x64-template-semantics :: i64.lt_u"},
		{Name: "i32.shr_s shifts logically", File: f, Old: "sar  eax, cl", New: "shr  eax, cl", Expect: "x64-template-semantics :: i32.shr_s"},
		{Name: "i32.div_u divides signed", File: f, Old: "    div  dword ptr [rbp%+d]", New: "    idiv dword ptr [rbp%+d]", Expect: "x64-template-semantics :: i32.div_u"},
		{Name: "i64.sub operands swapped", File: f, Old: "fmt.Fprintf(w, \"    mov rax, qword ptr [rbp%+d]\\n\", sp1)\n\t\tfmt.Fprintf(w, \"    sub rax, qword ptr [rbp%+d]\\n\", sp0)", New: "fmt.Fprintf(w, \"    mov rax, qword ptr [rbp%+d]\\n\", sp0)\n\t\tfmt.Fprintf(w, \"    sub rax, qword ptr [rbp%+d]\\n\", sp1)", Expect: "x64-template-semantics :: i64.sub"},
		{Name: "i32.rem_s returns the quotient", File: f, Old: "    mov  dword ptr [rbp%+d], edx\\n\", ret0)", New: "    mov  dword ptr [rbp%+d], eax\\n\", ret0)", Expect: "x64-template-semantics :: i32.rem_s"},
		{Name: "f64.lt pops f32 operands", File: f, Old: "case token.INS_F64_LT:\n\t\tsp0 := p.fnWasmR0Base - 8*stk.Pop(token.F64) - 8", New: "case token.INS_F64_LT:\n\t\tsp0 := p.fnWasmR0Base - 8*stk.Pop(token.F32) - 8", Expect: "stack-effect :: wat2x64 f64.lt"},
		{Name: "i64.extend_i32_s pushes i32", File: f, Old: "case token.INS_I64_EXTEND_I32_S:\n\t\tsp0 := p.fnWasmR0Base - 8*stk.Pop(token.I32) - 8\n\t\tret0 := p.fnWasmR0Base - 8*stk.Push(token.I64) - 8", New: "case token.INS_I64_EXTEND_I32_S:\n\t\tsp0 := p.fnWasmR0Base - 8*stk.Pop(token.I32) - 8\n\t\tret0 := p.fnWasmR0Base - 8*stk.Push(token.I32) - 8", Expect: "stack-effect :: wat2x64 i64.extend_i32_s"},
		{Name: "i32.load8_s zero-extends", File: f, Old: "movsx eax, byte ptr [r10%+d]", New: "movzx eax, byte ptr [r10%+d]", Expect: "x64-memory-access-semantics :: i32.load8_s"},
		{Name: "i32.load16_u reads a byte", File: f, Old: "movzx eax, word ptr [r10%+d]", New: "movzx eax, byte ptr [r10%+d]", Expect: "x64-memory-access-semantics :: i32.load16_u"},
		{Name: "f64.trunc rounds to nearest", File: f, Old: "roundsd xmm4, xmm4, 3\\n", New: "roundsd xmm4, xmm4, 0\\n", Expect: "x64-template-semantics :: f64.trunc"},
		{Name: "arm removed (falls to default panic)", File: f, Old: "\tcase token.INS_I64_ROTR:", New: "\tcase token.INS_I64_ROTR + 1000:", Expect: "exhaustive :: wat2x64 i64.rotr"},
		{Name: "i64.ge_s stores a 64-bit result over the i32 slot", File: f, Old: "fmt.Fprintf(w, \"    setge al\\n\")\n\t\tfmt.Fprintf(w, \"    movzx eax, al\\n\")\n\t\tfmt.Fprintf(w, \"    mov   dword ptr [rbp%+d], eax\\n\", ret0)\n\t\tfmt.Fprintln(w)\n\n\tcase token.INS_I64_GE_U:", New: "fmt.Fprintf(w, \"    setg al\\n\")\n\t\tfmt.Fprintf(w, \"    movzx eax, al\\n\")\n\t\tfmt.Fprintf(w, \"    mov   dword ptr [rbp%+d], eax\\n\", ret0)\n\t\tfmt.Fprintln(w)\n\n\tcase token.INS_I64_GE_U:", Expect: "x64-template-semantics :: i64.ge_s"},
	}[1:]})
}

var translators = []struct{ name, pkg, fn string }{
	{"wat2x64", "internal/native/wat2x64", "wat2X64Worker.buildFunc_ins"},
	{"wat2c", "internal/wat/watutil/wat2c", "wat2cWorker.buildFunc_ins"},
	{"wat2la", "internal/native/wat2la", "wat2laWorker.buildFunc_ins"},
	{"wat2rv", "internal/native/wat2rv", "wat2rvWorker.buildFunc_ins"},
	{"wat2arm64", "internal/native/wat2arm64", "wat2arm64Worker.buildFunc_ins"},
}

func findBuildFuncIns(pk *packages.Package) *ast.FuncDecl {
	for name, fd := range AllFuncDecls(pk) {
		if strings.HasSuffix(name, ".buildFunc_ins") {
			return fd
		}
	}
	return nil
}

// stackEffectRules: exhaustiveness + stack-effect agreement with the specification for one translator.
func stackEffectRules(c *Ctx, p *Prog, tr string, pk *packages.Package, ins map[string]string) map[string]TemplArm {
	fd := findBuildFuncIns(pk)
	if fd == nil {
		c.Undecided("exhaustive", "anchor:"+tr+".buildFunc_ins", "", "instruction dispatcher not found")
		return nil
	}
	arms, sw := ExtractTemplArms(pk, fd, ins)
	if sw == nil {
		c.Undecided("exhaustive", "anchor:"+tr+".buildFunc_ins switch", p.Pos(fd.Pos()), "instruction switch not found")
		return nil
	}
	by := map[string]TemplArm{}
	for _, a := range arms {
		by[a.Tok] = a
	}
	var names []string
	for k := range ins {
		names = append(names, k)
	}
	sort.Strings(names)
	nfix := 0
	for _, k := range names {
		m := ins[k]
		a, ok := by[k]
		if !ok {
			c.Fail("exhaustive", tr+" "+m, p.Pos(sw.Pos()), "instruction token "+k+" has no arm in "+tr+"'s dispatcher: it reaches default (panic)")
			continue
		}
		loc := p.Pos(a.Arm.Clause.Pos())
		if a.Fatal {
			c.Check(m == "else" || m == "end", "exhaustive", tr+" "+m, loc, "structural token", "arm for "+m+" only panics / reports unsupported")
			continue
		}
		c.OK("exhaustive", tr+" "+m, loc, "has a template arm")
		sp := wasmSpec[m]
		if sp == nil || sp.Poly {
			continue
		}
		nfix++
		for vi, v := range a.Variants {
			if v.Dyn {
				c.Undecided("stack-effect", tr+" "+m, loc, "fixed-signature instruction but the arm's stack operations are not straight-line constants")
				continue
			}
			pops, pushes := v.pops(), v.pushes()
			wantPops := append([]string{}, sp.Pops...)
			if len(a.Variants) > 1 && sp.Imm == "memarg" && vi == 1 && len(pops) == len(wantPops) {
				// memory64 variant: the address operand is i64
				wantPops[len(wantPops)-1] = pops[len(pops)-1]
				if pops[len(pops)-1] != "i64" {
					wantPops[len(wantPops)-1] = "i32"
				}
			}
			if m == "memory.size" || m == "memory.grow" || strings.HasSuffix(m, ".const") {
				// result/operand follows the memory address type in memory64 builds; const pushes its own type
			}
			ok := sliceEq(pops, wantPops) && sliceEq(pushes, sp.Pushes)
			c.Check(ok, "stack-effect", tr+" "+m, loc, fmt.Sprintf("pops %v pushes %v", pops, pushes),
				fmt.Sprintf("%s's arm for %s pops %v and pushes %v on the virtual operand stack; the WebAssembly signature is pops %v pushes %v", tr, m, pops, pushes, sp.Pops, sp.Pushes))
		}
	}
	c.Min("stack-effect", tr+" fixed-signature arms", nfix, 120)
	return by
}

var reX64Op = regexp.MustCompile(`^\s*([a-z][a-z0-9]*)`)

func x64Ops(v TemplVariant) []string {
	var out []string
	for _, l := range v.Lines {
		f := strings.TrimSpace(l.Format)
		if strings.HasPrefix(f, "#") || f == "" {
			continue
		}
		if m := reX64Op.FindStringSubmatch(f); m != nil {
			out = append(out, m[1])
		}
	}
	return out
}

func has(list []string, x string) bool {
	for _, y := range list {
		if y == x {
			return true
		}
	}
	return false
}

// x64CoreOp: the characteristic x86 instruction a template for mnemonic m must contain, and the
// confusable ones it must not contain.
func x64CoreOp(m string) (require []string, forbid []string) {
	t, op := m[:3], m[4:]
	setcc := []string{"sete", "setne", "setl", "setb", "setg", "seta", "setle", "setbe", "setge", "setae"}
	except := func(all []string, keep ...string) []string {
		var o []string
		for _, a := range all {
			if !has(keep, a) {
				o = append(o, a)
			}
		}
		return o
	}
	isInt := t == "i32" || t == "i64"
	fs := "ss"
	if t == "f64" {
		fs = "sd"
	}
	if isInt {
		cc := map[string]string{"eqz": "sete", "eq": "sete", "ne": "setne", "lt_s": "setl", "lt_u": "setb", "gt_s": "setg", "gt_u": "seta", "le_s": "setle", "le_u": "setbe", "ge_s": "setge", "ge_u": "setae"}
		if c, ok := cc[op]; ok {
			return []string{"cmp", c}, except(setcc, c)
		}
		switch op {
		case "add":
			return []string{"add"}, []string{"sub", "imul"}
		case "sub":
			return []string{"sub"}, []string{"add", "imul"}
		case "mul":
			return []string{"imul"}, []string{"add", "sub"}
		case "div_s", "rem_s":
			return []string{"idiv"}, []string{"div"}
		case "div_u", "rem_u":
			return []string{"div"}, []string{"idiv"}
		case "and":
			return []string{"and"}, []string{"or", "xor"}
		case "or":
			return []string{"or"}, []string{"and", "xor"}
		case "xor":
			return []string{"xor"}, []string{"and", "or"}
		case "shl":
			return []string{"shl"}, []string{"sar", "shr", "rol", "ror"}
		case "shr_s":
			return []string{"sar"}, []string{"shl", "shr", "rol", "ror"}
		case "shr_u":
			return []string{"shr"}, []string{"shl", "sar", "rol", "ror"}
		case "rotl":
			return []string{"rol"}, []string{"ror", "shl", "shr", "sar"}
		case "rotr":
			return []string{"ror"}, []string{"rol", "shl", "shr", "sar"}
		case "clz":
			return []string{"lzcnt"}, []string{"tzcnt", "popcnt"}
		case "ctz":
			return []string{"tzcnt"}, []string{"lzcnt", "popcnt"}
		case "popcnt":
			return []string{"popcnt"}, []string{"lzcnt", "tzcnt"}
		case "load8_s", "load16_s":
			return []string{"movsx"}, []string{"movzx"}
		case "load8_u", "load16_u":
			return []string{"movzx"}, []string{"movsx"}
		case "load32_s":
			return []string{"movsxd"}, nil
		case "load32_u":
			return nil, []string{"movsxd", "movsx"}
		case "extend_i32_s":
			return []string{"movsxd"}, nil
		case "extend_i32_u":
			return nil, []string{"movsxd", "movsx"}
		case "trunc_f32_s", "trunc_f32_u":
			return []string{"cvttss2si"}, []string{"cvttsd2si", "cvtss2si"}
		case "trunc_f64_s", "trunc_f64_u":
			return []string{"cvttsd2si"}, []string{"cvttss2si", "cvtsd2si"}
		}
		return nil, nil
	}
	// float
	cc := map[string]string{"eq": "sete", "ne": "setne", "lt": "setb", "gt": "seta", "le": "setbe", "ge": "setae"}
	if c, ok := cc[op]; ok {
		return []string{"ucomi" + fs, c}, except(setcc, c)
	}
	arith := map[string]string{"add": "add", "sub": "sub", "mul": "mul", "div": "div", "min": "min", "max": "max", "sqrt": "sqrt"}
	if a, ok := arith[op]; ok {
		var fb []string
		for _, o := range arith {
			if o != a {
				fb = append(fb, o+fs)
			}
		}
		other := "sd"
		if fs == "sd" {
			other = "ss"
		}
		fb = append(fb, a+other)
		sort.Strings(fb)
		if a == "min" || a == "max" {
			// the NaN path adds the operands (x64-minmax-semantics decides what the sequence computes)
			var keep []string
			for _, o := range fb {
				if o != "add"+fs {
					keep = append(keep, o)
				}
			}
			fb = keep
		}
		return []string{a + fs}, fb
	}
	switch op {
	case "ceil", "floor", "trunc", "nearest":
		return []string{"round" + fs}, nil
	case "convert_i32_s", "convert_i32_u", "convert_i64_s", "convert_i64_u":
		return []string{"cvtsi2" + fs}, nil
	case "demote_f64":
		return []string{"cvtsd2ss"}, nil
	case "promote_f32":
		return []string{"cvtss2sd"}, nil
	}
	return nil, nil
}

var nonCommutative = map[string]bool{"sub": true, "div_s": true, "div_u": true, "rem_s": true, "rem_u": true, "shl": true, "shr_s": true, "shr_u": true, "rotl": true, "rotr": true,
	"lt_s": true, "lt_u": true, "gt_s": true, "gt_u": true, "le_s": true, "le_u": true, "ge_s": true, "ge_u": true, "lt": true, "gt": true, "le": true, "ge": true, "div": true, "copysign": true}

var reWidth = regexp.MustCompile(`\b(byte|word|dword|qword) ptr`)

func accessWidths(format string) []string {
	var out []string
	for _, m := range reWidth.FindAllStringSubmatch(format, -1) {
		out = append(out, m[1])
	}
	return out
}

func runC02(c *Ctx) {
	c.Explain = "Decides the instruction-template dispatcher of the native x86-64 back end (wat2x64): (1) every WAT instruction token has a template arm; (2) each fixed-signature arm pops/pushes the virtual operand stack exactly as the instruction's WebAssembly signature says (and the sibling translators wat2c/wat2la/wat2rv/wat2arm64 agree); " +
		"(3) the emitted template contains the x86 instruction that implements the mnemonic's operation and signedness (setl/setb..., idiv/div, sar/shr, rol/ror, movsx/movzx, cvtt*, round* mode) and none of the confusable ones; " +
		"(4) non-commutative templates load the left operand (second popped) first; (5) operand, result and memory access widths (byte/word/dword/qword) match the value types; remainder results come from rdx, quotients from rax. " +
		"(6) structural rules on the code around the templates: label lookup innermost-first, list pops last-to-first, every label an arm defines carries an id made at that site, literal immediates of 64-bit ALU instructions fit 32 bits, locals zeroed over the whole slot, numeric local indices params-then-locals, x rem_s -1 guarded, carried results moved upwards, slot addresses R0Base - n*8 - 8, no argument register written by name while arguments are loaded, element offsets scaled, float values emitted as bit patterns, the embedded engine's memory.grow cannot wrap. " +
		"(7) the numeric arms are interpreted over a model of the x86-64 instructions they use for a grid of boundary operands and compared with WebAssembly's result (x64-template-semantics, x64-conversion-semantics, x64-minmax-semantics). NOT decided: traps (operands WebAssembly traps on are not evaluated), NaN payloads, loads/stores against a real memory, the stack model of blocks and branches beyond these rules, the runtime helpers, assembler and linker."
	c.Trusted = []string{"go/packages, go/types (x/tools v0.29.0)", "embedded WebAssembly instruction table", "x86-64 mnemonic table in c02.go (condition codes, sign/zero extension, rounding immediates)"}
	c.Exhaust = true
	p := c.Load(LoadOpt{Light: true}, "./internal/wat/token", "./internal/native/wat2x64", "./internal/native/wat2la", "./internal/native/wat2rv", "./internal/native/wat2arm64", "./internal/wat/watutil/wat2c", "./internal/3rdparty/wazero/internal/wasm")
	if wz := p.MustPkg("engine-grow-no-wrap", "internal/3rdparty/wazero/internal/wasm"); wz != nil {
		c02EngineGrow(c, p, wz)
	}
	ins, tk := watTokenTable(c, p, "exhaustive")
	if tk == nil {
		return
	}
	all := map[string]map[string]TemplArm{}
	for _, tr := range translators {
		pk := p.MustPkg("exhaustive", tr.pkg)
		if pk == nil {
			continue
		}
		if tr.name == "wat2x64" {
			all[tr.name] = stackEffectRules(c, p, tr.name, pk, ins)
		} else {
			// siblings: extraction only (their own stack effects are decided under the sibling rule)
			if fd := findBuildFuncIns(pk); fd != nil {
				arms, _ := ExtractTemplArms(pk, fd, ins)
				by := map[string]TemplArm{}
				for _, a := range arms {
					by[a.Tok] = a
				}
				all[tr.name] = by
			}
		}
	}
	x64 := all["wat2x64"]
	if x64 == nil {
		return
	}
	c02FloatCompare(c, p, x64)
	c02GasString(c, p)
	c02RunningMax(c, p)
	c02Memmove(c)
	nScope := 0
	for _, tr := range translators {
		if pk := p.Pkg(tr.pkg); pk != nil {
			nScope += c02ScopeLookup(c, p, pk, tr.name)
		}
	}
	c.Min("label-scope-innermost-first", "label lookup loops in the translators", nScope, 4)
	nPop, nPush := 0, 0
	for _, tr := range translators {
		if pk := p.Pkg(tr.pkg); pk != nil && tr.name != "wat2c" {
			a, b := listStackOrder(c, p, pk, tr.name+" ")
			nPop, nPush = nPop+a, nPush+b
		}
	}
	c.Min("list-stack-order", "loops that pop a list of operands in the native translators", nPop, 16)
	c.Min("list-stack-order", "loops that push a list of operands in the native translators", nPush, 36)
	nLabels := 0
	for _, tr := range translators {
		if pk := p.Pkg(tr.pkg); pk != nil && tr.name != "wat2c" {
			nLabels += c02SiteLabels(c, p, pk, tr.name)
		}
	}
	c.Min("site-label-unique", "assembler labels defined by instruction arms of the native translators", nLabels, 36)
	nCopy := 0
	for _, tr := range translators {
		if pk := p.Pkg(tr.pkg); pk != nil && tr.name != "wat2c" {
			nCopy += copyDirection(c, p, pk, tr.name+" ")
		}
	}
	c.Min("overlap-copy-direction", "result-moving loops of the native translators", nCopy, 12)
	nLines := 0
	for _, tr := range translators {
		if pk := p.Pkg(tr.pkg); pk != nil && tr.name != "wat2c" {
			nLines += lineTerminatedRule(c, p, pk, tr.name+" ", lineAsm)
		}
	}
	c.Min("line-terminated", "functions of the native translators that write assembler text", nLines, 40)
	nSlots, nMove := 0, 0
	for _, tr := range translators {
		if pk := p.Pkg(tr.pkg); pk != nil && tr.name != "wat2c" {
			nSlots += slotNumberNotValue(c, p, pk, tr.name+" ")
			nMove += nativeMemoryCopyOverlap(c, p, pk, tr.name)
		}
	}
	c.Min("slot-number-not-value", "functions of the native translators that hold slot numbers", nSlots, 8)
	c.Min("memory-copy-overlap", "memory.copy arms of the native translators", nMove, 4)
	nLocated, nBalance, nDefault := 0, 0, 0
	for _, tr := range translators {
		if pk := p.Pkg(tr.pkg); pk != nil && tr.name != "wat2c" {
			nLocated += carriedResultsLocated(c, p, pk, tr.name)
			nBalance += branchArmModelBalance(c, p, pk, tr.name)
			nDefault += brTableAcceptsDefaultOnly(c, p, pk, tr.name)
		}
	}
	c.Min("carried-results-located", "result moves in the branch arms of the native translators", nLocated, 12)
	c.Min("branch-arm-model-balance", "branch arms of the native translators that mark the block as left by a branch", nBalance, 12)
	c.Min("br-table-accepts-default-only", "br_table arms of the native translators", nDefault, 4)
	nLoops := 0
	for _, tr := range translators {
		if pk := p.Pkg(tr.pkg); pk != nil && tr.name != "wat2c" {
			nLoops += indexLoopRule(c, p, pk, nil)
		}
	}
	c.Min("index-loop-covers-list", "index loops over lists in the native translators", nLoops, 40)
	c02MemoryGrowLimit(c, p, x64)
	c02ImmEncodable(c, p, x64, ins)
	c02RemGuard(c, p, x64)
	if pk := p.Pkg("internal/native/wat2x64"); pk != nil {
		c02MinMax(c, p, pk)
		c02OperandSize(c, p, pk)
	}
	c02Locals(c, p)
	if pk := p.Pkg("internal/native/wat2x64"); pk != nil {
		c02CallPaths(c, p, pk)
	}
	if pk := p.Pkg("internal/native/wat2x64"); pk != nil {
		c.Min("float-literal-exact", "float values written into the generated assembly", floatLiteralExact(c, p, pk, []string{"#"}, "wat2x64 "), 0)
	}
	// sibling agreement
	var names []string
	for k := range ins {
		names = append(names, k)
	}
	sort.Strings(names)
	nsib := 0
	for _, k := range names {
		m := ins[k]
		sp := wasmSpec[m]
		a, ok := x64[k]
		if sp == nil || sp.Poly || !ok || a.Fatal || len(a.Variants) != 1 || a.Variants[0].Dyn {
			continue
		}
		ref := a.Variants[0]
		for _, tr := range translators[1:] {
			b, ok := all[tr.name][k]
			if !ok || b.Fatal || len(b.Variants) == 0 || b.Variants[0].Dyn {
				continue
			}
			nsib++
			v := b.Variants[0]
			c.Check(sliceEq(v.pops(), ref.pops()) && sliceEq(v.pushes(), ref.pushes()), "sibling-agreement", m+" wat2x64~"+tr.name, p.Pos(b.Arm.Clause.Pos()),
				"same stack effect", fmt.Sprintf("wat2x64 pops %v pushes %v but %s pops %v pushes %v for %s", ref.pops(), ref.pushes(), tr.name, v.pops(), v.pushes(), m))
		}
	}
	c.Min("sibling-agreement", "pairs", nsib, 400)

	// the numeric arms are decided by interpretation first (c02_x64sim.go); for an arm that interpretation decides, the
	// shape rules below (which instruction, which operand first, which register holds the result) are not applied:
	// they are proxies that an equivalent instruction sequence would trip, and the interpretation sees the result itself
	semDecided := map[string]bool{}
	if pk := p.Pkg("internal/native/wat2x64"); pk != nil {
		for m := range c02TemplateSemantics(c, p, pk) {
			semDecided[m] = true
		}
		for m := range c02Conversions(c, p, pk) {
			semDecided[m] = true
		}
		for m := range c02MemoryAccess(c, p, pk) {
			semDecided[m] = true
		}
	}
	shapeRule := map[string]bool{"x64-access-width": true, "x64-core-op": true, "x64-operand-order": true, "x64-slot-width": true, "x64-result-register": true, "x64-rounding-mode": true}
	// x64 template content rules
	emittable := emittableMnemonics(c)
	ncore, ndormant := 0, 0
	var dormantList []string
	for _, k := range names {
		m := ins[k]
		a, ok := x64[k]
		sp := wasmSpec[m]
		if !ok || a.Fatal || sp == nil || sp.Poly || len(m) < 5 || m[3] != '.' {
			continue
		}
		loc := p.Pos(a.Arm.Clause.Pos())
		dormant := !emittable(m)
		if dormant {
			ndormant++
			dormantList = append(dormantList, m)
		}
		// A template for an instruction no Wa program can contain (the compiler back end and the runtime sources never
		// emit it) cannot break the property: its discrepancies are reported as notes, not violations.
		chk := func(cond bool, rule, construct, loc, okd, bad string) {
			if semDecided[m] && shapeRule[rule] {
				if !cond {
					c.Note("shape rule [%s] not applied to %s (the arm is decided by interpretation): %s", rule, construct, bad)
				}
				return
			}
			if !cond && dormant {
				c.Note("dormant template (%s is never emitted by the Wa compiler or runtime): [%s] %s: %s", m, rule, construct, bad)
				return
			}
			c.Check(cond, rule, construct, loc, okd, bad)
		}
		for _, v := range a.Variants {
			ops := x64Ops(v)
			req, forb := x64CoreOp(m)
			if req != nil || forb != nil {
				ncore++
				var miss, bad []string
				for _, r := range req {
					if !has(ops, r) {
						miss = append(miss, r)
					}
				}
				for _, f := range forb {
					if has(ops, f) {
						bad = append(bad, f)
					}
				}
				chk(len(miss) == 0 && len(bad) == 0, "x64-core-op", m, loc, fmt.Sprintf("template uses %v", req),
					fmt.Sprintf("template for %s emits %v: missing %v, contains confusable %v (wrong operation or signedness)", m, ops, miss, bad))
			}
			op := m[4:]
			// operand order
			if nonCommutative[op] && len(v.pops()) == 2 {
				first := ""
				for _, l := range v.Lines {
					for _, a := range l.Args {
						if first == "" && (a == v.varOf("pop", 0) || a == v.varOf("pop", 1)) {
							first = a
						}
					}
				}
				chk(first == v.varOf("pop", 1) && first != "", "x64-operand-order", m, loc, "left operand (second popped) is loaded first",
					fmt.Sprintf("template for the non-commutative %s loads %s first; the left operand is the second popped slot (%s)", m, first, v.varOf("pop", 1)))
			}
			// widths of operand and result slots
			want := map[string]string{"i32": "dword", "f32": "dword", "i64": "qword", "f64": "qword"}
			for _, o := range v.Ops {
				if o.Var == "" {
					continue
				}
				for _, l := range v.Lines {
					for _, a := range l.Args {
						if a != o.Var {
							continue
						}
						ws := accessWidths(l.Format)
						if len(ws) != 1 {
							continue
						}
						// slots are 8 bytes wide: writing a 32-bit result with a 64-bit store is harmless
						okw := ws[0] == want[o.Type] || (o.Kind == "push" && ws[0] == "qword")
						chk(okw, "x64-slot-width", m+" "+o.Kind+" "+o.Var, loc, ws[0]+" access for "+o.Type,
							fmt.Sprintf("template for %s accesses the %s slot %s (%s) as %s ptr", m, o.Kind, o.Var, o.Type, ws[0]))
					}
				}
			}
			// memory access width and sign
			if sp.Imm == "memarg" {
				bits := map[string]string{"8": "byte", "16": "word", "32": "dword"}
				w := want[m[:3]]
				for b, kw := range bits {
					if strings.Contains(op, "load"+b) || strings.Contains(op, "store"+b) {
						w = kw
					}
				}
				found := false
				for _, l := range v.Lines {
					for _, a := range l.Args {
						if strings.HasSuffix(a, ".Offset") {
							ws := accessWidths(l.Format)
							if len(ws) == 1 {
								found = true
								chk(ws[0] == w, "x64-access-width", m, loc, ws[0]+" memory access", fmt.Sprintf("%s accesses memory as %s ptr; the instruction transfers a %s", m, ws[0], w))
							}
						}
					}
				}
				if !found {
					c.Undecided("x64-access-width", m, loc, "no template line uses the instruction's Offset with a sized memory operand")
				}
			}
			// result register of div/rem
			if strings.HasPrefix(op, "div_") || strings.HasPrefix(op, "rem_") {
				for _, l := range v.Lines {
					for _, a := range l.Args {
						if a == v.varOf("push", 0) {
							isRem := strings.HasPrefix(op, "rem_")
							hasA := strings.Contains(l.Format, "eax") || strings.Contains(l.Format, "rax")
							hasD := strings.Contains(l.Format, "edx") || strings.Contains(l.Format, "rdx")
							chk((isRem && hasD && !hasA) || (!isRem && hasA && !hasD), "x64-result-register", m, loc, "quotient from rax / remainder from rdx", "template for "+m+" stores the wrong half of the division result: "+strings.TrimSpace(l.Format))
						}
					}
				}
			}
			// rounding mode
			if rm, ok := map[string][]string{"ceil": {"2", "10"}, "floor": {"1", "9"}, "trunc": {"3", "11"}, "nearest": {"0", "8"}}[op]; ok {
				for _, l := range v.Lines {
					f := strings.TrimSpace(l.Format)
					if strings.HasPrefix(f, "round") {
						parts := strings.Split(f, ",")
						imm := strings.TrimSpace(parts[len(parts)-1])
						chk(has(rm, imm), "x64-rounding-mode", m, loc, "round imm "+imm, fmt.Sprintf("%s uses rounding immediate %s; SSE4.1 encodes %s as %v", m, imm, op, rm))
					}
				}
			}
		}
	}
	// operand slots of the other fixed-signature arms (memory.grow, memory.copy, …): a 32-bit operand is read as a
	// dword — the upper half of its 8-byte slot holds whatever a wider value left there
	nOther := 0
	for _, k := range names {
		m := ins[k]
		a, ok := x64[k]
		sp := wasmSpec[m]
		if !ok || a.Fatal || sp == nil || sp.Poly || (len(m) >= 5 && m[3] == '.') {
			continue
		}
		want := map[string]string{"i32": "dword", "f32": "dword", "i64": "qword", "f64": "qword"}
		for _, v := range a.Variants {
			for _, o := range v.Ops {
				if o.Var == "" || o.Kind != "pop" {
					continue
				}
				for _, l := range v.Lines {
					for _, arg := range l.Args {
						if arg != o.Var {
							continue
						}
						ws := accessWidths(l.Format)
						if len(ws) != 1 {
							continue
						}
						nOther++
						c.Check(ws[0] == want[o.Type], "x64-slot-width", m+" pop "+o.Var, p.Pos(a.Arm.Clause.Pos()), ws[0]+" access for "+o.Type,
							fmt.Sprintf("template for %s reads the operand slot %s (%s) as %s ptr: the slot is 8 bytes wide and a %s value is stored into its lower half only, so the upper half is whatever an earlier, wider value left there", m, o.Var, o.Type, ws[0], o.Type))
					}
				}
			}
		}
	}
	c.Min("x64-slot-width", "operand reads of memory.* and other fixed-signature arms", nOther, 10)
	c.Min("x64-core-op", "arms with a characteristic operation", ncore, 110)
	c.Count("dormant_templates", ndormant)
	c.Note("dormant templates (mnemonics the Wa compiler and runtime never emit; content discrepancies there are notes): %s", strings.Join(dormantList, " "))
}

// emittableMnemonics returns a predicate: can the Wa compiler back end or the runtime sources emit mnemonic m?
// Decided textually on the operation name (without type prefix and signedness suffix), which the back end composes
// from string pieces: a mnemonic whose operation name occurs nowhere in internal/backends/compiler_wat or in
// waroot/src/**/*.ws|*.wat cannot be produced.
func emittableMnemonics(c *Ctx) func(string) bool {
	var sb strings.Builder
	for _, root := range []string{"internal/backends/compiler_wat", "waroot/src"} {
		filepath.WalkDir(filepath.Join(c.Repo, root), func(path string, d fs.DirEntry, err error) error {
			if err != nil || d.IsDir() {
				return nil
			}
			if strings.HasSuffix(path, "_test.go") {
				return nil
			}
			if strings.HasSuffix(path, ".go") || strings.HasSuffix(path, ".ws") || strings.HasSuffix(path, ".wat") {
				if b, err := c.ReadFile(path); err == nil {
					sb.Write(b)
					sb.WriteByte('\n')
				}
			}
			return nil
		})
	}
	text := sb.String()
	return func(m string) bool {
		if len(m) < 5 || m[3] != '.' {
			return true
		}
		op := m[4:]
		op = strings.TrimSuffix(strings.TrimSuffix(op, "_s"), "_u")
		return strings.Contains(text, op)
	}
}
