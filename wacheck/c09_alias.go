package main

import (
	"fmt"
	"go/ast"
	"go/constant"
	"regexp"
	"strings"

	"golang.org/x/tools/go/packages"
)

// C09 rule universe-alias-kinds: the Chinese universe gives every predeclared type a Chinese name (wzAliases in
// internal/types/universe_wz.go). The documentation package of the Chinese universe, waroot/src/太初/太初.wz, states
// for each of them which English type it is (`类型·短正整 = u16`). The kind a Chinese name is bound to must be the
// kind its English twin is bound to (waAliases / Typ): otherwise a .wz program that uses the Chinese name computes
// with another width or signedness than the .wa program it corresponds to.

var zhTypeDocRe = regexp.MustCompile(`(?m)^类型·(\S+)\s*=\s*(\S+)\s*$`)

func c09AliasKinds(c *Ctx, p *Prog, tp *packages.Package) {
	const rule = "universe-alias-kinds"
	if tp == nil {
		return
	}
	info := tp.TypesInfo
	// table rows: name -> kind constant name
	rows := func(varName string) map[string]string {
		out := map[string]string{}
		for _, f := range tp.Syntax {
			ast.Inspect(f, func(n ast.Node) bool {
				vs, ok := n.(*ast.ValueSpec)
				if !ok || len(vs.Names) != 1 || vs.Names[0].Name != varName || len(vs.Values) != 1 {
					return true
				}
				cl, ok := vs.Values[0].(*ast.CompositeLit)
				if !ok {
					return true
				}
				for _, el := range cl.Elts {
					if kv, ok := el.(*ast.KeyValueExpr); ok {
						el = kv.Value
					}
					row, ok := el.(*ast.CompositeLit)
					if !ok || len(row.Elts) != 3 {
						continue
					}
					kind, ok := row.Elts[0].(*ast.Ident)
					if !ok {
						continue
					}
					if tv, ok := info.Types[row.Elts[2]]; ok && tv.Value != nil && tv.Value.Kind() == constant.String {
						out[constant.StringVal(tv.Value)] = kind.Name
					}
				}
				return true
			})
		}
		return out
	}
	wz, wa, typ := rows("wzAliases"), rows("waAliases"), rows("Typ")
	if len(wz) < 10 || len(wa) < 8 || len(typ) < 10 {
		c.Undecided(rule, "anchor:alias tables", "", fmt.Sprintf("wzAliases/waAliases/Typ rows resolved: %d/%d/%d", len(wz), len(wa), len(typ)))
		return
	}
	doc, err := c.ReadFile("waroot/src/太初/太初.wz")
	if err != nil {
		c.Undecided(rule, "anchor:太初.wz", "", "the documentation package of the Chinese universe is not readable")
		return
	}
	n := 0
	for _, m := range zhTypeDocRe.FindAllStringSubmatch(string(doc), -1) {
		zh, en := m[1], m[2]
		enKind := wa[en]
		if enKind == "" {
			enKind = typ[en]
		}
		// Go spellings of the short English names
		if enKind == "" {
			enKind = typ[map[string]string{"f32": "float32", "f64": "float64", "i8": "int8", "i16": "int16", "i32": "int32", "i64": "int64", "u8": "uint8", "u16": "uint16", "u32": "uint32", "u64": "uint64"}[en]]
		}
		zhKind := wz[zh]
		if zhKind == "" {
			zhKind = typ[zh] // names defined through the Typ table of the Chinese universe, if any
		}
		if enKind == "" || zhKind == "" {
			continue // not a basic-type alias (any, complex types handled by Typ of both languages)
		}
		n++
		c.Check(zhKind == enKind, rule, zh+" = "+en, "internal/types/universe_wz.go", "both names are bound to "+enKind,
			fmt.Sprintf("the Chinese type name %s is documented as %s (%s) but the Chinese universe binds it to %s: a .wz program that uses it computes with a different width or signedness than its .wa counterpart", zh, en, enKind, zhKind))
	}
	c.Min(rule, "documented Chinese type names", n, 14)
	_ = strings.TrimSpace
}
