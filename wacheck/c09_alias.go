package main

import (
	"fmt"
	"go/ast"
	"go/constant"
	"go/types"
	"regexp"
	"strings"

	"golang.org/x/tools/go/packages"
)

// C09 rule universe-alias-kinds: the Chinese universe gives every predeclared type a Chinese name (wzAliases in
// internal/types/universe_wz.go). The documentation package of the Chinese universe, waroot/src/太初/太初.wz, states
// for each of them which English type it is (`类型·短正整 = u16`). The kind a Chinese name is bound to must be the
// kind its English twin is bound to (waAliases / Typ): otherwise a .wz program that uses the Chinese name computes
// with another width or signedness than the .wa program it corresponds to.

var zhTypeDocRe = regexp.MustCompile(`(?m)^类型·(\S+)\s*=\s*(\S+)\s*$`)

func c09AliasKinds(c *Ctx, p *Prog, tp *packages.Package) {
	const rule = "universe-alias-kinds"
	if tp == nil {
		return
	}
	info := tp.TypesInfo
	// table rows: name -> kind constant name
	rows := func(varName string) map[string]string {
		out := map[string]string{}
		for _, f := range tp.Syntax {
			ast.Inspect(f, func(n ast.Node) bool {
				vs, ok := n.(*ast.ValueSpec)
				if !ok || len(vs.Names) != 1 || vs.Names[0].Name != varName || len(vs.Values) != 1 {
					return true
				}
				cl, ok := vs.Values[0].(*ast.CompositeLit)
				if !ok {
					return true
				}
				for _, el := range cl.Elts {
					if kv, ok := el.(*ast.KeyValueExpr); ok {
						el = kv.Value
					}
					row, ok := el.(*ast.CompositeLit)
					if !ok || len(row.Elts) != 3 {
						continue
					}
					kind, ok := row.Elts[0].(*ast.Ident)
					if !ok {
						continue
					}
					if tv, ok := info.Types[row.Elts[2]]; ok && tv.Value != nil && tv.Value.Kind() == constant.String {
						out[constant.StringVal(tv.Value)] = kind.Name
					}
				}
				return true
			})
		}
		return out
	}
	wz, wa, typ := rows("wzAliases"), rows("waAliases"), rows("Typ")
	if len(wz) < 10 || len(wa) < 8 || len(typ) < 10 {
		c.Undecided(rule, "anchor:alias tables", "", fmt.Sprintf("wzAliases/waAliases/Typ rows resolved: %d/%d/%d", len(wz), len(wa), len(typ)))
		return
	}
	doc, err := c.ReadFile("waroot/src/太初/太初.wz")
	if err != nil {
		c.Undecided(rule, "anchor:太初.wz", "", "the documentation package of the Chinese universe is not readable")
		return
	}
	n := 0
	for _, m := range zhTypeDocRe.FindAllStringSubmatch(string(doc), -1) {
		zh, en := m[1], m[2]
		enKind := wa[en]
		if enKind == "" {
			enKind = typ[en]
		}
		// Go spellings of the short English names
		if enKind == "" {
			enKind = typ[map[string]string{"f32": "float32", "f64": "float64", "i8": "int8", "i16": "int16", "i32": "int32", "i64": "int64", "u8": "uint8", "u16": "uint16", "u32": "uint32", "u64": "uint64"}[en]]
		}
		zhKind := wz[zh]
		if zhKind == "" {
			zhKind = typ[zh] // names defined through the Typ table of the Chinese universe, if any
		}
		if enKind == "" || zhKind == "" {
			continue // not a basic-type alias (any, complex types handled by Typ of both languages)
		}
		n++
		c.Check(zhKind == enKind, rule, zh+" = "+en, "internal/types/universe_wz.go", "both names are bound to "+enKind,
			fmt.Sprintf("the Chinese type name %s is documented as %s (%s) but the Chinese universe binds it to %s: a .wz program that uses it computes with a different width or signedness than its .wa counterpart", zh, en, enKind, zhKind))
	}
	c.Min(rule, "documented Chinese type names", n, 12)
	_ = strings.TrimSpace

	// ---- universe-visibility-agrees (added after probing: 微整型/短整型 — i8/i16, which the English universe hides
	// behind the unusable names __wa_i8/__wa_i16 because the back end cannot compile them — were usable in .wz and
	// ended the compiler with os.Exit; complex64/complex128 had no Chinese name; a bare `Pointer` was predeclared in
	// .wz only). A basic kind is visible to the user of one syntax exactly when it is visible to the user of the other.
	const vrule = "universe-visibility-agrees"
	visible := func(name string) bool {
		return name != "" && !strings.HasPrefix(name, "__") && !strings.Contains(name, " ")
	}
	waVisible := map[string]string{} // kind -> a visible English name
	for name, kind := range typ {
		if visible(name) && !strings.HasPrefix(kind, "Untyped") && kind != "Invalid" {
			waVisible[kind] = name
		}
	}
	for name, kind := range wa {
		if visible(name) {
			waVisible[kind] = name
		} else if waVisible[kind] == typ_name(typ, kind) && !visible(typ_name(typ, kind)) {
			delete(waVisible, kind)
		}
	}
	// a kind whose every English name is hidden is hidden
	for kind := range waVisible {
		any := false
		for name, k := range typ {
			if k == kind && visible(name) {
				any = true
			}
		}
		for name, k := range wa {
			if k == kind && visible(name) {
				any = true
			}
		}
		if !any {
			delete(waVisible, kind)
		}
	}
	nv := 0
	for zh, kind := range wz {
		nv++
		_, ok := waVisible[kind]
		c.Check(ok, vrule, "Chinese name "+zh+" ("+kind+")", "internal/types/universe_wz.go", "the kind has a usable English name too",
			fmt.Sprintf("the Chinese universe exports %s for the kind %s, which the English universe hides (its only names begin with `__`): a .wz program can declare a variable of a type the back end does not compile — the compiler ends with os.Exit — where the .wa twin is rejected with `undeclared name`", zh, kind))
	}
	wzKinds := map[string]bool{}
	for _, kind := range wz {
		wzKinds[kind] = true
	}
	for _, kind := range []string{"Complex64", "Complex128"} {
		if en, ok := waVisible[kind]; ok {
			nv++
			c.Check(wzKinds[kind], vrule, "kind "+kind+" has a Chinese name", "internal/types/universe_wz.go", "listed in wzAliases",
				"the English universe offers "+en+" but wzAliases has no row for "+kind+": the Chinese keyword table lists a name for it that the type checker does not know (`undeclared name`), so a .wa program that uses "+en+" has no .wz twin")
		}
	}
	// the Typ loop of the Chinese universe must not export the unsafe pointer under its English name
	for _, f := range tp.Syntax {
		for _, d := range f.Decls {
			fd, ok := d.(*ast.FuncDecl)
			if !ok || fd.Name.Name != "wzDefPredeclaredTypes" || fd.Body == nil {
				continue
			}
			skips := false
			ast.Inspect(fd.Body, func(m ast.Node) bool {
				if ifs, ok := m.(*ast.IfStmt); ok && strings.Contains(types.ExprString(ifs.Cond), "UnsafePointer") {
					for _, st := range ifs.Body.List {
						if b, ok := st.(*ast.BranchStmt); ok && b.Tok.String() == "continue" {
							skips = true
						}
					}
				}
				return true
			})
			// … or wzDef routes the English name into the unsafe scope
			routed := false
			for _, f2 := range tp.Syntax {
				for _, d2 := range f2.Decls {
					if fd2, ok := d2.(*ast.FuncDecl); ok && fd2.Name.Name == "wzDef" && fd2.Body != nil {
						ast.Inspect(fd2.Body, func(m ast.Node) bool {
							if cc, ok := m.(*ast.CaseClause); ok {
								for _, e := range cc.List {
									if strings.HasSuffix(types.ExprString(e), "K_unsafe_Pointer") {
										routed = true
									}
								}
							}
							return true
						})
					}
				}
			}
			nv++
			c.Check(skips || routed, vrule, "bare Pointer in the Chinese universe", p.Pos(fd.Pos()), "the unsafe pointer is reachable through the unsafe package only",
				"wzDefPredeclaredTypes defines every row of Typ in the Chinese universe, the unsafe pointer under its English name `Pointer` included, and wzDef moves only the Chinese unsafe names into the unsafe scope: `全局 p: Pointer` type-checks in .wz without an import (and ends the compiler), while .wa answers `undeclared name: Pointer`")
		}
	}
	c.Min(vrule, "visibility obligations", nv, 18)
}

func typ_name(typ map[string]string, kind string) string {
	for name, k := range typ {
		if k == kind {
			return name
		}
	}
	return ""
}
