package main

import (
	"fmt"
	"go/ast"
	"go/token"
	"go/types"
	"strings"

	"golang.org/x/tools/go/packages"
)

// C08 extra rules (added after seeded changes were missed):
//
//   fixed-array-bound   — inside `for … && i < BOUND { … }` every index A[i] into a fixed-size array is within A's
//                         length, counting the increments of i that precede the use in the body.
//   value-cycle-detection — the type checker resolves by-value members (array elements, struct fields) with the direct
//                         resolver, which takes part in cycle detection; the "indirect" resolver is for pointer-like
//                         positions only. Otherwise `type T [2]T` is accepted and later passes recurse without end.

func c08Extra(c *Ctx) {
	p := c.Load(LoadOpt{Light: true}, "./internal/printer", "./internal/printer/w2printer", "./internal/parser", "./internal/parser/w2parser", "./internal/scanner", "./internal/wat/parser", "./internal/wat/scanner", "./internal/native/parser", "./internal/native/scanner", "./internal/types")
	n := 0
	for rel, pk := range p.All {
		if strings.HasSuffix(rel, "internal/types") {
			continue
		}
		n += c08ArrayBounds(c, p, pk)
	}
	c.Min("fixed-array-bound", "guarded fixed-array index sites in the front ends", n, 2)
	c08SpecNames(c, p, p.Pkg("internal/parser"), p.Pkg("internal/parser/w2parser"))
	c08ReceiverNames(c, p, p.Pkg("internal/printer"), p.Pkg("internal/printer/w2printer"))
	c08LiteralStart(c, p, p.Pkg("internal/scanner"))
	nf := 0
	for _, rel := range []string{"internal/scanner", "internal/wat/scanner", "internal/native/scanner"} {
		if pk := p.MustPkg("offset-frame", rel); pk != nil {
			nf += c08OffsetFrames(c, p, pk, rel)
		}
	}
	c.Min("offset-frame", "indices and error positions with a determined frame", nf, 20)
	if tp := p.MustPkg("value-cycle-detection", "internal/types"); tp != nil {
		c08ValueCycles(c, p, tp)
		c08UniverseInterfaces(c, p, tp)
		c08ConstantKindAsserts(c, p, tp)
		c08LookupNil(c, p, tp)
	}
	c08CommentMarkers(c)
	c08TokenLoops(c, p, []*packages.Package{p.Pkg("internal/parser"), p.Pkg("internal/parser/w2parser"), p.Pkg("internal/wat/parser"), p.Pkg("internal/native/parser")})
}

func arrayLen(t types.Type) (int64, bool) {
	if t == nil {
		return 0, false
	}
	if a, ok := t.Underlying().(*types.Array); ok {
		return a.Len(), true
	}
	return 0, false
}

func c08ArrayBounds(c *Ctx, p *Prog, pk *packages.Package) int {
	info := pk.TypesInfo
	sites := 0
	for _, f := range pk.Syntax {
		for _, d := range f.Decls {
			fd, ok := d.(*ast.FuncDecl)
			if !ok || fd.Body == nil {
				continue
			}
			ast.Inspect(fd.Body, func(n ast.Node) bool {
				fs, ok := n.(*ast.ForStmt)
				if !ok || fs.Cond == nil {
					return true
				}
				// conjuncts `i < BOUND`
				var conj []ast.Expr
				var split func(e ast.Expr)
				split = func(e ast.Expr) {
					if be, ok := ast.Unparen(e).(*ast.BinaryExpr); ok && be.Op == token.LAND {
						split(be.X)
						split(be.Y)
						return
					}
					conj = append(conj, e)
				}
				split(fs.Cond)
				for _, cj := range conj {
					be, ok := ast.Unparen(cj).(*ast.BinaryExpr)
					if !ok || be.Op != token.LSS {
						continue
					}
					id, ok := ast.Unparen(be.X).(*ast.Ident)
					if !ok {
						continue
					}
					iv := info.ObjectOf(id)
					var bound int64
					boundOK := false
					if v, ok := constIntOf(info, be.Y); ok {
						bound, boundOK = v, true
					} else if call, ok := ast.Unparen(be.Y).(*ast.CallExpr); ok && types.ExprString(call.Fun) == "len" && len(call.Args) == 1 {
						bound, boundOK = arrayLen(info.TypeOf(call.Args[0]))
					}
					if !boundOK || iv == nil {
						continue
					}
					// walk the body in order, counting increments of i
					var walk func(list []ast.Stmt, delta int64) int64
					checkExpr := func(e ast.Node, delta int64) {
						ast.Inspect(e, func(m ast.Node) bool {
							ix, ok := m.(*ast.IndexExpr)
							if !ok {
								return true
							}
							xid, ok := ast.Unparen(ix.Index).(*ast.Ident)
							if !ok || info.ObjectOf(xid) != iv {
								return true
							}
							N, isArr := arrayLen(info.TypeOf(ix.X))
							if !isArr {
								return true
							}
							sites++
							maxIdx := bound - 1 + delta
							key := fmt.Sprintf("%s.%s: %s[%s]", short(pk.PkgPath), declName(fd), types.ExprString(ix.X), xid.Name)
							c.Check(maxIdx <= N-1, "fixed-array-bound", key, p.Pos(ix.Pos()), fmt.Sprintf("index <= %d < %d", maxIdx, N),
								fmt.Sprintf("%s has %d elements, but the loop condition only keeps %s below %d and %d increment(s) precede this use: the index reaches %d and the front end panics with index out of range on such input", types.ExprString(ix.X), N, xid.Name, bound, delta, maxIdx))
							return true
						})
					}
					walk = func(list []ast.Stmt, delta int64) int64 {
						for _, s := range list {
							switch x := s.(type) {
							case *ast.IncDecStmt:
								if xid, ok := x.X.(*ast.Ident); ok && info.ObjectOf(xid) == iv {
									if x.Tok == token.INC {
										delta++
									} else {
										delta--
									}
									continue
								}
								checkExpr(x, delta)
							case *ast.IfStmt:
								if x.Init != nil {
									delta = walk([]ast.Stmt{x.Init}, delta)
								}
								checkExpr(x.Cond, delta)
								d1 := walk(x.Body.List, delta)
								d2 := delta
								if eb, ok := x.Else.(*ast.BlockStmt); ok {
									d2 = walk(eb.List, delta)
								}
								if d1 > d2 {
									delta = d1
								} else {
									delta = d2
								}
							case *ast.BlockStmt:
								delta = walk(x.List, delta)
							default:
								checkExpr(s, delta)
							}
						}
						return delta
					}
					walk(fs.Body.List, 0)
				}
				return true
			})
		}
	}
	return sites
}

func c08ValueCycles(c *Ctx, p *Prog, tp *packages.Package) {
	const rule = "value-cycle-detection"
	info := tp.TypesInfo
	calleeName := func(e ast.Expr) string {
		call, ok := ast.Unparen(e).(*ast.CallExpr)
		if !ok {
			return ""
		}
		if fn := CalleeOf(info, call); fn != nil {
			return fn.Name()
		}
		return ""
	}
	// (a) array with a length: typ.elem = check.typ(e.Elt)
	fd := p.MustFunc(rule, tp, "Checker.typInternal")
	if fd != nil {
		found := 0
		ast.Inspect(fd.Body, func(n ast.Node) bool {
			cc, ok := n.(*ast.CaseClause)
			if !ok {
				return true
			}
			isArr := false
			for _, e := range cc.List {
				if strings.HasSuffix(types.ExprString(e), "ast.ArrayType") {
					isArr = true
				}
			}
			if !isArr {
				return true
			}
			// inside: `if e.Len != nil { … typ.elem = check.X(e.Elt) … } else { slice }`
			ast.Inspect(cc, func(m ast.Node) bool {
				as, ok := m.(*ast.AssignStmt)
				if !ok || len(as.Lhs) != 1 || len(as.Rhs) != 1 {
					return true
				}
				se, ok := as.Lhs[0].(*ast.SelectorExpr)
				if !ok || se.Sel.Name != "elem" {
					return true
				}
				recv := info.TypeOf(se.X)
				name := calleeName(as.Rhs[0])
				if recv == nil || name == "" {
					return true
				}
				switch namedTypeName(recv) {
				case "Array":
					found++
					c.Check(name == "typ", rule, "typInternal: array element type", p.Pos(as.Pos()), "resolved with check.typ (direct)", "the element type of an array with a length is resolved with check."+name+": an array holds its elements by value, so `type T [2]T` must be reported as an illegal cycle; through the indirect resolver the cycle is accepted and later passes (Comparable, Sizeof, the back end) recurse until the stack overflows")
				}
				return true
			})
			return false
		})
		if found == 0 {
			c.Undecided(rule, "typInternal: array element type", p.Pos(fd.Pos()), "the assignment typ.elem = check.…(e.Elt) of the array arm was not found")
		}
	}
	// (b) struct fields: check.typ(f.Type)
	if sd := p.MustFunc(rule, tp, "Checker.structType"); sd != nil {
		found := false
		ast.Inspect(sd.Body, func(n ast.Node) bool {
			call, ok := n.(*ast.CallExpr)
			if !ok || len(call.Args) != 1 || types.ExprString(call.Args[0]) != "f.Type" {
				return true
			}
			fn := CalleeOf(info, call)
			if fn == nil {
				return true
			}
			switch fn.Name() {
			case "typ", "indirectType", "definedType", "typExpr":
			default:
				return true // not a type resolver (e.g. embeddedFieldIdent)
			}
			found = true
			c.Check(fn.Name() == "typ", rule, "structType: field type", p.Pos(call.Pos()), "resolved with check.typ (direct)", "struct field types are resolved with check."+fn.Name()+": fields are held by value, so `type T struct{ x T }` must be reported as an illegal cycle")
			return true
		})
		if !found {
			c.Undecided(rule, "structType: field type", p.Pos(sd.Pos()), "the resolution of f.Type was not found")
		}
	}
}
