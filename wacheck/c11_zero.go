package main

import (
	"fmt"
	"strings"
)

// c11AllocZeroed decides, from the path summaries of $runtime.HeapAlloc, that every block it returns was zeroed over
// the whole size that was requested from the allocator. Two forms are understood:
//   - memory.fill(ptr, 0, size) with ptr the allocator's result and size the size passed to it;
//   - a count-down loop: a counter that enters the loop with the size, stores a zero word of width W at
//     ptr + counter - W, continues while counter - W != 0 (size a multiple of W): by induction the stores cover
//     [ptr, ptr + size).
func c11AllocZeroed(m *watModule, ha *watFunc) (bool, string) {
	ps, err := watPaths(m, ha)
	if err != nil {
		return false, "path summary failed: " + err.Error()
	}
	nRet := 0
	for i, p := range ps {
		if p.End != "return" || len(p.Results) != 1 || wIsConst(p.Results[0], 0) {
			continue
		}
		nRet++
		at := fmt.Sprintf("path %d (returns at line %d)", i, p.Line)
		r := p.Results[0]
		if r.Op != "call" || !strings.HasSuffix(r.Name, "malloc") || len(r.Args) != 1 {
			return false, at + ": the result " + r.String() + " is not what the allocator returned"
		}
		size := r.Args[0]
		covered := false
		// form 1: memory.fill
		for _, e := range p.Events {
			if e.Kind == "call" && e.Name == "memory.fill" && len(e.Args) == 3 {
				if wLinEqual(e.Args[0], r) && wIsConst(e.Args[1], 0) && wLinEqual(e.Args[2], size) {
					covered = true
				} else {
					return false, fmt.Sprintf("%s: memory.fill(%s, %s, %s) does not clear exactly [ptr, ptr + %s)", at, e.Args[0], e.Args[1], e.Args[2], size)
				}
			}
		}
		// form 2: count-down loop
		if !covered {
			for _, li := range p.Events {
				if li.Kind != "loopinit" || !wLinEqual(li.Args[0], size) {
					continue
				}
				counter := li.Args[1]
				for _, st := range p.Events {
					if st.Kind != "store" || !wIsConst(st.Args[1], 0) {
						continue
					}
					w := int64(8)
					if strings.HasPrefix(st.Name, "i32.") {
						w = 4
					}
					// address = ptr + counter - W
					d, ok := wLinSub(wLin(st.Args[0]), wLin(wAdd(r, counter))).isConst()
					if !ok || d+st.Off != -w {
						continue
					}
					// leaves the loop exactly when counter - W == 0
					exit := false
					for _, cd := range p.Conds {
						if dd, ok := wLinSub(wLin(cd.T), wLin(counter)).isConst(); ok && dd == -w && !cd.Taken {
							exit = true
						}
						if cd.T.Op == "op" && cd.T.Name == "eqz" {
							if dd, ok := wLinSub(wLin(cd.T.Args[0]), wLin(counter)).isConst(); ok && dd == -w && cd.Taken {
								exit = true
							}
						}
					}
					// the size is a multiple of W by construction: mul(x, W) (or a multiple of it)
					mult := wIsMultipleOf(size, w)
					if exit && mult {
						covered = true
					}
				}
			}
		}
		if !covered {
			return false, at + ": no zero fill of the whole block [ptr, ptr + " + size.String() + ") was found on this path"
		}
	}
	if nRet == 0 {
		return false, "no path returns an allocated block"
	}
	return true, ""
}

// wIsMultipleOf: t is a multiple of w (a power of two) by the way it is built: x*k with w | k, x & mask with the low
// log2(w) bits of mask clear, x << k with w | 2^k, or a constant multiple.
func wIsMultipleOf(t *wterm, w int64) bool {
	if t == nil || w <= 0 {
		return false
	}
	if t.Op == "const" {
		return t.K%w == 0
	}
	if t.Op != "op" || len(t.Args) != 2 {
		return false
	}
	constArg := func() (int64, bool) {
		for _, a := range t.Args {
			if a.Op == "const" {
				return a.K, true
			}
		}
		return 0, false
	}
	switch t.Name {
	case "mul":
		if k, ok := constArg(); ok && k%w == 0 {
			return true
		}
		return wIsMultipleOf(t.Args[0], w) || wIsMultipleOf(t.Args[1], w)
	case "and":
		if k, ok := constArg(); ok && k&(w-1) == 0 {
			return true
		}
		return wIsMultipleOf(t.Args[0], w) || wIsMultipleOf(t.Args[1], w)
	case "shl":
		if t.Args[1].Op == "const" && t.Args[1].K >= 0 && t.Args[1].K < 63 && (int64(1)<<uint(t.Args[1].K))%w == 0 {
			return true
		}
		return wIsMultipleOf(t.Args[0], w)
	case "add", "sub":
		return wIsMultipleOf(t.Args[0], w) && wIsMultipleOf(t.Args[1], w)
	}
	return false
}
