package main

import (
	"fmt"
	"strings"
)

// c11AllocZeroed decides, from the path summaries of $runtime.HeapAlloc, that every block it returns was zeroed over
// the whole size that was requested from the allocator. Two forms are understood:
//   - memory.fill(ptr, 0, size) with ptr the allocator's result and size the size passed to it;
//   - a count-down loop: a counter that enters the loop with the size, stores a zero word of width W at
//     ptr + counter - W, continues while counter - W != 0 (size a multiple of W): by induction the stores cover
//     [ptr, ptr + size).
func c11AllocZeroed(m *watModule, ha *watFunc) (bool, string) {
	ps, err := watPaths(m, ha)
	if err != nil {
		return false, "path summary failed: " + err.Error()
	}
	nRet := 0
	for i, p := range ps {
		if p.End != "return" || len(p.Results) != 1 || wIsConst(p.Results[0], 0) {
			continue
		}
		nRet++
		at := fmt.Sprintf("path %d (returns at line %d)", i, p.Line)
		r := p.Results[0]
		if r.Op != "call" || !strings.HasSuffix(r.Name, "malloc") || len(r.Args) != 1 {
			return false, at + ": the result " + r.String() + " is not what the allocator returned"
		}
		size := r.Args[0]
		covered := false
		// form 1: memory.fill
		for _, e := range p.Events {
			if e.Kind == "call" && e.Name == "memory.fill" && len(e.Args) == 3 {
				if wLinEqual(e.Args[0], r) && wIsConst(e.Args[1], 0) && wLinEqual(e.Args[2], size) {
					covered = true
				} else {
					return false, fmt.Sprintf("%s: memory.fill(%s, %s, %s) does not clear exactly [ptr, ptr + %s)", at, e.Args[0], e.Args[1], e.Args[2], size)
				}
			}
		}
		// form 2: count-down loop
		if !covered {
			for _, li := range p.Events {
				if li.Kind != "loopinit" || !wLinEqual(li.Args[0], size) {
					continue
				}
				counter := li.Args[1]
				for _, st := range p.Events {
					if st.Kind != "store" || !wIsConst(st.Args[1], 0) {
						continue
					}
					w := int64(8)
					if strings.HasPrefix(st.Name, "i32.") {
						w = 4
					}
					// address = ptr + counter - W
					d, ok := wLinSub(wLin(st.Args[0]), wLin(wAdd(r, counter))).isConst()
					if !ok || d+st.Off != -w {
						continue
					}
					// leaves the loop exactly when counter - W == 0
					exit := false
					for _, cd := range p.Conds {
						if dd, ok := wLinSub(wLin(cd.T), wLin(counter)).isConst(); ok && dd == -w && !cd.Taken {
							exit = true
						}
						if cd.T.Op == "op" && cd.T.Name == "eqz" {
							if dd, ok := wLinSub(wLin(cd.T.Args[0]), wLin(counter)).isConst(); ok && dd == -w && cd.Taken {
								exit = true
							}
						}
					}
					// the size is a multiple of W by construction: mul(x, W) (or a multiple of it)
					mult := wIsMultipleOf(size, w)
					if exit && mult {
						covered = true
					}
				}
			}
		}
		if !covered {
			return false, at + ": no zero fill of the whole block [ptr, ptr + " + size.String() + ") was found on this path"
		}
	}
	if nRet == 0 {
		return false, "no path returns an allocated block"
	}
	return true, ""
}

// wIsMultipleOf: t is a multiple of w (a power of two) by the way it is built: x*k with w | k, x & mask with the low
// log2(w) bits of mask clear, x << k with w | 2^k, or a constant multiple.
func wIsMultipleOf(t *wterm, w int64) bool {
	if t == nil || w <= 0 {
		return false
	}
	if t.Op == "const" {
		return t.K%w == 0
	}
	if t.Op != "op" || len(t.Args) != 2 {
		return false
	}
	constArg := func() (int64, bool) {
		for _, a := range t.Args {
			if a.Op == "const" {
				return a.K, true
			}
		}
		return 0, false
	}
	switch t.Name {
	case "mul":
		if k, ok := constArg(); ok && k%w == 0 {
			return true
		}
		return wIsMultipleOf(t.Args[0], w) || wIsMultipleOf(t.Args[1], w)
	case "and":
		if k, ok := constArg(); ok && k&(w-1) == 0 {
			return true
		}
		return wIsMultipleOf(t.Args[0], w) || wIsMultipleOf(t.Args[1], w)
	case "shl":
		if t.Args[1].Op == "const" && t.Args[1].K >= 0 && t.Args[1].K < 63 && (int64(1)<<uint(t.Args[1].K))%w == 0 {
			return true
		}
		return wIsMultipleOf(t.Args[0], w)
	case "add", "sub":
		return wIsMultipleOf(t.Args[0], w) && wIsMultipleOf(t.Args[1], w)
	}
	return false
}

// C11 rules alloc-failure-not-used and alloc-size-no-wrap (added after probing with a small memory and with huge
// lengths: $runtime.HeapAlloc did not look at what the allocator answered and zero-filled [0, nbytes) when it was 0 —
// string constants and globals read back as zero and the program went on; $runtime.Block.HeapAlloc computed
// item_count*item_size+16 with a 32-bit multiplication, so make([]i64, 1<<29+2) got a 32-byte block, reported its
// length as 536870914, and in-range writes landed in another live slice).
//
//   alloc-failure-not-used — on every path of $runtime.HeapAlloc on which a store's address is built from the result
//       of the malloc call, that result has been tested (eqz or as an `if` condition) and the zero arm does not store.
//   alloc-size-no-wrap — every path of $runtime.Block.HeapAlloc that reaches the call of $runtime.HeapAlloc with
//       mul(item_count, item_size) + header as its argument carries a condition on the 64-bit product of the two
//       (extend_i32_u of both) that bounds it below 2^32.

func c11AllocFailure(m *watModule, ha *watFunc) (bool, string, int) {
	ps, err := watPaths(m, ha)
	if err != nil {
		return false, "path summary failed: " + err.Error(), 0
	}
	n := 0
	mentionsMalloc := func(t *wterm) bool {
		found := false
		var walk func(*wterm)
		walk = func(x *wterm) {
			if x == nil {
				return
			}
			if x.Op == "call" && strings.HasSuffix(x.Name, "malloc") {
				found = true
			}
			for _, a := range x.Args {
				walk(a)
			}
		}
		walk(t)
		return found
	}
	for i, p := range ps {
		stores := 0
		for _, e := range p.Events {
			if e.Kind == "store" && len(e.Args) > 0 && mentionsMalloc(e.Args[0]) {
				stores++
			}
		}
		if stores == 0 {
			continue
		}
		n++
		tested := false
		for _, cd := range p.Conds {
			t := cd.T
			switch {
			case t.Op == "call" && strings.HasSuffix(t.Name, "malloc") && cd.Taken:
				tested = true // `if ptr { … }`
			case t.Op == "op" && t.Name == "eqz" && len(t.Args) == 1 && t.Args[0].Op == "call" && strings.HasSuffix(t.Args[0].Name, "malloc") && !cd.Taken:
				tested = true
			case t.Op == "op" && (t.Name == "ne" || t.Name == "eq") && len(t.Args) == 2 && mentionsMalloc(t) && (wIsConst(t.Args[0], 0) || wIsConst(t.Args[1], 0)) && cd.Taken == (t.Name == "ne"):
				tested = true
			}
		}
		if !tested {
			return false, fmt.Sprintf("path %d (ends line %d) stores through the pointer the allocator answered without having tested it: when the allocator fails (0) the zero-fill loop clears [0, nbytes) — the program's constants and globals — and the program continues with a nil block", i, p.Line), n
		}
	}
	return true, "", n
}

func c11AllocSizeNoWrap(m *watModule, bh *watFunc) (bool, string, int) {
	ps, err := watPaths(m, bh)
	if err != nil {
		return false, "path summary failed: " + err.Error(), 0
	}
	n := 0
	var hasMul func(t *wterm, wide bool) bool
	hasMul = func(t *wterm, wide bool) bool {
		if t == nil {
			return false
		}
		if t.Op == "op" && t.Name == "mul" && len(t.Args) == 2 {
			isWide := func(x *wterm) bool { return x.Op == "op" && strings.HasPrefix(x.Name, "extend_i32") }
			if wide == (isWide(t.Args[0]) && isWide(t.Args[1])) {
				return true
			}
		}
		for _, a := range t.Args {
			if hasMul(a, wide) {
				return true
			}
		}
		return false
	}
	for i, p := range ps {
		callsAlloc := false
		for _, e := range p.Events {
			if e.Kind == "call" && strings.HasSuffix(e.Name, "HeapAlloc") && len(e.Args) == 1 && hasMul(e.Args[0], false) {
				callsAlloc = true
			}
		}
		if !callsAlloc {
			continue
		}
		n++
		bounded := false
		for _, cd := range p.Conds {
			t := cd.T
			if t.Op == "op" && len(t.Args) == 2 && hasMul(t.Args[0], true) && t.Args[1].Op == "const" {
				k := uint64(t.Args[1].K)
				switch {
				case (t.Name == "gt_u" || t.Name == "ge_u") && !cd.Taken && k <= 1<<32-17:
					bounded = true
				case (t.Name == "le_u" || t.Name == "lt_u") && cd.Taken && k <= 1<<32-16:
					bounded = true
				}
			}
		}
		if !bounded {
			return false, fmt.Sprintf("path %d (ends line %d) asks for item_count*item_size+16 bytes computed in 32 bits without a test of the 64-bit product: a product of 2^32 or more wraps, the block is smaller than the slice that describes it, and in-range writes land in other live blocks", i, p.Line), n
		}
	}
	return true, "", n
}
