package main

import (
	"go/ast"
	"go/constant"
	"strings"

	"golang.org/x/tools/go/packages"
)

// C29 extra rule (added after a seeded change was missed): the guest's exit status travels as a *sys.ExitError
// through the error results of internal/wazero. wazero.AsExitError recognises it with a plain type assertion, so
// the value must arrive unwrapped: either AsExitError unwraps (errors.As), or no function of the package wraps the
// errors it returns (fmt.Errorf with %w, or any fmt.Errorf that takes the run error as an argument).

func c29ExitErrorIdentity(c *Ctx, p *Prog, wz *packages.Package) {
	const rule = "exit-error-identity"
	info := wz.TypesInfo
	as := p.MustFunc(rule, wz, "AsExitError")
	if as == nil {
		return
	}
	unwraps := false
	ast.Inspect(as.Body, func(n ast.Node) bool {
		if call, ok := n.(*ast.CallExpr); ok {
			if fn := CalleeOf(info, call); fn != nil && (FuncFullName(fn) == "errors.As" || FuncFullName(fn) == "errors.Unwrap") {
				unwraps = true
			}
		}
		return true
	})
	if unwraps {
		c.OK(rule, "internal/wazero: exit errors reach AsExitError recognisably", p.Pos(as.Pos()), "AsExitError unwraps with errors.As")
		return
	}
	// no wrapping producer
	var wraps []string
	n := 0
	for _, f := range wz.Syntax {
		for _, d := range f.Decls {
			fd, ok := d.(*ast.FuncDecl)
			if !ok || fd.Body == nil {
				continue
			}
			// only functions that return an error
			hasErr := false
			if fd.Type.Results != nil {
				for _, r := range fd.Type.Results.List {
					if t := info.TypeOf(r.Type); t != nil && isErrorType(t) {
						hasErr = true
					}
				}
			}
			if !hasErr {
				continue
			}
			n++
			ast.Inspect(fd.Body, func(nd ast.Node) bool {
				call, ok := nd.(*ast.CallExpr)
				if !ok {
					return true
				}
				fn := CalleeOf(info, call)
				if fn == nil || FuncFullName(fn) != "fmt.Errorf" || len(call.Args) < 2 {
					return true
				}
				wrapsErr := false
				if tv, ok := info.Types[call.Args[0]]; ok && tv.Value != nil && tv.Value.Kind() == constant.String && strings.Contains(constant.StringVal(tv.Value), "%w") {
					wrapsErr = true
				}
				for _, a := range call.Args[1:] {
					if t := info.TypeOf(a); t != nil && isErrorType(t) {
						wrapsErr = true
					}
				}
				if wrapsErr {
					wraps = append(wraps, declName(fd)+" ("+p.Pos(call.Pos())+")")
				}
				return true
			})
		}
	}
	c.Check(len(wraps) == 0, rule, "internal/wazero: exit errors reach AsExitError recognisably", p.Pos(as.Pos()), "no error-returning function of the package wraps an error",
		"AsExitError recognises the guest's exit status by a plain type assertion to *sys.ExitError, but "+strings.Join(wraps, ", ")+" wrap(s) the error before returning it: the wrapped exit error is not recognised and `wa run` exits 1 instead of the status the program asked for")
	c.Min(rule, "error-returning functions in internal/wazero", n, 3)
}
