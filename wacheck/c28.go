package main

import (
	"fmt"
	"go/token"
	"go/types"
	"sort"
	"strings"

	"golang.org/x/tools/go/callgraph"
	"golang.org/x/tools/go/ssa"
)

func init() {
	register(&Property{ID: "C28", Run: runC28, Mutants: []Mutant{
		{Name: "LEB128 encoders share one package-level scratch buffer", File: "internal/wasm/leb128/encode.go", Old: "func EncodeUint32(v uint32) []byte {\n\tdst := make([]byte, 10)\n\tn := encodeUint64(uint64(v), dst)\n\treturn dst[:n]\n}", New: "var scratch [10]byte\n\nfunc EncodeUint32(v uint32) []byte {\n\tn := encodeUint64(uint64(v), scratch[:])\n\treturn append([]byte(nil), scratch[:n]...)\n}", Expect: "shared-state-write :: internal/wasm/leb128.scratch"},
		{Name: "module output buffers go back to a pool while callers still hold their bytes", File: "internal/wazero/module.go", Old: "\t\"strings\"\n\n\t\"wa-lang.org/wa/internal/3rdparty/wazero\"", New: "\t\"strings\"\n\t\"sync\"\n\n\t\"wa-lang.org/wa/internal/3rdparty/wazero\"", Old2: "func (p *Module) Close() error {\n\tvar err error\n", New2: "var outputBufferPool sync.Pool\n\nfunc (p *Module) Close() error {\n\tvar err error\n\toutputBufferPool.Put(&p.stdoutBuffer)\n", Expect: "pooled-buffer-escape"},
		{Name: "a request's sizes written into the shared per-arch table entry", File: "internal/loader/loader.go", Old: "\t} else {\n\t\treturn &types.StdSizes{\n\t\t\tWordSize: p.cfg.WaSizes.WordSize,\n\t\t\tMaxAlign: p.cfg.WaSizes.MaxAlign,\n\t\t}\n\t}", New: "\t}\n\tsizes, _ := types.SizesFor(p.GetTargetArch()).(*types.StdSizes)\n\tsizes.WordSize = p.cfg.WaSizes.WordSize\n\tsizes.MaxAlign = p.cfg.WaSizes.MaxAlign\n\treturn sizes", Expect: "shared-state-write :: internal/types.gcArchSizes"},
		{Name: "compile lock released before the module is rendered (not deferred)", File: "internal/backends/compiler_wat/compile.go", Old: "\tcompileMu.Lock()\n\tdefer compileMu.Unlock()\n", New: "\tcompileMu.Lock()\n", Expect: "shared-state-write"},
		{Name: "compile lock taken only after the process-level current module was set", File: "internal/backends/compiler_wat/compile.go", Old: "\tcompileMu.Lock()\n\tdefer compileMu.Unlock()\n", New: "", Old2: "\twir.SetCurrentModule(p.module)\n", New2: "\twir.SetCurrentModule(p.module)\n\tcompileMu.Lock()\n\tdefer compileMu.Unlock()\n", Expect: "shared-state-write :: internal/backends/compiler_wat/wir.currentModule"},
		{Name: "compile lock removed", File: "internal/backends/compiler_wat/compile.go", Old: "\tcompileMu.Lock()\n\tdefer compileMu.Unlock()\n", New: "", Expect: "shared-state-write :: internal/backends/compiler_wat/wir.currentModule"},
		{Name: "package scopes appended to the universe again", File: "internal/types/scope.go", Old: "if parent != nil && parent != WaUniverse && parent != WzUniverse {", New: "if parent != nil && (parent != WaUniverse || parent != WzUniverse) {", Expect: "shared-state-write :: internal/types.WaUniverse written by internal/types.NewPackage"},
		{Name: "formatter remembers the last file in a package variable", File: "internal/format/format.go", Old: "func File(vfs fs.FS, filename string, src interface{}) (text []byte, changed bool, err error) {", New: "var lastFile string\n\nfunc File(vfs fs.FS, filename string, src interface{}) (text []byte, changed bool, err error) {\n\tlastFile = filename", Expect: "shared-state-write :: internal/format.lastFile"},
		{Name: "new package-level map cache in the loader", File: "internal/loader/loader.go", Old: "func (p *_Loader) buildSSA(pkgpath string) error {", New: "var builtPkgs = map[string]bool{}\n\nfunc (p *_Loader) buildSSA(pkgpath string) error {\n\tbuiltPkgs[pkgpath] = true", Expect: "shared-state-write"},
	}})
}

// globalRoot: the package-level variable an address or value is derived from (through field/index/load chains).
func globalRoot(v ssa.Value, depth int) *ssa.Global {
	for i := 0; i < depth; i++ {
		switch x := v.(type) {
		case *ssa.Global:
			return x
		case *ssa.FieldAddr:
			v = x.X
		case *ssa.IndexAddr:
			v = x.X
		case *ssa.Field:
			v = x.X
		case *ssa.Index:
			v = x.X
		case *ssa.UnOp:
			if x.Op != token.MUL {
				return nil
			}
			v = x.X
		case *ssa.Slice:
			v = x.X
		case *ssa.ChangeType:
			v = x.X
		case *ssa.Convert:
			v = x.X
		case *ssa.Lookup:
			v = x.X
		case *ssa.TypeAssert:
			v = x.X
		case *ssa.MakeInterface:
			v = x.X
		case *ssa.Extract:
			v = x.Tuple
		case *ssa.Call:
			// a static callee all of whose returns hand out (a pointer derived from) one package variable
			callee := x.Call.StaticCallee()
			if callee == nil {
				return nil
			}
			return returnsGlobal(callee, 8)
		case *ssa.Phi:
			// any incoming value derived from a package variable
			if depth > 2 {
				for _, e := range x.Edges {
					if g := globalRoot(e, depth-2); g != nil {
						return g
					}
				}
			}
			return nil
		default:
			return nil
		}
	}
	return nil
}

var returnsGlobalMemo = map[*ssa.Function]*ssa.Global{}
var returnsGlobalBusy = map[*ssa.Function]bool{}

// returnsGlobal: does fn return, on some path, a reference into a package-level variable (e.g. a pointer stored in a
// package-level table)? A caller that writes through the result writes shared state.
func returnsGlobal(fn *ssa.Function, depth int) *ssa.Global {
	if g, ok := returnsGlobalMemo[fn]; ok {
		return g
	}
	if returnsGlobalBusy[fn] || fn.Blocks == nil {
		return nil
	}
	returnsGlobalBusy[fn] = true
	defer delete(returnsGlobalBusy, fn)
	var found *ssa.Global
	for _, b := range fn.Blocks {
		for _, ins := range b.Instrs {
			ret, ok := ins.(*ssa.Return)
			if !ok {
				continue
			}
			for _, r := range ret.Results {
				// only reference-like results can alias shared storage
				switch r.Type().Underlying().(type) {
				case *types.Pointer, *types.Map, *types.Slice, *types.Interface:
				default:
					continue
				}
				if g := globalRoot(r, depth); g != nil && found == nil {
					found = g
				}
			}
		}
	}
	returnsGlobalMemo[fn] = found
	return found
}

type globalWrite struct {
	g    *ssa.Global
	fn   *ssa.Function
	kind string
	pos  token.Pos
}

func runC28(c *Ctx) {
	c.Explain = "Decides the shared-mutable-state clause of concurrent API use: for every repository function reachable (VTA call graph) from the exported functions of package api, every store to package-level state (a package variable itself, memory reached from it through field/index/load chains, or a map held in it) is enumerated; " +
		"call edges made while a package-level sync.Mutex is held (Lock at function entry, Unlock deferred) are not followed, so state written only under such a lock is not reported. " +
		"Each (variable, writer) pair must be in the frozen table of benign cases (one reason per row) or it is a violation. package init functions and sync.Once bodies are excluded. " +
		"NOT decided: races inside the vendored wazero engine, sharing through heap objects that are passed between calls by design, logical interference through the file system, and writes the store analysis cannot see (reflection, unsafe, stores through pointers returned by calls)."
	c.Trusted = []string{"go/packages, go/types, go/ssa, callgraph/vta (x/tools v0.29.0)", "frozen table of benign shared-state writes (c28_table.go)"}
	p := c.Load(LoadOpt{}, "./api")
	const rW = "shared-state-write"
	api := p.MustPkg(rW, "api")
	if api == nil {
		return
	}
	c28PooledBuffers(c, p, p.Pkg("internal/wazero"), p.Pkg("internal/app/appplay"), p.Pkg("api"), p.Pkg("internal/loader"), p.Pkg("internal/backends/compiler_wat"))
	p.BuildSSA()
	var roots []*ssa.Function
	sc := api.Types.Scope()
	for _, n := range sc.Names() {
		if f, ok := sc.Lookup(n).(*types.Func); ok && f.Exported() {
			if fn := p.SSA.FuncValue(f); fn != nil {
				roots = append(roots, fn)
			}
		}
	}
	c.Min(rW, "exported api functions", len(roots), 8)

	// functions that hold a package-level mutex for their whole body: Lock() on a global mutex in the entry block,
	// Unlock deferred. Their outgoing edges are "protected".
	holdsLock := func(fn *ssa.Function) *ssa.Global {
		if len(fn.Blocks) == 0 {
			return nil
		}
		var locked *ssa.Global
		deferred := false
		for _, ins := range fn.Blocks[0].Instrs {
			switch x := ins.(type) {
			case *ssa.Call:
				if n := calleeName(&x.Call); n == "sync.Mutex.Lock" || n == "sync.RWMutex.Lock" {
					if len(x.Call.Args) > 0 {
						if g := globalRoot(x.Call.Args[0], 4); g != nil {
							locked = g
						}
					}
				}
			case *ssa.Defer:
				if n := calleeName(&x.Call); n == "sync.Mutex.Unlock" || n == "sync.RWMutex.Unlock" {
					if len(x.Call.Args) > 0 && globalRoot(x.Call.Args[0], 4) == locked && locked != nil {
						deferred = true
					}
				}
			}
		}
		if deferred {
			return locked
		}
		return nil
	}
	lockHolders := map[*ssa.Function]*ssa.Global{}
	skip := func(e *callgraph.Edge) bool {
		callee := e.Callee.Func
		if callee.Pkg != nil {
			path := callee.Pkg.Pkg.Path()
			if !strings.HasPrefix(path, modPath) || strings.Contains(path, "/3rdparty/wazero") {
				return true
			}
		}
		caller := e.Caller.Func
		g, seen := lockHolders[caller]
		if !seen {
			g = holdsLock(caller)
			lockHolders[caller] = g
		}
		if g == nil {
			return false
		}
		// the lock is taken in the entry block: calls made before it are not protected
		if e.Site != nil && len(caller.Blocks) > 0 && e.Site.Block() == caller.Blocks[0] {
			lockAt, siteAt := -1, -1
			for i, ins := range caller.Blocks[0].Instrs {
				if call, ok := ins.(*ssa.Call); ok && lockAt < 0 {
					if n := calleeName(&call.Call); n == "sync.Mutex.Lock" || n == "sync.RWMutex.Lock" {
						lockAt = i
					}
				}
				if ins == ssa.Instruction(e.Site) {
					siteAt = i
				}
			}
			if siteAt >= 0 && lockAt >= 0 && siteAt < lockAt {
				return false
			}
		}
		return true // edges out of a lock-holding function, made after the Lock, are protected
	}
	pred, order := p.Reachable(roots, skip)
	c.Count("functions_reachable_without_a_held_lock", len(order))
	c.Min(rW, "reachable repository functions", len(order), 1500)
	for fn, g := range lockHolders {
		if g != nil {
			c.Note("%s holds package-level mutex %s for its whole body: calls made from it are not followed", short(fn.String()), short(g.String()))
		}
	}

	var writes []globalWrite
	pw := newParamWrites()
	for _, f := range order {
		if f.Pkg == nil || !strings.HasPrefix(f.Pkg.Pkg.Path(), modPath) {
			continue
		}
		if f.Name() == "init" || strings.HasPrefix(f.Name(), "init#") {
			continue
		}
		if lockHolders[f] != nil {
			// the function itself runs under its lock after the first instruction
			continue
		}
		for _, b := range f.Blocks {
			for _, ins := range b.Instrs {
				switch x := ins.(type) {
				case *ssa.Store:
					if g := globalRoot(x.Addr, 8); g != nil {
						kind := "store to " + short(g.String())
						if _, direct := x.Addr.(*ssa.Global); !direct {
							kind = "store into memory reached from " + short(g.String())
						}
						writes = append(writes, globalWrite{g, f, kind, x.Pos()})
					}
				case *ssa.MapUpdate:
					if g := globalRoot(x.Map, 8); g != nil {
						writes = append(writes, globalWrite{g, f, "update of the map held in " + short(g.String()), x.Pos()})
					}
				case *ssa.Call:
					if bi, ok := x.Call.Value.(*ssa.Builtin); ok && (bi.Name() == "delete" || bi.Name() == "copy") && len(x.Call.Args) > 0 {
						if g := globalRoot(x.Call.Args[0], 8); g != nil {
							writes = append(writes, globalWrite{g, f, bi.Name() + " on " + short(g.String()), x.Pos()})
						}
						continue
					}
					// an argument (or receiver) derived from a package variable, passed to a callee that writes through it
					if callee := x.Call.StaticCallee(); callee != nil {
						if callee.Pkg != nil && !strings.HasPrefix(callee.Pkg.Pkg.Path(), modPath) {
							continue
						}
						for i, info := range pw.of(callee, 4) {
							if i < len(x.Call.Args) {
								if g := globalRoot(x.Call.Args[i], 8); g != nil {
									// the callee writes through this parameter only under `param != g`, and the argument is g's own value
									if ld, ok := x.Call.Args[i].(*ssa.UnOp); ok && ld.X == ssa.Value(g) && info.excluded[g] {
										continue
									}
									writes = append(writes, globalWrite{g, f, "call to " + short(callee.String()) + ", which writes through its argument derived from " + short(g.String()), x.Pos()})
								}
							}
						}
					}
				}
			}
		}
	}
	// one obligation per (global, writer)
	seen := map[string]bool{}
	sort.Slice(writes, func(i, j int) bool {
		if writes[i].g.String() != writes[j].g.String() {
			return writes[i].g.String() < writes[j].g.String()
		}
		return writes[i].fn.String() < writes[j].fn.String()
	})
	n := 0
	for _, w := range writes {
		fname := short(w.fn.String())
		if w.fn.Parent() != nil {
			fname = short(w.fn.Parent().String()) + "$closure"
		}
		key := short(w.g.String()) + " written by " + fname
		if seen[key] {
			continue
		}
		seen[key] = true
		n++
		loc := p.Pos(w.pos)
		if why, ok := c28Benign[key]; ok {
			c.OK(rW, key, loc, "benign: "+why)
			continue
		}
		if why, ok := c28BenignGlobals[short(w.g.String())]; ok {
			c.OK(rW, key, loc, "benign (variable): "+why)
			continue
		}
		c.Fail(rW, key, loc, fmt.Sprintf("%s on a call path from the api package that holds no package-level lock: concurrent API calls race on it; path: %s", w.kind, short(CallPath(pred, w.fn))))
	}
	c.Count("shared_state_writer_pairs", n)
	c.OK(rW, "scan of reachable functions", "", fmt.Sprintf("%d functions scanned for stores rooted at package-level variables; %d (variable, writer) pairs found", len(order), n))
}
