package main

import (
	"fmt"
	"math"
	"math/bits"
	"regexp"
	"strconv"
	"strings"
)

// c03_csim.go — rule c-template-semantics (C03). The C statement a numeric arm of wat2c writes (`R2.i32 =
// (int32_t)((uint32_t)R0.i32 + (uint32_t)R1.i32);`) is parsed and evaluated with ISO C's typing rules — integer
// promotions, the usual arithmetic conversions, wrap-around for unsigned and *undefined behaviour* for signed overflow,
// for a shift count outside the width, for a left shift of a negative value, for a division by zero or MIN / -1, and
// for a float-to-integer conversion out of range — for the same grid of boundary operands the x64 rule uses. Macros of
// the prelude (_math_x.c) are expanded from their definitions; libm functions and the gcc builtins the prelude uses
// have their documented meaning. The value stored into the result register must be WebAssembly's (wasmnum.go), and no
// operand tuple that WebAssembly defines may run into undefined behaviour: that is exactly what an optimising compiler
// is allowed to miscompile (found by probing at -O2: `x + 1 > x` folded to true). Nothing is compiled or run.

type cType int

const (
	cI32 cType = iota
	cU32
	cI64
	cU64
	cF32
	cF64
	cI8
	cU8
	cI16
	cU16
)

var cTypeNames = map[string]cType{"int32_t": cI32, "uint32_t": cU32, "int64_t": cI64, "uint64_t": cU64, "float": cF32, "double": cF64,
	"int8_t": cI8, "uint8_t": cU8, "int16_t": cI16, "uint16_t": cU16, "int": cI32, "unsigned": cU32, "size_t": cU64}

func (t cType) isFloat() bool  { return t == cF32 || t == cF64 }
func (t cType) signed() bool   { return t == cI32 || t == cI64 || t == cI8 || t == cI16 }
func (t cType) width() int     { return map[cType]int{cI32: 32, cU32: 32, cI64: 64, cU64: 64, cF32: 32, cF64: 64, cI8: 8, cU8: 8, cI16: 16, cU16: 16}[t] }
func (t cType) String() string {
	return map[cType]string{cI32: "int32_t", cU32: "uint32_t", cI64: "int64_t", cU64: "uint64_t", cF32: "float", cF64: "double", cI8: "int8_t", cU8: "uint8_t", cI16: "int16_t", cU16: "uint16_t"}[t]
}

type cVal struct {
	t cType
	i uint64  // integers: the value's two's-complement bits, truncated to the width
	f float64 // floats (a float holds a value representable in binary32)
}

type cUB struct{ why string }

func (e cUB) Error() string { return e.why }

func (v cVal) sint() int64 {
	w := v.t.width()
	if w == 64 {
		return int64(v.i)
	}
	x := v.i & maskBits(w)
	if x>>(uint(w)-1)&1 == 1 {
		x |= ^maskBits(w)
	}
	return int64(x)
}

func cMk(t cType, bitsv uint64) cVal { return cVal{t: t, i: bitsv & maskBits(t.width())} }
func cMkF(t cType, f float64) cVal {
	if t == cF32 {
		f = float64(float32(f))
	}
	return cVal{t: t, f: f}
}

// cConvert: C's conversion of v to type t (cast or assignment).
func cConvert(v cVal, t cType) (cVal, error) {
	switch {
	case t.isFloat() && v.t.isFloat():
		return cMkF(t, v.f), nil
	case t.isFloat():
		var f float64
		if v.t.signed() {
			if t == cF32 {
				f = float64(float32(v.sint()))
			} else {
				f = float64(v.sint())
			}
		} else {
			if t == cF32 {
				f = float64(float32(v.i))
			} else {
				f = float64(v.i)
			}
		}
		return cMkF(t, f), nil
	case v.t.isFloat():
		tr := math.Trunc(v.f)
		w := t.width()
		if math.IsNaN(v.f) {
			return cVal{}, cUB{fmt.Sprintf("conversion of NaN to %v is undefined", t)}
		}
		if t.signed() {
			lim := math.Ldexp(1, w-1)
			if tr < -lim || tr >= lim {
				return cVal{}, cUB{fmt.Sprintf("conversion of %v to %v is out of range: undefined", v.f, t)}
			}
			return cMk(t, uint64(int64(tr))), nil
		}
		if tr <= -1 || tr >= math.Ldexp(1, w) {
			return cVal{}, cUB{fmt.Sprintf("conversion of %v to %v is out of range: undefined", v.f, t)}
		}
		return cMk(t, uint64(tr)), nil
	}
	// integer to integer: modular (implementation-defined for signed targets; every compiler in use wraps)
	if v.t.signed() {
		return cMk(t, uint64(v.sint())), nil
	}
	return cMk(t, v.i), nil
}

func cPromote(v cVal) cVal {
	switch v.t {
	case cI8, cU8, cI16, cU16:
		r, _ := cConvert(v, cI32)
		return r
	}
	return v
}

func cCommon(a, b cVal) (cVal, cVal, cType) {
	a, b = cPromote(a), cPromote(b)
	var t cType
	rank := func(t cType) int { return map[cType]int{cI32: 0, cU32: 1, cI64: 2, cU64: 3}[t] }
	switch {
	case a.t == cF64 || b.t == cF64:
		t = cF64
	case a.t == cF32 || b.t == cF32:
		t = cF32
	case rank(a.t) >= rank(b.t):
		t = a.t
	default:
		t = b.t
	}
	x, _ := cConvert(a, t)
	y, _ := cConvert(b, t)
	return x, y, t
}

// ---- parsing

type cxTok struct {
	k string // id num op eof
	s string
}

func cxLex(src string) ([]cxTok, bool) {
	var out []cxTok
	ops := []string{"<<", ">>", "||", "&&", "==", "!=", "<=", ">=", "<", ">", "?", ":", "(", ")", "+", "-", "!", "~", ",", "*", "/", "%", "&", "|", "^", "=", ";", ".", "[", "]"}
	for i := 0; i < len(src); {
		ch := src[i]
		switch {
		case ch == ' ' || ch == '\t' || ch == '\n' || ch == '\r':
			i++
		case ch == '_' || (ch >= 'a' && ch <= 'z') || (ch >= 'A' && ch <= 'Z'):
			j := i
			for j < len(src) && (src[j] == '_' || (src[j] >= 'a' && src[j] <= 'z') || (src[j] >= 'A' && src[j] <= 'Z') || (src[j] >= '0' && src[j] <= '9')) {
				j++
			}
			out = append(out, cxTok{"id", src[i:j]})
			i = j
		case ch >= '0' && ch <= '9':
			j := i
			for j < len(src) && ((src[j] >= '0' && src[j] <= '9') || (src[j] >= 'a' && src[j] <= 'f') || (src[j] >= 'A' && src[j] <= 'F') || src[j] == 'x' || src[j] == 'X' || src[j] == '.') {
				j++
			}
			k := j
			for k < len(src) && strings.IndexByte("uUlL", src[k]) >= 0 {
				k++
			}
			out = append(out, cxTok{"num", src[i:k]})
			i = k
		default:
			found := false
			for _, op := range ops {
				if strings.HasPrefix(src[i:], op) {
					out = append(out, cxTok{"op", op})
					i += len(op)
					found = true
					break
				}
			}
			if !found {
				return nil, false
			}
		}
	}
	return append(out, cxTok{"eof", ""}), true
}

type cxNode struct {
	op   string // num var slot cast call ?: unary:<op> bin:<op>
	s    string
	t    cType
	v    cVal
	args []*cxNode
}

type cxParser struct {
	t   []cxTok
	i   int
	bad string
}

func (p *cxParser) peek() cxTok { return p.t[p.i] }
func (p *cxParser) eat(s string) bool {
	if p.t[p.i].k == "op" && p.t[p.i].s == s {
		p.i++
		return true
	}
	return false
}
func (p *cxParser) fail(w string) {
	if p.bad == "" {
		p.bad = w
	}
}

var cxPrec = [][]string{{"||"}, {"&&"}, {"|"}, {"^"}, {"&"}, {"==", "!="}, {"<", ">", "<=", ">="}, {"<<", ">>"}, {"+", "-"}, {"*", "/", "%"}}

func (p *cxParser) ternary() *cxNode {
	c := p.binary(0)
	if p.eat("?") {
		a := p.ternary()
		if !p.eat(":") {
			p.fail("`:` expected")
		}
		b := p.ternary()
		return &cxNode{op: "?:", args: []*cxNode{c, a, b}}
	}
	return c
}

func (p *cxParser) binary(level int) *cxNode {
	if level == len(cxPrec) {
		return p.unary()
	}
	l := p.binary(level + 1)
	for {
		matched := false
		for _, op := range cxPrec[level] {
			// `&` must not eat the first half of `&&`
			if p.peek().k == "op" && p.peek().s == op {
				p.i++
				r := p.binary(level + 1)
				l = &cxNode{op: "bin", s: op, args: []*cxNode{l, r}}
				matched = true
				break
			}
		}
		if !matched {
			return l
		}
	}
}

func (p *cxParser) unary() *cxNode {
	for _, u := range []string{"!", "-", "~", "+"} {
		if p.eat(u) {
			return &cxNode{op: "unary", s: u, args: []*cxNode{p.unary()}}
		}
	}
	if p.eat("&") {
		return &cxNode{op: "addr", args: []*cxNode{p.unary()}}
	}
	if p.peek().k == "op" && p.peek().s == "(" {
		// cast?
		if t := p.t[p.i+1]; t.k == "id" {
			if ct, ok := cTypeNames[t.s]; ok && p.t[p.i+2].k == "op" && p.t[p.i+2].s == ")" {
				p.i += 3
				return &cxNode{op: "cast", t: ct, args: []*cxNode{p.unary()}}
			}
		}
		p.i++
		e := p.ternary()
		if !p.eat(")") {
			p.fail("`)` expected")
		}
		return p.postfix(e)
	}
	t := p.peek()
	switch t.k {
	case "num":
		p.i++
		txt := strings.TrimRight(t.s, "uUlL")
		suffix := strings.ToLower(t.s[len(txt):])
		if strings.Contains(txt, ".") {
			f, err := strconv.ParseFloat(txt, 64)
			if err != nil {
				p.fail("number " + t.s)
			}
			return &cxNode{op: "num", v: cMkF(cF64, f)}
		}
		u, err := strconv.ParseUint(txt, 0, 64)
		if err != nil {
			p.fail("number " + t.s)
		}
		ct := cI32
		switch {
		case strings.Contains(suffix, "u") && (strings.Contains(suffix, "l") || u > math.MaxUint32):
			ct = cU64
		case strings.Contains(suffix, "u"):
			ct = cU32
		case strings.Contains(suffix, "l") || u > math.MaxInt32:
			ct = cI64
		}
		return &cxNode{op: "num", v: cMk(ct, u)}
	case "id":
		p.i++
		if p.eat("(") {
			e := &cxNode{op: "call", s: t.s}
			if !p.eat(")") {
				for {
					e.args = append(e.args, p.ternary())
					if p.eat(")") {
						break
					}
					if !p.eat(",") {
						p.fail("`,` expected")
						break
					}
				}
			}
			return p.postfix(e)
		}
		return p.postfix(&cxNode{op: "var", s: t.s})
	}
	p.fail("unexpected " + t.s)
	p.i++
	return &cxNode{op: "num"}
}

func (p *cxParser) postfix(e *cxNode) *cxNode {
	for {
		switch {
		case p.eat("."):
			f := p.peek()
			if f.k != "id" {
				p.fail("member name expected")
				return e
			}
			p.i++
			e = &cxNode{op: "member", s: f.s, args: []*cxNode{e}}
		case p.eat("["):
			idx := p.ternary()
			if !p.eat("]") {
				p.fail("`]` expected")
			}
			e = &cxNode{op: "index", args: []*cxNode{e, idx}}
		default:
			return e
		}
	}
}

// ---- evaluation

type cEnv struct {
	slots  map[string]uint64 // register name -> 64-bit content
	vars   map[string]cVal   // macro parameters
	macros map[string][2]string
	depth  int
}

var cViews = map[string]cType{"i32": cI32, "u32": cU32, "i64": cI64, "u64": cU64, "f32": cF32, "f64": cF64}

func (env *cEnv) eval(e *cxNode) (cVal, error) {
	switch e.op {
	case "num":
		return e.v, nil
	case "var":
		if v, ok := env.vars[e.s]; ok {
			return v, nil
		}
		return cVal{}, fmt.Errorf("name %s outside the model", e.s)
	case "member":
		base := e.args[0]
		if base.op != "var" {
			return cVal{}, fmt.Errorf("member of a non-register outside the model")
		}
		bitsv, ok := env.slots[base.s]
		t, okv := cViews[e.s]
		if !ok || !okv {
			return cVal{}, fmt.Errorf("register view %s.%s outside the model", base.s, e.s)
		}
		switch t {
		case cF32:
			return cMkF(cF32, float64(math.Float32frombits(uint32(bitsv)))), nil
		case cF64:
			return cMkF(cF64, math.Float64frombits(bitsv)), nil
		}
		return cMk(t, bitsv), nil
	case "cast":
		v, err := env.eval(e.args[0])
		if err != nil {
			return cVal{}, err
		}
		return cConvert(v, e.t)
	case "?:":
		c, err := env.eval(e.args[0])
		if err != nil {
			return cVal{}, err
		}
		truth := (c.t.isFloat() && c.f != 0) || (!c.t.isFloat() && c.i != 0)
		// the result has the common type of both branches; only the chosen one is evaluated
		pick := e.args[2]
		if truth {
			pick = e.args[1]
		}
		v, err := env.eval(pick)
		if err != nil {
			return cVal{}, err
		}
		other := e.args[1]
		if truth {
			other = e.args[2]
		}
		if ot, ok := env.typeOf(other); ok {
			_, _, ct := cCommon(v, cVal{t: ot})
			return cConvert(v, ct)
		}
		return v, nil
	case "unary":
		v, err := env.eval(e.args[0])
		if err != nil {
			return cVal{}, err
		}
		switch e.s {
		case "!":
			if v.t.isFloat() {
				return cMk(cI32, b2u64(v.f == 0)), nil
			}
			return cMk(cI32, b2u64(v.i == 0)), nil
		case "+":
			return cPromote(v), nil
		case "-":
			v = cPromote(v)
			if v.t.isFloat() {
				return cVal{t: v.t, f: -v.f}, nil
			}
			if v.t.signed() && v.sint() == minInt(v.t.width()) {
				return cVal{}, cUB{"negation of the most negative " + v.t.String() + " overflows: undefined"}
			}
			return cMk(v.t, -v.i), nil
		case "~":
			v = cPromote(v)
			if v.t.isFloat() {
				return cVal{}, fmt.Errorf("~ on a float")
			}
			return cMk(v.t, ^v.i), nil
		}
	case "bin":
		if e.s == "&&" || e.s == "||" {
			a, err := env.eval(e.args[0])
			if err != nil {
				return cVal{}, err
			}
			ta := (a.t.isFloat() && a.f != 0) || (!a.t.isFloat() && a.i != 0)
			if e.s == "&&" && !ta {
				return cMk(cI32, 0), nil
			}
			if e.s == "||" && ta {
				return cMk(cI32, 1), nil
			}
			b, err := env.eval(e.args[1])
			if err != nil {
				return cVal{}, err
			}
			return cMk(cI32, b2u64((b.t.isFloat() && b.f != 0) || (!b.t.isFloat() && b.i != 0))), nil
		}
		a, err := env.eval(e.args[0])
		if err != nil {
			return cVal{}, err
		}
		b, err := env.eval(e.args[1])
		if err != nil {
			return cVal{}, err
		}
		if e.s == "<<" || e.s == ">>" {
			a, b = cPromote(a), cPromote(b)
			if a.t.isFloat() || b.t.isFloat() {
				return cVal{}, fmt.Errorf("shift of a float")
			}
			w := a.t.width()
			if (b.t.signed() && b.sint() < 0) || (!b.t.signed() && b.i >= uint64(w)) || (b.t.signed() && b.sint() >= int64(w)) {
				return cVal{}, cUB{fmt.Sprintf("shift count %d is not in [0, %d): undefined", b.sint(), w)}
			}
			n := uint(b.i)
			if e.s == "<<" {
				if a.t.signed() {
					if a.sint() < 0 {
						return cVal{}, cUB{"left shift of a negative " + a.t.String() + ": undefined"}
					}
					if n > 0 && a.i>>(uint(w)-1-n) != 0 {
						return cVal{}, cUB{"left shift of a signed " + a.t.String() + " overflows: undefined"}
					}
				}
				return cMk(a.t, a.i<<n), nil
			}
			if a.t.signed() {
				return cMk(a.t, uint64(a.sint()>>n)), nil
			}
			return cMk(a.t, a.i>>n), nil
		}
		x, y, t := cCommon(a, b)
		switch e.s {
		case "==", "!=", "<", ">", "<=", ">=":
			var r bool
			switch {
			case t.isFloat():
				r = cmpF(e.s, x.f, y.f)
			case t.signed():
				r = cmpI(e.s, x.sint(), y.sint())
			default:
				r = cmpU(e.s, x.i, y.i)
			}
			return cMk(cI32, b2u64(r)), nil
		}
		if t.isFloat() {
			var r float64
			switch e.s {
			case "+":
				r = x.f + y.f
			case "-":
				r = x.f - y.f
			case "*":
				if t == cF32 {
					r = float64(float32(x.f) * float32(y.f))
				} else {
					r = x.f * y.f
				}
			case "/":
				if t == cF32 {
					r = float64(float32(x.f) / float32(y.f))
				} else {
					r = x.f / y.f
				}
			default:
				return cVal{}, fmt.Errorf("operator %s on floats", e.s)
			}
			return cMkF(t, r), nil
		}
		w := t.width()
		switch e.s {
		case "&":
			return cMk(t, x.i&y.i), nil
		case "|":
			return cMk(t, x.i|y.i), nil
		case "^":
			return cMk(t, x.i^y.i), nil
		case "/", "%":
			if y.i == 0 {
				return cVal{}, cUB{"division by zero: undefined"}
			}
			if t.signed() {
				if x.sint() == minInt(w) && y.sint() == -1 {
					return cVal{}, cUB{"the most negative " + t.String() + " divided by -1 overflows: undefined"}
				}
				if e.s == "/" {
					return cMk(t, uint64(x.sint()/y.sint())), nil
				}
				return cMk(t, uint64(x.sint()%y.sint())), nil
			}
			if e.s == "/" {
				return cMk(t, x.i/y.i), nil
			}
			return cMk(t, x.i%y.i), nil
		case "+", "-", "*":
			if !t.signed() {
				switch e.s {
				case "+":
					return cMk(t, x.i+y.i), nil
				case "-":
					return cMk(t, x.i-y.i), nil
				}
				return cMk(t, x.i*y.i), nil
			}
			sx, sy := x.sint(), y.sint()
			var r int64
			over := false
			switch e.s {
			case "+":
				r = sx + sy
				over = (sy > 0 && r < sx) || (sy < 0 && r > sx)
			case "-":
				r = sx - sy
				over = (sy < 0 && r < sx) || (sy > 0 && r > sx)
			case "*":
				hi, lo := bits.Mul64(uint64(absI(sx)), uint64(absI(sy)))
				r = sx * sy
				over = hi != 0 || (lo > uint64(math.MaxInt64) && !(lo == 1<<63 && (sx < 0) != (sy < 0)))
			}
			if w == 32 && !over {
				over = r > math.MaxInt32 || r < math.MinInt32
			}
			if over {
				return cVal{}, cUB{fmt.Sprintf("signed overflow in %d %s %d (%v): undefined", sx, e.s, sy, t)}
			}
			return cMk(t, uint64(r)), nil
		}
	case "call":
		return env.call(e)
	}
	return cVal{}, fmt.Errorf("construct %s %s outside the model", e.op, e.s)
}

func absI(v int64) int64 {
	if v < 0 {
		return -v
	}
	return v
}
func minInt(w int) int64 {
	if w == 32 {
		return math.MinInt32
	}
	return math.MinInt64
}
func b2u64(b bool) uint64 {
	if b {
		return 1
	}
	return 0
}
func cmpF(op string, a, b float64) bool {
	switch op {
	case "==":
		return a == b
	case "!=":
		return a != b
	case "<":
		return a < b
	case ">":
		return a > b
	case "<=":
		return a <= b
	}
	return a >= b
}
func cmpI(op string, a, b int64) bool {
	switch op {
	case "==":
		return a == b
	case "!=":
		return a != b
	case "<":
		return a < b
	case ">":
		return a > b
	case "<=":
		return a <= b
	}
	return a >= b
}
func cmpU(op string, a, b uint64) bool {
	switch op {
	case "==":
		return a == b
	case "!=":
		return a != b
	case "<":
		return a < b
	case ">":
		return a > b
	case "<=":
		return a <= b
	}
	return a >= b
}

// typeOf: the static type of an expression as far as the evaluator needs it (for the unevaluated branch of ?:).
func (env *cEnv) typeOf(e *cxNode) (cType, bool) {
	switch e.op {
	case "num":
		return e.v.t, true
	case "cast":
		return e.t, true
	case "member":
		t, ok := cViews[e.s]
		return t, ok
	case "var":
		v, ok := env.vars[e.s]
		return v.t, ok
	case "?:":
		a, ok1 := env.typeOf(e.args[1])
		b, ok2 := env.typeOf(e.args[2])
		if ok1 && ok2 {
			_, _, t := cCommon(cVal{t: a}, cVal{t: b})
			return t, true
		}
	case "unary":
		if e.s == "!" {
			return cI32, true
		}
		t, ok := env.typeOf(e.args[0])
		return cPromote(cVal{t: t}).t, ok
	case "bin":
		switch e.s {
		case "==", "!=", "<", ">", "<=", ">=", "&&", "||":
			return cI32, true
		case "<<", ">>":
			t, ok := env.typeOf(e.args[0])
			return cPromote(cVal{t: t}).t, ok
		}
		a, ok1 := env.typeOf(e.args[0])
		b, ok2 := env.typeOf(e.args[1])
		if ok1 && ok2 {
			_, _, t := cCommon(cVal{t: a}, cVal{t: b})
			return t, true
		}
	}
	return 0, false
}

func (env *cEnv) call(e *cxNode) (cVal, error) {
	// a macro of the prelude: its body with the parameters bound to the argument values
	if m, ok := env.macros[e.s]; ok && env.depth < 6 {
		params := strings.Split(strings.ReplaceAll(m[0], " ", ""), ",")
		if len(params) != len(e.args) {
			return cVal{}, fmt.Errorf("macro %s called with %d arguments", e.s, len(e.args))
		}
		toks, ok := cxLex(m[1])
		if !ok {
			return cVal{}, fmt.Errorf("macro %s: body outside the model", e.s)
		}
		ps := &cxParser{t: toks}
		body := ps.ternary()
		if ps.bad != "" || ps.peek().k != "eof" {
			return cVal{}, fmt.Errorf("macro %s: body outside the model (%s)", e.s, ps.bad)
		}
		inner := &cEnv{slots: env.slots, vars: map[string]cVal{}, macros: env.macros, depth: env.depth + 1}
		for i, a := range e.args {
			// macro parameters that are not values (the mask of ROTL) are numbers: evaluate all
			v, err := env.eval(a)
			if err != nil {
				return cVal{}, err
			}
			inner.vars[params[i]] = v
		}
		return inner.eval(body)
	}
	var a []cVal
	for _, x := range e.args {
		v, err := env.eval(x)
		if err != nil {
			return cVal{}, err
		}
		a = append(a, v)
	}
	f1 := func(t cType, fn func(float64) float64) (cVal, error) {
		if len(a) != 1 {
			return cVal{}, fmt.Errorf("%s: one argument expected", e.s)
		}
		x, _ := cConvert(a[0], t)
		return cMkF(t, fn(x.f)), nil
	}
	switch e.s {
	case "fabsf":
		return f1(cF32, math.Abs)
	case "fabs":
		return f1(cF64, math.Abs)
	case "ceilf":
		return f1(cF32, math.Ceil)
	case "ceil":
		return f1(cF64, math.Ceil)
	case "floorf":
		return f1(cF32, math.Floor)
	case "floor":
		return f1(cF64, math.Floor)
	case "truncf":
		return f1(cF32, math.Trunc)
	case "trunc":
		return f1(cF64, math.Trunc)
	case "rintf", "nearbyintf":
		return f1(cF32, math.RoundToEven) // the default rounding mode
	case "rint", "nearbyint":
		return f1(cF64, math.RoundToEven)
	case "roundf":
		return f1(cF32, math.Round)
	case "round":
		return f1(cF64, math.Round)
	case "sqrtf":
		return f1(cF32, math.Sqrt)
	case "sqrt":
		return f1(cF64, math.Sqrt)
	case "copysignf", "copysign":
		if len(a) != 2 {
			break
		}
		t := cF64
		if e.s == "copysignf" {
			t = cF32
		}
		x, _ := cConvert(a[0], t)
		y, _ := cConvert(a[1], t)
		return cVal{t: t, f: math.Copysign(x.f, y.f)}, nil
	case "fminf", "fmin", "fmaxf", "fmax":
		if len(a) != 2 {
			break
		}
		t := cF64
		if strings.HasSuffix(e.s, "f") {
			t = cF32
		}
		x, _ := cConvert(a[0], t)
		y, _ := cConvert(a[1], t)
		var r float64
		switch {
		case math.IsNaN(x.f):
			r = y.f
		case math.IsNaN(y.f):
			r = x.f
		case strings.HasPrefix(e.s, "fmin"):
			r = x.f
			if y.f < x.f {
				r = y.f
			}
		default:
			r = x.f
			if y.f > x.f {
				r = y.f
			}
		}
		return cVal{t: t, f: r}, nil
	case "signbit":
		if len(a) == 1 && a[0].t.isFloat() {
			return cMk(cI32, b2u64(math.Signbit(a[0].f))), nil
		}
	case "isnan":
		if len(a) == 1 && a[0].t.isFloat() {
			return cMk(cI32, b2u64(math.IsNaN(a[0].f))), nil
		}
	case "__builtin_clz", "__builtin_ctz", "__builtin_popcount":
		if len(a) == 1 && !a[0].t.isFloat() {
			x, _ := cConvert(a[0], cU32)
			if x.i == 0 && e.s != "__builtin_popcount" {
				return cVal{}, cUB{e.s + "(0) is undefined"}
			}
			switch e.s {
			case "__builtin_clz":
				return cMk(cI32, uint64(bits.LeadingZeros32(uint32(x.i)))), nil
			case "__builtin_ctz":
				return cMk(cI32, uint64(bits.TrailingZeros32(uint32(x.i)))), nil
			}
			return cMk(cI32, uint64(bits.OnesCount32(uint32(x.i)))), nil
		}
	case "__builtin_clzll", "__builtin_ctzll", "__builtin_popcountll", "__builtin_clzl", "__builtin_ctzl", "__builtin_popcountl":
		if len(a) == 1 && !a[0].t.isFloat() {
			x, _ := cConvert(a[0], cU64)
			if x.i == 0 && !strings.Contains(e.s, "popcount") {
				return cVal{}, cUB{e.s + "(0) is undefined"}
			}
			switch {
			case strings.Contains(e.s, "clz"):
				return cMk(cI32, uint64(bits.LeadingZeros64(x.i))), nil
			case strings.Contains(e.s, "ctz"):
				return cMk(cI32, uint64(bits.TrailingZeros64(x.i))), nil
			}
			return cMk(cI32, uint64(bits.OnesCount64(x.i))), nil
		}
	}
	return cVal{}, fmt.Errorf("function %s outside the model", e.s)
}

var reCVerb = regexp.MustCompile(`%[-+# 0]*\d*(?:\.\d+)?[a-zA-Z%]`)

// cTemplateStatement: the format with every `R%d` replaced by R_<argument text> (other verbs become their argument
// text too), the trailing comment cut.
func cTemplateStatement(l TemplLine) string {
	f := l.Format
	if i := strings.Index(f, "//"); i >= 0 {
		f = f[:i]
	}
	argi := 0
	out := reCVerb.ReplaceAllStringFunc(f, func(v string) string {
		if v == "%%" {
			return "%"
		}
		a := ""
		if argi < len(l.Args) {
			a = l.Args[argi]
		}
		argi++
		if v == "%s" && (a == "indent" || strings.HasPrefix(a, "indent")) {
			return ""
		}
		return "\x00" + a + "\x00"
	})
	// R\x00name\x00 -> R_name ; anything else keeps the argument text
	out = regexp.MustCompile("R\x00([A-Za-z_][A-Za-z0-9_]*)\x00").ReplaceAllString(out, "R_$1")
	out = strings.ReplaceAll(out, "\x00", "")
	return strings.TrimSpace(out)
}

// cRunStatement evaluates `R_ret.view = expr;` (or `R_ret = R_x;`); answers the stored bits and their width.
func cRunStatement(stmt string, slots map[string]uint64, macros map[string][2]string, ret string) (uint64, int, error) {
	toks, ok := cxLex(stmt)
	if !ok {
		return 0, 0, fmt.Errorf("statement not read: %s", stmt)
	}
	ps := &cxParser{t: toks}
	lhs := ps.unary()
	if !ps.eat("=") {
		return 0, 0, fmt.Errorf("not an assignment: %s", stmt)
	}
	rhs := ps.ternary()
	if !ps.eat(";") || ps.bad != "" || ps.peek().k != "eof" {
		return 0, 0, fmt.Errorf("statement not read (%s): %s", ps.bad, stmt)
	}
	env := &cEnv{slots: slots, vars: map[string]cVal{}, macros: macros}
	// whole-register copy
	if lhs.op == "var" && rhs.op == "var" {
		if lhs.s != "R_"+ret {
			return 0, 0, fmt.Errorf("assignment to %s, not to the result register", lhs.s)
		}
		v, ok := slots[rhs.s]
		if !ok {
			return 0, 0, fmt.Errorf("register %s outside the model", rhs.s)
		}
		return v, 64, nil
	}
	if lhs.op != "member" || lhs.args[0].op != "var" || lhs.args[0].s != "R_"+ret {
		return 0, 0, fmt.Errorf("assignment target is not a view of the result register: %s", stmt)
	}
	t, okv := cViews[lhs.s]
	if !okv {
		return 0, 0, fmt.Errorf("view .%s outside the model", lhs.s)
	}
	v, err := env.eval(rhs)
	if err != nil {
		return 0, 0, err
	}
	v, err = cConvert(v, t)
	if err != nil {
		return 0, 0, err
	}
	switch t {
	case cF32:
		return uint64(math.Float32bits(float32(v.f))), 32, nil
	case cF64:
		return math.Float64bits(v.f), 64, nil
	}
	return v.i, t.width(), nil
}

// wasmGrid: boundary operands per value type (bit patterns).
func wasmGrid() map[string][]uint64 {
	dom := map[string][]uint64{
		"i32": {0, 1, 2, 3, 31, 32, 33, 0x7F, 0x80, 0xFF, 0x7FFF, 0x8000, 0xFFFF, 0x7FFFFFFF, 0x80000000, 0x80000001, 0xFFFFFFFE, 0xFFFFFFFF, 0xDEADBEEF, 0x12345678},
		"i64": {0, 1, 2, 31, 32, 63, 64, 65, 0x7FFFFFFF, 0x80000000, 0xFFFFFFFF, 0x100000000, 0x7FFFFFFFFFFFFFFF, 0x8000000000000000, 0x8000000000000001, 0xFFFFFFFFFFFFFFFE, 0xFFFFFFFFFFFFFFFF, 0xDEADBEEFCAFEBABE, 0x0123456789ABCDEF},
	}
	for _, f := range []float64{math.NaN(), math.Inf(-1), -2.5, -1.5, -0.5, math.Copysign(0, -1), 0, 0.5, 1.5, 2.5, 3, 1e10, math.Inf(1), 16777217, 0.1} {
		dom["f32"] = append(dom["f32"], uint64(math.Float32bits(float32(f))))
		dom["f64"] = append(dom["f64"], math.Float64bits(f))
	}
	dom["f32"] = append(dom["f32"], 0x7F7FFFFF, 0x00000001, 0xFFC00001)
	dom["f64"] = append(dom["f64"], 0x7FEFFFFFFFFFFFFF, 0x0000000000000001, 0xFFF8000000000001)
	return dom
}

// wasmConversion: reference for trunc_f*_{s,u} and convert_i*_{s,u}; in=false when the operand is out of the
// instruction's range (WebAssembly traps) or not an operand of this kind.
func wasmConversion(m string, a uint64) (res uint64, in bool) {
	dot := strings.IndexByte(m, '.')
	t, op := m[:dot], m[dot+1:]
	two63 := math.Ldexp(1, 63)
	switch {
	case strings.HasPrefix(op, "trunc_f"):
		var x float64
		if strings.HasPrefix(op, "trunc_f32") {
			x = float64(math.Float32frombits(uint32(a)))
		} else {
			x = math.Float64frombits(a)
		}
		if math.IsNaN(x) {
			return 0, false
		}
		tr := math.Trunc(x)
		signed := strings.HasSuffix(op, "_s")
		switch {
		case t == "i32" && signed && tr >= -2147483648 && tr <= 2147483647:
			return uint64(uint32(int32(tr))), true
		case t == "i32" && !signed && tr > -1 && tr <= 4294967295:
			return uint64(uint32(tr)), true
		case t == "i64" && signed && tr >= -two63 && tr < two63:
			return uint64(int64(tr)), true
		case t == "i64" && !signed && tr > -1 && tr < 2*two63:
			return uint64(tr), true
		}
		return 0, false
	case strings.HasPrefix(op, "convert_i"):
		signed := strings.HasSuffix(op, "_s")
		var f float64
		switch {
		case strings.HasPrefix(op, "convert_i32") && signed:
			f = float64(int32(uint32(a)))
		case strings.HasPrefix(op, "convert_i32"):
			f = float64(uint32(a))
		case signed && t == "f32":
			f = float64(float32(int64(a)))
		case signed:
			f = float64(int64(a))
		case t == "f32":
			f = float64(float32(a))
		default:
			f = float64(a)
		}
		if t == "f32" {
			return uint64(math.Float32bits(float32(f))), true
		}
		return math.Float64bits(f), true
	}
	return 0, false
}

func wasmConversionOperands(m string) []uint64 {
	two63 := math.Ldexp(1, 63)
	if strings.Contains(m, "trunc_f") {
		var out []uint64
		for _, x := range []float64{0, math.Copysign(0, -1), 0.99, -0.99, 1.5, -1.5, 65536.75, -65536.75, 2147483520, 2147483647.5, -2147483648, -2147483648.9, 2147483648, 4294967040, 4294967295.9,
			1e15, -1e15, two63 / 2, two63 - 1024, two63 - math.Ldexp(1, 39), -two63, two63, two63 + 2048, two63 + math.Ldexp(1, 40), 1.8e19, math.Ldexp(1, 64) - 2048, math.Ldexp(1, 64) - math.Ldexp(1, 40)} {
			if strings.Contains(m, "trunc_f32") {
				out = append(out, uint64(math.Float32bits(float32(x))))
			} else {
				out = append(out, math.Float64bits(x))
			}
		}
		return out
	}
	w := 64
	if strings.Contains(m, "convert_i32") {
		w = 32
	}
	var out []uint64
	for _, v := range []uint64{0, 1, 0xFFFFFFFFFFFFFFFF, 0x7FFFFFFF, 0x80000000, 0xFFFFFFFF, 0x1000001, 0x20000000000001, 0x7FFFFFFFFFFFFFFF, 0x8000000000000000, 0x8000000000000401, 0x8000008000000001, 0xFFFFFFFFFFFFFBFF, 0xFFFFFF7FFFFFFFFF, 0x123456789ABCDEF0} {
		out = append(out, v&maskBits(w))
	}
	return out
}

func c03TemplateSemantics(c *Ctx, p *Prog, by map[string]TemplArm) map[string]bool {
	decided := map[string]bool{}
	const rule = "c-template-semantics"
	rel := "internal/wat/watutil/wat2c/_math_x.c"
	src, err := c.ReadFile(rel)
	if err != nil {
		c.Undecided(rule, "anchor:"+rel, rel, "not readable: "+err.Error())
		return decided
	}
	// the non-MSVC half of the prelude (the gcc/clang builtins)
	text := string(src)
	if i := strings.Index(text, "#else // _MSC_VER"); i >= 0 {
		text = text[i:]
	}
	macros := cMacros(text)
	dom := wasmGrid()
	width := map[string]int{"i32": 32, "f32": 32, "i64": 64, "f64": 64}
	const poison = uint64(0xDEADBEEF) << 32
	isNaN := func(t string, b uint64) bool {
		switch t {
		case "f32":
			return math.IsNaN(float64(math.Float32frombits(uint32(b))))
		case "f64":
			return math.IsNaN(math.Float64frombits(b))
		}
		return false
	}
	n := 0
	for _, m := range wasmSpecOrder {
		sp := wasmSpec[m]
		if len(sp.Pushes) != 1 || len(sp.Pops) == 0 || len(sp.Pops) > 2 || sp.Imm != "" || strings.Contains(m, "trunc_sat") {
			continue
		}
		conv := strings.Contains(m, "trunc_f") || strings.Contains(m, "convert_i")
		if !conv {
			if _, _, ok := wasmNumeric(m, make([]uint64, len(sp.Pops))); !ok {
				continue
			}
		}
		k := "INS_" + strings.ToUpper(strings.ReplaceAll(m, ".", "_"))
		a, ok := by[k]
		if !ok || a.Fatal || len(a.Variants) == 0 {
			continue
		}
		loc := p.Pos(a.Arm.Clause.Pos())
		v := a.Variants[0]
		// the pieces the arm writes, joined, then cut into statements (a statement may be written in several pieces)
		var pieces []string
		for _, l := range v.Lines {
			if st := cTemplateStatement(l); st != "" {
				pieces = append(pieces, st)
			}
		}
		var stmts []string
		for _, st := range strings.Split(strings.Join(pieces, " "), ";") {
			if st = strings.TrimSpace(st); st != "" {
				stmts = append(stmts, st+";")
			}
		}
		var pops []string
		for i := range sp.Pops {
			pops = append(pops, v.varOf("pop", i))
		}
		push := v.varOf("push", 0)
		if len(stmts) != 1 || push == "" || len(pops) != len(sp.Pops) || pops[0] == "" {
			c.Undecided(rule, m, loc, fmt.Sprintf("the arm is not one C statement over its operand registers (%d statements)", len(stmts)))
			continue
		}
		n++
		rt := sp.Pushes[0]
		var bad []string
		und := ""
		cases := 0
		try := func(ops []uint64, want uint64) {
			if und != "" {
				return
			}
			slots := map[string]uint64{}
			for i := range ops {
				val := ops[i]
				if width[sp.Pops[i]] == 32 {
					val = (val & 0xFFFFFFFF) | poison
				}
				slots["R_"+pops[len(ops)-1-i]] = val
			}
			if _, shared := slots["R_"+push]; !shared {
				slots["R_"+push] = 0xA5A5A5A5A5A5A5A5
			}
			got, w, err := cRunStatement(stmts[0], slots, macros, push)
			cases++
			if ub, isUB := err.(cUB); isUB {
				if len(bad) < 3 {
					bad = append(bad, fmt.Sprintf("%s%s: %s, WebAssembly answers %#x", m, fmtOperands(ops), ub.why, want))
				}
				return
			}
			if err != nil {
				und = err.Error()
				return
			}
			if w == 64 && width[rt] == 32 {
				got, w = got&0xFFFFFFFF, 32 // a whole-register copy carries the 32-bit value in its low half
			}
			same := w == width[rt] && (got == want || (isNaN(rt, got) && isNaN(rt, want)))
			if !same && len(bad) < 3 {
				bad = append(bad, fmt.Sprintf("%s%s stores %#x through a %d-bit view, WebAssembly answers %#x", m, fmtOperands(ops), got, w, want))
			}
		}
		switch {
		case conv:
			for _, x := range wasmConversionOperands(m) {
				if want, in := wasmConversion(m, x); in {
					try([]uint64{x}, want)
				}
			}
		case len(sp.Pops) == 1:
			for _, x := range dom[sp.Pops[0]] {
				if want, trap, _ := wasmNumeric(m, []uint64{x}); !trap {
					try([]uint64{x}, want)
				}
			}
		default:
			for _, x := range dom[sp.Pops[0]] {
				for _, y := range dom[sp.Pops[1]] {
					if want, trap, _ := wasmNumeric(m, []uint64{x, y}); !trap {
						try([]uint64{x, y}, want)
					}
				}
			}
		}
		if und != "" {
			c.Undecided(rule, m, loc, und+" — statement `"+stmts[0]+"`")
			continue
		}
		decided[m] = true
		c.Check(len(bad) == 0 && cases > 0, rule, m, loc, fmt.Sprintf("%d operand tuples: defined in C and equal to WebAssembly's result", cases), "evaluating `"+stmts[0]+"` with C's typing rules: "+strings.Join(bad, "; "))
	}
	c.Min(rule, "numeric arms of wat2c evaluated", n, 95)
	return decided
}

// ---- statements over memory: loads and stores

// cMemWorld: registers (64-bit unions), the narrow temporaries of the generated function (R_u8, R_u16, R_u32), and
// linear memory.
type cMemWorld struct {
	slots   map[string]uint64
	temps   map[string]cVal
	mem     map[uint64]byte
	written map[uint64]byte
	macros  map[string][2]string
	vars    map[string]cVal
}

type cRef struct {
	kind string // reg tmp mem
	name string
	addr uint64
}

func (w *cMemWorld) env() *cEnv {
	vars := map[string]cVal{}
	for k, v := range w.vars {
		vars[k] = v
	}
	for k, v := range w.temps {
		vars[k] = v
	}
	return &cEnv{slots: w.slots, vars: vars, macros: w.macros}
}

func (w *cMemWorld) ref(e *cxNode) (cRef, error) {
	if e.op != "addr" {
		return cRef{}, fmt.Errorf("memcpy argument is not an address")
	}
	x := e.args[0]
	switch x.op {
	case "member":
		if x.args[0].op == "var" {
			if _, ok := w.slots[x.args[0].s]; ok {
				return cRef{kind: "reg", name: x.args[0].s}, nil
			}
		}
	case "var":
		if _, ok := w.temps[x.s]; ok {
			return cRef{kind: "tmp", name: x.s}, nil
		}
		if _, ok := w.slots[x.s]; ok {
			return cRef{kind: "reg", name: x.s}, nil
		}
	case "index":
		if x.args[0].op == "var" && x.args[0].s == "MEM" {
			v, err := w.env().eval(x.args[1])
			if err != nil {
				return cRef{}, err
			}
			if v.t.isFloat() {
				return cRef{}, fmt.Errorf("memory indexed with a float")
			}
			a := v.i
			if v.t.signed() {
				a = uint64(v.sint())
			}
			return cRef{kind: "mem", addr: a}, nil
		}
	}
	return cRef{}, fmt.Errorf("memcpy argument outside the model")
}

func (w *cMemWorld) readByte(r cRef, i int) (byte, bool) {
	switch r.kind {
	case "reg":
		return byte(w.slots[r.name] >> (8 * uint(i))), i < 8
	case "tmp":
		t := w.temps[r.name]
		return byte(t.i >> (8 * uint(i))), i < t.t.width()/8
	}
	if b, ok := w.written[r.addr+uint64(i)]; ok {
		return b, true
	}
	b, ok := w.mem[r.addr+uint64(i)]
	return b, ok
}

func (w *cMemWorld) writeByte(r cRef, i int, b byte) bool {
	switch r.kind {
	case "reg":
		if i >= 8 {
			return false
		}
		w.slots[r.name] = (w.slots[r.name] &^ (uint64(0xFF) << (8 * uint(i)))) | uint64(b)<<(8*uint(i))
		return true
	case "tmp":
		t := w.temps[r.name]
		if i >= t.t.width()/8 {
			return false
		}
		t.i = (t.i &^ (uint64(0xFF) << (8 * uint(i)))) | uint64(b)<<(8*uint(i))
		w.temps[r.name] = t
		return true
	}
	w.written[r.addr+uint64(i)] = b
	return true
}

// run executes the statements in order.
func (w *cMemWorld) run(stmts []string) error {
	for _, st := range stmts {
		toks, ok := cxLex(st)
		if !ok {
			return fmt.Errorf("statement not read: %s", st)
		}
		ps := &cxParser{t: toks}
		lhs := ps.unary()
		if lhs.op == "call" && lhs.s == "memcpy" {
			if !ps.eat(";") || ps.bad != "" || len(lhs.args) != 3 {
				return fmt.Errorf("statement not read: %s", st)
			}
			dst, err := w.ref(lhs.args[0])
			if err != nil {
				return err
			}
			src, err := w.ref(lhs.args[1])
			if err != nil {
				return err
			}
			nv, err := w.env().eval(lhs.args[2])
			if err != nil {
				return err
			}
			for i := 0; i < int(nv.i); i++ {
				b, ok := w.readByte(src, i)
				if !ok {
					return cUB{fmt.Sprintf("memcpy reads byte %d of an object that is smaller (or of memory the rule did not lay out)", i)}
				}
				if !w.writeByte(dst, i, b) {
					return cUB{fmt.Sprintf("memcpy writes byte %d of an object that is smaller", i)}
				}
			}
			continue
		}
		if !ps.eat("=") {
			return fmt.Errorf("statement outside the model: %s", st)
		}
		rhs := ps.ternary()
		if !ps.eat(";") || ps.bad != "" || ps.peek().k != "eof" {
			return fmt.Errorf("statement not read (%s): %s", ps.bad, st)
		}
		v, err := w.env().eval(rhs)
		if err != nil {
			return err
		}
		switch {
		case lhs.op == "var":
			t, isTmp := w.temps[lhs.s]
			if !isTmp {
				return fmt.Errorf("assignment to %s outside the model", lhs.s)
			}
			cv, err := cConvert(v, t.t)
			if err != nil {
				return err
			}
			w.temps[lhs.s] = cv
		case lhs.op == "member" && lhs.args[0].op == "var":
			vt, okv := cViews[lhs.s]
			if _, isReg := w.slots[lhs.args[0].s]; !isReg || !okv {
				return fmt.Errorf("assignment target outside the model: %s", st)
			}
			cv, err := cConvert(v, vt)
			if err != nil {
				return err
			}
			var bitsv uint64
			switch vt {
			case cF32:
				bitsv = uint64(math.Float32bits(float32(cv.f)))
			case cF64:
				bitsv = math.Float64bits(cv.f)
			default:
				bitsv = cv.i
			}
			old := w.slots[lhs.args[0].s]
			w.slots[lhs.args[0].s] = (old &^ maskBits(vt.width())) | (bitsv & maskBits(vt.width()))
		default:
			return fmt.Errorf("assignment target outside the model: %s", st)
		}
	}
	return nil
}

var reMemPrefix = regexp.MustCompile("\x00[^\x00]*\x00_memory")

// cMemTemplateStatement: like cTemplateStatement, with the memory array named MEM and the memarg offset named OFF.
func cMemTemplateStatement(l TemplLine) string {
	f := l.Format
	if i := strings.Index(f, "//"); i >= 0 {
		f = f[:i]
	}
	argi := 0
	out := reCVerb.ReplaceAllStringFunc(f, func(v string) string {
		if v == "%%" {
			return "%"
		}
		a := ""
		if argi < len(l.Args) {
			a = l.Args[argi]
		}
		argi++
		switch {
		case v == "%s" && strings.HasPrefix(a, "indent"):
			return ""
		case strings.HasSuffix(a, ".Offset"):
			return "OFF"
		}
		return "\x00" + a + "\x00"
	})
	out = reMemPrefix.ReplaceAllString(out, "MEM")
	out = regexp.MustCompile("R\x00([A-Za-z_][A-Za-z0-9_]*)\x00").ReplaceAllString(out, "R_$1")
	out = strings.ReplaceAll(out, "\x00", "")
	return strings.TrimSpace(out)
}

// c03MemoryAccessSemantics: the load and store arms of wat2c, evaluated over a linear memory.
func c03MemoryAccessSemantics(c *Ctx, p *Prog, by map[string]TemplArm) map[string]bool {
	const rule = "c-memory-access-semantics"
	decided := map[string]bool{}
	const poison = uint64(0xDEADBEEF) << 32
	pattern := []byte{0x80, 0x7F, 0xFF, 0x01, 0xFE, 0x00, 0x81, 0x55, 0xAA, 0x33}
	n := 0
	for _, m := range wasmSpecOrder {
		dot := strings.IndexByte(m, '.')
		if dot < 0 {
			continue
		}
		t, op := m[:dot], m[dot+1:]
		isLoad, isStore := strings.HasPrefix(op, "load"), strings.HasPrefix(op, "store")
		if !isLoad && !isStore {
			continue
		}
		k := "INS_" + strings.ToUpper(strings.ReplaceAll(m, ".", "_"))
		a, ok := by[k]
		if !ok || a.Fatal || len(a.Variants) == 0 {
			continue
		}
		loc := p.Pos(a.Arm.Clause.Pos())
		// the variant for 32-bit addresses (the one whose address slot is an i32)
		var v *TemplVariant
		for i := range a.Variants {
			vv := &a.Variants[i]
			addrIdx := 0
			if isStore {
				addrIdx = 1
			}
			pops := vv.pops()
			if len(pops) > addrIdx && pops[addrIdx] == "i32" {
				v = vv
				break
			}
		}
		if v == nil {
			c.Undecided(rule, m, loc, "no variant with a 32-bit address operand")
			continue
		}
		var pieces []string
		for _, l := range v.Lines {
			if st := cMemTemplateStatement(l); st != "" {
				pieces = append(pieces, st)
			}
		}
		var stmts []string
		for _, st := range strings.Split(strings.Join(pieces, " "), ";") {
			if st = strings.TrimSpace(st); st != "" {
				stmts = append(stmts, st+";")
			}
		}
		n++
		tw := 32
		if t == "i64" || t == "f64" {
			tw = 64
		}
		nb := tw / 8
		for _, w := range []string{"8", "16", "32"} {
			if strings.HasPrefix(op, "load"+w) || strings.HasPrefix(op, "store"+w) {
				nb = map[string]int{"8": 1, "16": 2, "32": 4}[w]
			}
		}
		signed := strings.HasSuffix(op, "_s")
		var bad []string
		und := ""
		cases := 0
		for _, addr := range []uint64{0, 5, 0x7FFFFFF0, 0x80000000, 0xFFFFFF00} {
			for _, off := range []int64{0, 16, 65536} {
				for shift := 0; shift < 3 && und == ""; shift++ {
					ea := addr + uint64(off)
					w := &cMemWorld{slots: map[string]uint64{}, mem: map[uint64]byte{}, written: map[uint64]byte{},
						temps: map[string]cVal{"R_u8": {t: cU8}, "R_u16": {t: cU16}, "R_u32": {t: cU32}},
						vars:  map[string]cVal{"OFF": cMk(cI64, uint64(off))}}
					var val uint64
					for i := 0; i < 8; i++ {
						b := pattern[(i+shift*3)%len(pattern)]
						w.mem[ea+uint64(i)] = b
						if i < nb {
							val |= uint64(b) << (8 * uint(i))
						}
					}
					cases++
					if isLoad {
						addrVar, retVar := v.varOf("pop", 0), v.varOf("push", 0)
						w.slots["R_"+retVar] = 0xA5A5A5A5A5A5A5A5
						w.slots["R_"+addrVar] = addr | poison
						want := val
						if signed && val>>(uint(nb*8)-1)&1 == 1 {
							want |= ^maskBits(nb * 8)
						}
						want &= maskBits(tw)
						err := w.run(stmts)
						if ub, isUB := err.(cUB); isUB {
							if len(bad) < 3 {
								bad = append(bad, fmt.Sprintf("%s at address %#x offset %d: %s", m, addr, off, ub.why))
							}
							continue
						}
						if err != nil {
							und = err.Error()
							break
						}
						got := w.slots["R_"+retVar] & maskBits(tw)
						if (got != want || len(w.written) != 0) && len(bad) < 3 {
							bad = append(bad, fmt.Sprintf("%s at address %#x offset %d leaves %#x in the result register, WebAssembly answers %#x", m, addr, off, got, want))
						}
						continue
					}
					valVar, addrVar := v.varOf("pop", 0), v.varOf("pop", 1)
					sv := uint64(0x8877665544332211) + uint64(shift)*0x0101010101010101
					if tw == 32 {
						w.slots["R_"+valVar] = (sv & 0xFFFFFFFF) | poison
					} else {
						w.slots["R_"+valVar] = sv
					}
					w.slots["R_"+addrVar] = addr | poison
					err := w.run(stmts)
					if ub, isUB := err.(cUB); isUB {
						if len(bad) < 3 {
							bad = append(bad, fmt.Sprintf("%s at address %#x offset %d: %s", m, addr, off, ub.why))
						}
						continue
					}
					if err != nil {
						und = err.Error()
						break
					}
					okw := len(w.written) == nb
					for i := 0; i < nb && okw; i++ {
						if b, has := w.written[ea+uint64(i)]; !has || b != byte(sv>>(8*uint(i))) {
							okw = false
						}
					}
					if !okw && len(bad) < 3 {
						var wr []string
						for a2, b := range w.written {
							wr = append(wr, fmt.Sprintf("[%#x]=%02x", a2, b))
						}
						sortStrings(wr)
						bad = append(bad, fmt.Sprintf("%s of %#x at address %#x offset %d writes %s; WebAssembly writes the %d low bytes at %#x", m, sv&maskBits(tw), addr, off, strings.Join(wr, " "), nb, ea))
					}
				}
			}
		}
		if und != "" {
			c.Undecided(rule, m, loc, und+" — statements `"+strings.Join(stmts, " ")+"`")
			continue
		}
		decided[m] = true
		c.Check(len(bad) == 0 && cases > 0, rule, m, loc, fmt.Sprintf("%d (address, offset, content) cases agree with WebAssembly", cases), "evaluating `"+strings.Join(stmts, " ")+"`: "+strings.Join(bad, "; "))
	}
	c.Min(rule, "load and store arms of wat2c evaluated", n, 18)
	return decided
}
