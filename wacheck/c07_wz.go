package main

import (
	"fmt"
	"go/ast"
	"go/types"
	"strings"

	"golang.org/x/tools/go/packages"
)

// C07 rules on the .wz printer (added after probing found formatted .wz files that no longer parse):
//
//   zhu-comment-is-line-comment — the scanner makes a COMMENT token of `注:` (token.K_注 followed by a colon) in the
//       Chinese syntax; like `//` and `#` it ends at the end of its line. The .wz printer's isLineComment — which decides
//       whether a line break must follow a comment — recognises it (reads token.K_注, directly or through a helper).
//       Otherwise the printer puts code behind such a comment on the same line, and the code becomes comment text.
//   keyword-at-declaration-position — the printer flushes every comment that lies before the position it is handed,
//       and then advances that position by the length of what it prints. A declaration keyword (结构, 接口, 类型, 全局,
//       常量, 引入) is printed at the position of the declaration (GenDecl.Pos()), never at a position that lies behind
//       the keyword in the source (the spec's or name's position, the colon's): with `结构·T: // c` the six bytes of the
//       keyword, counted from the name, pass the comment, which is then written between the keyword and the name.

func c07WzPrinter(c *Ctx, p *Prog, wz *packages.Package) {
	info := wz.TypesInfo
	decls := AllFuncDecls(wz)
	// ---- zhu-comment-is-line-comment
	{
		const rule = "zhu-comment-is-line-comment"
		fd := decls["isLineComment"]
		if fd == nil || fd.Body == nil {
			c.Undecided(rule, "anchor:w2printer.isLineComment", "", "function not found")
		} else {
			var reads func(fd *ast.FuncDecl, depth int) bool
			reads = func(fd *ast.FuncDecl, depth int) bool {
				found := false
				ast.Inspect(fd.Body, func(n ast.Node) bool {
					switch x := n.(type) {
					case *ast.SelectorExpr:
						if x.Sel.Name == "K_注" {
							found = true
						}
					case *ast.BasicLit:
						if strings.Contains(x.Value, "注") {
							found = true
						}
					case *ast.CallExpr:
						if fn := CalleeOf(info, x); fn != nil && fn.Pkg() == wz.Types && depth < 2 {
							if cd := decls[funcKey(fn)]; cd != nil && cd.Body != nil && reads(cd, depth+1) {
								found = true
							}
						}
					}
					return true
				})
				return found
			}
			c.Check(reads(fd, 0), rule, "w2printer.isLineComment", p.Pos(fd.Pos()), "recognises the 注: comment",
				"isLineComment answers false for a `注:` comment (it looks at `#` and `//` only), so the printer does not force a line break behind it: whatever it prints next on that line — the rest of a declaration header, a selector — is read back as part of the comment, and the formatted file does not parse or means something else")
		}
	}
	// ---- keyword-at-declaration-position
	{
		const rule = "keyword-at-declaration-position"
		keywords := map[string]bool{"Zh_结构": true, "Zh_接口": true, "Zh_类型": true, "Zh_全局": true, "Zh_常量": true, "Zh_引入": true}
		n := 0
		for _, name := range sortedDeclNames(wz) {
			fd := decls[name]
			if fd.Body == nil {
				continue
			}
			// local variables that hold one of the keywords (`tok = token.Zh_全局`)
			kwVars := map[types.Object]bool{}
			ast.Inspect(fd.Body, func(m ast.Node) bool {
				if as, ok := m.(*ast.AssignStmt); ok && len(as.Lhs) == 1 && len(as.Rhs) == 1 {
					if se, ok := as.Rhs[0].(*ast.SelectorExpr); ok && keywords[se.Sel.Name] {
						if id, ok := as.Lhs[0].(*ast.Ident); ok {
							kwVars[info.ObjectOf(id)] = true
						}
					}
				}
				return true
			})
			ast.Inspect(fd.Body, func(m ast.Node) bool {
				call, ok := m.(*ast.CallExpr)
				if !ok || len(call.Args) < 2 {
					return true
				}
				se, ok := call.Fun.(*ast.SelectorExpr)
				if !ok || se.Sel.Name != "print" {
					return true
				}
				kw := ""
				for _, a := range call.Args[1:] {
					if s, ok := a.(*ast.SelectorExpr); ok && keywords[s.Sel.Name] {
						kw = s.Sel.Name
					}
					if id, ok := a.(*ast.Ident); ok && kwVars[info.ObjectOf(id)] {
						kw = id.Name
					}
				}
				if kw == "" {
					return true
				}
				first := call.Args[0]
				t := info.TypeOf(first)
				if t == nil || !strings.HasSuffix(t.String(), "token.Pos") {
					return true
				}
				n++
				good, what := false, types.ExprString(first)
				switch x := first.(type) {
				case *ast.CallExpr:
					// d.Pos() of a declaration
					if s, ok := x.Fun.(*ast.SelectorExpr); ok && s.Sel.Name == "Pos" {
						if rt := info.TypeOf(s.X); rt != nil && (strings.HasSuffix(rt.String(), "ast.GenDecl") || strings.HasSuffix(rt.String(), "ast.FuncDecl")) {
							good = true
						}
					}
				case *ast.Ident:
					// a parameter: every call site of this function hands it a declaration's position
					if obj, ok := info.ObjectOf(x).(*types.Var); ok && isParamOf(fd, info, obj) {
						good = true
						fo, _ := info.Defs[fd.Name].(*types.Func)
						idx := paramIndex(fd, info, obj)
						for _, other := range decls {
							if other.Body == nil {
								continue
							}
							ast.Inspect(other.Body, func(q ast.Node) bool {
								cl, ok := q.(*ast.CallExpr)
								if !ok || CalleeOf(info, cl) != fo || idx >= len(cl.Args) {
									return true
								}
								arg := cl.Args[idx]
								okArg := false
								if ac, ok := arg.(*ast.CallExpr); ok {
									if s, ok := ac.Fun.(*ast.SelectorExpr); ok && s.Sel.Name == "Pos" {
										if rt := info.TypeOf(s.X); rt != nil && (strings.HasSuffix(rt.String(), "ast.GenDecl") || strings.HasSuffix(rt.String(), "ast.FuncDecl")) {
											okArg = true
										}
									}
								}
								if !okArg {
									good = false
									what = types.ExprString(first) + " = " + types.ExprString(arg) + " at " + p.Pos(cl.Pos())
								}
								return true
							})
						}
					}
				}
				c.Check(good, rule, fmt.Sprintf("%s: %s printed at %s", name, kw, types.ExprString(first)), p.Pos(call.Pos()), "the declaration's own position",
					"the keyword is printed at "+what+", a position behind the keyword in the source: the printer's position, advanced by the keyword's bytes from there, passes a comment that follows a short name (`结构·T: // c`), and the comment is written between the keyword and the name — `结构 // c` / `·T:` does not parse")
				return true
			})
		}
		c.Min(rule, "declaration keywords printed with a position", n, 4)
	}
}

func isParamOf(fd *ast.FuncDecl, info *types.Info, v *types.Var) bool { return paramIndex(fd, info, v) >= 0 }

func paramIndex(fd *ast.FuncDecl, info *types.Info, v *types.Var) int {
	i := 0
	if fd.Type.Params == nil {
		return -1
	}
	for _, f := range fd.Type.Params.List {
		for _, nm := range f.Names {
			if info.Defs[nm] == v {
				return i
			}
			i++
		}
		if len(f.Names) == 0 {
			i++
		}
	}
	return -1
}
