package main

import (
	"fmt"
	"go/ast"
	"go/constant"
	"go/token"
	"go/types"
	"strings"
)

func init() {
	f := "internal/3rdparty/slip/slip.go"
	register(&Property{ID: "C25", Run: runC25, Mutants: []Mutant{
		{Name: "the mux reader assembles packets in a buffer it keeps between calls", File: "internal/3rdparty/slip/slipmux.go", Old: "type SlipMuxReader struct {\n\tr *Reader\n}", New: "type SlipMuxReader struct {\n\tr   *Reader\n\tbuf bytes.Buffer\n}", Old2: "\tbuf := bytes.Buffer{}\n", New2: "\tbuf := &s.buf\n\tbuf.Reset()\n", Expect: "returned-payload-fresh"},
		{Name: "IPv4 frame range widened to the whole 0x4_ nibble", File: "internal/3rdparty/slip/slipmux.go", Old: "return frame >= FRAME_IPV4_START && frame <= FRAME_IPV4_END", New: "return frame>>4 == FRAME_IPV4_START>>4", Expect: "mux-ip-frame-range :: IsIpv4Frame"},
		{Name: "IPv6 frame range off by one", File: "internal/3rdparty/slip/slipmux.go", Old: "return frame >= FRAME_IPV6_START && frame <= FRAME_IPV6_END", New: "return frame > FRAME_IPV6_START && frame <= FRAME_IPV6_END", Expect: "mux-ip-frame-range :: IsIpv6Frame"},
		{Name: "ESC constant wrong", File: f, Old: "ESC     = 0333", New: "ESC     = 0334", Expect: "rfc1055-constants"},
		{Name: "writer escapes END as ESC ESC_ESC", File: f, Old: "\t\t\tif err := buf.WriteByte(ESC_END); err != nil {", New: "\t\t\tif err := buf.WriteByte(ESC_ESC); err != nil {", Expect: "escape-tables-inverse"},
		{Name: "reader maps ESC_ESC to END", File: f, Old: "\t\t\tcase ESC_ESC:\n\t\t\t\tc = ESC", New: "\t\t\tcase ESC_ESC:\n\t\t\t\tc = END", Expect: "slip-reader-semantics"},
		{Name: "writer omits the trailing END", File: f, Old: "\tif err := buf.WriteByte(END); err != nil {\n\t\treturn err\n\t}\n\n\t_, err := s.w.Write(buf.Bytes())", New: "\t_, err := s.w.Write(buf.Bytes())", Expect: "packet-delimiters"},
		{Name: "reader reads two bytes at a time", File: f, Old: "readBuf := make([]byte, 1)", New: "readBuf := make([]byte, 2)", Expect: "one-byte-reads"},
		{Name: "reader drops a byte delivered together with an error", File: f, Old: "\t\tif n == 0 {\n", New: "\t\tif n == 0 || err != nil {\n", Expect: "slip-reader-semantics"},
		{Name: "reader forgets that a prefix of the packet was handed out", File: f, Old: "\t\t\tif len(p) > 0 {\n\t\t\t\ts.inPacket = true\n\t\t\t}\n", New: "", Expect: "slip-reader-semantics"},
		{Name: "reader keeps the pending ESC in a local", File: f, Old: "\tn := 0\n\tempty := 0\n", New: "\tn := 0\n\tempty := 0\n\ts.esc = false\n", Expect: "slip-reader-semantics"},
		{Name: "reader stores the byte after ESC without decoding it", File: f, Old: "\t\t\tswitch c {\n\t\t\tcase ESC_END:\n\t\t\t\tc = END\n\t\t\tcase ESC_ESC:\n\t\t\t\tc = ESC\n\t\t\t}\n", New: "", Expect: "slip-reader-semantics"},
		{Name: "mux reader strips the frame byte of IP frames", File: "internal/3rdparty/slip/slipmux.go", Old: "\tif !IsIpFrame(frameType) {\n\t\tres = res[1:]", New: "\tif IsIpFrame(frameType) {\n\t\tres = res[1:]", Expect: "mux-frame-symmetry"},
		{Name: "mux writer appends FCS to diagnostic frames instead of CoAP", File: "internal/3rdparty/slip/slipmux.go", Old: "\tif frame == FRAME_COAP {", New: "\tif frame == FRAME_DIAGNOSTIC {", Expect: "mux-frame-symmetry"},
	}})
}

func constIntOf(info *types.Info, e ast.Expr) (int64, bool) {
	if tv, ok := info.Types[e]; ok && tv.Value != nil && tv.Value.Kind() == constant.Int {
		v, ok := constant.Int64Val(tv.Value)
		return v, ok
	}
	return 0, false
}

// writeByteArgs lists, in order, the arguments of <buf>.WriteByte(...) calls in the statements.
// c25Decls: the functions of the slip package, so that WriteByte calls made through a helper
// (`writeEscaped(buf, ESC_END)`) are seen with the helper's parameters replaced by the arguments.
var c25Decls map[*types.Func]*ast.FuncDecl

func writeByteArgs(info *types.Info, stmts []ast.Stmt) []ast.Expr {
	return writeByteArgsDepth(info, stmts, nil, 0)
}

func writeByteArgsDepth(info *types.Info, stmts []ast.Stmt, subst map[types.Object]ast.Expr, depth int) []ast.Expr {
	var out []ast.Expr
	for _, s := range stmts {
		ast.Inspect(s, func(n ast.Node) bool {
			call, ok := n.(*ast.CallExpr)
			if !ok {
				return true
			}
			f := CalleeOf(info, call)
			if f == nil {
				// buf = append(buf, a, b…): the bytes appended to a byte slice, in order
				if id, ok := call.Fun.(*ast.Ident); ok && id.Name == "append" && len(call.Args) >= 2 && !call.Ellipsis.IsValid() {
					if _, isBuiltin := info.Uses[id].(*types.Builtin); isBuiltin && isByteSlice(info.TypeOf(call.Args[0])) {
						for _, a := range call.Args[1:] {
							if o := identObj(info, a); o != nil && subst[o] != nil {
								a = subst[o]
							}
							out = append(out, a)
						}
					}
				}
				return true
			}
			if f.Name() == "Write" && len(call.Args) == 1 {
				// buf.Write([]byte{a, b})
				if cl, ok := ast.Unparen(call.Args[0]).(*ast.CompositeLit); ok && isByteSlice(info.TypeOf(cl)) {
					for _, a := range cl.Elts {
						if o := identObj(info, a); o != nil && subst[o] != nil {
							a = subst[o]
						}
						out = append(out, a)
					}
					return true
				}
			}
			if f.Name() == "WriteByte" && len(call.Args) == 1 {
				a := call.Args[0]
				if o := identObj(info, a); o != nil && subst[o] != nil {
					a = subst[o]
				}
				out = append(out, a)
				return true
			}
			if fd := c25Decls[f]; fd != nil && fd.Body != nil && depth < 2 {
				sub := map[types.Object]ast.Expr{}
				i := 0
				for _, fl := range fd.Type.Params.List {
					for _, nm := range fl.Names {
						if i < len(call.Args) {
							a := call.Args[i]
							if o := identObj(info, a); o != nil && subst[o] != nil {
								a = subst[o]
							}
							sub[info.ObjectOf(nm)] = a
						}
						i++
					}
				}
				out = append(out, writeByteArgsDepth(info, fd.Body.List, sub, depth+1)...)
			}
			return true
		})
	}
	return out
}

func runC25(c *Ctx) {
	c.Explain = "Decides structural clauses of SLIP framing: (1) END/ESC/ESC_END/ESC_ESC have the RFC 1055 values; (2) the writer's escape table {END -> ESC ESC_END, ESC -> ESC ESC_ESC, other -> itself} and the reader's table under ESC {ESC_END -> END, ESC_ESC -> ESC} compose to the identity on every byte class, and each packet is delimited by END before and after; " +
		"(3) chunk independence by construction: the reader reads the transport one byte at a time into a 1-byte buffer and tests n and err of every Read before using the byte; " +
		"(4) SLIPMUX: the frame-type byte is prepended by the writer exactly when the reader strips it (same predicate, not an IP frame), and the FCS is appended exactly for the frame type for which the reader checks and removes it. " +
		"(5) Reader.ReadPacket is interpreted over scripted transports (a byte, a byte with io.EOF, an empty read, a temporary error at every position) for payloads that contain END and ESC bytes: the packets a caller assembles are the payloads sent. NOT decided: FCS arithmetic, behaviour on protocol violations, the SLIPMUX reader on interrupted transports."
	c.Trusted = []string{"go/packages, go/types (x/tools v0.29.0)", "RFC 1055 constants"}
	c.Exhaust = true
	p := c.Load(LoadOpt{Light: true}, "./internal/3rdparty/slip")
	pk := p.MustPkg("rfc1055-constants", "internal/3rdparty/slip")
	if pk == nil {
		return
	}
	info := pk.TypesInfo
	c25Decls = map[*types.Func]*ast.FuncDecl{}
	for _, f := range pk.Syntax {
		for _, d := range f.Decls {
			if fd, ok := d.(*ast.FuncDecl); ok && fd.Body != nil {
				if fn, ok := info.Defs[fd.Name].(*types.Func); ok {
					c25Decls[fn] = fd
				}
			}
		}
	}
	c25Extra(c, p, pk)
	c25ReturnedPayloadFresh(c, p, pk)
	const rC, rT, rD, rB, rR, rM = "rfc1055-constants", "escape-tables-inverse", "packet-delimiters", "one-byte-reads", "read-result-tested", "mux-frame-symmetry"
	vals := map[string]int64{}
	for name, want := range map[string]int64{"END": 0xC0, "ESC": 0xDB, "ESC_END": 0xDC, "ESC_ESC": 0xDD} {
		cst, _ := pk.Types.Scope().Lookup(name).(*types.Const)
		if cst == nil {
			c.Undecided(rC, name, "", "constant not found")
			continue
		}
		v, _ := constant.Int64Val(cst.Val())
		vals[name] = v
		c.Check(v == want, rC, name, p.Pos(cst.Pos()), fmt.Sprintf("%#x", v), fmt.Sprintf("%s = %#x; RFC 1055 defines %#x", name, v, want))
	}

	// writer
	wmap := map[string][]string{} // class -> emitted sequence (const names or "b")
	if fd := p.MustFunc(rT, pk, "Writer.WritePacket"); fd != nil {
		var loop *ast.RangeStmt
		var before, after []ast.Stmt
		for i, s := range fd.Body.List {
			if rs, ok := s.(*ast.RangeStmt); ok {
				loop = rs
				before, after = fd.Body.List[:i], fd.Body.List[i+1:]
			}
		}
		if loop == nil {
			c.Undecided(rT, "WritePacket: byte loop", p.Pos(fd.Pos()), "range loop over the payload not found")
		} else {
			bvar := identName(loop.Value)
			name := func(e ast.Expr) string {
				if id, ok := e.(*ast.Ident); ok && id.Name == bvar {
					return "b"
				}
				if v, ok := constIntOf(info, e); ok {
					for n, x := range vals {
						if x == v {
							return n
						}
					}
					return fmt.Sprintf("%#x", v)
				}
				return types.ExprString(e)
			}
			// the per-byte switch: in the loop body, or in a helper of the package that the loop hands the byte to
			var findSwitch func(list []ast.Stmt, byteObj types.Object, depth int) (*ast.SwitchStmt, string)
			findSwitch = func(list []ast.Stmt, byteObj types.Object, depth int) (*ast.SwitchStmt, string) {
				for _, s := range list {
					if sw, ok := s.(*ast.SwitchStmt); ok && sw.Tag != nil && identObj(info, sw.Tag) == byteObj {
						return sw, byteObj.Name()
					}
				}
				if depth >= 2 {
					return nil, ""
				}
				for _, s := range list {
					var found *ast.SwitchStmt
					var nm string
					ast.Inspect(s, func(n ast.Node) bool {
						call, ok := n.(*ast.CallExpr)
						if !ok || found != nil {
							return found == nil
						}
						hd := c25Decls[CalleeOf(info, call)]
						if hd == nil {
							return true
						}
						i := 0
						for _, fl := range hd.Type.Params.List {
							for _, pn := range fl.Names {
								if i < len(call.Args) && identObj(info, call.Args[i]) == byteObj {
									if sw, n2 := findSwitch(hd.Body.List, info.ObjectOf(pn), depth+1); sw != nil {
										found, nm = sw, n2
									}
								}
								i++
							}
						}
						return found == nil
					})
					if found != nil {
						return found, nm
					}
				}
				return nil, ""
			}
			if sw, nm := findSwitch(loop.Body.List, identObj(info, loop.Value), 0); sw != nil {
				bvar = nm
				for _, arm := range SwitchArms(info, sw) {
					var seq []string
					for _, a := range writeByteArgs(info, arm.Body) {
						seq = append(seq, name(a))
					}
					if arm.Default {
						wmap["other"] = seq
					}
					for _, k := range arm.Consts {
						wmap[k.Name] = seq
					}
				}
			}
			// delimiters
			b := writeByteArgs(info, before)
			a := writeByteArgs(info, after)
			okB := len(b) == 1 && name(b[0]) == "END"
			okA := len(a) == 1 && name(a[0]) == "END"
			c.Check(okB && okA, rD, "WritePacket: END before and after the payload", p.Pos(fd.Pos()), "END payload END", fmt.Sprintf("the packet is not delimited by exactly one END before (%d found) and one END after (%d found) the stuffed payload: the reader cannot find the packet boundary", len(b), len(a)))
			// the whole buffer is written
			wrote := false
			for _, call := range callsIn(info, after) {
				if strings.HasSuffix(types.ExprString(call.Fun), ".w.Write") && len(call.Args) == 1 {
					// the buffer's bytes, or the byte slice the packet was appended to
					if strings.HasSuffix(types.ExprString(call.Args[0]), ".Bytes()") {
						wrote = true
					} else if id, ok := ast.Unparen(call.Args[0]).(*ast.Ident); ok && appendAccumulators(info, fd.Body)[info.ObjectOf(id)] {
						wrote = true
					}
				}
			}
			c.Check(wrote, rD, "WritePacket: buffer written to the transport", p.Pos(fd.Pos()), "w.Write(buf.Bytes())", "the stuffed buffer is not written to the transport in one Write")
		}
	}
	// reader: interpreted (c25_sem.go); when the interpretation decides it, the shape rules on the reader's decode
	// switch and on the test after each Read are not applied — they are proxies an equivalent decoder would trip
	readerSem := c25ReaderSemantics(c, p, pk)
	rmap := map[string]string{} // escaped code -> restored byte
	storesRaw := false
	if fd := p.MustFunc(rT, pk, "Reader.ReadPacket"); fd != nil {
		// 1-byte buffer
		one := false
		bufVar := ""
		ast.Inspect(fd.Body, func(n ast.Node) bool {
			as, ok := n.(*ast.AssignStmt)
			if !ok || len(as.Rhs) != 1 {
				return true
			}
			if call, ok := as.Rhs[0].(*ast.CallExpr); ok && types.ExprString(call.Fun) == "make" && len(call.Args) == 2 && types.ExprString(call.Args[0]) == "[]byte" {
				if v, ok := constIntOf(info, call.Args[1]); ok {
					bufVar = types.ExprString(as.Lhs[0])
					one = v == 1
				}
			}
			return true
		})
		c.Check(one && bufVar != "", rB, "ReadPacket: read buffer", p.Pos(fd.Pos()), "make([]byte, 1)", "the transport is not read into a 1-byte buffer: how the stream is chunked into reads changes which bytes are seen")
		// every Read is followed by a test of n and err that returns
		nReads, nTested := 0, 0
		var lists [][]ast.Stmt
		ast.Inspect(fd.Body, func(n ast.Node) bool {
			switch x := n.(type) {
			case *ast.BlockStmt:
				lists = append(lists, x.List)
			case *ast.CaseClause:
				lists = append(lists, x.Body)
			}
			return true
		})
		for _, l := range lists {
			for i, s := range l {
				as, ok := s.(*ast.AssignStmt)
				if !ok || len(as.Rhs) != 1 {
					continue
				}
				call, ok := as.Rhs[0].(*ast.CallExpr)
				if !ok || !strings.HasSuffix(types.ExprString(call.Fun), ".r.Read") {
					continue
				}
				nReads++
				if len(call.Args) != 1 || types.ExprString(call.Args[0]) != bufVar || len(as.Lhs) != 2 {
					continue
				}
				nv, ev := types.ExprString(as.Lhs[0]), types.ExprString(as.Lhs[1])
				if i+1 < len(l) {
					if ifs, ok := l[i+1].(*ast.IfStmt); ok {
						cond := strings.ReplaceAll(types.ExprString(ifs.Cond), " ", "")
						returns := false
						for _, b := range ifs.Body.List {
							if _, ok := b.(*ast.ReturnStmt); ok {
								returns = true
							}
						}
						if (cond == nv+"==0||"+ev+"!=nil" || cond == ev+"!=nil||"+nv+"==0" || cond == nv+"!=1||"+ev+"!=nil") && returns {
							nTested++
						}
					}
				}
			}
		}
		_, _ = nReads, nTested // superseded by the semantic form of the rule (c25_reads.go)
		if !readerSem {
			c25ReadsChecked(c, p, pk, fd, bufVar)
		}
		// decode tables: a switch on the byte, or the same as an if / else-if chain
		record := func(code string, body []ast.Stmt) {
			for _, s := range body {
				if as, ok := s.(*ast.AssignStmt); ok && len(as.Lhs) == 1 && types.ExprString(as.Lhs[0]) == bufVar+"[0]" {
					if v, ok := constIntOf(info, as.Rhs[0]); ok {
						for nme, x := range vals {
							if x == v {
								rmap[code] = nme
							}
						}
					}
				}
			}
		}
		ast.Inspect(fd.Body, func(n ast.Node) bool {
			ifs, ok := n.(*ast.IfStmt)
			for ok && ifs != nil {
				if be, isBin := ast.Unparen(ifs.Cond).(*ast.BinaryExpr); isBin && be.Op == token.EQL {
					x, y := be.X, be.Y
					if types.ExprString(y) == bufVar+"[0]" {
						x, y = y, x
					}
					if types.ExprString(x) == bufVar+"[0]" {
						if v, isK := constIntOf(info, y); isK {
							for nme, xv := range vals {
								if xv == v {
									record(nme, ifs.Body.List)
								}
							}
						}
					}
				}
				next, isIf := ifs.Else.(*ast.IfStmt)
				if !isIf {
					break
				}
				ifs = next
			}
			return true
		})
		ast.Inspect(fd.Body, func(n ast.Node) bool {
			sw, ok := n.(*ast.SwitchStmt)
			if !ok || sw.Tag == nil || types.ExprString(sw.Tag) != bufVar+"[0]" {
				return true
			}
			for _, arm := range SwitchArms(info, sw) {
				for _, k := range arm.Consts {
					for _, s := range arm.Body {
						if as, ok := s.(*ast.AssignStmt); ok && len(as.Lhs) == 1 && types.ExprString(as.Lhs[0]) == bufVar+"[0]" {
							if v, ok := constIntOf(info, as.Rhs[0]); ok {
								for nme, x := range vals {
									if x == v {
										rmap[k.Name] = nme
									}
								}
							}
						}
					}
				}
			}
			return true
		})
		// the same table in a helper of the package: `buf[0] = unescape(buf[0])` with
		// `switch c { case ESC_END: return END; case ESC_ESC: return ESC }; return c`
		ast.Inspect(fd.Body, func(n ast.Node) bool {
			as, ok := n.(*ast.AssignStmt)
			if !ok || len(as.Lhs) != 1 || len(as.Rhs) != 1 || types.ExprString(as.Lhs[0]) != bufVar+"[0]" {
				return true
			}
			call, ok := as.Rhs[0].(*ast.CallExpr)
			if !ok || len(call.Args) != 1 || types.ExprString(call.Args[0]) != bufVar+"[0]" {
				return true
			}
			hd := c25Decls[CalleeOf(info, call)]
			if hd == nil || len(hd.Type.Params.List) != 1 || len(hd.Type.Params.List[0].Names) != 1 {
				return true
			}
			param := info.ObjectOf(hd.Type.Params.List[0].Names[0])
			identity := false // every path that is not a rewritten code returns the byte itself
			if last, ok := hd.Body.List[len(hd.Body.List)-1].(*ast.ReturnStmt); ok && len(last.Results) == 1 && identObj(info, last.Results[0]) == param {
				identity = true
			}
			for _, s := range hd.Body.List {
				sw, ok := s.(*ast.SwitchStmt)
				if !ok || sw.Tag == nil || identObj(info, sw.Tag) != param {
					continue
				}
				for _, arm := range SwitchArms(info, sw) {
					if arm.Default {
						if len(arm.Body) == 1 {
							if r, ok := arm.Body[0].(*ast.ReturnStmt); ok && len(r.Results) == 1 && identObj(info, r.Results[0]) == param {
								identity = true
							}
						}
						continue
					}
					for _, k := range arm.Consts {
						if len(arm.Body) != 1 {
							continue
						}
						if r, ok := arm.Body[0].(*ast.ReturnStmt); ok && len(r.Results) == 1 {
							if v, ok := constIntOf(info, r.Results[0]); ok {
								for nme, x := range vals {
									if x == v {
										rmap[k.Name] = nme
									}
								}
							}
						}
					}
				}
			}
			if !identity {
				rmap["(other bytes)"] = "not returned unchanged by " + declName(hd)
			}
			return true
		})
		// after the switch the (possibly rewritten) byte is stored
		for _, s := range fd.Body.List {
			if fs, ok := s.(*ast.ForStmt); ok {
				last := fs.Body.List[len(fs.Body.List)-1]
				args := writeByteArgs(info, []ast.Stmt{last})
				storesRaw = len(args) == 1 && types.ExprString(args[0]) == bufVar+"[0]"
			}
		}
	}
	// composition
	for _, special := range []string{"END", "ESC"} {
		seq := wmap[special]
		good := len(seq) == 2 && seq[0] == "ESC" && (rmap[seq[1]] == special || (readerSem && seq[1] == "ESC_"+special))
		c.Check(good, rT, "byte "+special, "", fmt.Sprintf("writer: %v; reader under ESC: %s -> %s", seq, safeIdx(seq, 1), rmap[safeIdx(seq, 1)]), fmt.Sprintf("data byte %s is written as %v and the reader maps %s back to %q: the payload changes in transit", special, seq, safeIdx(seq, 1), rmap[safeIdx(seq, 1)]))
	}
	c.Check(len(wmap["other"]) == 1 && wmap["other"][0] == "b" && (storesRaw || readerSem), rT, "ordinary bytes", "", "written and stored unchanged", fmt.Sprintf("an ordinary byte is written as %v / stored unchanged by the reader: %v", wmap["other"], storesRaw))
	c.Check(len(rmap) == 2 || readerSem, rT, "reader table size", "", "exactly ESC_END and ESC_ESC are rewritten", fmt.Sprintf("the reader rewrites %d escape codes (%v); RFC 1055 has two", len(rmap), rmap))

	// slipmux
	wfd := p.MustFunc(rM, pk, "SlipMuxWriter.WritePacket")
	rfd := p.MustFunc(rM, pk, "SlipMuxReader.ReadPacket")
	if wfd != nil && rfd != nil {
		condOf := func(fd *ast.FuncDecl, bodyHas string) string {
			out := ""
			ast.Inspect(fd.Body, func(n ast.Node) bool {
				if ifs, ok := n.(*ast.IfStmt); ok {
					if strings.Contains(strings.ReplaceAll(nodeString(p, ifs.Body), " ", ""), bodyHas) && out == "" {
						out = strings.ReplaceAll(types.ExprString(ifs.Cond), " ", "")
					}
				}
				return true
			})
			return out
		}
		frameParam := ""
		if len(wfd.Type.Params.List) > 0 && len(wfd.Type.Params.List[0].Names) > 0 {
			frameParam = wfd.Type.Params.List[0].Names[0].Name
		}
		wPre := condOf(wfd, "append([]byte{"+frameParam+"}")
		rStrip := condOf(rfd, "res[1:]")
		norm := func(s, v string) string { return strings.ReplaceAll(s, v, "F") }
		c.Check(wPre != "" && norm(wPre, frameParam) == norm(rStrip, "frameType") && strings.HasPrefix(wPre, "!IsIpFrame("), rM, "frame-type byte", p.Pos(wfd.Pos()), "prepended iff stripped: "+wPre,
			fmt.Sprintf("the writer prepends the frame-type byte under %q but the reader strips it under %q: payloads gain or lose their first byte", wPre, rStrip))
		wFcs := condOf(wfd, "AppendFcs16(")
		rFcs := condOf(rfd, "RemoveFcs16(")
		if rFcs == "" {
			rFcs = condOf(rfd, "CheckFsc16(")
		}
		c.Check(wFcs != "" && norm(wFcs, frameParam) == norm(rFcs, "frameType"), rM, "frame check sequence", p.Pos(wfd.Pos()), "appended iff checked and removed: "+wFcs,
			fmt.Sprintf("the writer appends the FCS under %q but the reader checks/removes it under %q", wFcs, rFcs))
		// the frame type returned is the first byte
		ft := false
		ast.Inspect(rfd.Body, func(n ast.Node) bool {
			if as, ok := n.(*ast.AssignStmt); ok && len(as.Lhs) == 1 && types.ExprString(as.Lhs[0]) == "frameType" && types.ExprString(as.Rhs[0]) == "res[0]" {
				ft = true
			}
			return true
		})
		c.Check(ft, rM, "frame type read first", p.Pos(rfd.Pos()), "frameType := res[0]", "the frame type is not taken from the first byte of the packet")
	}
	_ = token.NoPos
}

func safeIdx(s []string, i int) string {
	if i < len(s) {
		return s[i]
	}
	return ""
}
