package main

import (
	"fmt"
	"go/ast"
	"go/types"
	"sort"
	"strings"

	"golang.org/x/tools/go/packages"
)

// C15 float-kind-width (added after a seeded change was missed): representableConst rounds a floating-point or complex
// constant to the precision of its type. Inside the arm for a 32-bit kind (float32, complex64) every fits/round helper
// must be the 32-bit one, inside the arm for a 64-bit kind the 64-bit one, and a complex arm treats the real and the
// imaginary part alike — otherwise the folded constant keeps precision the run-time value does not have (complex64(1+0.1i)
// folded with a float64 imaginary part compares unequal to the same value computed at run time).

func c15FloatKindWidth(c *Ctx, p *Prog, tp *packages.Package) {
	const rule = "float-kind-width"
	info := tp.TypesInfo
	fd := p.MustFunc(rule, tp, "representableConst")
	if fd == nil {
		return
	}
	width := map[string]string{"Float32": "32", "Complex64": "32", "Float64": "64", "Complex128": "64"}
	n := 0
	for _, sw := range FindSwitches(fd, func(tag ast.Expr) bool { return strings.HasSuffix(types.ExprString(tag), ".kind") }) {
		for _, arm := range SwitchArms(info, sw) {
			for _, k := range arm.Consts {
				w, ok := width[k.Name]
				if !ok {
					continue
				}
				n++
				isComplex := strings.HasPrefix(k.Name, "Complex")
				// helper -> parts it is applied to
				applied := map[string][]string{}
				var wrong []string
				for _, call := range callsIn(info, arm.Body) {
					fn := CalleeOf(info, call)
					if fn == nil || fn.Pkg() != tp.Types {
						continue
					}
					name := fn.Name()
					var kind string
					switch {
					case strings.HasPrefix(name, "fitsFloat"):
						kind = "fits"
					case strings.HasPrefix(name, "roundFloat"):
						kind = "round"
					default:
						continue
					}
					if !strings.HasSuffix(name, w) {
						wrong = append(wrong, fmt.Sprintf("%s(%s)", name, types.ExprString(call.Args[0])))
					}
					part := "whole"
					if len(call.Args) == 1 {
						if inner, ok := ast.Unparen(call.Args[0]).(*ast.CallExpr); ok {
							switch types.ExprString(inner.Fun) {
							case "constant.Real":
								part = "real"
							case "constant.Imag":
								part = "imag"
							}
						}
					}
					applied[kind] = append(applied[kind], part)
				}
				var probs []string
				if len(wrong) > 0 {
					sort.Strings(wrong)
					probs = append(probs, fmt.Sprintf("the arm for %s uses %s: the constant is checked or rounded at another precision than the %s-bit parts of its type, so the folded value differs from the value the same expression has at run time", k.Name, strings.Join(wrong, ", "), w))
				}
				for _, kind := range []string{"fits", "round"} {
					parts := applied[kind]
					sort.Strings(parts)
					want := "whole"
					if isComplex {
						want = "imag,real"
					}
					if strings.Join(parts, ",") != want {
						probs = append(probs, fmt.Sprintf("the %s helper is applied to [%s], want [%s]", kind, strings.Join(parts, ","), want))
					}
				}
				c.Check(len(probs) == 0, rule, "representableConst: "+k.Name, p.Pos(arm.Clause.Pos()), w+"-bit helpers on every part", strings.Join(probs, "; "))
			}
		}
	}
	c.Min(rule, "float and complex kind arms", n, 4)
}
