package main

import (
	"fmt"
	"go/ast"
	"go/token"
	"go/types"
	"strings"

	"golang.org/x/tools/go/packages"
)

// C03 rule list-stack-order (added after a defect was found on the unchanged tree: the implicit return at the end of a
// function body popped the result types first to last, so `(result i32 i32)` functions returned their results swapped
// and `(result i64 i32)` made the translator panic). The operand stack holds a list of values (parameters of a call,
// results of a block or function) with the last one on top. A loop that pops one value per element of such a list
// must therefore run from the last element to the first; a loop that pushes one value per element must run from the
// first to the last.

func c03ListOrder(c *Ctx, p *Prog, pk *packages.Package) {
	nPop, nPush := listStackOrder(c, p, pk, "")
	c.Min("list-stack-order", "loops that pop a list of operands", nPop, 7)
	c.Min("list-stack-order", "loops that push a list of operands", nPush, 2)
}

// listStackOrder decides the rule for one translator package; prefix tells the translators apart in obligation keys.
func listStackOrder(c *Ctx, p *Prog, pk *packages.Package, prefix string) (nPop, nPush int) {
	const rule = "list-stack-order"
	info := pk.TypesInfo
	seq := map[string]int{}
	for _, name := range sortedDeclNames(pk) {
		fd := AllFuncDecls(pk)[name]
		if fd.Body == nil {
			continue
		}
		ast.Inspect(fd.Body, func(nd ast.Node) bool {
			var body *ast.BlockStmt
			var loopVars []types.Object
			dir := 0 // +1 ascending, -1 descending
			var list string
			switch x := nd.(type) {
			case *ast.RangeStmt:
				if t := info.TypeOf(x.X); t == nil {
					return true
				} else if _, ok := t.Underlying().(*types.Slice); !ok {
					return true
				}
				body, dir, list = x.Body, +1, types.ExprString(x.X)
				for _, e := range []ast.Expr{x.Key, x.Value} {
					if id, ok := e.(*ast.Ident); ok && id.Name != "_" {
						loopVars = append(loopVars, info.ObjectOf(id))
					}
				}
			case *ast.ForStmt:
				inc, ok := x.Post.(*ast.IncDecStmt)
				if !ok {
					return true
				}
				id, ok := inc.X.(*ast.Ident)
				if !ok {
					return true
				}
				body = x.Body
				loopVars = append(loopVars, info.ObjectOf(id))
				if inc.Tok == token.INC {
					dir = +1
				} else {
					dir = -1
				}
			default:
				return true
			}
			// locals defined in the body from the loop variable (`xType := list[i]`)
			derived := map[types.Object]bool{}
			for _, v := range loopVars {
				derived[v] = true
			}
			mentions := func(e ast.Expr) bool {
				found := false
				ast.Inspect(e, func(m ast.Node) bool {
					if id, ok := m.(*ast.Ident); ok && derived[info.ObjectOf(id)] {
						found = true
					}
					return !found
				})
				return found
			}
			for _, s := range body.List {
				if as, ok := s.(*ast.AssignStmt); ok && as.Tok == token.DEFINE && len(as.Lhs) == len(as.Rhs) {
					for i, r := range as.Rhs {
						if _, isCall := ast.Unparen(r).(*ast.CallExpr); isCall {
							continue
						}
						if mentions(r) {
							if id, ok := as.Lhs[i].(*ast.Ident); ok {
								derived[info.ObjectOf(id)] = true
								if ix, ok := ast.Unparen(r).(*ast.IndexExpr); ok && list == "" {
									list = types.ExprString(ix.X)
								}
							}
						}
					}
				}
			}
			// stack operations of this loop (not of nested loops) whose type argument depends on the element
			var walk func(n ast.Node)
			walk = func(n ast.Node) {
				ast.Inspect(n, func(m ast.Node) bool {
					if m == nil {
						return true
					}
					switch y := m.(type) {
					case *ast.ForStmt, *ast.RangeStmt, *ast.FuncLit:
						if m != n {
							return false
						}
					case *ast.CallExpr:
						fn := CalleeOf(info, y)
						if fn == nil || len(y.Args) != 1 {
							return true
						}
						sig, _ := fn.Type().(*types.Signature)
						if sig == nil || sig.Recv() == nil || namedTypeName(sig.Recv().Type()) != "valueTypeStack" {
							return true
						}
						if fn.Name() != "Pop" && fn.Name() != "Push" {
							return true
						}
						if !mentions(y.Args[0]) {
							return true // a constant type: the order does not matter
						}
						l := list
						if ix, ok := ast.Unparen(y.Args[0]).(*ast.IndexExpr); ok {
							l = types.ExprString(ix.X)
						}
						key := fmt.Sprintf("%s%s: %s per element of %s", prefix, name, fn.Name(), l)
						seq[key]++
						if seq[key] > 1 {
							key = fmt.Sprintf("%s #%d", key, seq[key])
						}
						if fn.Name() == "Pop" {
							nPop++
							c.Check(dir < 0, rule, key, p.Pos(y.Pos()), "pops from the last element to the first",
								"this loop pops one operand per element of "+l+" but runs from the first element to the last: the last element is the one on top of the stack, so the values are taken in reverse (results or arguments swapped) and, when the element types differ, the type check of Pop fails")
						} else {
							nPush++
							c.Check(dir > 0, rule, key, p.Pos(y.Pos()), "pushes from the first element to the last",
								"this loop pushes one operand per element of "+l+" but runs from the last element to the first: the first element must be pushed first so that the last one ends on top")
						}
					}
					return true
				})
			}
			walk(body)
			return true
		})
	}
	return nPop, nPush
}

// overlap-copy-direction (C03 wat2c, C02 native translators; added after a defect was found on the unchanged tree):
// a branch that carries results moves them down to the target block's base — under `if first > base`, slot base+i
// receives slot first+i. When the two ranges overlap (first - base smaller than the number of results) a copy from the
// last result to the first overwrites a slot before it is read: (1, 2) arrives as (2, 2). A loop under a `>` test
// that writes to <base>+i must therefore run from the first element to the last.
func copyDirection(c *Ctx, p *Prog, pk *packages.Package, prefix string) int {
	const rule = "overlap-copy-direction"
	info := pk.TypesInfo
	n := 0
	seq := map[string]int{}
	for _, name := range sortedDeclNames(pk) {
		fd := AllFuncDecls(pk)[name]
		if fd.Body == nil {
			continue
		}
		ast.Inspect(fd.Body, func(nd ast.Node) bool {
			ifs, ok := nd.(*ast.IfStmt)
			if !ok {
				return true
			}
			be, ok := ast.Unparen(ifs.Cond).(*ast.BinaryExpr)
			if !ok || be.Op != token.GTR {
				return true
			}
			base := types.ExprString(ast.Unparen(be.Y))
			if base == "0" || base == "" {
				return true
			}
			for _, s := range ifs.Body.List {
				fs, ok := s.(*ast.ForStmt)
				if !ok {
					continue
				}
				inc, ok := fs.Post.(*ast.IncDecStmt)
				if !ok {
					continue
				}
				lv, ok := inc.X.(*ast.Ident)
				if !ok {
					continue
				}
				lobj := info.ObjectOf(lv)
				// does the loop emit text with an argument built from base and the loop variable?
				writes := false
				ast.Inspect(fs.Body, func(m ast.Node) bool {
					call, ok := m.(*ast.CallExpr)
					if !ok {
						return true
					}
					fn := CalleeOf(info, call)
					if fn == nil || fn.Pkg() == nil || fn.Pkg().Path() != "fmt" || fn.Name() != "Fprintf" {
						return true
					}
					for _, a := range call.Args[1:] {
						txt := types.ExprString(a)
						if !strings.Contains(txt, base) {
							continue
						}
						ast.Inspect(a, func(q ast.Node) bool {
							if id, ok := q.(*ast.Ident); ok && info.ObjectOf(id) == lobj {
								writes = true
							}
							return true
						})
					}
					return true
				})
				if !writes {
					continue
				}
				n++
				key := fmt.Sprintf("%s%s: copy to %s+%s under `%s`", prefix, name, base, lv.Name, types.ExprString(ifs.Cond))
				seq[key]++
				if seq[key] > 1 {
					key = fmt.Sprintf("%s #%d", key, seq[key])
				}
				c.Check(inc.Tok == token.INC, rule, key, p.Pos(fs.Pos()), "copies from the first element to the last",
					"the values are moved down to "+base+" (the copy is under `"+types.ExprString(ifs.Cond)+"`) from the last element to the first: when the source and the destination ranges overlap, a slot is overwritten before it is read and two or more carried results arrive as copies of the last one")
			}
			return true
		})
	}
	return n
}


// c03IndexLoops applies the shared index-loop rule (looprule.go) to the translator package.
func c03IndexLoops(c *Ctx, p *Prog, pk *packages.Package, min int) {
	n := indexLoopRule(c, p, pk, nil)
	c.Min("index-loop-covers-list", "index loops over lists in "+short(pk.PkgPath), n, min)
}

// C03 rule epilogue-on-top-level-last (added after a defect found by differential probing): after the body,
// buildFunc_body decides from "the last instruction" whether the function already returned (return), cannot fall
// through (unreachable), or must get an implicit return. That must be the last element of the function body's own
// list: the operand-stack model's LastInstruction() is the last instruction *visited*, which for a body ending in a
// block, loop or if is the last nested one.
func c03EpilogueDecision(c *Ctx, p *Prog, pk *packages.Package) {
	const rule = "epilogue-on-top-level-last"
	info := pk.TypesInfo
	var fd *ast.FuncDecl
	for name, d := range AllFuncDecls(pk) {
		if strings.HasSuffix(name, ".buildFunc_body") {
			fd = d
		}
	}
	if fd == nil || fd.Body == nil {
		c.Undecided(rule, "anchor:buildFunc_body", "", "function not found")
		return
	}
	ld := newLocalDefs(info, fd)
	n := 0
	for _, s := range fd.Body.List {
		sw, ok := s.(*ast.SwitchStmt)
		if !ok {
			continue
		}
		// the switch whose arms name INS_RETURN / INS_UNREACHABLE
		names := ""
		for _, arm := range SwitchArms(info, sw) {
			names += arm.Names() + " "
		}
		if !strings.Contains(names, "INS_RETURN") || !strings.Contains(names, "INS_UNREACHABLE") {
			continue
		}
		n++
		var tag ast.Expr = sw.Tag
		if sw.Init != nil {
			if as, ok := sw.Init.(*ast.AssignStmt); ok && len(as.Rhs) == 1 {
				tag = as.Rhs[0]
			}
		}
		r := strings.ReplaceAll(ld.render(tag), " ", "")
		// the variable may be assigned inside an `if n := len(list); n > 0` — follow plain assignments too
		src := r
		ast.Inspect(fd.Body, func(m ast.Node) bool {
			if as, ok := m.(*ast.AssignStmt); ok && len(as.Lhs) == 1 && len(as.Rhs) == 1 && types.ExprString(as.Lhs[0]) == types.ExprString(tag) {
				src += " " + strings.ReplaceAll(ld.render(as.Rhs[0]), " ", "")
			}
			return true
		})
		good := strings.Contains(src, ".Body.List[") && !strings.Contains(src, "LastInstruction()")
		c.Check(good, rule, "buildFunc_body: switch on the last instruction", p.Pos(sw.Pos()), "reads the last element of fn.Body.List",
			"the epilogue is chosen from `"+src+"`: the stack model's LastInstruction() is the last instruction visited, nested ones included, so a function whose body ends in a block/if whose last inner instruction is unreachable (or return) is taken to have ended there — the fall-through path drops its operands and returns 0")
	}
	c.Min(rule, "epilogue switches", n, 1)
}
