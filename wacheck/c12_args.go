package main

import (
	"fmt"
	"go/ast"
	"strings"

	"golang.org/x/tools/go/packages"
)

// C12 rule runtime-call-args-borrowed.
//
// Parameters of Wa functions are borrowed: the callee never releases them. Where the back end itself emits a call to
// a runtime function written in Wa (runtime.stringFromRuneSlice, runtime.mapUpdate …), an argument of a
// reference-counted type (slice, string, map, pointer) must therefore be pushed without a retain — or the pushed
// value's holder must be released after the call. A retaining push with no later release leaves a reference nobody
// gives back: the block can never be freed.

func waTypeIsCounted(t string) bool {
	t = strings.TrimSpace(t)
	return strings.HasPrefix(t, "[]") || t == "string" || strings.HasPrefix(t, "map[") || strings.HasPrefix(t, "*") || t == "interface{}"
}

func c12RuntimeArgs(c *Ctx, p *Prog, pkgs ...*packages.Package) {
	const rule = "runtime-call-args-borrowed"
	std := LoadWaStd(c, rule)
	rt := map[string]*waFuncDecl{}
	for _, f := range std.Pkgs["runtime"] {
		if isWaTestFile(f.Name) {
			continue
		}
		for _, fd := range std.Funcs(f) {
			if fd.Recv == "" && fd.HasBody {
				rt[fd.Name] = fd
			}
		}
	}
	n := 0
	for _, pk := range pkgs {
		if pk == nil {
			continue
		}
		registerPredicates(pk)
		for _, file := range pk.Syntax {
			for _, d := range file.Decls {
				fd, ok := d.(*ast.FuncDecl)
				if !ok || fd.Body == nil {
					continue
				}
				seq := emitSequence(pk.TypesInfo, fd)
				var ev []emEvent
				for _, e := range seq.Events {
					if e.Kind == "deleg" || e.Kind == "call" {
						ev = append(ev, e)
					}
				}
				k := 0
				for i, e := range ev {
					if e.Kind != "call" {
						continue
					}
					name := strings.TrimPrefix(strings.TrimPrefix(e.Name, "$"), "runtime.")
					callee := rt[name]
					if callee == nil || !strings.Contains(e.Name, "runtime.") {
						continue
					}
					np := len(callee.Params)
					if np == 0 || i < np {
						continue
					}
					// the np pushes directly before the call are the arguments, in order
					args := ev[i-np : i]
					allPush := true
					for _, a := range args {
						if a.Kind != "deleg" || (a.Name != "EmitPush" && a.Name != "EmitPushNoRetain") {
							allPush = false
						}
					}
					if !allPush {
						continue
					}
					for j, a := range args {
						if !waTypeIsCounted(callee.Params[j]) {
							continue
						}
						n++
						k++
						construct := fmt.Sprintf("%s.%s: call #%d runtime.%s, argument %d (%s)", pk.Name, declName(fd), k, name, j+1, callee.Params[j])
						if a.Name == "EmitPushNoRetain" {
							c.OK(rule, construct, p.Pos(a.Pos), "pushed without retain")
							continue
						}
						released := false
						for _, later := range ev[i+1:] {
							if later.Kind == "deleg" && later.Name == "EmitRelease" && later.Recv == a.Recv {
								released = true
							}
						}
						c.Check(released, rule, construct, p.Pos(a.Pos), "retained and released after the call",
							fmt.Sprintf("%s pushes %s with a retain as argument %d (%s) of runtime.%s and never releases it: Wa functions borrow their parameters, so the extra reference is never given back and the block it counts can never be freed (one leaked block per execution)", declName(fd), a.Recv, j+1, callee.Params[j], name))
					}
				}
			}
		}
	}
	c.Min(rule, "reference-counted arguments of emitted runtime calls", n, 6)
}
