package main

// Frozen exception tables for C27, keyed by construct (function + ranged expression + ordinal), one reason per row,
// each confirmed by reading the loop. A map loop classified as order-escaping that is not listed here is a violation.

var c27Exceptions = map[string]string{
	"(*internal/3rdparty/toml.MetaData).unifyMap: range tmap #1":          "vendored TOML decoder: each key of the table is decoded into its own map entry; md.context is pushed and popped around each element (order-insensitive); only reads the manifest",
	"(*internal/3rdparty/toml.MetaData).unifyStruct: range tmap #1":       "vendored TOML decoder: each key sets the struct field of that name (distinct fields per key); cachedTypeFields is a memoising cache",
	"(*internal/loader._Loader).loadProgram: range p.prog.Pkgs #1":        "buildSSA(pkg) first builds the package's imports recursively and is idempotent per package (guarded by SSAPkg != nil); SSA value names are per function and SSA member tables are maps, so the creation order of independent packages does not reach the emitted text; the back end iterates packages through sorted name lists",
	"(*internal/types.Checker).caseTypes: range seen #1":                  "duplicate-case detection: the loop only looks for an identical type to report an error (failure path); on success it has no effect",
	"(*internal/types.Checker).collectObjects: range imp.scope.elems #1":  "dot-import: every exported object of the imported package is inserted into the file scope under its own name (distinct keys); insertion conflicts are errors (failure path)",
	"(*internal/types.Checker).collectObjects: range scope.elems #1":      "conflict check between file-scope and package-scope names: only reports errors (failure path)",
	"(*internal/types.Checker).initOrder: range n.pred #2":                "go/types initialisation order: decrements the dependency count of every predecessor and fixes the priority queue; the queue orders by (ndeps, source order), so the popped sequence is independent of the visiting order",
	"(*internal/types.Checker).lookupMethodFunc: range check.objMap #1":   "search for the method of a given receiver type and name: at most one object matches (duplicate methods are rejected by the checker), so the first match is the only match",
	"(*internal/types.Checker).processGlobalEmbed: range check.objMap #1": "per-constant effect: each #wa:embed constant gets its own initialiser; early returns are error paths",
	"(*internal/types.Checker).recordUntyped: range check.untyped #1":     "records type and value of each untyped expression under its own key (distinct keys); the debug branch is constant false",
	"internal/ssa.removeDeadPhis: range newPhis #1":                       "x/tools ssa: marks live phis (set union: order-insensitive fixpoint)",
	"internal/ssa.removeDeadPhis: range newPhis #2":                       "x/tools ssa: removes each dead phi from its own block and nils its slot; per-element effect",
	"internal/types.NewMethodSet: range fset #1":                          "go/types method sets: adds collision markers under distinct names; the resulting list is sorted by unique name before use",
	"internal/types.NewMethodSet: range mset #1":                          "go/types method sets: adds methods at this depth under distinct names; the resulting list is sorted by unique name before use",
	"internal/types.dependencyGraph: range M #1":                          "go/types dependency graph: edges are inserted into per-node sets (set union is order-insensitive); the final node list is sorted by source order before scheduling",
	"internal/types.dependencyGraph: range M #2":                          "go/types dependency graph: edges are inserted into per-node sets (set union is order-insensitive); the final node list is sorted by source order before scheduling",
	"internal/types.dependencyGraph: range n.pred #1":                     "go/types dependency graph: edges are inserted into per-node sets (set union is order-insensitive); the final node list is sorted by source order before scheduling",
	"internal/types.dependencyGraph: range n.succ #1":                     "go/types dependency graph: edges are inserted into per-node sets (set union is order-insensitive); the final node list is sorted by source order before scheduling",
	"internal/types.dependencyGraph: range objMap[obj].deps #1":           "go/types dependency graph: edges are inserted into per-node sets (set union is order-insensitive); the final node list is sorted by source order before scheduling",
	"internal/types.findPath: range objMap[from].deps #1":                 "only used to print an initialisation-cycle error (failure path)",
	"internal/types.infoFromType: range all #1":                           "collects embedded methods into info.methods; consumers sort methods by unique name (assertSortedMethods / sort in completeInterface) before exposing them",
	"internal/types.lookupType: range m #1":                               "search for an identical type in the type-switch map: Identical is an equivalence and the map holds no two identical types, so at most one entry matches",
}

var c27SourceExceptions = map[string]string{}
