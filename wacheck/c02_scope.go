package main

import (
	"fmt"
	"go/ast"
	"go/token"
	"go/types"
	"strings"

	"golang.org/x/tools/go/packages"
)

// C02 label-scope-innermost-first (added after a seeded change was missed): the native translators keep the enclosing
// blocks on a stack that grows by append; a branch label names the *innermost* enclosing block that carries it (WAT
// allows an inner block to re-use an outer block's label). The lookup loop must therefore meet the last pushed scope
// first. The rule reads the loop of every `…(label string)` method that compares `.Label == label` over a slice field:
// the element index must run from len-1 down (or be len-1-i for an ascending i); a range loop, or an ascending index
// used directly, resolves a shadowed label to the outer block — the native program branches somewhere else than the
// wasm module does.

func c02ScopeLookup(c *Ctx, p *Prog, pk *packages.Package, tr string) int {
	const rule = "label-scope-innermost-first"
	info := pk.TypesInfo
	n := 0
	for _, f := range pk.Syntax {
		for _, d := range f.Decls {
			fd, ok := d.(*ast.FuncDecl)
			if !ok || fd.Body == nil || fd.Recv == nil || fd.Type.Params == nil {
				continue
			}
			var label types.Object
			for _, fl := range fd.Type.Params.List {
				if t := info.TypeOf(fl.Type); t != nil && types.Identical(t, types.Typ[types.String]) {
					for _, nm := range fl.Names {
						label = info.Defs[nm]
					}
				}
			}
			if label == nil {
				continue
			}
			ast.Inspect(fd.Body, func(nd ast.Node) bool {
				var body *ast.BlockStmt
				var loop ast.Node
				switch x := nd.(type) {
				case *ast.ForStmt:
					body, loop = x.Body, x
				case *ast.RangeStmt:
					body, loop = x.Body, x
				default:
					return true
				}
				// does the loop compare <elem>.Label with the parameter?
				var elem ast.Expr
				ast.Inspect(body, func(m ast.Node) bool {
					be, ok := m.(*ast.BinaryExpr)
					if !ok || be.Op != token.EQL {
						return true
					}
					for _, pr := range [][2]ast.Expr{{be.X, be.Y}, {be.Y, be.X}} {
						se, ok := ast.Unparen(pr[0]).(*ast.SelectorExpr)
						if ok && se.Sel.Name == "Label" && identObj(info, pr[1]) == label {
							elem = se.X
						}
					}
					return true
				})
				if elem == nil {
					return true
				}
				n++
				construct := fmt.Sprintf("%s: %s", tr, declName(fd))
				loc := p.Pos(loop.Pos())
				verdict := scopeLoopOrder(info, loop, elem)
				c.Check(verdict == "innermost-first", rule, construct, loc, "the last pushed scope is compared first",
					fmt.Sprintf("%s searches the scope stack %s: a label that an inner block re-uses resolves to the outer block, so br / br_if / br_table to it leave (or repeat) the wrong block in the native program while the wasm module — and the reference assembler — take the innermost one", declName(fd), verdict))
				return false
			})
		}
	}
	return n
}

// scopeLoopOrder classifies the order in which a lookup loop meets the elements of the slice it searches.
func scopeLoopOrder(info *types.Info, loop ast.Node, elem ast.Expr) string {
	// resolve the element to an index expression: `ctx := s[i]` or s[i] itself
	var idx ast.Expr
	resolve := func(e ast.Expr) ast.Expr {
		if ix, ok := ast.Unparen(e).(*ast.IndexExpr); ok {
			return ix.Index
		}
		return nil
	}
	idx = resolve(elem)
	var body *ast.BlockStmt
	switch x := loop.(type) {
	case *ast.RangeStmt:
		body = x.Body
		if identObj(info, elem) != nil && x.Value != nil && identObj(info, elem) == identObj(info, x.Value) {
			return "outermost-first (a range loop visits the oldest scope first)"
		}
	case *ast.ForStmt:
		body = x.Body
	}
	if idx == nil {
		// elem is a local defined from s[…] inside the body (possibly in an if-init)
		o := identObj(info, elem)
		ast.Inspect(body, func(m ast.Node) bool {
			if as, ok := m.(*ast.AssignStmt); ok && len(as.Lhs) == 1 && len(as.Rhs) == 1 && identObj(info, as.Lhs[0]) == o && o != nil {
				if r := resolve(as.Rhs[0]); r != nil {
					idx = r
				}
			}
			return true
		})
	}
	if idx == nil {
		return "in an order that was not recognised"
	}
	// loop variable and its direction
	var iv types.Object
	dir := 0
	switch x := loop.(type) {
	case *ast.RangeStmt:
		iv = identObj(info, x.Key)
		dir = +1
	case *ast.ForStmt:
		if post, ok := x.Post.(*ast.IncDecStmt); ok {
			iv = identObj(info, post.X)
			if post.Tok == token.INC {
				dir = +1
			} else {
				dir = -1
			}
		}
	}
	if iv == nil {
		return "in an order that was not recognised"
	}
	// index = iv  or  len(s)-1-iv / len(s)-iv-1
	s := strings.ReplaceAll(types.ExprString(idx), " ", "")
	name := iv.Name()
	direct := s == name
	mirrored := strings.HasPrefix(s, "len(") && (strings.HasSuffix(s, ")-1-"+name) || strings.HasSuffix(s, ")-"+name+"-1"))
	switch {
	case direct && dir < 0, mirrored && dir > 0:
		return "innermost-first"
	case direct && dir > 0, mirrored && dir < 0:
		return "outermost-first"
	}
	return "in an order that was not recognised"
}

// C02 memory-grow-limit (added after a seeded change was missed): memory.grow succeeds when the new size does not
// exceed the declared maximum — growing to exactly the maximum is allowed. In the x64 template the new page count
// (current + delta) is compared with the maximum and the failing branch is taken on "above" only. The rule follows the
// registers of the template (which one was loaded from the page counter, which from the maximum, which holds their
// sum), finds the comparison of the sum with the maximum and reads the condition of the jump to the failure arm.
func c02MemoryGrowLimit(c *Ctx, p *Prog, x64 map[string]TemplArm) {
	const rule = "memory-grow-limit"
	arm, ok := x64["INS_MEMORY_GROW"]
	if !ok || len(arm.Variants) == 0 {
		c.Undecided(rule, "memory.grow", "", "template arm not found")
		return
	}
	loc := p.Pos(arm.Arm.Clause.Pos())
	role := map[string]string{} // register -> pages | max | new | delta
	var verdict, seen string
	lines := arm.Variants[0].Lines
	// a 32-bit register name stands for its 64-bit register (writing eax zero-extends into rax)
	wide := map[string]string{"eax": "rax", "ebx": "rbx", "ecx": "rcx", "edx": "rdx", "esi": "rsi", "edi": "rdi",
		"r8d": "r8", "r9d": "r9", "r10d": "r10", "r11d": "r11", "r12d": "r12", "r13d": "r13", "r14d": "r14", "r15d": "r15"}
	for i, l := range lines {
		f := strings.Fields(strings.TrimSpace(strings.ReplaceAll(l.Format, ",", " ")))
		if len(f) == 0 {
			continue
		}
		for k := 1; k < len(f); k++ {
			if w, ok := wide[f[k]]; ok {
				f[k] = w
			}
		}
		switch {
		case f[0] == "mov" && len(f) >= 2 && strings.Contains(l.Format, "[rip+%s]") && len(l.Args) == 1 && !strings.HasPrefix(f[1], "qword"):
			switch {
			case strings.Contains(l.Args[0], "MaxPages"):
				role[f[1]] = "max"
			case strings.Contains(l.Args[0], "Pages"):
				role[f[1]] = "pages"
			}
		case f[0] == "mov" && len(f) >= 2 && strings.Contains(l.Format, "[rbp%+d]") && !strings.HasPrefix(f[1], "qword") && !strings.HasPrefix(f[1], "dword"):
			role[f[1]] = "delta"
		case f[0] == "add" && len(f) == 3:
			a, b := role[f[1]], role[f[2]]
			if (a == "delta" && b == "pages") || (a == "pages" && b == "delta") {
				role[f[1]] = "new"
			}
		case f[0] == "cmp" && len(f) == 3 && i+1 < len(lines):
			a, b := role[f[1]], role[f[2]]
			if !((a == "new" && b == "max") || (a == "max" && b == "new")) {
				continue
			}
			j := strings.Fields(strings.TrimSpace(lines[i+1].Format))
			if len(j) == 0 || !strings.HasPrefix(j[0], "j") {
				continue
			}
			seen = fmt.Sprintf("cmp %s(%s), %s(%s); %s", f[1], a, f[2], b, j[0])
			want := "ja"
			if a == "max" {
				want = "jb"
			}
			if j[0] == want {
				verdict = "ok"
			} else {
				verdict = fmt.Sprintf("the failure arm is entered with `%s` after comparing the new size (%s) with the maximum (%s); it must be `%s` (unsigned, strictly beyond the maximum): as written a grow that lands exactly on the declared maximum fails (or a size beyond it succeeds), so the native program sees another memory.grow result and memory.size than the wasm module", j[0], map[bool]string{true: f[1], false: f[2]}[a == "new"], map[bool]string{true: f[2], false: f[1]}[a == "new"], want)
			}
		}
	}
	if verdict == "" {
		c.Undecided(rule, "memory.grow", loc, "the comparison of current+delta with the maximum was not found in the template")
		return
	}
	c.Check(verdict == "ok", rule, "memory.grow", loc, seen, "memory.grow: "+verdict)
}
