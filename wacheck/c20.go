package main

import (
	"fmt"
	"go/ast"
	"go/constant"
	"go/token"
	"go/types"
	"sort"
	"strings"

	"golang.org/x/tools/go/packages"
)

// C20 — the wemu emulators execute ISA semantics.
//
// The emulators are one big switch per ISA: one arm per mnemonic, each arm a handful of statements over
// p.RegX[arg.F], arg.Imm, curPC, p.PC and bus.Read/Write. What an arm computes is visible in its shape: which
// raw fields it reads, which operator it applies, through which signed/unsigned view and width, what it
// writes. The rules below compare those facts, extracted from the type-checked AST, with a semantics table
// per mnemonic (written from the RISC-V unprivileged ISA and the LoongArch reference manual vol. 1), and with
// the repository's own decoders (which raw fields each instruction format fills).

func init() {
	f := "internal/native/wemu/riscv64/cpu.go"
	f32 := "internal/native/wemu/riscv32/cpu.go"
	la := "internal/native/wemu/loong64/cpu.go"
	register(&Property{ID: "C20", Run: runC20, Mutants: []Mutant{
		{Name: "BLT compares unsigned", File: f, Old: "\tcase riscv.ABLT:\n\t\tif RVInt(p.RegX[arg.Rs1]) < RVInt(p.RegX[arg.Rs2]) {", New: "\tcase riscv.ABLT:\n\t\tif p.RegX[arg.Rs1] < p.RegX[arg.Rs2] {", Expect: "branch-ordering :: riscv64 BLT"},
		{Name: "BNE taken when equal", File: f, Old: "\tcase riscv.ABNE:\n\t\tif p.RegX[arg.Rs1] != p.RegX[arg.Rs2] {", New: "\tcase riscv.ABNE:\n\t\tif p.RegX[arg.Rs1] == p.RegX[arg.Rs2] {", Expect: "branch-ordering :: riscv64 BNE"},
		{Name: "BGE not taken when equal", File: f, Old: "if RVInt(p.RegX[arg.Rs1]) >= RVInt(p.RegX[arg.Rs2]) {", New: "if RVInt(p.RegX[arg.Rs1]) > RVInt(p.RegX[arg.Rs2]) {", Expect: "branch-ordering :: riscv64 BGE"},
		{Name: "SUB adds", File: f, Old: "\tcase riscv.ASUB:\n\t\tp.RegX[arg.Rd] = p.RegX[arg.Rs1] - p.RegX[arg.Rs2]", New: "\tcase riscv.ASUB:\n\t\tp.RegX[arg.Rd] = p.RegX[arg.Rs1] + p.RegX[arg.Rs2]", Expect: "alu-operator :: riscv64 SUB"},
		{Name: "LH zero-extends", File: f, Old: "\t\tp.RegX[arg.Rd] = RVUInt(int16(value))", New: "\t\tp.RegX[arg.Rd] = RVUInt(uint16(value))", Expect: "access-width :: riscv64 LH"},
		{Name: "SW stores two bytes", File: f, Old: "\tcase riscv.ASW:\n\t\taddr := p.RegX[arg.Rs1] + RVUInt(arg.Imm)\n\t\tvalue := p.RegX[arg.Rs2]\n\t\tif err := bus.Write(uint64(addr), 4, uint64(value)); err != nil {", New: "\tcase riscv.ASW:\n\t\taddr := p.RegX[arg.Rs1] + RVUInt(arg.Imm)\n\t\tvalue := p.RegX[arg.Rs2]\n\t\tif err := bus.Write(uint64(addr), 2, uint64(value)); err != nil {", Expect: "access-width :: riscv64 SW"},
		{Name: "SB stores rs1", File: f, Old: "\tcase riscv.ASB:\n\t\taddr := p.RegX[arg.Rs1] + RVUInt(arg.Imm)\n\t\tvalue := p.RegX[arg.Rs2]", New: "\tcase riscv.ASB:\n\t\taddr := p.RegX[arg.Rs1] + RVUInt(arg.Imm)\n\t\tvalue := p.RegX[arg.Rs1]", Expect: "riscv64 SB"},
		{Name: "ADD ignores rs2", File: f, Old: "\tcase riscv.AADD:\n\t\tp.RegX[arg.Rd] = p.RegX[arg.Rs1] + p.RegX[arg.Rs2]", New: "\tcase riscv.AADD:\n\t\tp.RegX[arg.Rd] = p.RegX[arg.Rs1] + p.RegX[arg.Rs1]", Expect: "riscv64 ADD"},
		{Name: "JAL forgets the link register", File: f, Old: "\t\tp.RegX[arg.Rd] = p.PC\n\t\t// 然后根据当前指令对应的 PC 计算出跳转地址覆盖当前的 PC", New: "\t\t// 然后根据当前指令对应的 PC 计算出跳转地址覆盖当前的 PC", Expect: "riscv64 JAL"},
		{Name: "JALR writes rd before reading rs1", File: f, Old: "\t\ttarget := p.RegX[arg.Rs1] + RVUInt(arg.Imm)\n\t\t// rd 寄存器保存下一个指令对应的 PC\n\t\tp.RegX[arg.Rd] = p.PC\n\t\t// 然后用跳转地址覆盖当前的 PC\n\t\tp.PC = target", New: "\t\tp.RegX[arg.Rd] = p.PC\n\t\tp.PC = p.RegX[arg.Rs1] + RVUInt(arg.Imm)", Expect: "rd-alias-order :: riscv64 JALR"},
		{Name: "branch target relative to the advanced pc", File: f, Old: "\tcase riscv.ABEQ:\n\t\tif p.RegX[arg.Rs1] == p.RegX[arg.Rs2] {\n\t\t\tp.PC = curPC + RVUInt(arg.Imm)", New: "\tcase riscv.ABEQ:\n\t\tif p.RegX[arg.Rs1] == p.RegX[arg.Rs2] {\n\t\t\tp.PC = p.PC + RVUInt(arg.Imm)", Expect: "pc-target :: riscv64 BEQ"},
		{Name: "AUIPC forgets the shift", File: f, Old: "curPC + RVUInt(arg.Imm<<12)", New: "curPC + RVUInt(arg.Imm)", Expect: "upper-immediate :: riscv64 AUIPC"},
		{Name: "SRA shifts the unsigned view", File: f, Old: "RVUInt(RVInt(p.RegX[arg.Rs1]) >> (p.RegX[arg.Rs2] & (XLen - 1)))", New: "RVUInt(p.RegX[arg.Rs1] >> (p.RegX[arg.Rs2] & (XLen - 1)))", Expect: "alu-operator :: riscv64 SRA"},
		{Name: "SLL does not mask the shift amount", File: f, Old: "p.RegX[arg.Rs1] << (p.RegX[arg.Rs2] & (XLen - 1))", New: "p.RegX[arg.Rs1] << p.RegX[arg.Rs2]", Expect: "shift-amount :: riscv64 SLL"},
		{Name: "ADDW result zero-extended", File: f, Old: "RVUInt(int32(p.RegX[arg.Rs1]) + int32(p.RegX[arg.Rs2]))", New: "RVUInt(uint32(p.RegX[arg.Rs1]) + uint32(p.RegX[arg.Rs2]))", Expect: "word-result :: riscv64 ADDW"},
		{Name: "DIVW guard looks at the full register", File: f, Old: "\tcase riscv.ADIVW:\n\t\tif uint32(p.RegX[arg.Rs2]) != 0 {", New: "\tcase riscv.ADIVW:\n\t\tif p.RegX[arg.Rs2] != 0 {", Expect: "division-guard :: riscv64 DIVW"},
		{Name: "RV32 signed view through int64", File: f32, Old: "\tcase riscv.ASLT:\n\t\tif RVInt(p.RegX[arg.Rs1]) < RVInt(p.RegX[arg.Rs2]) {", New: "\tcase riscv.ASLT:\n\t\tif int64(p.RegX[arg.Rs1]) < int64(p.RegX[arg.Rs2]) {", Expect: "riscv32 SLT"},
		{Name: "RV32 copy diverges", File: f32, Old: "\tcase riscv.AXOR:\n\t\tp.RegX[arg.Rd] = p.RegX[arg.Rs1] ^ p.RegX[arg.Rs2]", New: "\tcase riscv.AXOR:\n\t\tp.RegX[arg.Rd] = p.RegX[arg.Rs1] | p.RegX[arg.Rs2]", Expect: "alu-operator :: riscv32 XOR"},
		{Name: "LA64 BEQ reads a field its format does not decode", File: la, Old: "if p.RegX[arg.Rs1] == p.RegX[arg.Rd] {", New: "if p.RegX[arg.Rs1] == p.RegX[arg.Rs2] {", Expect: "decoded-fields :: loong64 BEQ"},
		{Name: "LA64 ST.W stores a byte", File: la, Old: "if err := bus.Write(uint64(addr), 4, uint64(value)); err != nil {", New: "if err := bus.Write(uint64(addr), 1, uint64(value)); err != nil {", Expect: "access-width :: loong64 ST_W"},
		{Name: "LA64 SUB.W result zero-extended", File: la, Old: "result := int32(p.RegX[arg.Rs1]) - int32(p.RegX[arg.Rs2])\n\t\t\tp.RegX[arg.Rd] = LAUInt(int64(result))", New: "result := uint32(p.RegX[arg.Rs1]) - uint32(p.RegX[arg.Rs2])\n\t\t\tp.RegX[arg.Rd] = LAUInt(int64(result))", Expect: "word-result :: loong64 SUB_W"},
		{Name: "LA64 BL links to the branch itself", File: la, Old: "p.RegX[1] = curPC + 4", New: "p.RegX[1] = curPC", Expect: "loong64 BL"},
	}})
}

// ---- semantics tables ----

type emuSpec struct {
	kind       string      // alu | cmpset | branch | load | store | upper | pcupper | jal | jalr | jump | call | nop | float
	op         token.Token // alu operator
	signed     bool        // the operator needs the signed view of its operands (>> / % and signed compares)
	word       bool        // 32-bit operation whose result is sign-extended to the register width
	imm        bool        // second operand is the immediate, not a register
	bytes      int         // load/store width
	sext       bool        // load sign-extends
	lt, eq, gt bool        // branch / set truth table over rs1 ? rs2
	a, b       string      // raw fields of the two register operands ("" = default Rs1 / Rs2)
	val        string      // raw field of the stored value
	fmt        string      // instruction format (RISC-V: filled from the assembler's table)
}

func alu(op token.Token, signed, word, imm bool) emuSpec {
	return emuSpec{kind: "alu", op: op, signed: signed, word: word, imm: imm}
}
func cmp(kind string, lt, eq, gt, signed, imm bool) emuSpec {
	return emuSpec{kind: kind, lt: lt, eq: eq, gt: gt, signed: signed, imm: imm}
}

var rvSpecs = map[string]emuSpec{
	"LUI": {kind: "upper"}, "AUIPC": {kind: "pcupper"}, "JAL": {kind: "jal"}, "JALR": {kind: "jalr"},
	"BEQ": cmp("branch", false, true, false, false, false), "BNE": cmp("branch", true, false, true, false, false),
	"BLT": cmp("branch", true, false, false, true, false), "BGE": cmp("branch", false, true, true, true, false),
	"BLTU": cmp("branch", true, false, false, false, false), "BGEU": cmp("branch", false, true, true, false, false),
	"LB": {kind: "load", bytes: 1, sext: true}, "LH": {kind: "load", bytes: 2, sext: true}, "LW": {kind: "load", bytes: 4, sext: true},
	"LBU": {kind: "load", bytes: 1}, "LHU": {kind: "load", bytes: 2}, "LWU": {kind: "load", bytes: 4}, "LD": {kind: "load", bytes: 8},
	"SB": {kind: "store", bytes: 1, val: "Rs2"}, "SH": {kind: "store", bytes: 2, val: "Rs2"}, "SW": {kind: "store", bytes: 4, val: "Rs2"}, "SD": {kind: "store", bytes: 8, val: "Rs2"},
	"ADDI": alu(token.ADD, false, false, true), "XORI": alu(token.XOR, false, false, true), "ORI": alu(token.OR, false, false, true), "ANDI": alu(token.AND, false, false, true),
	"SLTI": cmp("cmpset", true, false, false, true, true), "SLTIU": cmp("cmpset", true, false, false, false, true),
	"SLLI": alu(token.SHL, false, false, true), "SRLI": alu(token.SHR, false, false, true), "SRAI": alu(token.SHR, true, false, true),
	"ADD": alu(token.ADD, false, false, false), "SUB": alu(token.SUB, false, false, false), "XOR": alu(token.XOR, false, false, false), "OR": alu(token.OR, false, false, false), "AND": alu(token.AND, false, false, false),
	"SLL": alu(token.SHL, false, false, false), "SRL": alu(token.SHR, false, false, false), "SRA": alu(token.SHR, true, false, false),
	"SLT": cmp("cmpset", true, false, false, true, false), "SLTU": cmp("cmpset", true, false, false, false, false),
	"FENCE": {kind: "nop"}, "FENCE_I": {kind: "nop"},
	"ADDIW": alu(token.ADD, false, true, true), "SLLIW": alu(token.SHL, false, true, true), "SRLIW": alu(token.SHR, false, true, true), "SRAIW": alu(token.SHR, true, true, true),
	"ADDW": alu(token.ADD, false, true, false), "SUBW": alu(token.SUB, false, true, false), "SLLW": alu(token.SHL, false, true, false), "SRLW": alu(token.SHR, false, true, false), "SRAW": alu(token.SHR, true, true, false),
	"MUL": alu(token.MUL, false, false, false), "DIV": alu(token.QUO, true, false, false), "DIVU": alu(token.QUO, false, false, false), "REM": alu(token.REM, true, false, false), "REMU": alu(token.REM, false, false, false),
	"MULW": alu(token.MUL, false, true, false), "DIVW": alu(token.QUO, true, true, false), "DIVUW": alu(token.QUO, false, true, false), "REMW": alu(token.REM, true, true, false), "REMUW": alu(token.REM, false, true, false),
}

// LoongArch: rj is decoded into Rs1, rk into Rs2, rd into Rd. Conditional branches compare rj with rd; stores take the value from rd.
var laSpecs = map[string]emuSpec{
	"ADD_D": alu(token.ADD, false, false, false), "SUB_D": alu(token.SUB, false, false, false), "AND": alu(token.AND, false, false, false), "OR": alu(token.OR, false, false, false),
	"XOR": alu(token.XOR, false, false, false), "MUL_D": alu(token.MUL, false, false, false),
	"ADD_W": alu(token.ADD, false, true, false), "SUB_W": alu(token.SUB, false, true, false), "MUL_W": alu(token.MUL, false, true, false),
	"SLT": cmp("cmpset", true, false, false, true, false), "SLTU": cmp("cmpset", true, false, false, false, false),
	"SLTI": cmp("cmpset", true, false, false, true, true), "SLTUI": cmp("cmpset", true, false, false, false, true),
	"SLLI_W": alu(token.SHL, false, true, true), "SRLI_W": alu(token.SHR, false, true, true), "SRAI_W": alu(token.SHR, true, true, true),
	"SLLI_D": alu(token.SHL, false, false, true), "SRLI_D": alu(token.SHR, false, false, true), "SRAI_D": alu(token.SHR, true, false, true),
	"ADDI_W": alu(token.ADD, false, true, true), "ADDI_D": alu(token.ADD, false, false, true),
	"ORI": alu(token.OR, false, false, true), "ANDI": alu(token.AND, false, false, true), "XORI": alu(token.XOR, false, false, true),
	"LD_B": {kind: "load", bytes: 1, sext: true}, "LD_H": {kind: "load", bytes: 2, sext: true}, "LD_W": {kind: "load", bytes: 4, sext: true}, "LD_D": {kind: "load", bytes: 8},
	"LD_BU": {kind: "load", bytes: 1}, "LD_HU": {kind: "load", bytes: 2}, "LD_WU": {kind: "load", bytes: 4},
	"ST_B": {kind: "store", bytes: 1, val: "Rd"}, "ST_H": {kind: "store", bytes: 2, val: "Rd"}, "ST_W": {kind: "store", bytes: 4, val: "Rd"}, "ST_D": {kind: "store", bytes: 8, val: "Rd"},
	"LU12I_W": {kind: "upper"}, "PCADDU12I": {kind: "pcupper"},
	"BEQ": {kind: "branch", eq: true, b: "Rd"}, "BNE": {kind: "branch", lt: true, gt: true, b: "Rd"},
	"BLT": {kind: "branch", lt: true, signed: true, b: "Rd"}, "BGE": {kind: "branch", eq: true, gt: true, signed: true, b: "Rd"},
	"BLTU": {kind: "branch", lt: true, b: "Rd"}, "BGEU": {kind: "branch", eq: true, gt: true, b: "Rd"},
	"B": {kind: "jump"}, "BL": {kind: "call"},
	"FADD_S": {kind: "float"}, "FADD_D": {kind: "float"}, "FSUB_S": {kind: "float"}, "FSUB_D": {kind: "float"}, "FMUL_S": {kind: "float"}, "FMUL_D": {kind: "float"}, "FDIV_S": {kind: "float"}, "FDIV_D": {kind: "float"},
}

// ---- expression views ----

type convStep struct {
	width  int
	signed bool
	name   string
}

// emuView is an operand seen through its conversions.
type emuView struct {
	base  string     // reg:<Field> | imm | curpc | pc | busread | const | expr
	convs []convStep // outermost first
	inner ast.Expr   // the expression under the conversions (locals expanded)
	width int        // width of the innermost expression's own type
	sign  bool
}

type emuCtx struct {
	c      *Ctx
	p      *Prog
	pk     *packages.Package
	info   *types.Info
	arch   string
	xlen   int
	curPC  types.Object              // the local that holds the pc of the executing instruction
	locals map[types.Object]ast.Expr // single-definition locals of the arm under analysis
	busRd  map[types.Object]*ast.CallExpr
}

func (e *emuCtx) isConv(call *ast.CallExpr) bool {
	if len(call.Args) != 1 {
		return false
	}
	tv, ok := e.info.Types[call.Fun]
	return ok && tv.IsType()
}

// strip removes parentheses and conversions, expanding single-definition locals.
func (e *emuCtx) view(x ast.Expr) emuView {
	var v emuView
	for depth := 0; depth < 32; depth++ {
		x = ast.Unparen(x)
		if call, ok := x.(*ast.CallExpr); ok && e.isConv(call) {
			t := e.info.TypeOf(call.Fun)
			if w, s := typeWidth(t); t != nil {
				if b, ok := t.Underlying().(*types.Basic); ok && b.Info()&types.IsInteger != 0 {
					v.convs = append(v.convs, convStep{w, s, types.ExprString(call.Fun)})
				} else {
					v.convs = append(v.convs, convStep{0, false, types.ExprString(call.Fun)})
				}
			}
			x = call.Args[0]
			continue
		}
		if id, ok := x.(*ast.Ident); ok {
			obj := e.info.ObjectOf(id)
			if def, ok := e.locals[obj]; ok {
				// the local's own type is a (possibly implicit) step of the chain
				x = def
				continue
			}
		}
		break
	}
	v.inner = x
	if t := e.info.TypeOf(x); t != nil {
		v.width, v.sign = typeWidth(t)
	}
	v.base = e.baseOf(x)
	return v
}

func (e *emuCtx) regField(x ast.Expr) (string, bool) {
	ix, ok := ast.Unparen(x).(*ast.IndexExpr)
	if !ok {
		return "", false
	}
	sel, ok := ast.Unparen(ix.X).(*ast.SelectorExpr)
	if !ok || sel.Sel.Name != "RegX" {
		return "", false
	}
	if f, ok := e.argField(ix.Index); ok {
		return f, true
	}
	if tv, ok := e.info.Types[ix.Index]; ok && tv.Value != nil {
		return "#" + tv.Value.ExactString(), true
	}
	return "?", true
}

func (e *emuCtx) argField(x ast.Expr) (string, bool) {
	sel, ok := ast.Unparen(x).(*ast.SelectorExpr)
	if !ok {
		return "", false
	}
	if id, ok := sel.X.(*ast.Ident); ok && id.Name == "arg" {
		if v, ok := e.info.ObjectOf(sel.Sel).(*types.Var); ok && v.IsField() {
			return sel.Sel.Name, true
		}
	}
	return "", false
}

func (e *emuCtx) baseOf(x ast.Expr) string {
	x = ast.Unparen(x)
	if f, ok := e.regField(x); ok {
		return "reg:" + f
	}
	if f, ok := e.argField(x); ok {
		if f == "Imm" {
			return "imm"
		}
		return "field:" + f
	}
	if tv, ok := e.info.Types[x]; ok && tv.Value != nil {
		return "const"
	}
	switch n := x.(type) {
	case *ast.Ident:
		obj := e.info.ObjectOf(n)
		if obj != nil && obj == e.curPC {
			return "curpc"
		}
		if _, ok := e.busRd[obj]; ok {
			return "busread"
		}
	case *ast.SelectorExpr:
		if n.Sel.Name == "PC" {
			return "pc"
		}
	}
	return "expr"
}

func (v emuView) outer() (convStep, bool) {
	if len(v.convs) == 0 {
		return convStep{}, false
	}
	return v.convs[0], true
}

// typeChain lists the widths/signedness the value passes through, innermost first.
func (v emuView) typeChain() []convStep {
	out := []convStep{{v.width, v.sign, "inner"}}
	for i := len(v.convs) - 1; i >= 0; i-- {
		if v.convs[i].width > 0 {
			out = append(out, v.convs[i])
		}
	}
	return out
}

// collectLocals records `x := expr` definitions (single assignment) and `value, err := bus.Read(...)`.
func (e *emuCtx) collectLocals(body []ast.Stmt) {
	e.locals = map[types.Object]ast.Expr{}
	e.busRd = map[types.Object]*ast.CallExpr{}
	count := map[types.Object]int{}
	for _, s := range body {
		ast.Inspect(s, func(n ast.Node) bool {
			as, ok := n.(*ast.AssignStmt)
			if !ok {
				return true
			}
			for _, l := range as.Lhs {
				if id, ok := l.(*ast.Ident); ok {
					count[e.info.ObjectOf(id)]++
				}
			}
			if as.Tok == token.DEFINE && len(as.Lhs) == len(as.Rhs) {
				for i, l := range as.Lhs {
					if id, ok := l.(*ast.Ident); ok && id.Name != "_" {
						e.locals[e.info.ObjectOf(id)] = as.Rhs[i]
					}
				}
			}
			if as.Tok == token.DEFINE && len(as.Lhs) == 2 && len(as.Rhs) == 1 {
				if call, ok := as.Rhs[0].(*ast.CallExpr); ok && e.busCall(call) == "Read" {
					if id, ok := as.Lhs[0].(*ast.Ident); ok {
						e.busRd[e.info.ObjectOf(id)] = call
					}
				}
			}
			return true
		})
	}
	for o, n := range count {
		if n > 1 {
			delete(e.locals, o)
		}
	}
}

func (e *emuCtx) busCall(call *ast.CallExpr) string {
	fn := CalleeOf(e.info, call)
	if fn == nil {
		return ""
	}
	full := FuncFullName(fn)
	if strings.HasSuffix(full, "wemu/device.Bus.Read") {
		return "Read"
	}
	if strings.HasSuffix(full, "wemu/device.Bus.Write") {
		return "Write"
	}
	return ""
}

// ---- facts of one arm ----

type emuFacts struct {
	reads               map[string]bool // arg fields read (any use of arg.F)
	regReads            map[string]bool // register operands read: p.RegX[arg.F] on a right-hand side / condition
	rdWrites            []*ast.AssignStmt
	pcWrites            []*ast.AssignStmt
	regWrites           map[string][]*ast.AssignStmt
	busReads, busWrites []*ast.CallExpr
	unsupported         bool
}

func (e *emuCtx) facts(body []ast.Stmt) emuFacts {
	f := emuFacts{reads: map[string]bool{}, regReads: map[string]bool{}, regWrites: map[string][]*ast.AssignStmt{}}
	if len(body) == 0 {
		return f
	}
	// unsupported: the arm only returns an error or panics
	if len(body) == 1 {
		switch s := body[0].(type) {
		case *ast.ReturnStmt:
			if len(s.Results) == 1 {
				if call, ok := s.Results[0].(*ast.CallExpr); ok {
					if fn := CalleeOf(e.info, call); fn != nil && FuncFullName(fn) == "fmt.Errorf" {
						f.unsupported = true
					}
				}
			}
		case *ast.ExprStmt:
			if call, ok := s.X.(*ast.CallExpr); ok {
				if id, ok := call.Fun.(*ast.Ident); ok && id.Name == "panic" {
					f.unsupported = true
				}
			}
		}
	}
	lhs := map[ast.Expr]bool{}
	for _, s := range body {
		ast.Inspect(s, func(n ast.Node) bool {
			as, ok := n.(*ast.AssignStmt)
			if !ok {
				return true
			}
			for _, l := range as.Lhs {
				l = ast.Unparen(l)
				if fld, ok := e.regField(l); ok {
					lhs[l] = true
					f.regWrites[fld] = append(f.regWrites[fld], as)
					if fld == "Rd" {
						f.rdWrites = append(f.rdWrites, as)
					}
				} else if e.baseOf(l) == "pc" {
					lhs[l] = true
					f.pcWrites = append(f.pcWrites, as)
				}
			}
			return true
		})
	}
	for _, s := range body {
		ast.Inspect(s, func(n ast.Node) bool {
			switch x := n.(type) {
			case *ast.IndexExpr:
				if fld, ok := e.regField(x); ok && !lhs[x] {
					f.regReads[fld] = true
				}
			case *ast.SelectorExpr:
				if fld, ok := e.argField(x); ok {
					f.reads[fld] = true
				}
			case *ast.CallExpr:
				switch e.busCall(x) {
				case "Read":
					f.busReads = append(f.busReads, x)
				case "Write":
					f.busWrites = append(f.busWrites, x)
				}
			}
			return true
		})
	}
	return f
}

func (e *emuCtx) constInt(x ast.Expr) (int64, bool) {
	if tv, ok := e.info.Types[x]; ok && tv.Value != nil && tv.Value.Kind() == constant.Int {
		v, ok := constant.Int64Val(tv.Value)
		return v, ok
	}
	return 0, false
}

// coreOp finds the binary operation whose left operand is register a.
func (e *emuCtx) coreOp(body []ast.Stmt, a string) *ast.BinaryExpr {
	var found *ast.BinaryExpr
	for _, s := range body {
		ast.Inspect(s, func(n ast.Node) bool {
			be, ok := n.(*ast.BinaryExpr)
			if !ok || found != nil {
				return found == nil
			}
			switch be.Op {
			case token.ADD, token.SUB, token.XOR, token.OR, token.AND, token.SHL, token.SHR, token.MUL, token.QUO, token.REM:
				if e.view(be.X).base == "reg:"+a {
					found = be
				}
			}
			return found == nil
		})
	}
	return found
}

// ordering evaluates cond for a<b, a==b, a>b where a / b are recognised by base.
func (e *emuCtx) ordering(cond ast.Expr, aBase, bBase string) (res [3]bool, va, vb emuView, ok bool) {
	ok = true
	var ev func(x ast.Expr, rel int) bool
	ev = func(x ast.Expr, rel int) bool {
		switch n := ast.Unparen(x).(type) {
		case *ast.UnaryExpr:
			if n.Op == token.NOT {
				return !ev(n.X, rel)
			}
		case *ast.BinaryExpr:
			switch n.Op {
			case token.LAND:
				l, r := ev(n.X, rel), ev(n.Y, rel)
				return l && r
			case token.LOR:
				l, r := ev(n.X, rel), ev(n.Y, rel)
				return l || r
			case token.LSS, token.GTR, token.LEQ, token.GEQ, token.EQL, token.NEQ:
				l, r := e.view(n.X), e.view(n.Y)
				rr := rel
				switch {
				case l.base == aBase && r.base == bBase:
					va, vb = l, r
				case l.base == bBase && r.base == aBase:
					va, vb = r, l
					rr = -rel
				default:
					ok = false
					return false
				}
				switch n.Op {
				case token.LSS:
					return rr < 0
				case token.GTR:
					return rr > 0
				case token.LEQ:
					return rr <= 0
				case token.GEQ:
					return rr >= 0
				case token.EQL:
					return rr == 0
				case token.NEQ:
					return rr != 0
				}
			}
		}
		ok = false
		return false
	}
	res[0], res[1], res[2] = ev(cond, -1), ev(cond, 0), ev(cond, 1)
	return
}

// viewProblem checks that an operand is seen through the view the operation needs.
func (e *emuCtx) viewProblem(v emuView, signed bool, width int, what string) string {
	o, has := v.outer()
	if v.base == "imm" || v.base == "const" {
		// the immediate is a sign-extended int32; converting it to a narrower type would truncate it
		if has && o.width > 0 && o.width < 32 {
			return what + " immediate narrowed to " + o.name
		}
		if signed && has && !o.signed {
			return what + " immediate is compared/used through the unsigned " + o.name + " in a signed operation"
		}
		return ""
	}
	w, s := v.width, v.sign
	if has && o.width > 0 {
		w, s = o.width, o.signed
	}
	if s != signed {
		return fmt.Sprintf("%s is seen as %s (%s); the instruction needs the %s view", what, signName(s), viewName(v), signName(signed))
	}
	if w != width {
		if w > v.width && v.width < width && signed {
			return fmt.Sprintf("%s: %s widens a %d-bit register, which zero-extends instead of giving the signed view", what, viewName(v), v.width)
		}
		return fmt.Sprintf("%s is seen through %d bits (%s); the instruction works on %d bits", what, w, viewName(v), width)
	}
	// a signed view obtained by widening an unsigned narrower value is a zero-extension
	ch := v.typeChain()
	for i := 1; i < len(ch); i++ {
		if ch[i].width > ch[i-1].width && !ch[i-1].signed && signed {
			return fmt.Sprintf("%s: %s widens an unsigned %d-bit value, which zero-extends instead of giving the signed view", what, viewName(v), ch[i-1].width)
		}
	}
	return ""
}

func signName(s bool) string {
	if s {
		return "signed"
	}
	return "unsigned"
}
func viewName(v emuView) string {
	var s []string
	for _, c := range v.convs {
		s = append(s, c.name)
	}
	if len(s) == 0 {
		return "no conversion"
	}
	return strings.Join(s, "(") + "(…)"
}

// signExtendedWord reports whether the value assigned is the sign extension of a 32-bit result.
func (e *emuCtx) signExtendedWord(rhs ast.Expr) (bool, string) {
	// a constant expression of any spelling (RVUInt(int64(-1)), ^RVUInt(0), …): judged by its value in the register
	if tv, ok := e.info.Types[rhs]; ok && tv.Value != nil && tv.Value.Kind() == constant.Int {
		var c int64
		if s, exact := constant.Int64Val(tv.Value); exact {
			c = s
		} else if u, exact := constant.Uint64Val(tv.Value); exact {
			c = int64(u)
		} else {
			return false, "constant " + tv.Value.ExactString() + " does not fit the register"
		}
		if e.xlen == 32 {
			return true, "" // the register is 32 bits wide: every value is its own low word
		}
		if c == int64(int32(c)) {
			return true, ""
		}
		return false, fmt.Sprintf("constant %d (%#x) is not a sign-extended 32-bit value", c, uint64(c))
	}
	v := e.view(rhs)
	if c, ok := e.constInt(v.inner); ok && len(v.convs) >= 0 {
		if c == int64(int32(c)) {
			return true, ""
		}
		return false, fmt.Sprintf("constant %d is not a sign-extended 32-bit value", c)
	}
	ch := v.typeChain()
	if e.xlen == 32 {
		return true, ""
	}
	saw32 := false
	for i, st := range ch {
		if st.width == 32 {
			saw32 = true
		}
		if i > 0 && st.width > ch[i-1].width {
			if !ch[i-1].signed {
				return false, fmt.Sprintf("the %d-bit intermediate is widened from an unsigned type (%s): zero-extended, the ISA sign-extends the 32-bit result", ch[i-1].width, viewName(v))
			}
			if ch[i-1].width != 32 {
				return false, fmt.Sprintf("widened from %d bits, not from the 32-bit result", ch[i-1].width)
			}
		}
	}
	if !saw32 {
		return false, "the result never passes through a 32-bit type (" + viewName(v) + "): the upper half is not the sign extension of bit 31"
	}
	return true, ""
}

// ---- decoder: which raw fields does each instruction format fill ----

func decoderFieldsRV(pk *packages.Package) map[string]map[string]bool {
	out := map[string]map[string]bool{}
	for _, F := range []string{"R", "R4", "I", "S", "B", "U", "J"} {
		fd := FuncDecl(pk, "_OpcodeType.decode"+F)
		if fd == nil {
			continue
		}
		out[F] = rawWrites(fd.Body)
	}
	return out
}

func rawWrites(n ast.Node) map[string]bool {
	m := map[string]bool{}
	ast.Inspect(n, func(n ast.Node) bool {
		as, ok := n.(*ast.AssignStmt)
		if !ok {
			return true
		}
		for _, l := range as.Lhs {
			if sel, ok := l.(*ast.SelectorExpr); ok {
				if id, ok := sel.X.(*ast.Ident); ok && id.Name == "argRaw" {
					m[sel.Sel.Name] = true
				}
			}
		}
		return true
	})
	return m
}

func decoderFieldsLA(pk *packages.Package) map[string]map[string]bool {
	out := map[string]map[string]bool{}
	fd := FuncDecl(pk, "_OpContextType.decodeInst")
	if fd == nil {
		return out
	}
	for _, sw := range FindSwitches(fd, func(tag ast.Expr) bool { return types.ExprString(tag) == "op.fmt" }) {
		for _, arm := range SwitchArms(pk.TypesInfo, sw) {
			m := map[string]bool{}
			for _, s := range arm.Body {
				for k := range rawWrites(s) {
					m[k] = true
				}
			}
			for _, k := range arm.Consts {
				out[k.Name] = m
			}
		}
	}
	return out
}

// upperImmUnshifted: does the decoder hand the emulator the 20-bit field itself (to be shifted left by 12)?
func upperImmUnshifted(pk *packages.Package, arch string) (bool, bool) {
	info := pk.TypesInfo
	var body ast.Node
	if arch == "loong64" {
		fd := FuncDecl(pk, "_OpContextType.decodeInst")
		if fd == nil {
			return false, false
		}
		for _, sw := range FindSwitches(fd, func(tag ast.Expr) bool { return types.ExprString(tag) == "op.fmt" }) {
			for _, arm := range SwitchArms(info, sw) {
				for _, k := range arm.Consts {
					if k.Name == "OpFormatType_1R_si20" {
						body = arm.Clause
					}
				}
			}
		}
	} else if fd := FuncDecl(pk, "_OpcodeType.decodeU"); fd != nil {
		body = fd.Body
	}
	if body == nil {
		return false, false
	}
	// the definition of imm
	var def ast.Expr
	ast.Inspect(body, func(n ast.Node) bool {
		if as, ok := n.(*ast.AssignStmt); ok && as.Tok == token.DEFINE && len(as.Lhs) == 1 && len(as.Rhs) == 1 {
			if id, ok := as.Lhs[0].(*ast.Ident); ok && id.Name == "imm" && def == nil {
				def = as.Rhs[0]
			}
		}
		return true
	})
	if def == nil {
		return false, false
	}
	s := strings.ReplaceAll(types.ExprString(def), " ", "")
	switch s {
	case "int32(x>>12)", "simm(x,5,20)":
		return true, true
	}
	return false, false
}

// ---- the check ----

func runC20(c *Ctx) {
	c.Explain = "Decides table clauses of the wemu emulators' execInst (riscv64, riscv32, loong64), arm by arm from the type-checked source: " +
		"(1) decoded-fields: an arm reads only raw argument fields that the repository's decoder fills for the instruction's format; (2) operand-signature: it reads and writes the operands the format prescribes (R: rs1, rs2 -> rd; I: rs1, imm -> rd; S: rs1, rs2, imm -> memory; B: rs1, rs2, imm -> pc; U: imm -> rd; J: imm -> rd, pc); " +
		"(3) branch-ordering: branch and set-less-than conditions have the mnemonic's truth table over (a<b, a==b, a>b), through the signed or unsigned view of the register's own width; (4) alu-operator: the Go operator, the signedness and the width of the operand views are the mnemonic's; (5) shift-amount: register shift amounts are reduced to log2(width) bits; " +
		"(6) word-result: 32-bit operations store the sign extension of their 32-bit result; (7) access-width: loads and stores address rs1+imm, transfer the mnemonic's width and extend as the mnemonic says; stores take the value from the right register; (8) upper-immediate / pc-target: LUI/AUIPC-style immediates are shifted by 12 and pc-relative values use the pc of the executing instruction; links hold the next pc; " +
		"(9) rd-alias-order: no source register is read after rd was written (rd may be a source); (10) division-guard: every integer division is guarded by a zero test of the very value it divides by. Arms that return an 'unsupport' error or panic(\"TODO\") are exempt. " +
		"NOT decided: value-level corner cases beyond these clauses, the memory model and devices, instruction decode (C17), floating point, CSR and privileged behaviour, instructions the emulators do not implement."
	c.Trusted = []string{"go/packages, go/types (x/tools v0.29.0)", "RISC-V unprivileged ISA and LoongArch vol.1 semantics tables in c20.go"}
	p := c.Load(LoadOpt{Light: true}, "./internal/native/riscv", "./internal/native/loong64", "./internal/native/wemu/riscv64", "./internal/native/wemu/riscv32", "./internal/native/wemu/loong64")
	rvp := p.MustPkg("operand-signature", "internal/native/riscv")
	lap := p.MustPkg("operand-signature", "internal/native/loong64")
	if rvp == nil || lap == nil {
		return
	}
	rows, format := rvTable(c, p, rvp)
	rvFmt := map[string]string{}
	for _, r := range rows {
		rvFmt[strings.TrimPrefix(r.As, "A")] = format[r.Opcode]
	}
	rvDec := decoderFieldsRV(rvp)
	laDec := decoderFieldsLA(lap)
	c.Min("decoded-fields", "riscv decoder formats", len(rvDec), 6)
	c.Min("decoded-fields", "loong64 decoder formats", len(laDec), 30)

	type archCfg struct {
		arch, uintName, asmPkg string
		specs                  map[string]emuSpec
		min                    int
	}
	for _, a := range []archCfg{
		{"riscv64", "RVUInt", "riscv", rvSpecs, 50},
		{"riscv32", "RVUInt", "riscv", rvSpecs, 50},
		{"loong64", "LAUInt", "loong64", laSpecs, 25},
	} {
		pk := p.MustPkg("operand-signature", "internal/native/wemu/"+a.arch)
		if pk == nil {
			continue
		}
		fd := p.MustFunc("operand-signature", pk, "CPU.execInst")
		if fd == nil {
			continue
		}
		// arms are read with the package's small helpers expanded (inline.go): moving an arm's statements into
		// `p.branchIf(..)` or a whole format group into its own method does not change what the arm does
		fd = &ast.FuncDecl{Doc: fd.Doc, Recv: fd.Recv, Name: fd.Name, Type: fd.Type, Body: InlinedBody(pk, fd)}
		e := &emuCtx{c: c, p: p, pk: pk, info: pk.TypesInfo, arch: a.arch}
		if tn, ok := pk.Types.Scope().Lookup(a.uintName).(*types.TypeName); ok {
			e.xlen, _ = typeWidth(tn.Type())
		}
		if e.xlen != 32 && e.xlen != 64 {
			c.Undecided("operand-signature", a.arch+": register type "+a.uintName, p.Pos(fd.Pos()), "register width not resolved")
			continue
		}
		// curPC: the local defined from p.PC before the pc is advanced
		for _, s := range fd.Body.List {
			if as, ok := s.(*ast.AssignStmt); ok && as.Tok == token.DEFINE && len(as.Lhs) == 1 && len(as.Rhs) == 1 {
				if e.baseOf(as.Rhs[0]) == "pc" && e.curPC == nil {
					e.curPC = e.info.ObjectOf(as.Lhs[0].(*ast.Ident))
				}
			}
		}
		advanced := false
		for _, s := range fd.Body.List {
			if as, ok := s.(*ast.AssignStmt); ok && as.Tok == token.ADD_ASSIGN && len(as.Lhs) == 1 && e.baseOf(as.Lhs[0]) == "pc" {
				if v, ok := e.constInt(as.Rhs[0]); ok && v == 4 {
					advanced = true
				}
			}
		}
		if e.curPC == nil || !advanced {
			c.Undecided("pc-target", a.arch+": curPC := p.PC; p.PC += 4 prologue", p.Pos(fd.Pos()), "the prologue that saves the executing pc and advances p.PC by 4 was not recognised")
			continue
		}
		upperOK, upperKnown := upperImmUnshifted(map[string]*packages.Package{"riscv": rvp, "loong64": lap}[a.asmPkg], a.arch)

		// enumerate arms: (format, mnemonic, arm)
		type armRef struct {
			name, format string
			arm          Arm
		}
		var arms []armRef
		asSwitchTag := func(tag ast.Expr) bool { return types.ExprString(tag) == "as" }
		if a.arch == "loong64" {
			for _, outer := range FindSwitches(fd, func(tag ast.Expr) bool { return strings.Contains(types.ExprString(tag), "AsFormatType") }) {
				for _, fa := range SwitchArms(e.info, outer) {
					if len(fa.Consts) != 1 {
						continue
					}
					for _, s := range fa.Body {
						if sw, ok := s.(*ast.SwitchStmt); ok && sw.Tag != nil && asSwitchTag(sw.Tag) {
							for _, arm := range SwitchArms(e.info, sw) {
								for _, k := range arm.Consts {
									arms = append(arms, armRef{strings.TrimPrefix(k.Name, "A"), fa.Consts[0].Name, arm})
								}
							}
						}
					}
				}
			}
		} else {
			for _, sw := range FindSwitches(fd, asSwitchTag) {
				for _, arm := range SwitchArms(e.info, sw) {
					for _, k := range arm.Consts {
						n := strings.TrimPrefix(k.Name, "A")
						arms = append(arms, armRef{n, rvFmt[n], arm})
					}
				}
				break
			}
		}
		nImpl, nSpec := 0, 0
		var unspecified []string
		for _, ar := range arms {
			e.collectLocals(ar.arm.Body)
			f := e.facts(ar.arm.Body)
			if f.unsupported {
				continue
			}
			if len(ar.arm.Body) == 0 {
				if sp, ok := a.specs[ar.name]; ok && sp.kind != "nop" {
					c.Fail("operand-signature", a.arch+" "+ar.name, p.Pos(ar.arm.Clause.Pos()), "the arm for "+ar.name+" is empty: the instruction is accepted and does nothing")
					nImpl++
				}
				continue
			}
			nImpl++
			key := a.arch + " " + ar.name
			loc := p.Pos(ar.arm.Clause.Pos())

			// (1) decoded fields
			var dec map[string]bool
			if a.arch == "loong64" {
				dec = laDec[ar.format]
			} else {
				dec = rvDec[ar.format]
			}
			if dec == nil {
				c.Undecided("decoded-fields", key, loc, "no decoder found for format "+ar.format)
			} else {
				var missing []string
				for fld := range f.reads {
					if !dec[fld] {
						missing = append(missing, fld)
					}
				}
				sort.Strings(missing)
				c.Check(len(missing) == 0, "decoded-fields", key, loc, "reads "+strings.Join(sortedKeys(f.reads), ",")+" ⊆ decoded "+strings.Join(sortedKeys(dec), ","),
					fmt.Sprintf("emulation of %s reads raw field(s) %s, which the decoder of format %s never fills (they are always 0): decoded fields are %s", ar.name, strings.Join(missing, ","), ar.format, strings.Join(sortedKeys(dec), ",")))
			}

			sp, ok := a.specs[ar.name]
			if !ok {
				unspecified = append(unspecified, ar.name)
				continue
			}
			nSpec++
			if sp.a == "" {
				sp.a = "Rs1"
			}
			if sp.b == "" {
				sp.b = "Rs2"
			}
			e.checkArm(key, loc, ar.name, ar.format, sp, ar.arm, f, upperOK, upperKnown)
		}
		c.Min("operand-signature", a.arch+" implemented arms", nImpl, a.min)
		c.Min("alu-operator", a.arch+" arms with a semantics row", nSpec, a.min-3)
		if len(unspecified) > 0 {
			c.Note("%s: implemented arms without a semantics row (only decoded-fields decided): %s", a.arch, strings.Join(unspecified, " "))
		}
	}
}

func sortedKeys(m map[string]bool) []string {
	var s []string
	for k := range m {
		s = append(s, k)
	}
	sort.Strings(s)
	return s
}

func (e *emuCtx) checkArm(key, loc, name, format string, sp emuSpec, arm Arm, f emuFacts, upperOK, upperKnown bool) {
	c := e.c
	var sig []string
	need := func(cond bool, msg string) {
		if !cond {
			sig = append(sig, msg)
		}
	}
	regA, regB := "reg:"+sp.a, "reg:"+sp.b
	opWidth := e.xlen
	if sp.word {
		opWidth = 32
	}

	// is the pc written with curPC + imm ?
	pcTarget := func(as *ast.AssignStmt) string {
		be, ok := ast.Unparen(as.Rhs[0]).(*ast.BinaryExpr)
		if !ok || be.Op != token.ADD {
			return "pc is not assigned <pc of this instruction> + immediate"
		}
		l, r := e.view(be.X), e.view(be.Y)
		if l.base == "imm" {
			l, r = r, l
		}
		if r.base != "imm" {
			return "the pc offset is not the immediate"
		}
		if l.base != "curpc" {
			return "the target is computed from " + l.base + ", not from the pc of the executing instruction (p.PC was already advanced by 4)"
		}
		return ""
	}
	linkOK := func(rhs ast.Expr) bool {
		v := e.view(rhs)
		if v.base == "pc" {
			return true // p.PC already holds pc+4
		}
		if be, ok := ast.Unparen(v.inner).(*ast.BinaryExpr); ok && be.Op == token.ADD {
			l, r := e.view(be.X), e.view(be.Y)
			if k, ok := e.constInt(r.inner); ok && l.base == "curpc" && k == 4 {
				return true
			}
		}
		return false
	}

	switch sp.kind {
	case "nop":
		need(len(f.rdWrites) == 0 && len(f.pcWrites) == 0, "must have no effect")
	case "float":
		// floating point: only the decoded-fields rule applies
		return
	case "alu":
		need(f.regReads[sp.a], "must read register "+sp.a)
		if sp.imm {
			need(f.reads["Imm"], "must read the immediate")
			need(!f.regReads[sp.b] || sp.b == "Rd", "must not read register "+sp.b)
		} else {
			need(f.regReads[sp.b], "must read register "+sp.b)
			need(!f.reads["Imm"], "must not read the immediate")
		}
		need(len(f.rdWrites) > 0, "must write rd")
		need(len(f.pcWrites) == 0, "must not write pc")
	case "cmpset":
		need(f.regReads[sp.a], "must read register "+sp.a)
		if sp.imm {
			need(f.reads["Imm"], "must read the immediate")
		} else {
			need(f.regReads[sp.b], "must read register "+sp.b)
			need(!f.reads["Imm"], "must not read the immediate")
		}
		need(len(f.rdWrites) > 0 && len(f.pcWrites) == 0, "must write rd only")
	case "branch":
		need(f.regReads[sp.a] && f.regReads[sp.b] && f.reads["Imm"], "must read registers "+sp.a+", "+sp.b+" and the immediate")
		need(len(f.pcWrites) > 0 && len(f.regWrites) == 0, "must write pc only")
	case "load":
		need(f.regReads["Rs1"] && f.reads["Imm"], "must read rs1 and the immediate")
		need(len(f.busReads) == 1 && len(f.busWrites) == 0, "must read memory once")
		need(len(f.rdWrites) > 0, "must write rd")
	case "store":
		need(f.regReads["Rs1"] && f.regReads[sp.val] && f.reads["Imm"], "must read rs1, the value register "+sp.val+" and the immediate")
		need(len(f.busWrites) == 1 && len(f.busReads) == 0, "must write memory once")
		need(len(f.regWrites) == 0, "must not write a register")
	case "upper", "pcupper":
		need(f.reads["Imm"] && len(f.rdWrites) > 0, "must write rd from the immediate")
		need(len(f.regReads) == 0, "must not read source registers")
	case "jal":
		need(f.reads["Imm"] && len(f.rdWrites) > 0 && len(f.pcWrites) > 0, "must write rd (link) and pc from the immediate")
	case "jalr":
		need(f.regReads["Rs1"] && f.reads["Imm"] && len(f.rdWrites) > 0 && len(f.pcWrites) > 0, "must read rs1 and the immediate, write rd (link) and pc")
	case "jump":
		need(f.reads["Imm"] && len(f.pcWrites) > 0 && len(f.regWrites) == 0, "must write pc only, from the immediate")
	case "call":
		need(f.reads["Imm"] && len(f.pcWrites) > 0 && len(f.regWrites["#1"]) > 0, "must write r1 (link) and pc from the immediate")
	}
	c.Check(len(sig) == 0, "operand-signature", key, loc, sp.kind+" signature", fmt.Sprintf("emulation of %s (%s): %s", name, sp.kind, strings.Join(sig, "; ")))

	// (9) rd alias order — all kinds
	if bad := e.readAfterRdWrite(arm.Body); bad != "" {
		c.Fail("rd-alias-order", key, loc, fmt.Sprintf("emulation of %s reads %s after p.RegX[arg.Rd] was written; when rd names the same register the source is already overwritten", name, bad))
	} else {
		c.OK("rd-alias-order", key, loc, "sources read before rd is written")
	}

	switch sp.kind {
	case "branch", "cmpset":
		var cond ast.Expr
		var ifs *ast.IfStmt
		for _, s := range arm.Body {
			if x, ok := s.(*ast.IfStmt); ok && cond == nil {
				cond, ifs = x.Cond, x
			}
		}
		if cond == nil {
			c.Undecided("branch-ordering", key, loc, "no condition found")
			break
		}
		bBase := regB
		if sp.imm {
			bBase = "imm"
		}
		res, va, vb, ok := e.ordering(cond, regA, bBase)
		if !ok {
			c.Undecided("branch-ordering", key, loc, "condition is not a comparison of "+regA+" with "+bBase+": "+types.ExprString(cond))
			break
		}
		var probs []string
		if res != [3]bool{sp.lt, sp.eq, sp.gt} {
			probs = append(probs, fmt.Sprintf("is true for (a<b, a==b, a>b) = (%v,%v,%v); the ISA says (%v,%v,%v)", res[0], res[1], res[2], sp.lt, sp.eq, sp.gt))
		}
		if !(sp.eq && !sp.lt && !sp.gt) && !(!sp.eq && sp.lt && sp.gt) { // ordering comparisons need the right view
			if m := e.viewProblem(va, sp.signed, e.xlen, "left operand"); m != "" {
				probs = append(probs, m)
			}
			if m := e.viewProblem(vb, sp.signed, e.xlen, "right operand"); m != "" {
				probs = append(probs, m)
			}
		} else {
			// equality: both sides must be compared at full width
			for _, v := range []emuView{va, vb} {
				if o, has := v.outer(); has && o.width > 0 && o.width < e.xlen && v.base != "imm" {
					probs = append(probs, "equality compares only "+fmt.Sprint(o.width)+" bits")
				}
			}
		}
		c.Check(len(probs) == 0, "branch-ordering", key, loc, fmt.Sprintf("true for (<,=,>) = %v, %s view", res, signName(sp.signed)), fmt.Sprintf("%s: the condition %s", name, strings.Join(probs, "; ")))
		if sp.kind == "branch" {
			// the taken arm sets pc = curPC + imm, and only the taken arm
			msg := ""
			n := 0
			for _, as := range f.pcWrites {
				if nodeContains(ifs.Body, as) {
					n++
					if m := pcTarget(as); m != "" {
						msg = m
					}
				} else {
					msg = "pc is written outside the taken arm"
				}
			}
			if n == 0 && msg == "" {
				msg = "the taken arm does not write pc"
			}
			c.Check(msg == "", "pc-target", key, loc, "taken: pc = pc(this) + imm", name+": "+msg)
		} else {
			// set: rd = 1 when true, 0 otherwise
			okSet := false
			if ifs.Else != nil {
				thenV, elseV := e.assignedConst(ifs.Body), int64(-1)
				if eb, ok := ifs.Else.(*ast.BlockStmt); ok {
					elseV = e.assignedConst(eb)
				}
				okSet = thenV == 1 && elseV == 0
			}
			c.Check(okSet, "branch-ordering", key+" result", loc, "rd = 1 / 0", name+": rd must become 1 when the condition holds and 0 otherwise")
		}
	case "alu":
		be := e.coreOp(arm.Body, sp.a)
		if be == nil {
			c.Fail("alu-operator", key, loc, "no binary operation with register "+sp.a+" as its left operand found in the emulation of "+name)
			break
		}
		var probs []string
		if be.Op != sp.op {
			probs = append(probs, fmt.Sprintf("applies %q, the instruction computes %q", be.Op.String(), sp.op.String()))
		}
		l, r := e.view(be.X), e.view(be.Y)
		isShift := sp.op == token.SHL || sp.op == token.SHR
		// right operand: the register / immediate (possibly masked, for shifts)
		rb := r
		var maskExpr *ast.BinaryExpr
		if isShift {
			if m, ok := ast.Unparen(r.inner).(*ast.BinaryExpr); ok && (m.Op == token.AND || m.Op == token.REM) {
				maskExpr = m
				rb = e.view(m.X)
				if rb.base == "const" {
					rb = e.view(m.Y)
				}
			}
		}
		wantB := regB
		if sp.imm {
			wantB = "imm"
		}
		if rb.base != wantB {
			probs = append(probs, fmt.Sprintf("second operand is %s, the instruction takes %s", describeBase(rb.base), describeBase(wantB)))
		}
		needsView := sp.op == token.SHR || sp.op == token.QUO || sp.op == token.REM
		if needsView {
			if m := e.viewProblem(l, sp.signed, opWidth, "left operand"); m != "" {
				probs = append(probs, m)
			}
			if !isShift && !sp.imm {
				if m := e.viewProblem(r, sp.signed, opWidth, "right operand"); m != "" {
					probs = append(probs, m)
				}
			}
		} else {
			for _, v := range []emuView{l, r} {
				if v.base == "imm" || v.base == "const" {
					continue
				}
				if o, has := v.outer(); has && o.width > 0 && o.width < opWidth && !(isShift && v.base == r.base) {
					probs = append(probs, fmt.Sprintf("operand narrowed to %d bits (%s) in a %d-bit operation", o.width, viewName(v), opWidth))
				}
			}
		}
		c.Check(len(probs) == 0, "alu-operator", key, loc, "rs1 "+be.Op.String()+" "+describeBase(wantB)+", "+signName(sp.signed)+" "+fmt.Sprint(opWidth)+"-bit view", fmt.Sprintf("emulation of %s: %s", name, strings.Join(probs, "; ")))
		// (5) shift amount of register shifts
		if isShift && !sp.imm {
			okMask := false
			detail := "the shift amount is the whole register: the ISA uses only its low " + fmt.Sprint(log2(opWidth)) + " bits (a Go shift by >= the width gives 0 or the sign)"
			if maskExpr != nil {
				k, ok1 := e.constInt(maskExpr.Y)
				if !ok1 {
					k, ok1 = e.constInt(maskExpr.X)
				}
				if ok1 && ((maskExpr.Op == token.AND && k == int64(opWidth-1)) || (maskExpr.Op == token.REM && k == int64(opWidth))) {
					okMask = true
				} else if ok1 {
					detail = fmt.Sprintf("the shift amount is reduced with %s %d; a %d-bit shift uses the low %d bits of the register", maskExpr.Op, k, opWidth, log2(opWidth))
				}
			}
			c.Check(okMask, "shift-amount", key, loc, fmt.Sprintf("amount & %d", opWidth-1), name+": "+detail)
		}
		// (6) word result
		if sp.word {
			var bad []string
			for _, as := range f.rdWrites {
				if ok, why := e.signExtendedWord(as.Rhs[0]); !ok {
					bad = append(bad, why)
				}
			}
			c.Check(len(bad) == 0, "word-result", key, loc, "rd = sign-extension of the 32-bit result", fmt.Sprintf("emulation of %s: %s", name, strings.Join(bad, "; ")))
		}
		// (10) division guard
		if sp.op == token.QUO || sp.op == token.REM {
			e.checkDivGuard(key, loc, name, arm.Body)
		}
	case "load", "store":
		var call *ast.CallExpr
		if sp.kind == "load" && len(f.busReads) == 1 {
			call = f.busReads[0]
		}
		if sp.kind == "store" && len(f.busWrites) == 1 {
			call = f.busWrites[0]
		}
		if call == nil || len(call.Args) < 2 {
			c.Fail("access-width", key, loc, fmt.Sprintf("%s must transfer %d byte(s); no single memory access found", name, sp.bytes))
			break
		}
		var probs []string
		// address = rs1 + imm
		av := e.view(call.Args[0])
		if be, ok := ast.Unparen(av.inner).(*ast.BinaryExpr); ok && be.Op == token.ADD {
			l, r := e.view(be.X), e.view(be.Y)
			if l.base == "imm" {
				l, r = r, l
			}
			if l.base != "reg:Rs1" || r.base != "imm" {
				probs = append(probs, "the address is not rs1 + immediate")
			}
		} else {
			probs = append(probs, "the address is not rs1 + immediate")
		}
		if n, ok := e.constInt(call.Args[1]); !ok || int(n) != sp.bytes {
			probs = append(probs, fmt.Sprintf("transfers %d byte(s), the instruction transfers %d", n, sp.bytes))
		}
		if sp.kind == "store" {
			if len(call.Args) >= 3 {
				vv := e.view(call.Args[2])
				if vv.base != "reg:"+sp.val {
					probs = append(probs, "stores "+describeBase(vv.base)+", the instruction stores register "+sp.val)
				}
			}
		} else {
			for _, as := range f.rdWrites {
				v := e.view(as.Rhs[0])
				if v.base != "busread" {
					probs = append(probs, "rd is not assigned the value read")
					continue
				}
				ch := v.typeChain() // [inner(uint64), conv..., regtype]
				bits := sp.bytes * 8
				if sp.sext && bits < e.xlen {
					if len(ch) < 2 || ch[1].width != bits || !ch[1].signed {
						probs = append(probs, fmt.Sprintf("the value read must first be converted to int%d to be sign-extended (%s)", bits, viewName(v)))
					} else {
						for i := 2; i < len(ch); i++ {
							if ch[i].width > ch[i-1].width && !ch[i-1].signed {
								probs = append(probs, "the sign-extended value is widened through an unsigned type")
							}
						}
					}
				} else {
					for i := 1; i < len(ch); i++ {
						if ch[i].width < bits && ch[i].width < e.xlen {
							probs = append(probs, fmt.Sprintf("the value read is narrowed to %d bits", ch[i].width))
						}
						if ch[i].signed && ch[i].width < e.xlen {
							probs = append(probs, fmt.Sprintf("an unsigned load passes through the signed type %s: sign-extended", ch[i].name))
						}
					}
				}
			}
		}
		c.Check(len(probs) == 0, "access-width", key, loc, fmt.Sprintf("%d byte(s) at rs1+imm%s", sp.bytes, map[bool]string{true: ", sign-extended", false: ""}[sp.sext]), fmt.Sprintf("emulation of %s: %s", name, strings.Join(probs, "; ")))
	case "upper", "pcupper":
		if !upperKnown {
			c.Undecided("upper-immediate", key, loc, "the decoder's 20-bit immediate expression was not recognised; cannot tell whether the emulator must shift it")
			break
		}
		_ = upperOK
		msg := ""
		for _, as := range f.rdWrites {
			shifted := false
			ast.Inspect(as.Rhs[0], func(n ast.Node) bool {
				if be, ok := n.(*ast.BinaryExpr); ok && be.Op == token.SHL {
					if k, ok := e.constInt(be.Y); ok && k == 12 && e.view(be.X).base == "imm" {
						shifted = true
					}
				}
				return true
			})
			if !shifted {
				msg = "the decoder passes the 20-bit field unshifted; rd must be computed from imm << 12"
			}
			v := e.view(as.Rhs[0])
			if sp.kind == "pcupper" {
				be, ok := ast.Unparen(v.inner).(*ast.BinaryExpr)
				if !ok || be.Op != token.ADD || (e.view(be.X).base != "curpc" && e.view(be.Y).base != "curpc") {
					msg = "rd must be the pc of the executing instruction plus imm << 12"
				}
			} else if be, ok := ast.Unparen(v.inner).(*ast.BinaryExpr); ok && be.Op != token.SHL {
				msg = "rd must be imm << 12 alone"
			}
			// the 32-bit value must be sign-extended into a 64-bit register: the shift happens in int32
			for i, st := range v.typeChain() {
				if i > 0 && st.width > 32 && v.typeChain()[i-1].width == 32 && !v.typeChain()[i-1].signed {
					msg = "imm << 12 is widened from an unsigned 32-bit type: not sign-extended"
				}
			}
		}
		c.Check(msg == "", "upper-immediate", key, loc, "imm << 12", name+": "+msg)
	case "jal", "jalr", "jump", "call":
		msg := ""
		for _, as := range f.pcWrites {
			if sp.kind == "jalr" {
				v := e.view(as.Rhs[0])
				be, ok := ast.Unparen(v.inner).(*ast.BinaryExpr)
				if !ok || be.Op != token.ADD {
					msg = "pc is not assigned rs1 + immediate"
				} else {
					l, r := e.view(be.X), e.view(be.Y)
					if l.base == "imm" {
						l, r = r, l
					}
					if l.base != "reg:Rs1" || r.base != "imm" {
						msg = "pc is not assigned rs1 + immediate"
					}
				}
			} else if m := pcTarget(as); m != "" {
				msg = m
			}
		}
		var links []*ast.AssignStmt
		if sp.kind == "call" {
			links = f.regWrites["#1"]
		} else if sp.kind != "jump" {
			links = f.rdWrites
		}
		for _, as := range links {
			if !linkOK(as.Rhs[0]) {
				msg = "the link register must receive the address of the next instruction (pc + 4)"
			}
		}
		c.Check(msg == "", "pc-target", key, loc, "pc and link", name+": "+msg)
	}
}

func describeBase(b string) string {
	switch {
	case strings.HasPrefix(b, "reg:"):
		return "register " + strings.TrimPrefix(b, "reg:")
	case b == "imm":
		return "the immediate"
	case b == "curpc":
		return "the pc of this instruction"
	case b == "pc":
		return "p.PC"
	case strings.HasPrefix(b, "field:"):
		return "the raw field " + strings.TrimPrefix(b, "field:") + " (a register number, not its value)"
	}
	return "an expression (" + b + ")"
}

func log2(n int) int {
	k := 0
	for n > 1 {
		n >>= 1
		k++
	}
	return k
}

// assignedConst returns the constant assigned to rd in a block with a single assignment, or -1.
func (e *emuCtx) assignedConst(b *ast.BlockStmt) int64 {
	if b == nil || len(b.List) != 1 {
		return -1
	}
	as, ok := b.List[0].(*ast.AssignStmt)
	if !ok || len(as.Lhs) != 1 || len(as.Rhs) != 1 {
		return -1
	}
	if fld, ok := e.regField(as.Lhs[0]); !ok || fld != "Rd" {
		return -1
	}
	if v, ok := e.constInt(as.Rhs[0]); ok {
		return v
	}
	return -1
}

// readAfterRdWrite walks the statements in order, path-sensitively for if/else, and reports a register read that follows a write of rd.
func (e *emuCtx) readAfterRdWrite(body []ast.Stmt) string {
	bad := ""
	var readsIn func(n ast.Node, skip map[ast.Expr]bool) []string
	readsIn = func(n ast.Node, skip map[ast.Expr]bool) []string {
		var out []string
		ast.Inspect(n, func(n ast.Node) bool {
			if ix, ok := n.(*ast.IndexExpr); ok && !skip[ix] {
				if fld, ok := e.regField(ix); ok && fld != "Rd" && !strings.HasPrefix(fld, "#") {
					out = append(out, "p.RegX[arg."+fld+"]")
				}
			}
			return true
		})
		return out
	}
	var walk func(list []ast.Stmt, written bool) bool
	walk = func(list []ast.Stmt, written bool) bool {
		for _, s := range list {
			switch x := s.(type) {
			case *ast.IfStmt:
				if x.Init != nil {
					written = walk([]ast.Stmt{x.Init}, written)
				}
				if written {
					if r := readsIn(x.Cond, nil); len(r) > 0 && bad == "" {
						bad = r[0]
					}
				}
				w1 := walk(x.Body.List, written)
				w2 := written
				switch el := x.Else.(type) {
				case *ast.BlockStmt:
					w2 = walk(el.List, written)
				case *ast.IfStmt:
					w2 = walk([]ast.Stmt{el}, written)
				}
				written = w1 || w2
			case *ast.BlockStmt:
				written = walk(x.List, written)
			case *ast.AssignStmt:
				skip := map[ast.Expr]bool{}
				wr := false
				for _, l := range x.Lhs {
					if fld, ok := e.regField(l); ok {
						skip[ast.Unparen(l)] = true
						if fld == "Rd" {
							wr = true
						}
					}
				}
				if written {
					if r := readsIn(x, skip); len(r) > 0 && bad == "" {
						bad = r[0]
					}
				}
				if wr {
					written = true
				}
			default:
				if written {
					if r := readsIn(s, nil); len(r) > 0 && bad == "" {
						bad = r[0]
					}
				}
			}
		}
		return written
	}
	walk(body, false)
	return bad
}

// checkDivGuard: every / and % is in the then-branch of an if whose condition tests the divisor's own value for zero.
func (e *emuCtx) checkDivGuard(key, loc, name string, body []ast.Stmt) {
	c := e.c
	var probs []string
	n := 0
	var visit func(list []ast.Stmt, guards []emuView)
	checkExpr := func(x ast.Node, guards []emuView) {
		ast.Inspect(x, func(nd ast.Node) bool {
			be, ok := nd.(*ast.BinaryExpr)
			if !ok || (be.Op != token.QUO && be.Op != token.REM) {
				return true
			}
			if _, isConst := e.constInt(be.Y); isConst {
				return true
			}
			n++
			d := e.view(be.Y)
			dw := d.width
			if o, has := d.outer(); has && o.width > 0 {
				dw = o.width
			}
			okG := false
			for _, g := range guards {
				gw := g.width
				if o, has := g.outer(); has && o.width > 0 {
					gw = o.width
				}
				if g.base == d.base && gw == dw {
					okG = true
				}
			}
			if !okG {
				probs = append(probs, fmt.Sprintf("%s divides by %s seen through %d bits, but no enclosing test compares exactly that value with 0: a divisor whose low %d bits are zero passes the guard and the Go division panics", name, describeBase(d.base), dw, dw))
			}
			return true
		})
	}
	visit = func(list []ast.Stmt, guards []emuView) {
		for _, s := range list {
			if ifs, ok := s.(*ast.IfStmt); ok {
				g := guards
				if be, ok := ast.Unparen(ifs.Cond).(*ast.BinaryExpr); ok && be.Op == token.NEQ {
					if k, ok := e.constInt(be.Y); ok && k == 0 {
						g = append(append([]emuView{}, guards...), e.view(be.X))
					}
				}
				visit(ifs.Body.List, g)
				if eb, ok := ifs.Else.(*ast.BlockStmt); ok {
					visit(eb.List, guards)
				}
				continue
			}
			checkExpr(s, guards)
		}
	}
	visit(body, nil)
	if n == 0 {
		return
	}
	c.Check(len(probs) == 0, "division-guard", key, loc, "divisor tested for zero at the width it is divided by", strings.Join(probs, "; "))
}
