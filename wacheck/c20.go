package main

import (
	"fmt"
	"go/ast"
	"go/constant"
	"go/token"
	"go/types"
	"sort"
	"strings"

	"golang.org/x/tools/go/packages"
)

func init() {
	f := "internal/native/wemu/riscv64/cpu.go"
	register(&Property{ID: "C20", Run: runC20, Mutants: []Mutant{
		{Name: "BLT compares unsigned", File: f, Old: "\tcase riscv.ABLT:\n\t\tif int64(p.RegX[arg.Rs1]) < int64(p.RegX[arg.Rs2]) {", New: "\tcase riscv.ABLT:\n\t\tif p.RegX[arg.Rs1] < p.RegX[arg.Rs2] {", Expect: "branch-ordering :: riscv64 BLT"},
		{Name: "BNE taken when equal", File: f, Old: "\tcase riscv.ABNE:\n\t\tif p.RegX[arg.Rs1] != p.RegX[arg.Rs2] {", New: "\tcase riscv.ABNE:\n\t\tif p.RegX[arg.Rs1] == p.RegX[arg.Rs2] {", Expect: "branch-ordering :: riscv64 BNE"},
		{Name: "SUB adds", File: f, Old: "\tcase riscv.ASUB:\n\t\tp.RegX[arg.Rd] = p.RegX[arg.Rs1] - p.RegX[arg.Rs2]", New: "\tcase riscv.ASUB:\n\t\tp.RegX[arg.Rd] = p.RegX[arg.Rs1] + p.RegX[arg.Rs2]", Expect: "alu-operator :: riscv64 SUB"},
		{Name: "LH zero-extends", File: f, Old: "\t\tp.RegX[arg.Rd] = RVUInt(int16(value))", New: "\t\tp.RegX[arg.Rd] = RVUInt(uint16(value))", Expect: "access-width :: riscv64 LH"},
		{Name: "SW stores two bytes", File: f, Old: "\tcase riscv.ASW:\n\t\taddr := p.RegX[arg.Rs1] + RVUInt(arg.Imm)\n\t\tvalue := p.RegX[arg.Rs2]\n\t\tif err := bus.Write(uint64(addr), 4, uint64(value)); err != nil {", New: "\tcase riscv.ASW:\n\t\taddr := p.RegX[arg.Rs1] + RVUInt(arg.Imm)\n\t\tvalue := p.RegX[arg.Rs2]\n\t\tif err := bus.Write(uint64(addr), 2, uint64(value)); err != nil {", Expect: "access-width :: riscv64 SW"},
		{Name: "ADD ignores rs2", File: f, Old: "\tcase riscv.AADD:\n\t\tp.RegX[arg.Rd] = p.RegX[arg.Rs1] + p.RegX[arg.Rs2]", New: "\tcase riscv.AADD:\n\t\tp.RegX[arg.Rd] = p.RegX[arg.Rs1] + p.RegX[arg.Rs1]", Expect: "operand-signature :: riscv64 ADD"},
		{Name: "JAL forgets the link register", File: f, Old: "\t\tp.RegX[arg.Rd] = p.PC\n\t\t// 然后根据当前指令对应的 PC 计算出跳转地址覆盖当前的 PC", New: "\t\t// 然后根据当前指令对应的 PC 计算出跳转地址覆盖当前的 PC", Expect: "operand-signature :: riscv64 JAL"},
		{Name: "RV32 copy diverges", File: "internal/native/wemu/riscv32/cpu.go", Old: "\tcase riscv.AXOR:\n\t\tp.RegX[arg.Rd] = p.RegX[arg.Rs1] ^ p.RegX[arg.Rs2]", New: "\tcase riscv.AXOR:\n\t\tp.RegX[arg.Rd] = p.RegX[arg.Rs1] | p.RegX[arg.Rs2]", Expect: "sibling-equality"},
	}})
}

type emuArm struct {
	As     string
	Arm    Arm
	Reads  map[string]bool // arg fields read
	WrRd   bool
	WrPC   bool
	BusRd  []int64
	BusWr  []int64
	Unsup  bool
	Empty  bool
	Source string
}

func collectEmuArm(pk *packages.Package, p *Prog, arm Arm) emuArm {
	info := pk.TypesInfo
	a := emuArm{Arm: arm, Reads: map[string]bool{}}
	a.Empty = len(arm.Body) == 0
	if len(arm.Body) == 1 {
		if r, ok := arm.Body[0].(*ast.ReturnStmt); ok && len(r.Results) == 1 {
			if call, ok := r.Results[0].(*ast.CallExpr); ok && types.ExprString(call.Fun) == "fmt.Errorf" {
				a.Unsup = true
			}
		}
	}
	lhs := map[ast.Expr]bool{}
	for _, s := range arm.Body {
		ast.Inspect(s, func(n ast.Node) bool {
			if as, ok := n.(*ast.AssignStmt); ok {
				for _, l := range as.Lhs {
					lhs[l] = true
					ls := strings.ReplaceAll(types.ExprString(l), " ", "")
					if ls == "p.RegX[arg.Rd]" {
						a.WrRd = true
					}
					if ls == "p.PC" {
						a.WrPC = true
					}
				}
			}
			return true
		})
	}
	for _, s := range arm.Body {
		ast.Inspect(s, func(n ast.Node) bool {
			switch x := n.(type) {
			case *ast.SelectorExpr:
				if types.ExprString(x.X) == "arg" {
					// arg.Rd used as the index of the destination is a write of the register, not a read of an operand
					a.Reads[x.Sel.Name] = true
				}
			case *ast.CallExpr:
				fn := types.ExprString(x.Fun)
				if (fn == "bus.Read" || fn == "bus.Write") && len(x.Args) >= 2 {
					if tv, ok := info.Types[x.Args[1]]; ok && tv.Value != nil {
						v, _ := constant.Int64Val(tv.Value)
						if fn == "bus.Read" {
							a.BusRd = append(a.BusRd, v)
						} else {
							a.BusWr = append(a.BusWr, v)
						}
					}
				}
			}
			return true
		})
	}
	var sb strings.Builder
	for _, s := range arm.Body {
		sb.WriteString(nodeString(p, s))
		sb.WriteString("\n")
	}
	a.Source = sb.String()
	return a
}

// condOrdering evaluates a comparison of "a" (mentions Rs1) with "b" (mentions Rs2 or Imm) for a<b, a==b, a>b.
func condOrdering(cond ast.Expr) (lt, eq, gt bool, signedView bool, ok bool) {
	var ev func(e ast.Expr, rel int) (bool, bool)
	signedBoth := true
	role := func(e ast.Expr) string {
		s := types.ExprString(e)
		switch {
		case strings.Contains(s, "arg.Rs1"):
			return "a"
		case strings.Contains(s, "arg.Rs2"), strings.Contains(s, "arg.Imm"):
			return "b"
		}
		return ""
	}
	isSignedConv := func(e ast.Expr) bool {
		if call, ok := ast.Unparen(e).(*ast.CallExpr); ok {
			switch types.ExprString(call.Fun) {
			case "int64", "int32", "int":
				return true
			}
		}
		return false
	}
	ev = func(e ast.Expr, rel int) (bool, bool) { // rel: -1 a<b, 0 a==b, 1 a>b
		switch x := ast.Unparen(e).(type) {
		case *ast.UnaryExpr:
			if x.Op == token.NOT {
				v, ok := ev(x.X, rel)
				return !v, ok
			}
		case *ast.BinaryExpr:
			switch x.Op {
			case token.LAND:
				l, ok1 := ev(x.X, rel)
				r, ok2 := ev(x.Y, rel)
				return l && r, ok1 && ok2
			case token.LOR:
				l, ok1 := ev(x.X, rel)
				r, ok2 := ev(x.Y, rel)
				return l || r, ok1 && ok2
			case token.LSS, token.GTR, token.LEQ, token.GEQ, token.EQL, token.NEQ:
				l, r := role(x.X), role(x.Y)
				if l == "" || r == "" || l == r {
					return false, false
				}
				if !(isSignedConv(x.X) && isSignedConv(x.Y)) {
					signedBoth = false
				}
				rr := rel
				if l == "b" {
					rr = -rel
				}
				switch x.Op {
				case token.LSS:
					return rr < 0, true
				case token.GTR:
					return rr > 0, true
				case token.LEQ:
					return rr <= 0, true
				case token.GEQ:
					return rr >= 0, true
				case token.EQL:
					return rr == 0, true
				case token.NEQ:
					return rr != 0, true
				}
			}
		}
		return false, false
	}
	var o1, o2, o3 bool
	lt, o1 = ev(cond, -1)
	eq, o2 = ev(cond, 0)
	gt, o3 = ev(cond, 1)
	return lt, eq, gt, signedBoth, o1 && o2 && o3
}

func runC20(c *Ctx) {
	c.Explain = "Decides table clauses of the wemu RISC-V emulator's execInst (riscv64 and its riscv32 copy): (1) operand signature: each implemented arm reads and writes exactly the raw argument fields the mnemonic's instruction format prescribes (R: rs1, rs2 -> rd; I: rs1, imm -> rd; loads read the bus; S: rs1, rs2, imm -> bus write; B: rs1, rs2, imm -> pc; U: imm -> rd; J: imm -> rd, pc); " +
		"(2) branch / set-less-than conditions have the ordering truth table of the mnemonic (evaluated for a<b, a==b, a>b) in the mnemonic's signedness; (3) ALU arms apply the mnemonic's operator with the right signedness of the operand view; (4) loads and stores transfer the mnemonic's width with the mnemonic's extension; " +
		"(5) riscv32/cpu.go and riscv64/cpu.go stay identical (the file header demands it). Arms that return an 'unsupport' error are exempt. " +
		"NOT decided: value-level corner cases (division overflow, shift-amount masking), the memory model, instruction decode (C17), floating point, and the LoongArch emulator (most of its arms are unimplemented; not covered)."
	c.Trusted = []string{"go/packages, go/types (x/tools v0.29.0)", "RISC-V base ISA semantics table in c20.go"}
	p := c.Load(LoadOpt{Light: true}, "./internal/native/riscv", "./internal/native/wemu/riscv64", "./internal/native/wemu/riscv32")
	rvp := p.MustPkg("operand-signature", "internal/native/riscv")
	if rvp == nil {
		return
	}
	rows, format := rvTable(c, p, rvp)
	fmtOf := map[string]string{}
	opOf := map[string]string{}
	for _, r := range rows {
		fmtOf[r.As] = format[r.Opcode]
		opOf[r.As] = r.Opcode
	}
	sources := map[string]string{}
	for _, arch := range []string{"riscv64", "riscv32"} {
		pk := p.MustPkg("operand-signature", "internal/native/wemu/"+arch)
		if pk == nil {
			continue
		}
		fd := p.MustFunc("operand-signature", pk, "CPU.execInst")
		if fd == nil {
			continue
		}
		sources[arch] = nodeString(p, fd)
		if arch == "riscv32" {
			continue // decided through sibling equality (rule 5) plus the register-width rule below
		}
		var sw *ast.SwitchStmt
		for _, s := range fd.Body.List {
			if x, ok := s.(*ast.SwitchStmt); ok {
				sw = x
			}
		}
		if sw == nil {
			c.Undecided("operand-signature", arch+": switch as", p.Pos(fd.Pos()), "instruction switch not found")
			continue
		}
		nImpl := 0
		for _, arm := range SwitchArms(pk.TypesInfo, sw) {
			for _, k := range arm.Consts {
				as := k.Name
				F := fmtOf[as]
				if F == "" {
					continue
				}
				a := collectEmuArm(pk, p, arm)
				if a.Unsup {
					continue
				}
				nImpl++
				name := strings.TrimPrefix(as, "A")
				loc := p.Pos(arm.Clause.Pos())
				key := arch + " " + name
				// (1) signature
				var bad []string
				need := func(cond bool, msg string) {
					if !cond {
						bad = append(bad, msg)
					}
				}
				isLoad := opOf[as] == "_OpBase_LOAD" || opOf[as] == "_OpBase_LOAD_FP"
				switch F {
				case "R":
					need(a.Reads["Rs1"] && a.Reads["Rs2"], "must read rs1 and rs2")
					need(!a.Reads["Imm"], "must not read the immediate (R-type has none)")
					need(a.WrRd, "must write rd")
				case "I":
					if name == "FENCE" || name == "FENCE_I" {
						break
					}
					need(a.Reads["Rs1"] && a.Reads["Imm"], "must read rs1 and the immediate")
					need(!a.Reads["Rs2"], "must not read rs2 (I-type has none)")
					need(a.WrRd, "must write rd")
					if isLoad {
						need(len(a.BusRd) == 1, "must read memory once")
					}
					if name == "JALR" {
						need(a.WrPC, "must write pc")
					}
				case "S":
					need(a.Reads["Rs1"] && a.Reads["Rs2"] && a.Reads["Imm"], "must read rs1, rs2 and the immediate")
					need(len(a.BusWr) == 1, "must write memory once")
					need(!a.WrRd, "must not write rd")
				case "B":
					need(a.Reads["Rs1"] && a.Reads["Rs2"] && a.Reads["Imm"], "must read rs1, rs2 and the immediate")
					need(a.WrPC && !a.WrRd, "must write pc only")
				case "U":
					need(a.Reads["Imm"] && a.WrRd, "must write rd from the immediate")
					need(!a.Reads["Rs1"] && !a.Reads["Rs2"], "must not read source registers")
				case "J":
					need(a.Reads["Imm"] && a.WrRd && a.WrPC, "must write rd (link) and pc from the immediate")
				}
				c.Check(len(bad) == 0, "operand-signature", key, loc, F+"-type signature", fmt.Sprintf("emulation of %s (%s-type): %s", name, F, strings.Join(bad, "; ")))

				// (2) orderings
				wantOrd := map[string][4]bool{ // lt, eq, gt, signed
					"BEQ": {false, true, false, false}, "BNE": {true, false, true, false},
					"BLT": {true, false, false, true}, "BGE": {false, true, true, true}, "BLTU": {true, false, false, false}, "BGEU": {false, true, true, false},
					"SLT": {true, false, false, true}, "SLTU": {true, false, false, false}, "SLTI": {true, false, false, true}, "SLTIU": {true, false, false, false},
				}
				if w, ok := wantOrd[name]; ok {
					var cond ast.Expr
					for _, s := range arm.Body {
						if ifs, ok := s.(*ast.IfStmt); ok && cond == nil {
							cond = ifs.Cond
						}
					}
					if cond == nil {
						c.Fail("branch-ordering", key, loc, "no condition found")
					} else {
						lt, eq, gt, sv, ok := condOrdering(cond)
						if !ok {
							c.Undecided("branch-ordering", key, loc, "condition is not a comparison of rs1 with rs2/imm: "+types.ExprString(cond))
						} else {
							signOK := name == "BEQ" || name == "BNE" || sv == w[3]
							c.Check(lt == w[0] && eq == w[1] && gt == w[2] && signOK, "branch-ordering", key, loc, fmt.Sprintf("true for (<,=,>) = (%v,%v,%v), signed view %v", lt, eq, gt, sv),
								fmt.Sprintf("%s is taken/set for (rs1<rs2, rs1==rs2, rs1>rs2) = (%v,%v,%v) on a %s comparison; the ISA says (%v,%v,%v) %s", name, lt, eq, gt, map[bool]string{true: "signed", false: "unsigned"}[sv], w[0], w[1], w[2], map[bool]string{true: "signed", false: "unsigned"}[w[3]]))
						}
					}
				}
				// (3) ALU operator
				type alu struct {
					op     string
					signed bool // signed view required on the left operand
					word   bool
				}
				wantALU := map[string]alu{
					"ADD": {"+", false, false}, "SUB": {"-", false, false}, "XOR": {"^", false, false}, "OR": {"|", false, false}, "AND": {"&", false, false},
					"SLL": {"<<", false, false}, "SRL": {">>", false, false}, "SRA": {">>", true, false},
					"ADDI": {"+", false, false}, "XORI": {"^", false, false}, "ORI": {"|", false, false}, "ANDI": {"&", false, false},
					"SLLI": {"<<", false, false}, "SRLI": {">>", false, false}, "SRAI": {">>", true, false},
					"MUL": {"*", false, false}, "DIV": {"/", true, false}, "DIVU": {"/", false, false}, "REM": {"%", true, false}, "REMU": {"%", false, false},
					"ADDW": {"+", false, true}, "SUBW": {"-", false, true}, "SLLW": {"<<", false, true}, "SRLW": {">>", false, true}, "SRAW": {">>", true, true},
					"ADDIW": {"+", false, true}, "SLLIW": {"<<", false, true}, "SRLIW": {">>", false, true}, "SRAIW": {">>", true, true},
					"MULW": {"*", false, true}, "DIVW": {"/", true, true}, "DIVUW": {"/", false, true}, "REMW": {"%", true, true}, "REMUW": {"%", false, true},
				}
				if w, ok := wantALU[name]; ok {
					// the binary expression whose operands mention Rs1 on the left and Rs2/Imm on the right
					var found *ast.BinaryExpr
					for _, s := range arm.Body {
						ast.Inspect(s, func(n ast.Node) bool {
							be, ok := n.(*ast.BinaryExpr)
							if !ok || found != nil {
								return true
							}
							switch be.Op {
							case token.ADD, token.SUB, token.XOR, token.OR, token.AND, token.SHL, token.SHR, token.MUL, token.QUO, token.REM:
								l, r := types.ExprString(be.X), types.ExprString(be.Y)
								if strings.Contains(l, "arg.Rs1") && (strings.Contains(r, "arg.Rs2") || strings.Contains(r, "arg.Imm") || strings.Contains(r, "arg.Rs1")) {
									found = be
								}
							}
							return true
						})
					}
					if found == nil {
						c.Fail("alu-operator", key, loc, "no binary operation of rs1 with rs2/imm found")
					} else {
						got := found.Op.String()
						lsrc := strings.ReplaceAll(types.ExprString(found.X), " ", "")
						// the left operand's view: outermost conversion applied to the register read
						leftSigned := strings.HasPrefix(lsrc, "int64(") || strings.HasPrefix(lsrc, "int32(")
						leftWord := strings.HasPrefix(lsrc, "int32(") || strings.HasPrefix(lsrc, "uint32(")
						var probs []string
						if got != w.op {
							probs = append(probs, fmt.Sprintf("applies %q, the instruction computes %q", got, w.op))
						}
						needsView := w.op == ">>" || w.op == "/" || w.op == "%"
						if needsView && leftSigned != w.signed {
							probs = append(probs, fmt.Sprintf("left operand is viewed as %s, the instruction needs the %s view", map[bool]string{true: "signed", false: "unsigned"}[leftSigned], map[bool]string{true: "signed", false: "unsigned"}[w.signed]))
						}
						if w.word && needsView && !leftWord {
							probs = append(probs, "the *W instruction must operate on the low 32 bits of rs1")
						}
						if !w.word && leftWord {
							probs = append(probs, "operand narrowed to 32 bits in a full-width instruction")
						}
						// register-register forms must take the second operand from rs2
						if fmtOf[as] == "R" && !strings.Contains(types.ExprString(found.Y), "arg.Rs2") {
							probs = append(probs, "second operand is "+types.ExprString(found.Y)+", not register rs2")
						}
						c.Check(len(probs) == 0, "alu-operator", key, loc, "rs1 "+got+" operand", fmt.Sprintf("emulation of %s: %s", name, strings.Join(probs, "; ")))
					}
				}
				// (4) access width
				widths := map[string][2]string{"LB": {"1", "int8("}, "LH": {"2", "int16("}, "LW": {"4", "int32("}, "LD": {"8", ""}, "LBU": {"1", ""}, "LHU": {"2", ""}, "LWU": {"4", ""},
					"SB": {"1", ""}, "SH": {"2", ""}, "SW": {"4", ""}, "SD": {"8", ""}}
				if w, ok := widths[name]; ok {
					sizes := a.BusRd
					if strings.HasPrefix(name, "S") {
						sizes = a.BusWr
					}
					good := len(sizes) == 1 && fmt.Sprint(sizes[0]) == w[0]
					src := strings.ReplaceAll(a.Source, " ", "")
					if w[1] != "" {
						good = good && strings.Contains(src, "RVUInt("+w[1]+"value))")
					} else if strings.HasPrefix(name, "L") {
						good = good && strings.Contains(src, "RVUInt(value)")
					}
					c.Check(good, "access-width", key, loc, w[0]+" bytes"+map[bool]string{true: ", sign-extended", false: ""}[w[1] != ""], fmt.Sprintf("%s must transfer %s byte(s)%s; the arm transfers %v", name, w[0], map[bool]string{true: " and sign-extend through " + w[1] + ")", false: " without sign extension"}[w[1] != ""], sizes))
				}
			}
		}
		c.Min("operand-signature", arch+" implemented arms", nImpl, 50)
	}
	// (5) sibling equality
	if sources["riscv64"] != "" && sources["riscv32"] != "" {
		c.Check(sources["riscv64"] == sources["riscv32"], "sibling-equality", "riscv32/cpu.go execInst == riscv64/cpu.go execInst", "", "identical", "the RV32 and RV64 emulators' execInst differ although the file header demands that both versions stay identical: a fix applied to one is missing in the other")
	}
	// register-width rule for RV32: a signed view through int64 of a 32-bit register is a zero-extension
	if pk := p.Pkg("internal/native/wemu/riscv32"); pk != nil {
		if tn, ok := pk.Types.Scope().Lookup("RVUInt").(*types.TypeName); ok {
			w, _ := typeWidth(tn.Type())
			n := 0
			var first token.Pos
			if fd := FuncDecl(pk, "CPU.execInst"); fd != nil {
				ast.Inspect(fd.Body, func(nd ast.Node) bool {
					call, ok := nd.(*ast.CallExpr)
					if !ok || types.ExprString(call.Fun) != "int64" || len(call.Args) != 1 {
						return true
					}
					if strings.Contains(types.ExprString(call.Args[0]), "p.RegX[") {
						if at := pk.TypesInfo.TypeOf(call.Args[0]); at != nil {
							if aw, _ := typeWidth(at); aw < 64 {
								n++
								if first == token.NoPos {
									first = call.Pos()
								}
							}
						}
					}
					return true
				})
			}
			c.Check(n == 0, "signed-view-width", fmt.Sprintf("riscv32: int64(p.RegX[...]) on a %d-bit register", w), p.Pos(first), "signed views use the register's own width", fmt.Sprintf("%d signed views of a %d-bit register go through int64(...), which zero-extends: BLT/BGE/SLT/SRA/DIV/REM treat negative values as large positive ones on RV32", n, w))
		}
	}
	_ = sort.Strings
}
