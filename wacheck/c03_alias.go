package main

import (
	"fmt"
	"regexp"
	"strings"
)

// C03 operand-read-after-result-write (added after a seeded change was missed): the C templates keep wasm's operand
// stack in numbered slots R<n>. An instruction that pops one operand and pushes one result gets the *same* slot for
// both, so a template that stores the result first and reads the operand afterwards reads its own result
// (`R<ret0> = memory_size; memory_size += R<sp0>` doubles the memory instead of growing it by the delta). For every
// fixed-signature arm the slot numbers follow from the pop/push sequence; the rule walks the template lines in order,
// following the C block structure they print (`if(..) {`, `} else {`, `}`), and reports an operand slot that is read,
// through its pop variable, after a line on the same path has assigned that slot through a push variable.
//
// C03 c-prelude-bit-macros: the embedded C prelude defines clz/ctz with an explicit value for a zero operand (the
// builtins are undefined there); wasm says the operand width. Also the rotate masks are width-1 and the 64-bit forms
// use the `ll` builtins.

var reSlotWrite = regexp.MustCompile(`^\s*(?:\.\w+)?\s*(?:=[^=]|[-+*/|&^]=|<<=|>>=)`)

func c03SlotAliasing(c *Ctx, p *Prog, by map[string]TemplArm, ins map[string]string) {
	const rule = "operand-read-after-result-write"
	n := 0
	for tok, a := range by {
		if a.Fatal {
			continue
		}
		for vi, v := range a.Variants {
			if v.Dyn {
				continue
			}
			// slot numbers relative to the depth at entry
			slot := map[string]int{}
			kind := map[string]string{}
			depth := 0
			for _, o := range v.Ops {
				if o.Kind == "pop" {
					depth--
					if o.Var != "" {
						slot[o.Var], kind[o.Var] = depth, "pop"
					}
				} else {
					if o.Var != "" {
						slot[o.Var], kind[o.Var] = depth, "push"
					}
					depth++
				}
			}
			aliased := false
			for pv, ps := range slot {
				for qv, qs := range slot {
					if kind[pv] == "pop" && kind[qv] == "push" && ps == qs {
						aliased = true
					}
				}
			}
			if !aliased {
				continue
			}
			n++
			type frame struct {
				saved, then map[int]int
			}
			written := map[int]int{} // slot -> line that assigned it through a push variable
			var stack []frame
			cp := func(m map[int]int) map[int]int {
				o := map[int]int{}
				for k, x := range m {
					o[k] = x
				}
				return o
			}
			var probs []string
			for li, l := range v.Lines {
				code := l.Format
				if i := strings.Index(code, "//"); i >= 0 {
					code = code[:i]
				}
				trim := strings.TrimSpace(strings.TrimPrefix(strings.TrimSpace(code), "%s"))
				// reads first (a statement evaluates its right-hand side before it assigns)
				refs := slotRefs(l)
				for _, r := range refs {
					s, known := slot[r.Arg]
					if !known || kind[r.Arg] != "pop" {
						continue
					}
					rest := l.Format[r.Pos+len("R%d"):]
					if reSlotWrite.MatchString(rest) {
						continue // the operand slot itself is assigned (in-place templates): not a read
					}
					if wl, was := written[s]; was {
						probs = append(probs, fmt.Sprintf("line %d reads operand %s (slot %+d) after line %d assigned the result to the same slot", li+1, r.Arg, s, wl+1))
					}
				}
				for _, r := range refs {
					s, known := slot[r.Arg]
					if !known || kind[r.Arg] != "push" {
						continue
					}
					rest := l.Format[r.Pos+len("R%d"):]
					if reSlotWrite.MatchString(rest) {
						if _, was := written[s]; !was {
							written[s] = li
						}
					}
				}
				// block structure printed by the template
				switch {
				case strings.HasPrefix(trim, "}") && strings.Contains(trim, "else") && strings.HasSuffix(trim, "{"):
					if len(stack) > 0 {
						top := &stack[len(stack)-1]
						top.then = cp(written)
						written = cp(top.saved)
					}
				case strings.HasSuffix(trim, "{"):
					stack = append(stack, frame{saved: cp(written)})
				case strings.HasPrefix(trim, "}"):
					if len(stack) > 0 {
						top := stack[len(stack)-1]
						stack = stack[:len(stack)-1]
						other := top.then
						if other == nil {
							other = top.saved
						}
						for k, x := range other {
							if _, ok := written[k]; !ok {
								written[k] = x
							}
						}
					}
				}
			}
			construct := ins[tok]
			if len(a.Variants) > 1 {
				construct = fmt.Sprintf("%s (variant %d)", construct, vi+1)
			}
			c.Check(len(probs) == 0, rule, construct, p.Pos(a.Arm.Clause.Pos()), "operands are read before the result slot is assigned",
				fmt.Sprintf("the C template for %s shares a slot between an operand and its result (the result is pushed where the operand was popped) and %s: the operand is gone when it is needed, so the C program computes with its own result", ins[tok], strings.Join(probs, "; ")))
		}
	}
	c.Min(rule, "arms whose result slot is an operand slot", n, 60)
}

func c03Prelude(c *Ctx) {
	const rule = "c-prelude-bit-macros"
	rel := "internal/wat/watutil/wat2c/_math_x.c"
	src, err := c.ReadFile(rel)
	if err != nil {
		c.Undecided(rule, "anchor:"+rel, rel, "not readable: "+err.Error())
		return
	}
	reZero := regexp.MustCompile(`#define\s+I(32|64)_(CLZ|CTZ)\(x\)\s+\(\(x\)\s*\?\s*__builtin_(clz|ctz)(ll|l)?\(x\)\s*:\s*(\d+)\)`)
	// I32_ROTL(x, y) [(int32_t)]ROTL(<x or (uint32_t)(x)>, <y or (uint32_t)(y)>, 31)
	reRot := regexp.MustCompile(`#define\s+I(32|64)_(ROTL|ROTR)\(x,\s*y\)\s+\(*(?:\(int(?:32|64)_t\))?\s*(ROTL|ROTR)\((.*?),\s*(?:\(uint(?:32|64)_t\)\(y\)|y),\s*(\d+)\)`)
	n := 0
	for i, line := range strings.Split(string(src), "\n") {
		loc := fmt.Sprintf("%s:%d", rel, i+1)
		if m := reZero.FindStringSubmatch(line); m != nil {
			n++
			w, op, bi, suffix, zero := m[1], m[2], m[3], m[4], m[5]
			var probs []string
			if zero != w {
				probs = append(probs, fmt.Sprintf("answers %s for a zero operand, wasm's i%s.%s(0) is %s", zero, w, strings.ToLower(op), w))
			}
			if strings.ToLower(op) != bi {
				probs = append(probs, "uses __builtin_"+bi)
			}
			if (w == "64") != (suffix == "ll") {
				probs = append(probs, "uses the builtin of another width (__builtin_"+bi+suffix+")")
			}
			c.Check(len(probs) == 0, rule, "I"+w+"_"+op, loc, "zero operand -> "+w+", builtin of the operand's width", "I"+w+"_"+op+" "+strings.Join(probs, "; ")+": the C program and the wasm module disagree on that operand")
		}
		if m := reRot.FindStringSubmatch(line); m != nil {
			n++
			w, op, base, xarg, mask := m[1], m[2], m[3], m[4], m[5]
			want := map[string]string{"32": "31", "64": "63"}[w]
			c.Check(mask == want && op == base, rule, "I"+w+"_"+op, loc, "mask "+want, fmt.Sprintf("I%s_%s expands to %s with count mask %s; the count of an i%s rotate is taken modulo %s (mask %s)", w, op, base, mask, w, w, want))
			// the value is rotated as an unsigned number: the templates pass the signed register view, and a right
			// shift of a negative signed value drags the sign bit over the bits that wrap round
			n++
			c.Check(strings.Contains(strings.ReplaceAll(xarg, " ", ""), "(uint"+w+"_t)"), rule, "I"+w+"_"+op+": unsigned operand", loc, "operand cast to uint"+w+"_t",
				fmt.Sprintf("I%s_%s rotates `%s` without casting it to uint%s_t: the generated code passes the signed register view, the right shift inside the rotate is then arithmetic and i%s.%s of a value with the top bit set gets ones in the wrapped positions (i32.rotl 0x80000000 1 = 0xffffffff)", w, op, xarg, w, w, strings.ToLower(op)))
		}
	}
	c.Min(rule, "bit-counting and rotate macros of the C prelude", n, 12)
}
