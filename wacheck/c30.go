package main

import (
	"fmt"
	"go/ast"
	"go/constant"
	"go/token"
	"go/types"
	"strings"
)

func init() {
	f := "internal/app/apptest/apptest.go"
	register(&Property{ID: "C30", Run: runC30, Mutants: []Mutant{
		{Name: "mismatch printed but not recorded", File: f, Old: "\t\t\t\tif firstError == nil {\n\t\t\t\t\tfirstError = fmt.Errorf(\"expect = %q, got = %q\", expect, got)\n\t\t\t\t}\n\t\t\t\tfmt.Printf(\"---- %s.%s\\n\", prog.Manifest.MainPkg, t.Name)", New: "\t\t\t\tfmt.Printf(\"---- %s.%s\\n\", prog.Manifest.MainPkg, t.Name)", Expect: "report-implies-record"},
		{Name: "FAIL verdict exits 0", File: f, Old: "\tif firstError != nil {\n\t\tfmt.Printf(\"FAIL %s %v\\n\", prog.Manifest.MainPkg, time.Since(startTime).Round(time.Millisecond))\n\t\tos.Exit(1)", New: "\tif firstError != nil {\n\t\tfmt.Printf(\"FAIL %s %v\\n\", prog.Manifest.MainPkg, time.Since(startTime).Round(time.Millisecond))\n\t\tos.Exit(0)", Expect: "record-implies-verdict"},
		{Name: "panicking test exits without FAIL", File: f, Old: "\t\t\tfmt.Printf(\"FAIL %s %v\\n\", prog.Manifest.MainPkg, time.Since(startTime).Round(time.Millisecond))\n\t\t\tos.Exit(1)\n\t\t}\n\n\t\tstdout = fmtGotOutput(stdout)", New: "\t\t\tos.Exit(1)\n\t\t}\n\n\t\tstdout = fmtGotOutput(stdout)", Expect: "failing-exit-says-FAIL"},
		{Name: "output contract compared with inequality", File: f, Old: "if t.Output != \"\" && t.Output == string(stdout) {\n\t\t\tcontinue\n\t\t}\n\n\t\tif err != nil {\n\t\t\tif firstError == nil {\n\t\t\t\tfirstError = err\n\t\t\t}\n\t\t\tif _, ok := wazero.AsExitError(err); ok {\n\t\t\t\tfmt.Printf(\"---- %s.%s\\n\", prog.Manifest.MainPkg, t.Name)\n\t\t\t\tif s := sWithPrefix(string(stdout), \"    \"); s != \"\" {\n\t\t\t\t\tfmt.Println(s)\n\t\t\t\t}\n\t\t\t\tif s := sWithPrefix(string(stderr), \"    \"); s != \"\" {\n\t\t\t\t\tfmt.Println(s)\n\t\t\t\t}\n\t\t\t} else {\n\t\t\t\tfmt.Println(err)\n\t\t\t}\n\t\t}\n\n\t\tif t.Output != \"\" {\n\t\t\tif expect, got := t.Output, string(stdout); expect != got {", New: "if t.Output != \"\" && t.Output == string(stdout) {\n\t\t\tcontinue\n\t\t}\n\n\t\tif err != nil {\n\t\t\tif firstError == nil {\n\t\t\t\tfirstError = err\n\t\t\t}\n\t\t\tif _, ok := wazero.AsExitError(err); ok {\n\t\t\t\tfmt.Printf(\"---- %s.%s\\n\", prog.Manifest.MainPkg, t.Name)\n\t\t\t\tif s := sWithPrefix(string(stdout), \"    \"); s != \"\" {\n\t\t\t\t\tfmt.Println(s)\n\t\t\t\t}\n\t\t\t\tif s := sWithPrefix(string(stderr), \"    \"); s != \"\" {\n\t\t\t\t\tfmt.Println(s)\n\t\t\t\t}\n\t\t\t} else {\n\t\t\t\tfmt.Println(err)\n\t\t\t}\n\t\t}\n\n\t\tif t.Output != \"\" {\n\t\t\tif expect, got := t.Output, string(stdout); len(expect) != len(got) {", Expect: "contract-comparison"},
		{Name: "expected panic accepted when the function returned normally", File: f, Old: "if exitCode, _ := wazero.AsExitError(err); exitCode == 0 {\n\t\t\t\tfmt.Printf(\"---- %s.%s\\n\", prog.Manifest.MainPkg, t.Name)\n\t\t\t\tfmt.Printf(\"    expect panic, got = nil\\n\")\n\n\t\t\t\tif firstError == nil {\n\t\t\t\t\tfirstError = fmt.Errorf(\"expect(panic) = %q, got = %q\", expect, \"nil\")\n\t\t\t\t}\n\t\t\t\tcontinue\n\t\t\t}", New: "if exitCode, _ := wazero.AsExitError(err); exitCode == 0 {\n\t\t\t\tcontinue\n\t\t\t}", Expect: "contract-comparison"},
		{Name: "output buffers emptied before the module is instantiated instead of after", File: "internal/wazero/module.go", Old: "func (p *Module) RunFunc(name string, args ...uint64) (result []uint64, stdout, stderr []byte, err error) {\n", New: "func (p *Module) RunFunc(name string, args ...uint64) (result []uint64, stdout, stderr []byte, err error) {\n\tp.stdoutBuffer.Reset()\n\tp.stderrBuffer.Reset()\n", Old2: "\t}\n\n\tp.stdoutBuffer.Reset()\n\tp.stderrBuffer.Reset()\n\tfn := p.wazeroModule.ExportedFunction(name)", New2: "\t}\n\n\tfn := p.wazeroModule.ExportedFunction(name)", Expect: "output-window"},
		{Name: "stderr of the previous test leaks into the next", File: "internal/wazero/module.go", Old: "\tp.stdoutBuffer.Reset()\n\tp.stderrBuffer.Reset()\n\tfn := p.wazeroModule.ExportedFunction(name)", New: "\tp.stdoutBuffer.Reset()\n\tfn := p.wazeroModule.ExportedFunction(name)", Expect: "output-window"},
		{Name: "compile error of the test package exits 0", File: f, Old: "\twatOutput, err := compiler_wat.New().Compile(prog)\n\tif err != nil {\n\t\tfmt.Println(err)\n\t\tos.Exit(1)", New: "\twatOutput, err := compiler_wat.New().Compile(prog)\n\tif err != nil {\n\t\tfmt.Println(err)\n\t\tos.Exit(0)", Expect: "infrastructure-failure-exits-nonzero"},
	}})
}

func isPrintfWithPrefix(info *types.Info, s ast.Stmt, prefix string) bool {
	es, ok := s.(*ast.ExprStmt)
	if !ok {
		return false
	}
	call, ok := es.X.(*ast.CallExpr)
	if !ok {
		return false
	}
	f := CalleeOf(info, call)
	if f == nil || f.Pkg() == nil || f.Pkg().Path() != "fmt" || !strings.HasPrefix(f.Name(), "Print") || len(call.Args) == 0 {
		return false
	}
	if tv, ok := info.Types[call.Args[0]]; ok && tv.Value != nil && tv.Value.Kind() == constant.String {
		return strings.HasPrefix(constant.StringVal(tv.Value), prefix)
	}
	return false
}

func isExitCall(info *types.Info, s ast.Stmt) (code int64, ok bool) {
	es, isES := s.(*ast.ExprStmt)
	if !isES {
		return 0, false
	}
	call, isCall := es.X.(*ast.CallExpr)
	if !isCall {
		return 0, false
	}
	f := CalleeOf(info, call)
	if f == nil || FuncFullName(f) != "os.Exit" || len(call.Args) != 1 {
		return 0, false
	}
	if tv, has := info.Types[call.Args[0]]; has && tv.Value != nil {
		v, _ := constant.Int64Val(tv.Value)
		return v, true
	}
	return -1, true
}

// assignsIdent: the statement list (recursively, through ifs) assigns to the identifier.
func assignsIdent(stmts []ast.Stmt, name string) bool {
	found := false
	for _, s := range stmts {
		ast.Inspect(s, func(n ast.Node) bool {
			if as, ok := n.(*ast.AssignStmt); ok {
				for _, l := range as.Lhs {
					if id, ok := l.(*ast.Ident); ok && id.Name == name {
						found = true
					}
				}
			}
			return true
		})
	}
	return found
}

func runC30(c *Ctx) {
	c.Explain = "Decides the verdict plumbing of `wa test` (apptest.runTest): (1) every statement list that prints a failure header (\"---- pkg.Test\") also records the failure in firstError or exits non-zero; " +
		"(2) the final verdict is `if firstError != nil { print FAIL; os.Exit(non-zero) }` and the `ok` line comes after it; (3) every non-zero exit taken because a test function's run returned an error is preceded by a FAIL line; " +
		"(4) the pass decision compares the normalised output with the declared output by equality, a declared panic fails when the run ended normally and requires the \"panic: \"+expected prefix; " +
		"(5) load, compile, assemble and instantiate errors reach os.Exit(non-zero) on every path. " +
		"NOT decided: output normalisation, test selection patterns, extraction of the // Output: comments in the loader, and that the engine reports every guest failure as an error."
	c.Trusted = []string{"go/packages, go/types, go/ssa (x/tools v0.29.0)"}
	p := c.Load(LoadOpt{}, "./internal/app/apptest")
	pk := p.MustPkg("report-implies-record", "internal/app/apptest")
	if pk == nil {
		return
	}
	info := pk.TypesInfo
	c30Extra(c, p, pk, p.Pkg("internal/loader"))
	if wz := p.MustPkg("output-window", "internal/wazero"); wz != nil {
		c30OutputWindow(c, p, wz)
	}
	fd := p.MustFunc("report-implies-record", pk, "runTest")
	if fd == nil {
		return
	}
	const r1, r2, r3, r4, r5 = "report-implies-record", "record-implies-verdict", "failing-exit-says-FAIL", "contract-comparison", "infrastructure-failure-exits-nonzero"

	// (1) every list containing a "---- " header
	n1 := 0
	var lists [][]ast.Stmt
	ast.Inspect(fd.Body, func(n ast.Node) bool {
		switch x := n.(type) {
		case *ast.BlockStmt:
			lists = append(lists, x.List)
		case *ast.CaseClause:
			lists = append(lists, x.Body)
		}
		return true
	})
	hdrOrd := 0
	for _, l := range lists {
		for _, s := range l {
			if !isPrintfWithPrefix(info, s, "---- ") {
				continue
			}
			hdrOrd++
			n1++
			recorded := assignsIdent(l, "firstError")
			exits := false
			for _, t := range l {
				if code, ok := isExitCall(info, t); ok && code != 0 {
					exits = true
				}
			}
			// the enclosing list may record just before entering this list (if err != nil { firstError = err; if ... { header } })
			if !recorded && !exits {
				// direct parent list only: `firstError = err` (possibly under `if firstError == nil`) in a statement
				// that precedes, in the parent list, the if-statement whose branch prints the header
				for _, outer := range lists {
					for oi, os := range outer {
						ifs, isIf := os.(*ast.IfStmt)
						if !isIf {
							continue
						}
						direct := sameList(ifs.Body.List, l)
						if eb, ok := ifs.Else.(*ast.BlockStmt); ok && sameList(eb.List, l) {
							direct = true
						}
						if !direct {
							continue
						}
						for _, prev := range outer[:oi] {
							switch pv := prev.(type) {
							case *ast.AssignStmt:
								if assignsIdent([]ast.Stmt{pv}, "firstError") {
									recorded = true
								}
							case *ast.IfStmt:
								if strings.ReplaceAll(types.ExprString(pv.Cond), " ", "") == "firstError==nil" && assignsIdent(pv.Body.List, "firstError") {
									recorded = true
								}
							}
						}
					}
				}
			}
			c.Check(recorded || exits, r1, fmt.Sprintf("runTest: failure header #%d", hdrOrd), p.Pos(s.Pos()), "the failure is recorded in firstError (or the run exits non-zero)", "a failure header is printed but the failure is neither recorded in firstError nor followed by a non-zero exit: the package is reported ok")
		}
	}
	c.Min(r1, "failure headers", n1, 8)

	// (2) verdict
	var verdictIf *ast.IfStmt
	okPrintPos := token.NoPos
	for _, s := range fd.Body.List {
		if ifs, ok := s.(*ast.IfStmt); ok {
			if be, ok := ifs.Cond.(*ast.BinaryExpr); ok && be.Op == token.NEQ && types.ExprString(be.X) == "firstError" && types.ExprString(be.Y) == "nil" {
				verdictIf = ifs
			}
		}
		if isPrintfWithPrefix(info, s, "ok ") {
			okPrintPos = s.Pos()
		}
	}
	if verdictIf == nil {
		c.Fail(r2, "runTest: verdict", p.Pos(fd.Pos()), "no top-level `if firstError != nil` found: recorded failures do not reach the verdict")
	} else {
		sawFail, sawExit := false, false
		for _, s := range verdictIf.Body.List {
			if isPrintfWithPrefix(info, s, "FAIL") {
				sawFail = true
			}
			if code, ok := isExitCall(info, s); ok && code != 0 && sawFail {
				sawExit = true
			}
		}
		c.Check(sawFail && sawExit, r2, "runTest: verdict", p.Pos(verdictIf.Pos()), "recorded failure prints FAIL and exits non-zero", "the `firstError != nil` branch does not print a FAIL line followed by os.Exit(non-zero)")
		c.Check(okPrintPos.IsValid() && okPrintPos > verdictIf.End(), r2, "runTest: ok line", p.Pos(okPrintPos), "the ok line is printed only after the failing verdict was ruled out", "the `ok` line is not placed after the `firstError != nil` verdict: a failing package can be reported ok")
	}

	// (3) exits taken on the run error of a test function
	n3 := 0
	for _, l := range lists {
		for i, s := range l {
			ifs, ok := s.(*ast.IfStmt)
			if !ok || types.ExprString(ifs.Cond) != "err != nil" {
				continue
			}
			// nearest preceding assignment to err in this list must be the RunFunc call
			src := ""
			for j := i - 1; j >= 0 && src == ""; j-- {
				if as, ok := l[j].(*ast.AssignStmt); ok {
					for _, lh := range as.Lhs {
						if id, ok := lh.(*ast.Ident); ok && id.Name == "err" && len(as.Rhs) == 1 {
							if call, ok := as.Rhs[0].(*ast.CallExpr); ok {
								if f := CalleeOf(info, call); f != nil {
									src = f.Name()
								}
							}
						}
					}
				}
				if _, isIf := l[j].(*ast.IfStmt); isIf && j < i-1 {
					// an intervening if may have consumed err (OutputPanic branch): keep looking
				}
			}
			if src != "RunFunc" {
				continue
			}
			// exits directly in this branch
			sawFail := false
			for _, t := range ifs.Body.List {
				if isPrintfWithPrefix(info, t, "FAIL") {
					sawFail = true
				}
				if code, ok := isExitCall(info, t); ok && code != 0 {
					n3++
					c.Check(sawFail, r3, fmt.Sprintf("runTest: exit on a failed test run #%d", n3), p.Pos(t.Pos()), "FAIL is printed before the exit", "the command exits non-zero because a test function failed, without printing a FAIL line")
				}
			}
		}
	}
	c.Min(r3, "exits on a failed test run", n3, 2)

	// (4) contract comparisons (one set per loop: tests and examples)
	loops := 0
	for _, s := range fd.Body.List {
		var fs ast.Stmt
		var loopBody *ast.BlockStmt
		switch x := s.(type) {
		case *ast.ForStmt:
			fs, loopBody = x, x.Body
		case *ast.RangeStmt:
			fs, loopBody = x, x.Body
		default:
			continue
		}
		loops++
		name := fmt.Sprintf("runTest: loop #%d", loops)
		passEq, failNeq, panicNil, panicPrefix := false, false, false, false
		ast.Inspect(loopBody, func(n ast.Node) bool {
			ifs, ok := n.(*ast.IfStmt)
			if !ok {
				return true
			}
			cond := strings.ReplaceAll(types.ExprString(ifs.Cond), " ", "")
			records := assignsIdent(ifs.Body.List, "firstError")
			switch {
			case cond == "exitCode==0" && records:
				panicNil = true
			case cond == `!strings.HasPrefix(got,"panic:"+expect)` && records: // spaces were stripped, also inside the literal
				panicPrefix = true
			}
			return true
		})
		// the output comparison is read per world (c30_contract.go): output declared or not, equal to the run's or not
		var why []string
		passEq, failNeq, why = outputContract(info, fd, loopBody)
		c.Check(passEq, r4, name+": pass on equal output", p.Pos(fs.Pos()), "a test passes by its output exactly when an output is declared and equals the run's", "the pass decision is not `t.Output != \"\" && t.Output == string(stdout)`: "+strings.Join(why, "; "))
		c.Check(failNeq, r4, name+": fail on different output", p.Pos(fs.Pos()), "a failure is recorded exactly when an output is declared and differs from the run's", "an output mismatch (expect != got) does not record a failure, or a failure is recorded without one: "+strings.Join(why, "; "))
		c.Check(panicNil, r4, name+": declared panic, normal return", p.Pos(fs.Pos()), "recorded as failure", "a test that declares a panic but returns normally is not recorded as a failure")
		c.Check(panicPrefix, r4, name+": declared panic message", p.Pos(fs.Pos()), "requires the \"panic: \"+expected prefix", "the panic message is not checked against \"panic: \"+expected")
	}
	c.Min(r4, "test/example loops", loops, 2)

	// (5) infrastructure errors
	p.BuildSSA()
	if fn := p.SSAFunc(pk, "runTest"); fn == nil {
		c.Undecided(r5, "anchor:runTest (SSA)", "", "function does not resolve")
	} else {
		n := 0
		seen := map[string]int{}
		for _, t := range errTests(fn) {
			src := describeErrSource(t.Err)
			if !(strings.HasSuffix(src, "loader.LoadProgram") || strings.HasSuffix(src, "Compiler.Compile") || strings.HasSuffix(src, "watutil.Wat2Wasm") || strings.HasSuffix(src, "wazero.BuildModule") || strings.HasSuffix(src, "filepath.Match")) {
				continue
			}
			seen[src]++
			n++
			construct := fmt.Sprintf("runTest: err from %s #%d", src, seen[src])
			bad := ""
			for _, o := range walkPaths(t.NonNil, 3000) {
				switch o.Kind {
				case "exit":
					if k, ok := constInt(o.Val); ok && k == 0 {
						bad = "path ends in os.Exit(0)"
					}
				case "panic":
				default:
					bad = "a path from the error continues to a normal return"
				}
			}
			c.Check(bad == "", r5, construct, instrPos(p, t.If, t.If.Block()), "every path exits non-zero", bad)
		}
		c.Min(r5, "infrastructure error tests", n, 6)
	}
}

func containsStmt(outer ast.Stmt, inner ast.Stmt) bool {
	found := false
	ast.Inspect(outer, func(n ast.Node) bool {
		if n == ast.Node(inner) {
			found = true
		}
		return !found
	})
	return found
}

func sameList(a, b []ast.Stmt) bool {
	return len(a) == len(b) && len(a) > 0 && a[0] == b[0]
}

// dominatesByPosition: an assignment to name occurs in list before the statement that contains target.
func dominatesByPosition(list []ast.Stmt, name string, target ast.Stmt) bool {
	for _, s := range list {
		if containsStmt(s, target) {
			// assignment inside the same top-level statement but before target
			ok := false
			ast.Inspect(s, func(n ast.Node) bool {
				if as, isAs := n.(*ast.AssignStmt); isAs && as.Pos() < target.Pos() {
					for _, l := range as.Lhs {
						if id, isId := l.(*ast.Ident); isId && id.Name == name {
							ok = true
						}
					}
				}
				return true
			})
			return ok
		}
		if assignsIdent([]ast.Stmt{s}, name) {
			return true
		}
	}
	return false
}
