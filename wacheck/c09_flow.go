package main

import (
	"go/ast"
	"go/token"
	"go/types"
	"sort"
	"strings"

	"golang.org/x/tools/go/packages"
)

// tokenFieldWrites computes W(F): the token constants a parser package can store in each token-typed field of the
// shared AST ("GenDecl.Tok" -> {Zh_常量, ...}). Values are resolved through one level of parameter passing and
// through the guards on the parser's current token (`switch p.tok { case C: f(p.tok) }`, `for p.tok == C`, `if p.tok == C`).
func tokenFieldWrites(pk *packages.Package) map[string]map[string]bool {
	info := pk.TypesInfo
	out := map[string]map[string]bool{}
	add := func(f, c string) {
		if out[f] == nil {
			out[f] = map[string]bool{}
		}
		out[f][c] = true
	}
	// parents for guard lookup
	parent := map[ast.Node]ast.Node{}
	for _, f := range pk.Syntax {
		var stack []ast.Node
		ast.Inspect(f, func(n ast.Node) bool {
			if n == nil {
				stack = stack[:len(stack)-1]
				return true
			}
			if len(stack) > 0 {
				parent[n] = stack[len(stack)-1]
			}
			stack = append(stack, n)
			return true
		})
	}
	isCurTok := func(e ast.Expr) bool {
		se, ok := ast.Unparen(e).(*ast.SelectorExpr)
		return ok && se.Sel.Name == "tok" && typeIsNamed(info.TypeOf(se), "internal/token", "Token")
	}
	// guardConsts: constants the parser's current token is known to equal at node n
	guardConsts := func(n ast.Node) []string {
		var res []string
		child := n
		for cur := parent[n]; cur != nil; child, cur = cur, parent[cur] {
			switch x := cur.(type) {
			case *ast.CaseClause:
				if sw, ok := parent[parent[x]].(*ast.SwitchStmt); ok && sw.Tag != nil && isCurTok(sw.Tag) {
					for _, e := range x.List {
						if k := constOfExpr(info, e); k.Name != "" {
							res = append(res, k.Name)
						}
					}
					return res
				}
			case *ast.ForStmt:
				if be, ok := x.Cond.(*ast.BinaryExpr); ok && be.Op == token.EQL && isCurTok(be.X) && child == ast.Node(x.Body) {
					if k := constOfExpr(info, be.Y); k.Name != "" {
						return []string{k.Name}
					}
				}
			case *ast.IfStmt:
				if child == ast.Node(x.Body) {
					if names, ok := curTokDisjunction(info, x.Cond, isCurTok); ok {
						return names
					}
				}
			case *ast.FuncDecl:
				return res
			}
		}
		return res
	}
	funcs := AllFuncDecls(pk)
	// call sites per function object
	type callSite struct {
		call *ast.CallExpr
	}
	calls := map[*types.Func][]*ast.CallExpr{}
	for _, f := range pk.Syntax {
		ast.Inspect(f, func(n ast.Node) bool {
			if c, ok := n.(*ast.CallExpr); ok {
				if fn := CalleeOf(info, c); fn != nil && fn.Pkg() == pk.Types {
					calls[fn] = append(calls[fn], c)
				}
			}
			return true
		})
	}
	var resolve func(e ast.Expr, fd *ast.FuncDecl, at ast.Node, depth int) []string
	resolve = func(e ast.Expr, fd *ast.FuncDecl, at ast.Node, depth int) []string {
		if k := constOfExpr(info, e); k.Name != "" {
			return []string{k.Name}
		}
		if isCurTok(e) {
			return guardConsts(at)
		}
		id, ok := ast.Unparen(e).(*ast.Ident)
		if !ok || depth == 0 || fd == nil {
			return nil
		}
		// parameter?
		idx := -1
		i := 0
		for _, fl := range fd.Type.Params.List {
			for _, nm := range fl.Names {
				if info.ObjectOf(nm) == info.ObjectOf(id) {
					idx = i
				}
				i++
			}
		}
		var res []string
		if idx >= 0 {
			fn, _ := info.Defs[fd.Name].(*types.Func)
			for _, c := range calls[fn] {
				if idx < len(c.Args) {
					// the enclosing function of the call
					var encl *ast.FuncDecl
					for cur := parent[c]; cur != nil; cur = parent[cur] {
						if d, ok := cur.(*ast.FuncDecl); ok {
							encl = d
							break
						}
					}
					res = append(res, resolve(c.Args[idx], encl, c, depth-1)...)
				}
			}
			return res
		}
		// local variable: every assignment `v = <expr>` / `v := <expr>` in the function
		ast.Inspect(fd.Body, func(n ast.Node) bool {
			as, ok := n.(*ast.AssignStmt)
			if !ok || len(as.Lhs) != len(as.Rhs) {
				return true
			}
			for i, l := range as.Lhs {
				if lid, ok := l.(*ast.Ident); ok && info.ObjectOf(lid) == info.ObjectOf(id) {
					res = append(res, resolve(as.Rhs[i], fd, as, depth-1)...)
				}
			}
			return true
		})
		return res
	}
	_ = funcs
	for _, f := range pk.Syntax {
		for _, d := range f.Decls {
			fd, ok := d.(*ast.FuncDecl)
			if !ok || fd.Body == nil {
				continue
			}
			ast.Inspect(fd.Body, func(n ast.Node) bool {
				cl, ok := n.(*ast.CompositeLit)
				if !ok {
					return true
				}
				nt, st := structOf(info.TypeOf(cl), "internal/ast")
				if nt == nil {
					return true
				}
				for _, el := range cl.Elts {
					kv, ok := el.(*ast.KeyValueExpr)
					if !ok {
						continue
					}
					key, ok := kv.Key.(*ast.Ident)
					if !ok {
						continue
					}
					// token-typed field?
					isTok := false
					for i := 0; i < st.NumFields(); i++ {
						if st.Field(i).Name() == key.Name && typeIsNamed(st.Field(i).Type(), "internal/token", "Token") {
							isTok = true
						}
					}
					if !isTok {
						continue
					}
					for _, c := range resolve(kv.Value, fd, kv, 3) {
						add(nt.Obj().Name()+"."+key.Name, c)
					}
				}
				return true
			})
		}
	}
	return out
}

// curTokDisjunction: `p.tok == A || p.tok == B`.
func curTokDisjunction(info *types.Info, e ast.Expr, isCurTok func(ast.Expr) bool) ([]string, bool) {
	e = ast.Unparen(e)
	be, ok := e.(*ast.BinaryExpr)
	if !ok {
		return nil, false
	}
	switch be.Op {
	case token.LOR:
		l, ok1 := curTokDisjunction(info, be.X, isCurTok)
		r, ok2 := curTokDisjunction(info, be.Y, isCurTok)
		return append(l, r...), ok1 && ok2
	case token.EQL:
		if isCurTok(be.X) {
			if k := constOfExpr(info, be.Y); k.Name != "" {
				return []string{k.Name}, true
			}
		}
	}
	return nil, false
}

func keysOf(m map[string]bool) string {
	var s []string
	for k := range m {
		s = append(s, k)
	}
	sort.Strings(s)
	return strings.Join(s, " ")
}
