package main

import (
	"go/ast"
	"go/token"
	"go/types"
	"strings"

	"golang.org/x/tools/go/packages"
)

// C21 extra rules (added after seeded changes were missed):
//   open-replaces-text — textDocument/didOpen carries the authoritative text of the document; DidOpen stores it into
//       the server's copy unconditionally. A store that is skipped when an entry already exists keeps the text of an
//       earlier session (didClose does not remove entries), and every later incremental change is applied to it.
//   change-result-is-text — changedText is what DidChange stores as the new text when it returns no error. Every
//       return with a nil error returns text computed from the changes, never a constant nil: a notification the
//       function does not understand must be an error (the copy is kept), not an empty document.

func c21SyncExtra(c *Ctx, p *Prog, pk *packages.Package) {
	_ = pk.TypesInfo
	const r1 = "open-replaces-text"
	if fd := p.MustFunc(r1, pk, "LSPServer.DidOpen"); fd != nil {
		found, topLevel := false, false
		for _, s := range fd.Body.List {
			if as, ok := s.(*ast.AssignStmt); ok && as.Tok == token.ASSIGN && len(as.Lhs) == 1 {
				if ix, ok := as.Lhs[0].(*ast.IndexExpr); ok && strings.HasSuffix(types.ExprString(ix.X), ".fileMap") && strings.HasSuffix(types.ExprString(as.Rhs[0]), ".Text") {
					found, topLevel = true, true
				}
			}
		}
		if !found {
			ast.Inspect(fd.Body, func(n ast.Node) bool {
				if as, ok := n.(*ast.AssignStmt); ok && len(as.Lhs) == 1 {
					if ix, ok := as.Lhs[0].(*ast.IndexExpr); ok && strings.HasSuffix(types.ExprString(ix.X), ".fileMap") {
						found = true
					}
				}
				return true
			})
		}
		c.Check(found && topLevel, r1, "LSPServer.DidOpen", p.Pos(fd.Pos()), "fileMap[path] = params.TextDocument.Text, unconditionally",
			map[bool]string{true: "DidOpen stores the opened text only under a condition: when it is skipped the server keeps an older text for the document and applies the client's later incremental changes to it", false: "DidOpen does not store the opened text into the server's copy"}[found])
	}
}

// c21ChangeResult: change-result-is-text over the functions that produce the text DidChange stores (the callees of
// textProducerCalls and the package functions they return through, `return s.applyIncrementalChanges(uri, changes)`).
func c21ChangeResult(c *Ctx, p *Prog, pk *packages.Package) {
	const r2 = "change-result-is-text"
	info := pk.TypesInfo
	var work []*ast.FuncDecl
	seen := map[*ast.FuncDecl]bool{}
	add := func(name string) {
		if fd := FuncDecl(pk, name); fd != nil && fd.Body != nil && !seen[fd] {
			seen[fd] = true
			work = append(work, fd)
		}
	}
	for call := range textProducerCalls {
		if f := call.Call.StaticCallee(); f != nil && f.Pkg != nil && f.Pkg.Pkg == pk.Types {
			name := f.Name()
			if recv := f.Signature.Recv(); recv != nil {
				name = namedTypeName(recv.Type()) + "." + name
			}
			add(name)
		}
	}
	n := 0
	for len(work) > 0 {
		fd := work[0]
		work = work[1:]
		var bad []string
		nRet := 0
		ast.Inspect(fd.Body, func(nd ast.Node) bool {
			if _, isLit := nd.(*ast.FuncLit); isLit {
				return false
			}
			rs, ok := nd.(*ast.ReturnStmt)
			if !ok {
				return true
			}
			if len(rs.Results) == 1 {
				// return through another function of the package
				if call, ok := ast.Unparen(rs.Results[0]).(*ast.CallExpr); ok {
					if fn := CalleeOf(info, call); fn != nil && fn.Pkg() == pk.Types {
						name := fn.Name()
						if sig, ok := fn.Type().(*types.Signature); ok && sig.Recv() != nil {
							name = namedTypeName(sig.Recv().Type()) + "." + name
						}
						add(name)
					}
				}
				return true
			}
			if len(rs.Results) != 2 {
				return true
			}
			nRet++
			errNil := false
			if tv, ok := info.Types[rs.Results[1]]; ok && tv.IsNil() {
				errNil = true
			}
			if tv, ok := info.Types[rs.Results[0]]; ok && tv.IsNil() && errNil {
				bad = append(bad, p.Pos(rs.Pos()))
			}
			return true
		})
		n++
		c.Check(len(bad) == 0, r2, declName(fd), p.Pos(fd.Pos()), "no `return nil, nil`",
			declName(fd)+" returns (nil, nil) at "+strings.Join(bad, ", ")+": DidChange stores the result as the document's new text when the error is nil, so the server's copy becomes empty and later incremental changes are applied to the empty text")
	}
	c.Min(r2, "functions that produce the stored text", n, 1)
}
