package main

import (
	"go/ast"
	"go/token"
	"go/types"
	"strings"

	"golang.org/x/tools/go/packages"
)

// C21 extra rules (added after seeded changes were missed):
//   open-replaces-text — textDocument/didOpen carries the authoritative text of the document; DidOpen stores it into
//       the server's copy unconditionally. A store that is skipped when an entry already exists keeps the text of an
//       earlier session (didClose does not remove entries), and every later incremental change is applied to it.
//   change-result-is-text — changedText is what DidChange stores as the new text when it returns no error. Every
//       return with a nil error returns text computed from the changes, never a constant nil: a notification the
//       function does not understand must be an error (the copy is kept), not an empty document.

func c21SyncExtra(c *Ctx, p *Prog, pk *packages.Package) {
	info := pk.TypesInfo
	const r1, r2 = "open-replaces-text", "change-result-is-text"
	if fd := p.MustFunc(r1, pk, "LSPServer.DidOpen"); fd != nil {
		found, topLevel := false, false
		for _, s := range fd.Body.List {
			if as, ok := s.(*ast.AssignStmt); ok && as.Tok == token.ASSIGN && len(as.Lhs) == 1 {
				if ix, ok := as.Lhs[0].(*ast.IndexExpr); ok && strings.HasSuffix(types.ExprString(ix.X), ".fileMap") && strings.HasSuffix(types.ExprString(as.Rhs[0]), ".Text") {
					found, topLevel = true, true
				}
			}
		}
		if !found {
			ast.Inspect(fd.Body, func(n ast.Node) bool {
				if as, ok := n.(*ast.AssignStmt); ok && len(as.Lhs) == 1 {
					if ix, ok := as.Lhs[0].(*ast.IndexExpr); ok && strings.HasSuffix(types.ExprString(ix.X), ".fileMap") {
						found = true
					}
				}
				return true
			})
		}
		c.Check(found && topLevel, r1, "LSPServer.DidOpen", p.Pos(fd.Pos()), "fileMap[path] = params.TextDocument.Text, unconditionally",
			map[bool]string{true: "DidOpen stores the opened text only under a condition: when it is skipped the server keeps an older text for the document and applies the client's later incremental changes to it", false: "DidOpen does not store the opened text into the server's copy"}[found])
	}
	if fd := p.MustFunc(r2, pk, "LSPServer.changedText"); fd != nil {
		var bad []string
		n := 0
		ast.Inspect(fd.Body, func(nd ast.Node) bool {
			if _, isLit := nd.(*ast.FuncLit); isLit {
				return false
			}
			rs, ok := nd.(*ast.ReturnStmt)
			if !ok || len(rs.Results) != 2 {
				return true
			}
			n++
			errNil := false
			if tv, ok := info.Types[rs.Results[1]]; ok && tv.IsNil() {
				errNil = true
			}
			if tv, ok := info.Types[rs.Results[0]]; ok && tv.IsNil() && errNil {
				bad = append(bad, p.Pos(rs.Pos()))
			}
			return true
		})
		c.Check(len(bad) == 0 && n > 0, r2, "LSPServer.changedText", p.Pos(fd.Pos()), "no `return nil, nil`",
			"changedText returns (nil, nil) at "+strings.Join(bad, ", ")+": DidChange stores the result as the document's new text when the error is nil, so the server's copy becomes empty and later incremental changes are applied to the empty text")
	}
}
