package main

import (
	"go/ast"
	"go/types"
	"sort"
	"strings"
)

// C29 rule engine-trap-status-exhaustive: the compiling engine leaves native code with a status code. The call loop
// handles the non-trap statuses itself and sends every other one to causePanic, which maps it to the error that is
// raised. Every constant of the status type therefore has an arm in the call loop's switch or an arm in causePanic
// that assigns the error: a status with neither ends in panic(nil), which recover() reports as "no panic" under the
// module's go directive (< 1.21), the trap is swallowed and `wa run` exits 0.

func c29TrapStatus(c *Ctx, p *Prog) {
	const rule = "engine-trap-status-exhaustive"
	pk := p.MustPkg(rule, "internal/3rdparty/wazero/internal/engine/compiler")
	if pk == nil {
		return
	}
	info := pk.TypesInfo
	tn, _ := pk.Types.Scope().Lookup("nativeCallStatusCode").(*types.TypeName)
	if tn == nil {
		c.Undecided(rule, "anchor:nativeCallStatusCode", "", "status type no longer resolves")
		return
	}
	var consts []string
	for _, n := range pk.Types.Scope().Names() {
		if k, ok := pk.Types.Scope().Lookup(n).(*types.Const); ok && types.Identical(k.Type(), tn.Type()) {
			consts = append(consts, n)
		}
	}
	sort.Strings(consts)
	cp := p.MustFunc(rule, pk, "nativeCallStatusCode.causePanic")
	if cp == nil {
		return
	}
	armsOf := func(sw *ast.SwitchStmt, needAssign bool) (map[string]bool, bool) {
		out := map[string]bool{}
		hasDefault := false
		for _, s := range sw.Body.List {
			cc := s.(*ast.CaseClause)
			if cc.List == nil {
				hasDefault = true
				continue
			}
			ok := !needAssign
			for _, b := range cc.Body {
				if as, isAs := b.(*ast.AssignStmt); isAs && len(as.Rhs) == 1 {
					if tv, has := info.Types[as.Rhs[0]]; has && !tv.IsNil() && isErrorType(info.TypeOf(as.Lhs[0])) {
						ok = true
					}
				}
			}
			if !ok {
				continue
			}
			for _, e := range cc.List {
				if id, isID := ast.Unparen(e).(*ast.Ident); isID {
					out[id.Name] = true
				}
			}
		}
		return out, hasDefault
	}
	var panicArms map[string]bool
	ast.Inspect(cp.Body, func(n ast.Node) bool {
		if sw, ok := n.(*ast.SwitchStmt); ok && panicArms == nil {
			panicArms, _ = armsOf(sw, true)
		}
		return true
	})
	// the call loop: a switch over a value of the status type whose default calls causePanic
	var loopArms map[string]bool
	var loopFn string
	for _, f := range pk.Syntax {
		for _, d := range f.Decls {
			fd, ok := d.(*ast.FuncDecl)
			if !ok || fd.Body == nil || fd == cp {
				continue
			}
			ast.Inspect(fd.Body, func(n ast.Node) bool {
				sw, ok := n.(*ast.SwitchStmt)
				if !ok || sw.Tag == nil || !types.Identical(info.TypeOf(sw.Tag), tn.Type()) {
					return true
				}
				sendsRest := false
				for _, s := range sw.Body.List {
					cc := s.(*ast.CaseClause)
					if cc.List != nil {
						continue
					}
					ast.Inspect(cc, func(m ast.Node) bool {
						if call, ok := m.(*ast.CallExpr); ok {
							if fn := CalleeOf(info, call); fn != nil && fn.Name() == "causePanic" {
								sendsRest = true
							}
						}
						return true
					})
				}
				if sendsRest {
					loopArms, _ = armsOf(sw, false)
					loopFn = declName(fd)
				}
				return true
			})
		}
	}
	if panicArms == nil || loopArms == nil {
		c.Undecided(rule, "anchor:status switches", p.Pos(cp.Pos()), "the call loop's status switch (default → causePanic) or causePanic's switch was not found")
		return
	}
	var missing []string
	for _, k := range consts {
		if !panicArms[k] && !loopArms[k] {
			missing = append(missing, k)
		}
	}
	c.Check(len(missing) == 0, rule, "nativeCallStatusCode: "+loopFn+" + causePanic", p.Pos(cp.Pos()), "every status is handled by the call loop or mapped to an error by causePanic",
		"status "+strings.Join(missing, ", ")+" is neither handled in "+loopFn+" nor mapped to an error in causePanic: native code that exits with it makes causePanic call panic(nil); under this module's go directive recover() then reports no panic, the trap is lost and `wa run` exits 0")
	c.Min(rule, "status constants", len(consts), 8)
}
