package main

import (
	"fmt"
	"go/ast"
	"go/constant"
	"go/token"
	"go/types"
	"sort"
	"strings"

	"golang.org/x/tools/go/packages"
)

// C05 optional-name-guarded and token-separation (added after two defects were found on the unchanged tree:
// `(func (param i32))` — a function without a name — made the printer index an empty string, and a named data segment
// was printed as `(data$d …`, which does not re-parse).
//
//   optional-name-guarded — some functions of the printer index their string parameter at a constant without testing
//       its length (watPrinter_identOrIndex reads s[0]): they require a non-empty argument. An argument that is a field
//       the parser fills only on one branch (`if p.tok == token.IDENT { fn.Name = … }`) is optional, and each such call
//       must sit under a test that the field is not empty.
//   token-separation — within one printer function the text written to one writer is followed in order; a piece that
//       begins with an identifier character (an identifier, a number, a keyword) never directly follows a piece that ends
//       with one: the two would be read back as a single token.

type strFacts struct{ nonEmpty map[string]bool }

func (f *strFacts) Copy() flowFacts {
	n := &strFacts{nonEmpty: map[string]bool{}}
	for k := range f.nonEmpty {
		n.nonEmpty[k] = true
	}
	return n
}
func (f *strFacts) Reset() { f.nonEmpty = map[string]bool{} }

func strFactHooks(info *types.Info) *flowHooks {
	h := &flowHooks{}
	h.Facts = func(cond ast.Expr, want bool, ff flowFacts) {
		f := ff.(*strFacts)
		cond = ast.Unparen(cond)
		if ue, ok := cond.(*ast.UnaryExpr); ok && ue.Op == token.NOT {
			h.Facts(ue.X, !want, ff)
			return
		}
		be, ok := cond.(*ast.BinaryExpr)
		if !ok {
			return
		}
		switch {
		case be.Op == token.LAND && want, be.Op == token.LOR && !want:
			h.Facts(be.X, want, ff)
			h.Facts(be.Y, want, ff)
			return
		}
		isEmptyLit := func(e ast.Expr) bool {
			tv, ok := info.Types[e]
			return ok && tv.Value != nil && tv.Value.Kind() == constant.String && constant.StringVal(tv.Value) == ""
		}
		lenOf := func(e ast.Expr) (string, bool) {
			call, ok := ast.Unparen(e).(*ast.CallExpr)
			if !ok || len(call.Args) != 1 {
				return "", false
			}
			if id, ok := call.Fun.(*ast.Ident); !ok || id.Name != "len" {
				return "", false
			}
			return types.ExprString(ast.Unparen(call.Args[0])), true
		}
		x, y, op := be.X, be.Y, be.Op
		flip := map[token.Token]token.Token{token.LSS: token.GTR, token.GTR: token.LSS, token.LEQ: token.GEQ, token.GEQ: token.LEQ, token.EQL: token.EQL, token.NEQ: token.NEQ}
		if isEmptyLit(x) {
			x, y, op = y, x, flip[op]
		} else if _, ok := constIntOf(info, x); ok {
			x, y, op = y, x, flip[op]
		}
		if isEmptyLit(y) {
			if (op == token.NEQ && want) || (op == token.EQL && !want) {
				f.nonEmpty[types.ExprString(ast.Unparen(x))] = true
			}
			return
		}
		if s, ok := lenOf(x); ok {
			if k, ok := constIntOf(info, y); ok {
				pos := (op == token.GTR && k >= 0) || (op == token.GEQ && k >= 1) || (op == token.NEQ && k == 0)
				neg := (op == token.EQL && k == 0) || (op == token.LSS && k <= 1) || (op == token.LEQ && k <= 0)
				if (pos && want) || (neg && !want) {
					f.nonEmpty[s] = true
				}
			}
		}
	}
	h.Assign = func(as *ast.AssignStmt, ff flowFacts) {
		f := ff.(*strFacts)
		for _, l := range as.Lhs {
			delete(f.nonEmpty, types.ExprString(ast.Unparen(l)))
		}
	}
	return h
}

// needNonEmptyFuncs: functions of pk that read param[k] for a string parameter without an enclosing length test.
func needNonEmptyFuncs(pk *packages.Package) map[*types.Func]int {
	info := pk.TypesInfo
	out := map[*types.Func]int{}
	for _, fd := range AllFuncDecls(pk) {
		if fd.Body == nil || fd.Type.Params == nil {
			continue
		}
		fn, _ := info.Defs[fd.Name].(*types.Func)
		if fn == nil {
			continue
		}
		params := map[types.Object]int{}
		i := 0
		for _, fl := range fd.Type.Params.List {
			for _, nm := range fl.Names {
				if b, ok := info.TypeOf(fl.Type).Underlying().(*types.Basic); ok && b.Info()&types.IsString != 0 {
					params[info.Defs[nm]] = i
				}
				i++
			}
			if len(fl.Names) == 0 {
				i++
			}
		}
		if len(params) == 0 {
			continue
		}
		h := strFactHooks(info)
		h.Expr = func(e ast.Expr, ff flowFacts) bool {
			ix, ok := e.(*ast.IndexExpr)
			if !ok {
				return true
			}
			id, ok := ast.Unparen(ix.X).(*ast.Ident)
			if !ok {
				return true
			}
			k, isParam := params[info.ObjectOf(id)]
			if !isParam {
				return true
			}
			if _, ok := constIntOf(info, ix.Index); !ok {
				return true
			}
			if !ff.(*strFacts).nonEmpty[id.Name] {
				out[fn] = k
			}
			return true
		}
		h.stmts(fd.Body.List, &strFacts{nonEmpty: map[string]bool{}})
	}
	return out
}

// parserFieldWrites: "Type.Field" -> the parser's writes of that field, each with whether it sits under an if that has
// no matching write on the other branch, and the constants of the case clauses around it.
type fieldWrite struct {
	cond  bool
	cases []string
}

func parserFieldWrites(pr *packages.Package) map[string][]fieldWrite {
	info := pr.TypesInfo
	out := map[string][]fieldWrite{}
	fieldOf := func(l ast.Expr) string {
		if se, ok := ast.Unparen(l).(*ast.SelectorExpr); ok {
			if sel, ok := info.Selections[se]; ok && sel.Kind() == types.FieldVal {
				return namedTypeName(sel.Recv()) + "." + se.Sel.Name
			}
		}
		return ""
	}
	written := func(n ast.Node) map[string]bool {
		w := map[string]bool{}
		if n == nil {
			return w
		}
		ast.Inspect(n, func(m ast.Node) bool {
			if as, ok := m.(*ast.AssignStmt); ok {
				for _, l := range as.Lhs {
					if f := fieldOf(l); f != "" {
						w[f] = true
					}
				}
			}
			return true
		})
		return w
	}
	for _, fd := range AllFuncDecls(pr) {
		if fd.Body == nil {
			continue
		}
		var walk func(n ast.Node, cond bool, exempt map[string]bool, cases []string)
		walk = func(n ast.Node, cond bool, exempt map[string]bool, cases []string) {
			ast.Inspect(n, func(m ast.Node) bool {
				if m == nil || m == n {
					return true
				}
				switch x := m.(type) {
				case *ast.IfStmt:
					if x.Init != nil {
						walk(x.Init, cond, exempt, cases)
					}
					both := map[string]bool{}
					if x.Else != nil {
						e := written(x.Else)
						for f := range written(x.Body) {
							if e[f] {
								both[f] = true
							}
						}
					}
					if !cond {
						walk(x.Body, true, both, cases)
						if x.Else != nil {
							walk(x.Else, true, both, cases)
						}
					} else {
						walk(x.Body, true, nil, cases)
						if x.Else != nil {
							walk(x.Else, true, nil, cases)
						}
					}
					return false
				case *ast.CaseClause:
					var cs []string
					cs = append(cs, cases...)
					for _, e := range x.List {
						switch k := ast.Unparen(e).(type) {
						case *ast.SelectorExpr:
							cs = append(cs, k.Sel.Name)
						case *ast.Ident:
							cs = append(cs, k.Name)
						}
					}
					if x.List == nil {
						cs = append(cs, "default")
					}
					for _, s := range x.Body {
						walk(s, cond, exempt, cs)
					}
					return false
				case *ast.AssignStmt:
					for _, l := range x.Lhs {
						if f := fieldOf(l); f != "" {
							out[f] = append(out[f], fieldWrite{cond: cond && !exempt[f], cases: cases})
						}
					}
				case *ast.CompositeLit:
					tn := namedTypeName(info.TypeOf(x))
					if tn == "" {
						return true
					}
					for _, el := range x.Elts {
						if kv, ok := el.(*ast.KeyValueExpr); ok {
							if id, ok := kv.Key.(*ast.Ident); ok {
								out[tn+"."+id.Name] = append(out[tn+"."+id.Name], fieldWrite{cond: cond, cases: cases})
							}
						}
					}
				}
				return true
			})
		}
		walk(fd.Body, false, nil, nil)
	}
	return out
}

// enclosingCases: for every call in fd, the constants of the case clauses around it.
func enclosingCases(fd *ast.FuncDecl) map[*ast.CallExpr][]string {
	out := map[*ast.CallExpr][]string{}
	var walk func(n ast.Node, cases []string)
	walk = func(n ast.Node, cases []string) {
		ast.Inspect(n, func(m ast.Node) bool {
			if m == nil || m == n {
				return true
			}
			switch x := m.(type) {
			case *ast.CaseClause:
				var cs []string
				cs = append(cs, cases...)
				for _, e := range x.List {
					switch k := ast.Unparen(e).(type) {
					case *ast.SelectorExpr:
						cs = append(cs, k.Sel.Name)
					case *ast.Ident:
						cs = append(cs, k.Name)
					}
				}
				for _, e := range x.List {
					walk(e, cases)
				}
				for _, s := range x.Body {
					walk(s, cs)
				}
				return false
			case *ast.CallExpr:
				out[x] = cases
			}
			return true
		})
	}
	walk(fd.Body, nil)
	return out
}

func c05OptionalNames(c *Ctx, p *Prog, pr, pp *packages.Package) {
	const rule = "optional-name-guarded"
	info := pp.TypesInfo
	need := needNonEmptyFuncs(pp)
	c.Min(rule, "printer functions that index a string parameter without a length test", len(need), 1)
	writes := parserFieldWrites(pr)
	nGuard, nReq, nOther := 0, 0, 0
	seq := map[string]int{}
	var names []string
	decls := AllFuncDecls(pp)
	for k := range decls {
		names = append(names, k)
	}
	sort.Strings(names)
	for _, name := range names {
		fd := decls[name]
		if fd.Body == nil {
			continue
		}
		h := strFactHooks(info)
		encl := enclosingCases(fd)
		h.Expr = func(e ast.Expr, ff flowFacts) bool {
			call, ok := e.(*ast.CallExpr)
			if !ok {
				return true
			}
			fn := CalleeOf(info, call)
			k, req := need[fn]
			if !req || k >= len(call.Args) {
				return true
			}
			arg := ast.Unparen(call.Args[k])
			txt := types.ExprString(arg)
			if ff.(*strFacts).nonEmpty[txt] {
				nGuard++
				return true
			}
			se, ok := arg.(*ast.SelectorExpr)
			if !ok {
				nOther++
				return true
			}
			sel, ok := info.Selections[se]
			if !ok || sel.Kind() != types.FieldVal {
				nOther++
				return true
			}
			field := namedTypeName(sel.Recv()) + "." + se.Sel.Name
			ws, written := writes[field]
			if !written {
				nOther++
				return true
			}
			// the writes that correspond to this site: those under a case clause with one of the constants this call
			// sits under (the parser's `case token.MEMORY:` fills what the printer's `case token.MEMORY:` prints)
			here := map[string]bool{}
			for _, k := range encl[call] {
				here[k] = true
			}
			var rel []fieldWrite
			for _, w := range ws {
				for _, k := range w.cases {
					if here[k] {
						rel = append(rel, w)
						break
					}
				}
			}
			if len(rel) == 0 {
				for _, w := range ws {
					if len(w.cases) > 0 {
						w.cond = true // written on one arm of a switch this site is not correlated with
					}
					rel = append(rel, w)
				}
			}
			uncond := true
			for _, w := range rel {
				if w.cond {
					uncond = false
				}
			}
			key := fmt.Sprintf("%s: %s(%s)", name, fn.Name(), field)
			seq[key]++
			if seq[key] > 1 {
				key = fmt.Sprintf("%s #%d", key, seq[key])
			}
			if uncond {
				nReq++
			}
			c.Check(uncond, rule, key, p.Pos(call.Pos()), "the parser always stores this field (a missing token is a syntax error)",
				fmt.Sprintf("%s reads byte 0 of its argument without testing its length, and %s is optional — the parser stores it only on one branch (when the token is present) — but this call is not under a test that %s is not empty: a module without that name parses and then makes the printer panic with index out of range", fn.Name(), field, txt))
			return true
		}
		h.stmts(fd.Body.List, &strFacts{nonEmpty: map[string]bool{}})
	}
	c.Count("calls with a guarded optional name", nGuard)
	c.Count("calls with a name the parser requires", nReq)
	c.Count("calls whose argument is a list element or local (tokens, never empty)", nOther)
	c.Min(rule, "guarded optional names", nGuard, 8)
	c.Min(rule, "required names", nReq, 10)
}

// ---- token-separation

const (
	tsWord = 1 << iota
	tsSep
	tsUnknown
)

type tsPiece struct {
	first, last int
	text        string
	glued       bool // follows the previous piece inside one format string: the author wrote them next to each other
}

type tsState struct {
	mask int
	src  string // text of the piece that left a word character last
}

func mkPiece(first, last int, text string) tsPiece {
	return tsPiece{first: first, last: last, text: text}
}

func isWordByte(b byte) bool {
	switch {
	case b >= '0' && b <= '9', b >= 'a' && b <= 'z', b >= 'A' && b <= 'Z':
		return true
	}
	// '=' is left out: `offset=` and `align=` are completed by the number that follows
	return strings.IndexByte("$_.!#%&'*+-/:<>?@^`|~", b) >= 0
}

func tsClassOfByte(b byte) int {
	if isWordByte(b) {
		return tsWord
	}
	return tsSep
}

func c05TokenSeparation(c *Ctx, p *Prog, pp *packages.Package) {
	const rule = "token-separation"
	info := pp.TypesInfo
	need := needNonEmptyFuncs(pp)
	nPieces, nAdj := 0, 0
	reported := map[token.Pos]bool{}

	// class of one operand
	operand := func(e ast.Expr) tsPiece {
		e = ast.Unparen(e)
		txt := types.ExprString(e)
		if tv, ok := info.Types[e]; ok && tv.Value != nil && tv.Value.Kind() == constant.String {
			s := constant.StringVal(tv.Value)
			if s == "" {
				return mkPiece(0, 0, txt)
			}
			return mkPiece(tsClassOfByte(s[0]), tsClassOfByte(s[len(s)-1]), txt)
		}
		if call, ok := e.(*ast.CallExpr); ok {
			if _, ok := need[CalleeOf(info, call)]; ok {
				return mkPiece(tsWord, tsWord, txt)
			}
		}
		if t := info.TypeOf(e); t != nil {
			if b, ok := t.Underlying().(*types.Basic); ok && b.Info()&types.IsInteger != 0 {
				if nt, ok := t.(*types.Named); !ok || !hasStringMethod(nt) {
					return mkPiece(tsWord, tsWord, txt)
				}
				// a token type printed by name: keywords and mnemonics are words
				if strings.HasSuffix(namedPkgPath(t), "internal/wat/token") {
					return mkPiece(tsWord, tsWord, txt)
				}
			}
		}
		return mkPiece(tsUnknown, tsUnknown, txt)
	}
	isStringOperand := func(e ast.Expr) bool {
		t := info.TypeOf(e)
		if t == nil {
			return false
		}
		b, ok := t.Underlying().(*types.Basic)
		return ok && b.Info()&types.IsString != 0
	}
	sepPiece := mkPiece(tsSep, tsSep, "␠")

	// pieces written by one call, and the writer they go to ("" if not a print)
	pieces := func(call *ast.CallExpr) (string, []tsPiece, bool) {
		fn := CalleeOf(info, call)
		if fn == nil {
			return "", nil, false
		}
		if fn.Pkg() != nil && fn.Pkg().Path() == "fmt" && len(call.Args) >= 1 {
			w := types.ExprString(call.Args[0])
			args := call.Args[1:]
			var out []tsPiece
			switch fn.Name() {
			case "Fprint":
				for i, a := range args {
					if i > 0 && !isStringOperand(a) && !isStringOperand(args[i-1]) {
						out = append(out, sepPiece)
					}
					out = append(out, operand(a))
				}
				return w, out, true
			case "Fprintln":
				for i, a := range args {
					if i > 0 {
						out = append(out, sepPiece)
					}
					out = append(out, operand(a))
				}
				out = append(out, sepPiece)
				return w, out, true
			case "Fprintf":
				if len(args) == 0 {
					return w, nil, true
				}
				tv, ok := info.Types[args[0]]
				if !ok || tv.Value == nil || tv.Value.Kind() != constant.String {
					return w, []tsPiece{mkPiece(tsUnknown, tsUnknown, types.ExprString(args[0]))}, true
				}
				format := constant.StringVal(tv.Value)
				rest := args[1:]
				lit := ""
				flush := func() {
					if lit != "" {
						out = append(out, mkPiece(tsClassOfByte(lit[0]), tsClassOfByte(lit[len(lit)-1]), fmt.Sprintf("%q", lit)))
						lit = ""
					}
				}
				for i := 0; i < len(format); i++ {
					if format[i] != '%' {
						lit += string(format[i])
						continue
					}
					i++
					for i < len(format) && strings.IndexByte("+-# 0123456789.*", format[i]) >= 0 {
						i++
					}
					if i >= len(format) {
						break
					}
					if format[i] == '%' {
						lit += "%"
						continue
					}
					flush()
					if len(rest) == 0 {
						out = append(out, mkPiece(tsUnknown, tsUnknown, "%"+string(format[i])))
						continue
					}
					a := rest[0]
					rest = rest[1:]
					switch format[i] {
					case 'q':
						out = append(out, mkPiece(tsSep, tsSep, types.ExprString(a)))
					case 'c', 'U':
						out = append(out, mkPiece(tsUnknown, tsUnknown, types.ExprString(a)))
					case 'd', 'x', 'X', 'o', 'b':
						out = append(out, mkPiece(tsWord, tsWord, types.ExprString(a)))
					default:
						out = append(out, operand(a))
					}
				}
				flush()
				for i := range out {
					out[i].glued = i > 0
				}
				return w, out, true
			}
			return "", nil, false
		}
		if fn.Name() == "WriteString" && len(call.Args) == 1 {
			if se, ok := call.Fun.(*ast.SelectorExpr); ok {
				return types.ExprString(se.X), []tsPiece{operand(call.Args[0])}, true
			}
		}
		return "", nil, false
	}

	type state map[string]tsState
	copyState := func(s state) state {
		n := state{}
		for k, v := range s {
			n[k] = v
		}
		return n
	}
	union := func(a, b state) state {
		n := state{}
		for k, v := range a {
			n[k] = v
		}
		for k, v := range b {
			if prev, ok := n[k]; ok {
				if prev.src == "" {
					prev.src = v.src
				}
				prev.mask |= v.mask
				n[k] = prev
			} else {
				v.mask |= tsUnknown
				n[k] = v
			}
		}
		for k, v := range a {
			if _, ok := b[k]; !ok {
				v.mask |= tsUnknown
				n[k] = v
			}
		}
		return n
	}
	for _, name := range sortedDeclNames(pp) {
		fd := AllFuncDecls(pp)[name]
		if fd.Body == nil {
			continue
		}
		var walk func(list []ast.Stmt, st state) (state, bool)
		apply := func(call *ast.CallExpr, st state) bool {
			w, ps, ok := pieces(call)
			if !ok {
				return false
			}
			cur := st[w]
			if _, seen := st[w]; !seen {
				cur = tsState{mask: tsUnknown}
			}
			for _, pc := range ps {
				if pc.first == 0 {
					continue // empty constant
				}
				nPieces++
				if pc.first == tsWord {
					nAdj++
					if cur.mask&tsWord != 0 && !pc.glued && !reported[call.Pos()] {
						reported[call.Pos()] = true
						c.Fail(rule, fmt.Sprintf("%s: %s after %s", name, pc.text, cur.src), p.Pos(call.Pos()),
							fmt.Sprintf("the text written here begins with an identifier character (%s) and directly follows text that ends with one (%s) on some path through %s: the two are read back as one token, so the printed module does not re-parse to the module that was printed (as `(data$d …` did for a named data segment)", pc.text, cur.src, name))
					}
				}
				cur = tsState{mask: pc.last}
				if pc.last == tsWord {
					cur.src = pc.text
				}
				if pc.first == tsUnknown {
					cur = tsState{mask: tsUnknown}
				}
			}
			st[w] = cur
			return true
		}
		hasCall := func(n ast.Node) bool {
			found := false
			ast.Inspect(n, func(m ast.Node) bool {
				if call, ok := m.(*ast.CallExpr); ok {
					if tv, ok := info.Types[call.Fun]; ok && tv.IsType() {
						return true
					}
					if id, ok := call.Fun.(*ast.Ident); ok {
						if _, ok := info.Uses[id].(*types.Builtin); ok {
							return true
						}
					}
					found = true
				}
				return !found
			})
			return found
		}
		reset := func(st state) {
			for k := range st {
				st[k] = tsState{mask: tsUnknown}
			}
		}
		walk = func(list []ast.Stmt, st state) (state, bool) {
			for _, s := range list {
				switch x := s.(type) {
				case *ast.ExprStmt:
					if call, ok := x.X.(*ast.CallExpr); ok && apply(call, st) {
						continue
					}
					if hasCall(x) {
						reset(st)
					}
				case *ast.ReturnStmt:
					return st, true
				case *ast.BranchStmt:
					return st, true
				case *ast.BlockStmt:
					var t bool
					st, t = walk(x.List, st)
					if t {
						return st, true
					}
				case *ast.IfStmt:
					if x.Init != nil && hasCall(x.Init) {
						reset(st)
					}
					if hasCall(x.Cond) {
						reset(st)
					}
					s1, t1 := walk(x.Body.List, copyState(st))
					s2, t2 := st, false
					switch e := x.Else.(type) {
					case *ast.BlockStmt:
						s2, t2 = walk(e.List, copyState(st))
					case *ast.IfStmt:
						s2, t2 = walk([]ast.Stmt{e}, copyState(st))
					}
					switch {
					case t1 && t2:
						return st, true
					case t1:
						st = s2
					case t2:
						st = s1
					default:
						st = union(s1, s2)
					}
				case *ast.ForStmt, *ast.RangeStmt:
					var body *ast.BlockStmt
					if f, ok := x.(*ast.ForStmt); ok {
						body = f.Body
						if (f.Init != nil && hasCall(f.Init)) || (f.Cond != nil && hasCall(f.Cond)) || (f.Post != nil && hasCall(f.Post)) {
							reset(st)
						}
					} else {
						r := x.(*ast.RangeStmt)
						body = r.Body
						if hasCall(r.X) {
							reset(st)
						}
					}
					s1, _ := walk(body.List, copyState(st))
					s2, _ := walk(body.List, union(st, s1))
					st = union(st, s2)
				case *ast.SwitchStmt, *ast.TypeSwitchStmt:
					var body *ast.BlockStmt
					if sw, ok := x.(*ast.SwitchStmt); ok {
						body = sw.Body
						if (sw.Init != nil && hasCall(sw.Init)) || (sw.Tag != nil && hasCall(sw.Tag)) {
							reset(st)
						}
					} else {
						body = x.(*ast.TypeSwitchStmt).Body
					}
					acc := state(nil)
					hasDefault := false
					for _, cs := range body.List {
						cc := cs.(*ast.CaseClause)
						if cc.List == nil {
							hasDefault = true
						}
						s1, t1 := walk(cc.Body, copyState(st))
						if t1 {
							// `break` leaves the switch with the state reached; return leaves the function
							if len(cc.Body) > 0 {
								if _, ok := cc.Body[len(cc.Body)-1].(*ast.ReturnStmt); ok {
									continue
								}
							}
						}
						if acc == nil {
							acc = s1
						} else {
							acc = union(acc, s1)
						}
					}
					if !hasDefault || acc == nil {
						if acc == nil {
							acc = st
						} else {
							acc = union(acc, st)
						}
					}
					st = acc
				case *ast.LabeledStmt:
					reset(st)
					var t bool
					st, t = walk([]ast.Stmt{x.Stmt}, st)
					if t {
						return st, true
					}
				default:
					if hasCall(s) {
						reset(st)
					}
				}
			}
			return st, false
		}
		walk(fd.Body.List, state{})
	}
	c.Count("pieces of printed text classified", nPieces)
	c.Min(rule, "pieces that begin with an identifier character", nAdj, 100)
}

func sortedDeclNames(pk *packages.Package) []string {
	var names []string
	for k := range AllFuncDecls(pk) {
		names = append(names, k)
	}
	sort.Strings(names)
	return names
}

func hasStringMethod(nt *types.Named) bool {
	for i := 0; i < nt.NumMethods(); i++ {
		if nt.Method(i).Name() == "String" {
			return true
		}
	}
	return false
}

func namedPkgPath(t types.Type) string {
	if nt, ok := t.(*types.Named); ok && nt.Obj().Pkg() != nil {
		return nt.Obj().Pkg().Path()
	}
	return ""
}

// C05 rules name-literal-quoted and param-names-printed (added after two defects were found on the unchanged tree by
// differential probing: names were printed with `"%s"` / Go's `%q`, so a name with a quote, a backslash or a control
// byte did not survive print -> parse; the parameter names of imported functions and of type definitions were not
// printed, and the assembler puts them into the name section).
//
//   name-literal-quoted — no printer format writes a string between literal double quotes (`"%s"`) or with `%q`:
//       every string literal of the printed text comes from the package's quoting function (the one whose body writes
//       the `\hh` escapes), or from the data-segment printer, which escapes every byte.
//   param-names-printed — every loop of the printer over the parameters of a function type that prints `(param`
//       prints the parameter's name when it has one.
func c05NamesQuoted(c *Ctx, p *Prog, pp *packages.Package) {
	const r1, r2 = "name-literal-quoted", "param-names-printed"
	info := pp.TypesInfo
	// the quoting function: returns string, formats `\%02x`
	var quoteFn *types.Func
	for _, name := range sortedDeclNames(pp) {
		fd := AllFuncDecls(pp)[name]
		if fd.Body == nil || fd.Type.Results == nil || len(fd.Type.Results.List) != 1 {
			continue
		}
		hasEsc := false
		ast.Inspect(fd.Body, func(n ast.Node) bool {
			if bl, ok := n.(*ast.BasicLit); ok {
				if tv, ok := info.Types[bl]; ok && tv.Value != nil && tv.Value.Kind() == constant.String && strings.Contains(constant.StringVal(tv.Value), `\%02x`) {
					hasEsc = true
				}
			}
			return true
		})
		if hasEsc {
			quoteFn, _ = info.Defs[fd.Name].(*types.Func)
		}
	}
	nQuoted, nRaw, nParams := 0, 0, 0
	seq := map[string]int{}
	for _, name := range sortedDeclNames(pp) {
		fd := AllFuncDecls(pp)[name]
		if fd.Body == nil {
			continue
		}
		ast.Inspect(fd.Body, func(n ast.Node) bool {
			switch x := n.(type) {
			case *ast.CallExpr:
				fn := CalleeOf(info, x)
				if fn != nil && fn == quoteFn {
					nQuoted++
					return true
				}
				if fn == nil || fn.Pkg() == nil || fn.Pkg().Path() != "fmt" || fn.Name() != "Fprintf" || len(x.Args) < 2 {
					return true
				}
				tv, ok := info.Types[x.Args[1]]
				if !ok || tv.Value == nil || tv.Value.Kind() != constant.String {
					return true
				}
				f := constant.StringVal(tv.Value)
				if strings.Contains(f, `"%s"`) || strings.Contains(f, `"%v"`) || strings.Contains(f, "%q") {
					nRaw++
					key := name + ": " + strings.TrimSpace(f)
					seq[key]++
					if seq[key] > 1 {
						key = fmt.Sprintf("%s #%d", key, seq[key])
					}
					c.Fail(r1, key, p.Pos(x.Pos()), "the format `"+strings.TrimSpace(f)+"` writes a string between quotes without escaping it (or with Go's %q, whose \\x.. and \\u.. forms are not WAT escapes): a name that contains a quote, a backslash or a control byte is printed as text that does not parse back to the same name")
				}
			case *ast.RangeStmt:
				if !strings.HasSuffix(types.ExprString(x.X), ".Params") {
					return true
				}
				prints := false
				for _, call := range callsIn(info, x.Body.List) {
					if len(call.Args) >= 2 {
						if tv, ok := info.Types[call.Args[1]]; ok && tv.Value != nil && tv.Value.Kind() == constant.String && strings.Contains(constant.StringVal(tv.Value), "(param") {
							prints = true
						}
					}
				}
				if !prints {
					return true
				}
				nParams++
				v, _ := x.Value.(*ast.Ident)
				named := false
				if v != nil {
					ast.Inspect(x.Body, func(m ast.Node) bool {
						if se, ok := m.(*ast.SelectorExpr); ok && se.Sel.Name == "Name" {
							if id, ok := se.X.(*ast.Ident); ok && info.ObjectOf(id) == info.ObjectOf(v) {
								named = true
							}
						}
						return true
					})
				}
				c.Check(named, r2, name+": loop over "+types.ExprString(x.X), p.Pos(x.Pos()), "prints the parameter's name when it has one",
					"this loop prints `(param <type>)` for every parameter and never looks at the parameter's name: the assembler writes parameter names into the name section, so the printed module assembles to a different binary than the module that was printed")
			}
			return true
		})
	}
	c.Min(r1, "strings printed through the quoting function", nQuoted, 6)
	c.Count("formats that quote a string themselves", nRaw)
	c.Min(r2, "parameter-printing loops", nParams, 3)
}

// C05 rule list-print-guard (added after the one-token mutation campaign: `if len(fn.Locals) != 0 || len(fn.Body.List)
// != 0 { …print body… }` with `||` turned into `&&`, or `!= 0` into `!= 1`, passed the repository's tests and every
// rule, although a function with a body and no locals then loses its body in the printed text).
//
// An if whose condition is built from emptiness tests of lists (`len(X) != 0`, `len(X) > 0`, `len(X) == 0` with !, &&,
// ||) and whose body — directly or through one function of the package — iterates those lists, must let every list
// be printed when it is not empty: for each list L the condition is true in the world where L alone is non-empty.
func c05ListPrintGuard(c *Ctx, p *Prog, pp *packages.Package) {
	c.Min("list-print-guard", "emptiness guards around list printing", listGuardRule(c, p, pp, ""), 8)
}

// listGuardRule is the rule for one package; prefix tells packages apart in obligation keys.
func listGuardRule(c *Ctx, p *Prog, pp *packages.Package, prefix string) int {
	const rule = "list-print-guard"
	info := pp.TypesInfo
	decls := map[*types.Func]*ast.FuncDecl{}
	for _, fd := range AllFuncDecls(pp) {
		if fn, ok := info.Defs[fd.Name].(*types.Func); ok {
			decls[fn] = fd
		}
	}
	n := 0
	seqG := map[string]int{}
	for _, name := range sortedDeclNames(pp) {
		fd := AllFuncDecls(pp)[name]
		if fd.Body == nil {
			continue
		}
		ast.Inspect(fd.Body, func(nd ast.Node) bool {
			ifs, ok := nd.(*ast.IfStmt)
			if !ok {
				return true
			}
			// atoms of the condition: list expression -> present
			lists := map[string]bool{}
			pure := true
			var scan func(e ast.Expr)
			scan = func(e ast.Expr) {
				switch x := ast.Unparen(e).(type) {
				case *ast.UnaryExpr:
					if x.Op == token.NOT {
						scan(x.X)
						return
					}
					pure = false
				case *ast.BinaryExpr:
					if x.Op == token.LAND || x.Op == token.LOR {
						scan(x.X)
						scan(x.Y)
						return
					}
					if call, ok := ast.Unparen(x.X).(*ast.CallExpr); ok && types.ExprString(call.Fun) == "len" && len(call.Args) == 1 {
						if _, isConst := constIntOf(info, x.Y); isConst {
							lists[types.ExprString(call.Args[0])] = true
							return
						}
					}
					pure = false
				default:
					pure = false
				}
			}
			scan(ifs.Cond)
			if !pure || len(lists) < 1 {
				return true
			}
			// lists iterated by the body (one call level into the package; receivers/arguments are matched by text)
			iterated := map[string]bool{}
			var collect func(n ast.Node, depth int)
			collect = func(n ast.Node, depth int) {
				ast.Inspect(n, func(m ast.Node) bool {
					switch x := m.(type) {
					case *ast.RangeStmt:
						iterated[types.ExprString(x.X)] = true
					case *ast.CallExpr:
						if fn := CalleeOf(info, x); fn != nil && depth < 1 {
							if hd := decls[fn]; hd != nil && hd.Body != nil {
								collect(hd.Body, depth+1)
							}
						}
					}
					return true
				})
			}
			collect(ifs.Body, 0)
			var printed []string
			for l := range lists {
				if iterated[l] {
					printed = append(printed, l)
				}
			}
			sort.Strings(printed)
			if len(printed) == 0 {
				return true
			}
			n++
			// evaluate the condition in the world where exactly one list is non-empty (length 1)
			var eval func(e ast.Expr, nonEmpty string) bool
			eval = func(e ast.Expr, nonEmpty string) bool {
				switch x := ast.Unparen(e).(type) {
				case *ast.UnaryExpr:
					return !eval(x.X, nonEmpty)
				case *ast.BinaryExpr:
					switch x.Op {
					case token.LAND:
						return eval(x.X, nonEmpty) && eval(x.Y, nonEmpty)
					case token.LOR:
						return eval(x.X, nonEmpty) || eval(x.Y, nonEmpty)
					}
					call := ast.Unparen(x.X).(*ast.CallExpr)
					k, _ := constIntOf(info, x.Y)
					var ln int64
					if types.ExprString(call.Args[0]) == nonEmpty {
						ln = 1
					}
					switch x.Op {
					case token.NEQ:
						return ln != k
					case token.EQL:
						return ln == k
					case token.GTR:
						return ln > k
					case token.GEQ:
						return ln >= k
					case token.LSS:
						return ln < k
					case token.LEQ:
						return ln <= k
					}
				}
				return false
			}
			var bad []string
			for _, l := range printed {
				if !eval(ifs.Cond, l) {
					bad = append(bad, l)
				}
			}
			key := prefix + name + ": if " + types.ExprString(ifs.Cond)
			seqG[key]++
			if seqG[key] > 1 {
				key = fmt.Sprintf("%s #%d", key, seqG[key])
			}
			c.Check(len(bad) == 0, rule, key, p.Pos(ifs.Pos()), "every list the body prints is printed when it is not empty",
				"under `"+types.ExprString(ifs.Cond)+"` the body prints "+strings.Join(printed, ", ")+", but the condition is false when only "+strings.Join(bad, " / ")+" has an element: that part of the module is missing from the printed text (a function with instructions and no locals loses its body)")
			return true
		})
	}
	return n
}
