package main

import (
	"fmt"
	"strings"
)

// C02: the hand-written runtime helpers that the native back end links in (assets/native-env-*-x64.s).
// memory.copy is lowered to .Wa.Runtime.memmove, whose only subtle part is the copy direction: overlapping ranges
// are copied correctly iff the copy runs forward when dst < src and backward when dst > src. The jumps after the
// `cmp` are evaluated for the three orderings of (dst, src) and the block that is reached is classified by whether
// its loop increments or decrements the pointers.

type asmLine struct {
	label string
	op    string
	args  []string
	n     int
}

func parseAsmFile(src string) []asmLine {
	var out []asmLine
	for i, l := range strings.Split(src, "\n") {
		if k := strings.Index(l, "#"); k >= 0 {
			l = l[:k]
		}
		l = strings.TrimSpace(l)
		if l == "" {
			continue
		}
		if strings.HasSuffix(l, ":") {
			out = append(out, asmLine{label: strings.TrimSuffix(l, ":"), n: i + 1})
			continue
		}
		f := strings.Fields(l)
		in := asmLine{op: f[0], n: i + 1}
		for _, a := range strings.Split(strings.TrimSpace(strings.TrimPrefix(l, f[0])), ",") {
			if a = strings.TrimSpace(a); a != "" {
				in.args = append(in.args, a)
			}
		}
		out = append(out, in)
	}
	return out
}

func c02Memmove(c *Ctx) {
	const rule = "memmove-direction"
	files := []struct {
		rel      string
		dst, src string // first and second integer argument registers of the platform ABI
	}{
		{"internal/native/wat2x64/assets/native-env-linux-x64.s", "rdi", "rsi"},
		{"internal/native/wat2x64/assets/native-env-windows-x64.s", "rcx", "rdx"},
	}
	n := 0
	for _, f := range files {
		b, err := c.ReadFile(f.rel)
		if err != nil {
			c.Undecided(rule, f.rel, "", err.Error())
			continue
		}
		lines := parseAsmFile(string(b))
		start := -1
		for i, l := range lines {
			if l.label == ".Wa.Runtime.memmove" {
				start = i
			}
		}
		if start < 0 {
			c.Undecided(rule, f.rel+": .Wa.Runtime.memmove", f.rel, "helper not found")
			continue
		}
		n++
		labelAt := map[string]int{}
		end := len(lines)
		for i := start + 1; i < len(lines); i++ {
			if lines[i].label != "" {
				if strings.HasPrefix(lines[i].label, ".Wa.Runtime.") {
					end = i
					break
				}
				labelAt[lines[i].label] = i
			}
		}
		// the cmp of the two pointer arguments
		ci := -1
		for i := start; i < end; i++ {
			if lines[i].op == "cmp" && len(lines[i].args) == 2 {
				a, b := lines[i].args[0], lines[i].args[1]
				if (a == f.dst && b == f.src) || (a == f.src && b == f.dst) {
					ci = i
					break
				}
			}
		}
		loc := fmt.Sprintf("%s:%d", f.rel, lines[start].n)
		if ci < 0 {
			c.Undecided(rule, f.rel+": .Wa.Runtime.memmove", loc, "no comparison of the dst and src argument registers found")
			continue
		}
		// classify the block reached for each ordering
		classify := func(from int) string {
			for i := from; i < end; i++ {
				l := lines[i]
				switch l.op {
				case "inc":
					return "forward"
				case "dec":
					// `dec rcx` style counters come after the pointer updates; the first inc/dec on a pointer decides.
					return "backward"
				case "ret":
					return "none"
				case "jmp":
					if t, ok := labelAt[l.args[0]]; ok {
						i = t
					}
				case "add":
					// ptr += n before a backward loop
				}
			}
			return "none"
		}
		reach := func(order int) string { // -1: first<second, 0: equal, 1: first>second (unsigned)
			for i := ci + 1; i < end; i++ {
				l := lines[i]
				if l.label != "" || !strings.HasPrefix(l.op, "j") {
					if l.label != "" {
						continue
					}
					return classify(i)
				}
				taken := false
				switch l.op {
				case "je", "jz":
					taken = order == 0
				case "jne", "jnz":
					taken = order != 0
				case "jb", "jc", "jnae":
					taken = order < 0
				case "jae", "jnb", "jnc":
					taken = order >= 0
				case "jbe", "jna":
					taken = order <= 0
				case "ja", "jnbe":
					taken = order > 0
				case "jmp":
					taken = true
				default:
					return "unknown"
				}
				if taken {
					t, ok := labelAt[l.args[0]]
					if !ok {
						return "unknown"
					}
					return classify(t)
				}
			}
			return "none"
		}
		firstIsDst := lines[ci].args[0] == f.dst
		get := func(dstVsSrc int) string {
			if firstIsDst {
				return reach(dstVsSrc)
			}
			return reach(-dstVsSrc)
		}
		lt, eq, gt := get(-1), get(0), get(1)
		good := lt == "forward" && gt == "backward" && (eq == "none" || eq == "forward" || eq == "backward")
		c.Check(good, rule, f.rel+": .Wa.Runtime.memmove", loc, "dst<src copies forward, dst>src copies backward",
			fmt.Sprintf(".Wa.Runtime.memmove copies %s when dst < src and %s when dst > src; overlapping ranges need forward for dst < src and backward for dst > src, otherwise memory.copy overwrites source bytes before reading them", lt, gt))
	}
	c.Min(rule, "memmove helpers", n, 2)
}
