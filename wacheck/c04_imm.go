package main

import (
	"fmt"
	"go/ast"
	"go/types"
	"strings"

	"golang.org/x/tools/go/packages"
)

// C04 immediate-signedness (added after a seeded change was missed): the binary format gives every immediate its
// integer encoding. Only three kinds are signed LEB128: the operand of i32.const / i64.const (and the constant
// expressions of globals and of data/element offsets), and the type index of a block type (an s33, because it shares
// its first byte with the negative single-byte value types 0x7F…0x40). Everything else — label depths, function, type,
// table, local, global, data indices, vector lengths, memarg offsets — is unsigned. An index ≥ 64 written with the wrong
// signedness has bit 6 of its last byte read as a sign (or a continuation byte too many) by every decoder.
//
// The rule classifies each call of the worker's encodeInt*/encodeUint* helpers by the provenance of its argument
// (resolved through one local variable) and compares with the helper's signedness.

func c04ImmediateSignedness(c *Ctx, p *Prog, wu *packages.Package) {
	const rule = "immediate-signedness"
	info := wu.TypesInfo
	signedEnc := map[string]bool{"encodeInt32": true, "encodeInt64": true}
	unsignedEnc := map[string]bool{"encodeUint32": true, "encodeUint64": true}
	nBlock, nConst, nUnsigned := 0, 0, 0
	for _, f := range wu.Syntax {
		for _, d := range f.Decls {
			fd, ok := d.(*ast.FuncDecl)
			if !ok || fd.Body == nil || fd.Recv == nil {
				continue
			}
			fname := declName(fd)
			// local variable -> its defining expression (single definition only)
			def := map[types.Object]ast.Expr{}
			multi := map[types.Object]bool{}
			ast.Inspect(fd.Body, func(n ast.Node) bool {
				as, ok := n.(*ast.AssignStmt)
				if !ok || len(as.Lhs) != len(as.Rhs) {
					return true
				}
				for i, l := range as.Lhs {
					id, ok := l.(*ast.Ident)
					if !ok {
						continue
					}
					o := info.Defs[id]
					if o == nil {
						o = info.Uses[id]
						if o != nil {
							multi[o] = true
						}
						continue
					}
					def[o] = as.Rhs[i]
				}
				return true
			})
			seq := map[string]int{}
			ast.Inspect(fd.Body, func(n ast.Node) bool {
				call, ok := n.(*ast.CallExpr)
				if !ok || len(call.Args) != 1 {
					return true
				}
				fn := CalleeOf(info, call)
				if fn == nil || !(signedEnc[fn.Name()] || unsignedEnc[fn.Name()]) {
					return true
				}
				if sig := fn.Type().(*types.Signature); sig.Recv() == nil || typeShortName(sig.Recv().Type()) != "wat2wasmWorker" {
					return true
				}
				arg := stripConv(info, call.Args[0])
				if id, ok := arg.(*ast.Ident); ok {
					if o := info.Uses[id]; o != nil && def[o] != nil && !multi[o] {
						arg = stripConv(info, def[o])
					}
				}
				class, what := "unsigned", types.ExprString(arg)
				switch x := arg.(type) {
				case *ast.CallExpr:
					if g := CalleeOf(info, x); g != nil && g.Name() == "findBlockTypeIndex" {
						class, what = "blocktype", "the type index of a block type"
					}
				case *ast.SelectorExpr:
					if tv, ok := info.Types[x.X]; ok {
						tn := typeShortName(tv.Type)
						switch {
						case (tn == "Ins_I32Const" || tn == "Ins_I64Const") && x.Sel.Name == "X":
							class, what = "const", "the operand of "+strings.ToLower(strings.TrimPrefix(tn, "Ins_"))
						case x.Sel.Name == "I32Value" || x.Sel.Name == "I64Value":
							class, what = "const", "the constant initialiser "+types.ExprString(x)
						case x.Sel.Name == "Offset" && (strings.HasSuffix(tn, "DataSection") || strings.HasSuffix(tn, "ElemSection")):
							class, what = "const", "the offset expression of a "+tn
						}
					}
				}
				key := fname + ": " + class + " " + what
				seq[key]++
				construct := fmt.Sprintf("%s #%d", key, seq[key])
				switch class {
				case "blocktype":
					nBlock++
					c.Check(signedEnc[fn.Name()], rule, construct, p.Pos(call.Pos()), "signed LEB128 (s33)",
						fmt.Sprintf("%s writes %s with %s: a block type index is an s33, so an index from 64 upwards ends in a byte whose bit 6 a decoder reads as the sign (index 64 comes back as -64, a value type byte or an invalid type) — blocks with several results break once the type section has 64 entries", fname, what, fn.Name()))
				case "const":
					nConst++
					c.Check(signedEnc[fn.Name()], rule, construct, p.Pos(call.Pos()), "signed LEB128",
						fmt.Sprintf("%s writes %s with %s: constants are signed LEB128, a negative value (or one with bit 6 of its last group set) is read back as another number", fname, what, fn.Name()))
				default:
					nUnsigned++
					c.Check(unsignedEnc[fn.Name()], rule, construct, p.Pos(call.Pos()), "unsigned LEB128",
						fmt.Sprintf("%s writes %s with %s: indices, counts and offsets are unsigned LEB128, a value from 64 upwards gets a sign-carrying extra byte or is read back as another number", fname, what, fn.Name()))
				}
				return true
			})
		}
	}
	c.Min(rule, "block type index immediates", nBlock, 3)
	c.Min(rule, "constant immediates", nConst, 4)
	c.Min(rule, "unsigned immediates", nUnsigned, 30)
}

func typeShortName(t types.Type) string {
	if pt, ok := t.(*types.Pointer); ok {
		t = pt.Elem()
	}
	if n, ok := t.(*types.Named); ok {
		return n.Obj().Name()
	}
	return t.String()
}
