package main

import (
	"go/ast"
	"go/token"
	"go/types"

	"golang.org/x/tools/go/packages"
)

// c24_names.go — the functions of the build-constraint parser are found by what they do, not by what they are called:
// the `||` level is the exprParser method whose loop continues while the token is "||", the `&&` level likewise, the
// negation level is the method that tests the token against "!", the atom level the one that tests it against "(";
// the constructor of a node type is the package function that builds a composite literal of that type. Renaming them
// leaves the rules in place.

type c24NameTable struct {
	Or, And, Not, Atom string            // method names of exprParser
	Ctor               map[string]string // node type -> constructor function name
}

var c24Names = c24NameTable{Or: "or", And: "and", Not: "not", Atom: "atom", Ctor: map[string]string{"OrExpr": "or", "AndExpr": "and", "NotExpr": "not", "TagExpr": "tag"}}

func c24ResolveNames(bt *packages.Package) {
	info := bt.TypesInfo
	tokTest := func(e ast.Expr) string { // `X.tok == "lit"` -> lit
		be, ok := ast.Unparen(e).(*ast.BinaryExpr)
		if !ok || (be.Op != token.EQL && be.Op != token.NEQ) {
			return ""
		}
		x, y := ast.Unparen(be.X), ast.Unparen(be.Y)
		if _, isLit := x.(*ast.BasicLit); isLit {
			x, y = y, x
		}
		se, ok1 := x.(*ast.SelectorExpr)
		lit, ok2 := y.(*ast.BasicLit)
		if !ok1 || !ok2 || se.Sel.Name != "tok" {
			return ""
		}
		return lit.Value
	}
	names := c24NameTable{Ctor: map[string]string{}}
	for _, f := range bt.Syntax {
		for _, d := range f.Decls {
			fd, ok := d.(*ast.FuncDecl)
			if !ok || fd.Body == nil {
				continue
			}
			if fd.Recv == nil {
				// constructor: a package function whose (single) composite literal has a node type
				ast.Inspect(fd.Body, func(n ast.Node) bool {
					if cl, ok := n.(*ast.CompositeLit); ok {
						switch t := namedTypeName(info.TypeOf(cl)); t {
						case "OrExpr", "AndExpr", "NotExpr", "TagExpr":
							if fd.Type.Results != nil && len(fd.Type.Results.List) == 1 && names.Ctor[t] == "" {
								names.Ctor[t] = fd.Name.Name
							}
						}
					}
					return true
				})
				continue
			}
			if recvTypeName(fd.Recv.List[0].Type) != "exprParser" {
				continue
			}
			loopTok, tests := "", map[string]bool{}
			ast.Inspect(fd.Body, func(n ast.Node) bool {
				switch x := n.(type) {
				case *ast.ForStmt:
					if t := tokTest(x.Cond); t != "" {
						loopTok = t
					}
				case *ast.BinaryExpr:
					if t := tokTest(x); t != "" {
						tests[t] = true
					}
				}
				return true
			})
			switch {
			case loopTok == `"||"`:
				names.Or = fd.Name.Name
			case loopTok == `"&&"`:
				names.And = fd.Name.Name
			case tests[`"!"`] && loopTok == "":
				names.Not = fd.Name.Name
			case tests[`"("`] && loopTok == "":
				names.Atom = fd.Name.Name
			}
		}
	}
	def := c24NameTable{Or: "or", And: "and", Not: "not", Atom: "atom", Ctor: map[string]string{"OrExpr": "or", "AndExpr": "and", "NotExpr": "not", "TagExpr": "tag"}}
	pick := func(got, d string) string {
		if got != "" {
			return got
		}
		return d
	}
	c24Names = c24NameTable{Or: pick(names.Or, def.Or), And: pick(names.And, def.And), Not: pick(names.Not, def.Not), Atom: pick(names.Atom, def.Atom), Ctor: map[string]string{}}
	for t, d := range def.Ctor {
		c24Names.Ctor[t] = pick(names.Ctor[t], d)
	}
	_ = types.Typ
}
