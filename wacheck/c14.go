package main

import (
	_ "embed"
	"fmt"
	"go/ast"
	"go/build"
	"go/constant"
	"go/parser"
	"go/token"
	"os"
	"path/filepath"
	"sort"
	"strings"

	waast "wa-lang.org/wa/internal/ast"
	watoken "wa-lang.org/wa/internal/token"
)

// C14 — the standard library agrees with Go's.
//
// The ported packages keep Go's package-level constants and literal tables (polynomials, alphabets, bit tables,
// UTF-8 classification tables, powers of ten ...) under Go's names. Every (package, name) pair whose value equals
// Go's at the time the rule was armed is a frozen instance (c14_instances.txt); the rule is that it stays equal to
// the value in GOROOT's sources. Both sides are evaluated by one constant/literal evaluator over go/ast (the Wa
// value expression is re-read as a Go expression: literal and operator syntax coincide).

//go:embed c14_instances.txt
var c14Instances string

func init() {
	register(&Property{ID: "C14", Run: runC14, Mutants: []Mutant{
		{Name: "strings' CountString ranges over runes", File: "waroot/src/strings/bytealg.wa", Old: "\tfor i := 0; i < len(s); i++ {\n\t\tif s[i] == c {\n\t\t\tn++\n\t\t}\n\t}\n\treturn n", New: "\tfor _, v := range s {\n\t\tif rune(c) == v {\n\t\t\tn++\n\t\t}\n\t}\n\treturn n", Expect: "byte-vs-rune-iteration"},
		{Name: "one byte of the pop-count table changed", File: "waroot/src/math/bits/bits_tables.wa", Old: "\t\"\\x00\\x01\\x01\\x02\\x01\\x02\\x02\\x03\\x01\\x02\\x02\\x03\\x02\\x03\\x03\\x04\" +\n\t\"\\x01\\x02\\x02\\x03\\x02\\x03\\x03\\x04\\x02\\x03\\x03\\x04\\x03\\x04\\x04\\x05\" +", New: "\t\"\\x00\\x01\\x01\\x02\\x01\\x02\\x02\\x03\\x01\\x02\\x02\\x03\\x02\\x03\\x03\\x04\" +\n\t\"\\x01\\x02\\x02\\x03\\x02\\x03\\x03\\x04\\x02\\x03\\x03\\x04\\x03\\x04\\x04\\x04\" +", Expect: "std-table :: math/bits.pop8tab"},
		{Name: "strings.genSplit skips one byte too few after a separator", File: "waroot/src/strings/strings.wa", Old: "\t\ta[i] = s[:m+sepSave]\n\t\ts = s[m+len(sep):]", New: "\t\ta[i] = s[:m+sepSave]\n\t\ts = s[m+len(sep)-1:]", Expect: "port-body :: strings.genSplit"},
		{Name: "bits.TrailingZeros32 of zero", File: "waroot/src/math/bits/bits.wa", Old: "func TrailingZeros32(x: u32) => int {\n\tif x == 0 {\n\t\treturn 32", New: "func TrailingZeros32(x: u32) => int {\n\tif x == 0 {\n\t\treturn 31", Expect: "port-body :: math/bits.TrailingZeros32"},
		{Name: "floatBits: the post-rounding copy of the overflow block loses the flag", File: "waroot/src/strconv/atof.wa", Old: "\t\t\tmant = 0\n\t\t\texp = 1<<flt.expbits - 1 + flt.bias\n\t\t\toverflow = true\n", New: "\t\t\tmant = 0\n\t\t\texp = 1<<flt.expbits - 1 + flt.bias\n", Expect: "port-goto-inlining :: strconv.decimal.floatBits:overflow"},
		{Name: "bits.Div64: first correction loop stops one step late", File: "waroot/src/math/bits/bits.wa", Old: "\t\tq1--\n\t\trhat += yn1\n\t\tif rhat >= two32 {", New: "\t\tq1--\n\t\trhat += yn1\n\t\tif rhat > two32 {", Expect: "port-statement :: math/bits.Div64"},
		{Name: "utf8 continuation mask changed", File: "waroot/src/unicode/utf8/utf8.wa", Old: "maskx = 0b00111111", New: "maskx = 0b00011111", Expect: "std-table :: unicode/utf8.maskx"},
		{Name: "crc32 Castagnoli polynomial changed", File: "waroot/src/hash/crc32/crc32.wa", Old: "Castagnoli = 0x82f63b78", New: "Castagnoli = 0x82f63b79", Expect: "std-table :: hash/crc32.Castagnoli"},
		{Name: "hex digit table damaged", File: "waroot/src/encoding/hex/hex.wa", Old: "hextable        = \"0123456789abcdef\"", New: "hextable        = \"0123456789abcdfe\"", Expect: "std-table :: encoding/hex.hextable"},
	}})
}

// ---- evaluator over go/ast

type litEnv struct {
	consts map[string]ast.Expr // name -> defining expression (go/ast)
	iota   map[string]int      // name -> iota value of its spec
	cache  map[string]string
	busy   map[string]bool
}

// canon evaluates e to a canonical string, or "" when it is not a literal-only value.
func (env *litEnv) canon(e ast.Expr, iota int) string {
	if v := env.constVal(e, iota); v != nil {
		return "c:" + v.ExactString()
	}
	switch x := ast.Unparen(e).(type) {
	case *ast.CompositeLit:
		var parts []string
		for _, el := range x.Elts {
			if kv, ok := el.(*ast.KeyValueExpr); ok {
				k := env.canon(kv.Key, iota)
				if k == "" {
					if id, ok := kv.Key.(*ast.Ident); ok {
						k = "f:" + id.Name
					} else {
						return ""
					}
				}
				v := env.canon(kv.Value, iota)
				if v == "" {
					return ""
				}
				parts = append(parts, k+"=>"+v)
				continue
			}
			v := env.canon(el, iota)
			if v == "" {
				return ""
			}
			parts = append(parts, v)
		}
		return "[" + strings.Join(parts, ",") + "]"
	case *ast.UnaryExpr:
		if x.Op == token.AND {
			return env.canon(x.X, iota)
		}
	case *ast.CallExpr:
		// conversion of a literal table: []byte("..."), T{...}
		if len(x.Args) == 1 {
			if _, ok := x.Fun.(*ast.ArrayType); ok {
				return env.canon(x.Args[0], iota)
			}
		}
	}
	return ""
}

func (env *litEnv) constVal(e ast.Expr, iota int) constant.Value {
	switch x := ast.Unparen(e).(type) {
	case *ast.BasicLit:
		v := constant.MakeFromLiteral(x.Value, x.Kind, 0)
		if v.Kind() == constant.Unknown {
			return nil
		}
		return v
	case *ast.Ident:
		switch x.Name {
		case "iota":
			if iota < 0 {
				return nil
			}
			return constant.MakeInt64(int64(iota))
		case "true":
			return constant.MakeBool(true)
		case "false":
			return constant.MakeBool(false)
		}
		def, ok := env.consts[x.Name]
		if !ok || env.busy[x.Name] {
			return nil
		}
		env.busy[x.Name] = true
		defer delete(env.busy, x.Name)
		return env.constVal(def, env.iota[x.Name])
	case *ast.UnaryExpr:
		v := env.constVal(x.X, iota)
		if v == nil {
			return nil
		}
		switch x.Op {
		case token.SUB, token.ADD, token.NOT:
			return safeConst(func() constant.Value { return constant.UnaryOp(x.Op, v, 0) })
		case token.XOR:
			// ^x of an untyped constant: -x-1
			if v.Kind() == constant.Int {
				return constant.BinaryOp(constant.UnaryOp(token.SUB, v, 0), token.SUB, constant.MakeInt64(1))
			}
		}
	case *ast.BinaryExpr:
		a, b := env.constVal(x.X, iota), env.constVal(x.Y, iota)
		if a == nil || b == nil {
			return nil
		}
		switch x.Op {
		case token.SHL, token.SHR:
			s, ok := constant.Uint64Val(b)
			if !ok || s > 4096 || a.Kind() != constant.Int {
				return nil
			}
			return safeConst(func() constant.Value { return constant.Shift(a, x.Op, uint(s)) })
		case token.EQL, token.NEQ, token.LSS, token.LEQ, token.GTR, token.GEQ:
			return safeConst(func() constant.Value { return constant.MakeBool(constant.Compare(a, x.Op, b)) })
		case token.QUO:
			if a.Kind() == constant.Int && b.Kind() == constant.Int {
				if constant.Sign(b) == 0 {
					return nil
				}
				return safeConst(func() constant.Value { return constant.BinaryOp(a, token.QUO_ASSIGN, b) })
			}
			return safeConst(func() constant.Value { return constant.BinaryOp(a, token.QUO, b) })
		default:
			return safeConst(func() constant.Value { return constant.BinaryOp(a, x.Op, b) })
		}
	case *ast.CallExpr:
		// T(x) with a type-like callee, len("...")
		if len(x.Args) != 1 {
			return nil
		}
		if id, ok := x.Fun.(*ast.Ident); ok {
			if id.Name == "len" {
				if v := env.constVal(x.Args[0], iota); v != nil && v.Kind() == constant.String {
					return constant.MakeInt64(int64(len(constant.StringVal(v))))
				}
				return nil
			}
			if _, isConst := env.consts[id.Name]; isConst {
				return nil
			}
			if isNumericTypeName(id.Name) {
				return env.constVal(x.Args[0], iota)
			}
		}
	}
	return nil
}

func safeConst(f func() constant.Value) (v constant.Value) {
	defer func() {
		if recover() != nil {
			v = nil
		}
	}()
	v = f()
	if v != nil && v.Kind() == constant.Unknown {
		return nil
	}
	return v
}

var numericTypeNames = map[string]bool{}

func init() {
	for _, n := range strings.Fields("int int8 int16 int32 int64 uint uint8 uint16 uint32 uint64 uintptr byte rune float32 float64 i8 i16 i32 i64 u8 u16 u32 u64 f32 f64 string") {
		numericTypeNames[n] = true
	}
}
func isNumericTypeName(n string) bool { return numericTypeNames[n] }

// declsOf collects the package-level const/var value expressions of Go files.
func goDecls(files []*ast.File) *litEnv {
	env := &litEnv{consts: map[string]ast.Expr{}, iota: map[string]int{}, busy: map[string]bool{}}
	for _, f := range files {
		for _, d := range f.Decls {
			gd, ok := d.(*ast.GenDecl)
			if !ok || (gd.Tok != token.CONST && gd.Tok != token.VAR) {
				continue
			}
			var last []ast.Expr
			for i, sp := range gd.Specs {
				vs := sp.(*ast.ValueSpec)
				vals := vs.Values
				if len(vals) == 0 && gd.Tok == token.CONST {
					vals = last
				} else {
					last = vals
				}
				for k, n := range vs.Names {
					if k < len(vals) && n.Name != "_" {
						if _, dup := env.consts[n.Name]; !dup {
							env.consts[n.Name] = vals[k]
							env.iota[n.Name] = i
						}
					}
				}
			}
		}
	}
	return env
}

// waDecls re-reads the value expressions of Wa package-level const/global declarations as Go expressions.
func waDecls(std *waStd, files []*waFile) (*litEnv, int) {
	env := &litEnv{consts: map[string]ast.Expr{}, iota: map[string]int{}, busy: map[string]bool{}}
	unparsed := 0
	for _, f := range files {
		for _, d := range f.AST.Decls {
			gd, ok := d.(*waast.GenDecl)
			if !ok {
				continue
			}
			switch gd.Tok {
			case watoken.CONST, watoken.VAR, watoken.GLOBAL:
			default:
				continue
			}
			var last []ast.Expr
			for i, sp := range gd.Specs {
				vs, ok := sp.(*waast.ValueSpec)
				if !ok {
					continue
				}
				var vals []ast.Expr
				for _, v := range vs.Values {
					a, b := std.Fset.Position(v.Pos()).Offset, std.Fset.Position(v.End()).Offset
					if a < 0 || b > len(f.Src) || a >= b {
						vals = append(vals, nil)
						continue
					}
					ge, err := parser.ParseExpr(string(f.Src[a:b]))
					if err != nil {
						unparsed++
						vals = append(vals, nil)
						continue
					}
					vals = append(vals, ge)
				}
				if len(vals) == 0 && gd.Tok == watoken.CONST {
					vals = last
				} else {
					last = vals
				}
				for k, n := range vs.Names {
					if k < len(vals) && vals[k] != nil && n.Name != "_" {
						if _, dup := env.consts[n.Name]; !dup {
							env.consts[n.Name] = vals[k]
							env.iota[n.Name] = i
						}
					}
				}
			}
		}
	}
	return env, unparsed
}

func runC14(c *Ctx) {
	c.Explain = "Decides table agreement of the ported standard-library packages with Go's: every package-level constant or literal table that exists under the same name in the Wa package and in the Go package of the same import path, and whose value was equal when the rule was armed (the frozen instance list c14_instances.txt), still evaluates to the value in GOROOT's sources (go/parser over GOROOT/src, the Wa side read with the repository's parser and re-read as Go expressions; one literal evaluator for both). " +
		"Names whose values already differed, or that are not literal-only, are not instances (counted in the notes). " +
		"Rule port-body: every Wa function whose canonical syntax tree (positions, comments, parentheses, receiver spelling and Wa's short type names normalised) equalled the Go function of the same name when the rule was armed (frozen list c14_bodies.txt) still equals the one in GOROOT's sources — agreement of the port with the implementation it was ported from, for every input, follows from the two being the same function. " +
		"Rule port-statement: for functions that differ from Go's as a whole (ported from another release, adapted to Wa), every top-level statement the two versions shared when the rule was armed is still shared. " +
		"Rule port-goto-inlining: where Go jumps to a labelled block and the port (Wa has no goto) repeats the block, the port holds at least as many exact copies of the block as Go has ways of reaching it. " +
		"NOT decided: functions that already differ from this GOROOT's version (ported from another Go release, or adapted to Wa), and the agreement of Wa's expression semantics with Go's (shift counts, C01)."
	goroot := build.Default.GOROOT
	c.Trusted = []string{"go/parser, go/constant", "the repository's Wa parser as front end for .wa sources", "GOROOT sources (" + goroot + ") as the oracle"}
	std := LoadWaStd(c, "std-table")
	if std != nil {
		c14ByteRune(c, std)
	}
	want := map[string]bool{}
	for _, l := range strings.Split(c14Instances, "\n") {
		l = strings.TrimSpace(l)
		if l != "" && !strings.HasPrefix(l, "#") {
			want[l] = true
		}
	}
	dump := os.Getenv("VERIF_C14_DUMP") == "1"
	if os.Getenv("VERIF_C14_DUMP") == "2" {
		c14PortBodies(c, std, goroot)
		return
	}
	if !dump {
		c14PortBodies(c, std, goroot)
	}
	var pkgs []string
	for p := range std.Pkgs {
		pkgs = append(pkgs, p)
	}
	sort.Strings(pkgs)
	seen := map[string]bool{}
	nEq, nDiff, nPk := 0, 0, 0
	var diffs []string
	for _, pkg := range pkgs {
		gdir := filepath.Join(goroot, "src", pkg)
		ents, err := os.ReadDir(gdir)
		if err != nil {
			continue
		}
		nPk++
		fset := token.NewFileSet()
		var gfiles []*ast.File
		for _, e := range ents {
			n := e.Name()
			if !strings.HasSuffix(n, ".go") || strings.HasSuffix(n, "_test.go") {
				continue
			}
			f, err := parser.ParseFile(fset, filepath.Join(gdir, n), nil, 0)
			if err == nil {
				gfiles = append(gfiles, f)
			}
		}
		genv := goDecls(gfiles)
		var wfiles []*waFile
		for _, f := range std.Pkgs[pkg] {
			if !isWaTestFile(f.Name) {
				wfiles = append(wfiles, f)
			}
		}
		wenv, _ := waDecls(std, wfiles)
		var names []string
		for n := range wenv.consts {
			if _, ok := genv.consts[n]; ok {
				names = append(names, n)
			}
		}
		sort.Strings(names)
		for _, n := range names {
			key := pkg + "." + n
			wv := wenv.canon(wenv.consts[n], wenv.iota[n])
			gv := genv.canon(genv.consts[n], genv.iota[n])
			if wv == "" || gv == "" {
				continue
			}
			seen[key] = true
			if dump {
				if wv == gv {
					fmt.Println(key)
				}
				continue
			}
			if !want[key] {
				if wv == gv {
					nEq++
				} else {
					nDiff++
					if len(diffs) < 40 {
						diffs = append(diffs, key)
					}
				}
				continue
			}
			short := func(s string) string {
				if len(s) > 60 {
					return s[:60] + "…"
				}
				return s
			}
			c.Check(wv == gv, "std-table", key, "waroot/src/"+pkg, "equal to Go's", fmt.Sprintf("%s in the Wa port evaluates to %s; Go's %s.%s is %s: code ported from Go that uses the table computes different results", key, short(wv), pkg, n, short(gv)))
		}
	}
	if dump {
		return
	}
	var missing []string
	for k := range want {
		if !seen[k] {
			missing = append(missing, k)
		}
	}
	sort.Strings(missing)
	for _, k := range missing {
		c.Undecided("std-table", k, "", "the frozen instance no longer resolves on both sides (renamed, removed, or no longer a literal-only value): the table it named is not being compared any more")
	}
	c.Count("packages_compared", nPk)
	c.Count("equal_names_not_frozen", nEq)
	c.Count("names_already_different_not_instances", nDiff)
	c.Note("same-named values that differ today and are therefore not instances (first %d): %s", len(diffs), strings.Join(diffs, " "))
	c.Min("std-table", "frozen instances", len(want), 60)
}
