package main

import (
	"fmt"
	"go/ast"
	"go/types"
	"strings"

	"golang.org/x/tools/go/packages"
	"golang.org/x/tools/go/ssa"
)

// C29 exit-error-kept (added after a seeded change was missed): the guest's exit request travels up to main as a
// *sys.ExitError in the error result. Every place that recognises that error (a type assertion or errors.As to
// *sys.ExitError) sits on a path that must keep reporting it: clearing the error there ("exit code 0 is success")
// makes the caller believe the call returned normally — RunMain then goes on to run main although the program asked
// to exit during initialisation. Inside the branch taken when the error is an exit error, no error variable is set to
// nil and no return statement answers a nil error.

func c29ExitErrorKept(c *Ctx, p *Prog, pkgs ...*packages.Package) {
	const rule = "exit-error-kept"
	n := 0
	for _, pk := range pkgs {
		if pk == nil {
			continue
		}
		info := pk.TypesInfo
		isExitErr := func(t types.Type) bool {
			if pt, ok := t.(*types.Pointer); ok {
				t = pt.Elem()
			}
			nt, ok := t.(*types.Named)
			return ok && nt.Obj().Name() == "ExitError" && nt.Obj().Pkg() != nil && strings.HasSuffix(nt.Obj().Pkg().Path(), "wazero/sys")
		}
		for _, f := range pk.Syntax {
			for _, d := range f.Decls {
				fd, ok := d.(*ast.FuncDecl)
				if !ok || fd.Body == nil {
					continue
				}
				fname := declName(fd)
				k := 0
				ast.Inspect(fd.Body, func(nd ast.Node) bool {
					ifs, ok := nd.(*ast.IfStmt)
					if !ok {
						return true
					}
					// if x, ok := err.(*sys.ExitError); ok { … }  /  if errors.As(err, &exitErr) { … }
					recognises := false
					if as, ok := ifs.Init.(*ast.AssignStmt); ok && len(as.Rhs) == 1 && len(as.Lhs) == 2 {
						if ta, ok := ast.Unparen(as.Rhs[0]).(*ast.TypeAssertExpr); ok && ta.Type != nil {
							if t := info.TypeOf(ta.Type); t != nil && isExitErr(t) {
								if okID, isID := as.Lhs[1].(*ast.Ident); isID {
									if cid, isC := ast.Unparen(ifs.Cond).(*ast.Ident); isC && info.ObjectOf(cid) == info.ObjectOf(okID) {
										recognises = true
									}
								}
							}
						}
					}
					if call, ok := ast.Unparen(ifs.Cond).(*ast.CallExpr); ok && len(call.Args) == 2 {
						if fn := CalleeOf(info, call); fn != nil && FuncFullName(fn) == "errors.As" {
							if t := info.TypeOf(call.Args[1]); t != nil {
								if pt, ok := t.(*types.Pointer); ok && isExitErr(pt.Elem()) {
									recognises = true
								}
							}
						}
					}
					if !recognises {
						return true
					}
					n++
					k++
					var bad []string
					ast.Inspect(ifs.Body, func(m ast.Node) bool {
						switch x := m.(type) {
						case *ast.AssignStmt:
							if len(x.Lhs) == len(x.Rhs) {
								for i, l := range x.Lhs {
									if t := info.TypeOf(l); t != nil && isErrorType(t) && isNilExpr(info, x.Rhs[i]) {
										bad = append(bad, fmt.Sprintf("%s: `%s = nil`", p.Pos(x.Pos()), types.ExprString(l)))
									}
								}
							}
						case *ast.ReturnStmt:
							for _, r := range x.Results {
								if isNilExpr(info, r) {
									if tv, ok := info.Types[r]; ok && tv.Type != nil {
										// untyped nil in an error position
										_ = tv
									}
									bad = append(bad, fmt.Sprintf("%s: returns nil", p.Pos(x.Pos())))
								}
							}
						case *ast.FuncLit:
							return false
						}
						return true
					})
					c.Check(len(bad) == 0, rule, fmt.Sprintf("%s: exit-error branch #%d", fname, k), p.Pos(ifs.Pos()), "the recognised exit error is not cleared",
						fmt.Sprintf("%s recognises the guest's exit request (*sys.ExitError) and then clears it (%s): the caller sees success, so a program that called exit during initialisation goes on to run main and `wa run` ends with whatever status main produces instead of the requested one", fname, strings.Join(bad, "; ")))
					return true
				})
			}
		}
	}
	c.Min(rule, "places that recognise *sys.ExitError", n, 1)
}

// errorHelpers lists the functions of fn's own package that fn calls directly with an error argument.
func errorHelpers(fn *ssa.Function) []*ssa.Function {
	var out []*ssa.Function
	seen := map[*ssa.Function]bool{fn: true}
	for _, b := range fn.Blocks {
		for _, ins := range b.Instrs {
			call, ok := ins.(*ssa.Call)
			if !ok {
				continue
			}
			g := call.Call.StaticCallee()
			if g == nil || seen[g] || g.Pkg != fn.Pkg || len(g.Blocks) == 0 {
				continue
			}
			for _, a := range call.Call.Args {
				if isErrorType(a.Type()) {
					seen[g] = true
					out = append(out, g)
					break
				}
			}
		}
	}
	return out
}
