package main

import (
	"fmt"
	"go/ast"
	"go/token"
	"go/types"
	"strings"
)

// C02 rule running-maximum: the native translators size each frame from running maxima collected while a function is
// translated (the largest outgoing argument area of any call, the deepest operand stack …), written as
// `if A > M { M = A }`. An update that compares one value and stores another (`if A > M { M = B }`) leaves M too small
// for some later A: the frame then has no room for the arguments of that call and they overlap live stack slots.

func c02RunningMax(c *Ctx, p *Prog) {
	const rule = "running-maximum"
	n := 0
	for _, rel := range []string{"internal/native/wat2x64", "internal/native/wat2la", "internal/native/wat2rv", "internal/native/wat2arm64"} {
		pk := p.Pkg(rel)
		if pk == nil {
			continue
		}
		for _, f := range pk.Syntax {
			for _, d := range f.Decls {
				fd, ok := d.(*ast.FuncDecl)
				if !ok || fd.Body == nil {
					continue
				}
				k := 0
				ast.Inspect(fd.Body, func(nd ast.Node) bool {
					ifs, ok := nd.(*ast.IfStmt)
					if !ok || ifs.Else != nil || ifs.Init != nil || len(ifs.Body.List) != 1 {
						return true
					}
					be, ok := ast.Unparen(ifs.Cond).(*ast.BinaryExpr)
					if !ok {
						return true
					}
					var big, max ast.Expr
					switch be.Op {
					case token.GTR, token.GEQ:
						big, max = be.X, be.Y
					case token.LSS, token.LEQ:
						big, max = be.Y, be.X
					default:
						return true
					}
					as, ok := ifs.Body.List[0].(*ast.AssignStmt)
					if !ok || as.Tok != token.ASSIGN || len(as.Lhs) != 1 || len(as.Rhs) != 1 {
						return true
					}
					sq := func(e ast.Expr) string { return strings.ReplaceAll(types.ExprString(e), " ", "") }
					if sq(as.Lhs[0]) != sq(max) {
						return true // not an update of the value compared against
					}
					// only fields / variables that persist across the statement (a field of the translator, or a variable)
					n++
					k++
					c.Check(sq(as.Rhs[0]) == sq(big), rule, fmt.Sprintf("%s.%s: update #%d of %s", rel, declName(fd), k, sq(max)), p.Pos(ifs.Pos()), "stores the value it compared",
						fmt.Sprintf("%s compares %s with the running maximum %s but stores %s: the maximum no longer covers the value that was compared, and whatever is sized from it (the outgoing argument area of the frame) is too small for that case", declName(fd), sq(big), sq(max), sq(as.Rhs[0])))
					return true
				})
			}
		}
	}
	c.Min(rule, "running-maximum updates in the native translators", n, 2)
}
