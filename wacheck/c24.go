package main

import (
	"fmt"
	"go/ast"
	"go/token"
	"go/types"
	"strings"
)

func init() {
	f := "internal/loader/buildtag/expr.go"
	register(&Property{ID: "C24", Run: runC24, Mutants: []Mutant{
		{Name: "the expression parser recurses without a limit", File: "internal/loader/buildtag/expr.go", Old: "\tif p.size++; p.size > maxSize {\n\t\tpanic(&SyntaxError{Offset: p.pos, Err: \"build expression too large\"})\n\t}\n", New: "", Expect: "recursion-bounded"},
		{Name: "the architecture tag ignores the configured target", File: "internal/loader/loader.go", Old: "\tif s := p.cfg.TargetArch; s != \"\" {\n\t\treturn s\n\t}\n\tif s := p.prog.Manifest.Pkg.TargetArch; s != \"\" {\n\t\treturn s\n\t}\n", New: "", Expect: "target-getters-read-config"},
		{Name: "a negated negation is printed as !!a", File: "internal/loader/buildtag/expr.go", Old: "\tcase *AndExpr, *OrExpr, *NotExpr:", New: "\tcase *AndExpr, *OrExpr:", Expect: "print-reparses"},
		{Name: "excluded files deleted in place without stepping the index back", File: "internal/loader/loader.go", Old: "\t\tvar pkgFileNames = make([]string, 0, len(filenames))\n\t\tvar pkgFiles = make([]*ast.File, 0, len(pkg.Files))\n\t\tfor i, f := range pkg.Files {\n\t\t\tskiped, err := p.isSkipedAstFile(f)\n\t\t\tif err != nil {\n\t\t\t\treturn nil, err\n\t\t\t}\n\t\t\tif skiped {\n\t\t\t\tcontinue\n\t\t\t}\n\t\t\tpkgFileNames = append(pkgFileNames, filenames[i])\n\t\t\tpkgFiles = append(pkgFiles, f)\n\t\t}\n\t\tfilenames = pkgFileNames\n\t\tpkg.Files = pkgFiles\n", New: "\t\tfor i := 0; i < len(pkg.Files); i++ {\n\t\t\tskiped, err := p.isSkipedAstFile(pkg.Files[i])\n\t\t\tif err != nil {\n\t\t\t\treturn nil, err\n\t\t\t}\n\t\t\tif skiped {\n\t\t\t\tfilenames = append(filenames[:i], filenames[i+1:]...)\n\t\t\t\tpkg.Files = append(pkg.Files[:i], pkg.Files[i+1:]...)\n\t\t\t}\n\t\t}\n", Expect: "filter-loop-visits-all"},
		{Name: "not() collapses a negated negation to the inner negation", File: "internal/loader/buildtag/expr.go", Old: "func not(x Expr) Expr { return &NotExpr{x} }", New: "func not(x Expr) Expr {\n\tif x, ok := x.(*NotExpr); ok {\n\t\treturn x\n\t}\n\treturn &NotExpr{x}\n}", Expect: "constructor-total"},
		{Name: "negation printed without parentheses around ||", File: f, Old: "\tcase *AndExpr, *OrExpr, *NotExpr:", New: "\tcase *AndExpr, *NotExpr:", Expect: "print-"},
		{Name: "build line searched outside the doc comment only for undocumented files", File: "internal/loader/loader.go", Old: "\t}\n\tif buildExpr == nil {\n\t\tfor _, comment := range f.Comments {", New: "\t} else {\n\t\tfor _, comment := range f.Comments {", Expect: "build-line-search"},
		{Name: "AndExpr evaluates as or", File: f, Old: "\treturn xok && yok", New: "\treturn xok || yok", Expect: "evaluator-truth-table :: AndExpr"},
		{Name: "NotExpr loses the negation", File: f, Old: "\treturn !x.X.Eval(ok)", New: "\treturn x.X.Eval(ok)", Expect: "evaluator-truth-table :: NotExpr"},
		{Name: "OrExpr ignores its right operand", File: f, Old: "\treturn xok || yok", New: "\treturn xok || (yok && false)", Expect: "evaluator-truth-table :: OrExpr"},
		{Name: "and-level loop consumes ||", File: f, Old: "\tfor p.tok == \"&&\" {", New: "\tfor p.tok == \"||\" {", Expect: "grammar-shape :: and"},
		{Name: "or builds an AndExpr", File: f, Old: "func or(x, y Expr) Expr {\n\treturn &OrExpr{x, y}", New: "func or(x, y Expr) Expr {\n\treturn &AndExpr{x, y}", Expect: "grammar-shape :: constructor or"},
		{Name: "file skipped when the constraint is true", File: "internal/loader/loader.go", Old: "\treturn !ok, err\n}", New: "\treturn ok, err\n}", Expect: "inclusion-polarity"},
		{Name: "skipped files are kept", File: "internal/loader/loader.go", Old: "\t\t\tif skiped {\n\t\t\t\tcontinue\n\t\t\t}", New: "\t\t\tif !skiped {\n\t\t\t\tcontinue\n\t\t\t}", Expect: "inclusion-polarity"},
		{Name: "target arch no longer satisfies a tag", File: "internal/loader/loader.go", Old: "if tag == p.GetTargetOS() || tag == p.GetTargetArch() {", New: "if tag == p.GetTargetOS() && tag == p.GetTargetArch() {", Expect: "tag-predicate"},
		{Name: "parse error of the constraint ignored", File: "internal/loader/loader.go", Old: "\t\t\tskiped, err := p.isSkipedAstFile(f)\n\t\t\tif err != nil {\n\t\t\t\treturn nil, err\n\t\t\t}", New: "\t\t\tskiped, err := p.isSkipedAstFile(f)\n\t\t\tif err != nil {\n\t\t\t\tcontinue\n\t\t\t}", Expect: "malformed-rejected"},
	}})
}

// evalBool evaluates a Go boolean expression over named atoms (E12: finite abstract evaluation).
func evalBool(e ast.Expr, env map[string]bool, atomOf func(ast.Expr) string) (bool, bool) {
	switch x := e.(type) {
	case *ast.ParenExpr:
		return evalBool(x.X, env, atomOf)
	case *ast.Ident:
		if x.Name == "true" {
			return true, true
		}
		if x.Name == "false" {
			return false, true
		}
		v, ok := env[x.Name]
		return v, ok
	case *ast.UnaryExpr:
		if x.Op == token.NOT {
			v, ok := evalBool(x.X, env, atomOf)
			return !v, ok
		}
	case *ast.BinaryExpr:
		l, ok1 := evalBool(x.X, env, atomOf)
		r, ok2 := evalBool(x.Y, env, atomOf)
		if !ok1 || !ok2 {
			return false, false
		}
		switch x.Op {
		case token.LAND:
			return l && r, true
		case token.LOR:
			return l || r, true
		case token.EQL:
			return l == r, true
		case token.NEQ, token.XOR:
			return l != r, true
		}
	case *ast.CallExpr:
		if a := atomOf(x); a != "" {
			v, ok := env[a]
			return v, ok
		}
	}
	return false, false
}

func runC24(c *Ctx) {
	c.Explain = "Decides structural clauses of build-constraint handling: (1) the Eval methods of NotExpr/AndExpr/OrExpr/TagExpr have the truth tables of not/and/or/lookup over their sub-evaluations (all assignments enumerated); " +
		"(2) the recursive-descent grammar is or -> and -> not -> atom, each level loops on its own operator token and builds its own node kind with operands in order; " +
		"(3) a file is dropped from a non-main package exactly when Eval is false: isSkipedAstFile returns the negation of Eval and its caller drops the file iff skipped; the tag predicate accepts the target OS, the target architecture and every configured tag and nothing else; " +
		"(4) a malformed constraint is returned as an error and aborts the import. " +
		"(5) NotExpr.String parenthesises every operand kind the parser does not accept directly behind `!`. NOT decided: lexing of tags, the rest of the String()/Parse round trip, detection of which comment is the constraint line."
	c.Trusted = []string{"go/packages, go/types (x/tools v0.29.0)"}
	p := c.Load(LoadOpt{Light: true}, "./internal/loader", "./internal/loader/buildtag")
	bt := p.MustPkg("evaluator-truth-table", "internal/loader/buildtag")
	ld := p.MustPkg("inclusion-polarity", "internal/loader")
	if bt == nil || ld == nil {
		return
	}
	c24PrintReparses(c, p, bt)
	c24TargetGetters(c, p, ld)
	c24RecursionBounded(c, p, bt)
	const rT, rG, rI, rP, rM = "evaluator-truth-table", "grammar-shape", "inclusion-polarity", "tag-predicate", "malformed-rejected"
	c24Extra(c, p, bt, ld)
	c24InPlaceDeletion(c, p, ld)
	c24ConstructorTotal(c, p, bt)

	// (1) truth tables
	atomOf := func(e ast.Expr) string {
		call, ok := e.(*ast.CallExpr)
		if !ok {
			return ""
		}
		s := strings.ReplaceAll(types.ExprString(call), " ", "")
		switch s {
		case "x.X.Eval(ok)":
			return "X"
		case "x.Y.Eval(ok)":
			return "Y"
		case "ok(x.Tag)":
			return "T"
		}
		return ""
	}
	want := map[string]func(x, y, t bool) bool{
		"NotExpr": func(x, y, t bool) bool { return !x },
		"AndExpr": func(x, y, t bool) bool { return x && y },
		"OrExpr":  func(x, y, t bool) bool { return x || y },
		"TagExpr": func(x, y, t bool) bool { return t },
	}
	for _, tn := range []string{"NotExpr", "AndExpr", "OrExpr", "TagExpr"} {
		fd := p.MustFunc(rT, bt, tn+".Eval")
		if fd == nil {
			continue
		}
		decided, good := true, true
		evaluatedBoth := true
		for mask := 0; mask < 8; mask++ {
			x, y, t := mask&1 != 0, mask&2 != 0, mask&4 != 0
			env := map[string]bool{"X": x, "Y": y, "T": t}
			var res *bool
			for _, s := range fd.Body.List {
				switch st := s.(type) {
				case *ast.AssignStmt:
					if len(st.Lhs) == 1 && len(st.Rhs) == 1 {
						if id, ok := st.Lhs[0].(*ast.Ident); ok {
							if v, ok := evalBool(st.Rhs[0], env, atomOf); ok {
								env[id.Name] = v
								continue
							}
						}
					}
					decided = false
				case *ast.ReturnStmt:
					if len(st.Results) == 1 {
						if v, ok := evalBool(st.Results[0], env, atomOf); ok {
							res = &v
							continue
						}
					}
					decided = false
				default:
					decided = false
				}
			}
			if res == nil {
				decided = false
				break
			}
			if *res != want[tn](x, y, t) {
				good = false
			}
		}
		// binary nodes must evaluate both operands (the source says so: the ok callback must observe all tags)
		if tn == "AndExpr" || tn == "OrExpr" {
			src := ""
			for _, s := range fd.Body.List {
				src += strings.ReplaceAll(types.ExprString(firstExprOf(s)), " ", "") + ";"
			}
			evaluatedBoth = strings.Contains(src, "x.X.Eval(ok)") && strings.Contains(src, "x.Y.Eval(ok)")
		}
		if !decided {
			c.Undecided(rT, tn, p.Pos(fd.Pos()), "the body of Eval is not a sequence of boolean definitions and one return over the sub-evaluations")
			continue
		}
		c.Check(good && evaluatedBoth, rT, tn, p.Pos(fd.Pos()), "8 assignments enumerated: result equals the node's Boolean function", fmt.Sprintf("%s.Eval does not compute the %s of its operands for every assignment (or does not evaluate both operands)", tn, strings.ToLower(strings.TrimSuffix(tn, "Expr"))))
	}

	// (2) grammar
	info := bt.TypesInfo
	// the levels and constructors are found by what they do (c24_names.go); `key` keeps the obligation names stable
	c24ResolveNames(bt)
	type level struct{ key, fn, sub, tok, ctor string }
	isMethodCall := func(e ast.Expr, name string) bool {
		call, ok := ast.Unparen(e).(*ast.CallExpr)
		if !ok || len(call.Args) != 0 {
			return false
		}
		se, ok := call.Fun.(*ast.SelectorExpr)
		return ok && se.Sel.Name == name
	}
	for _, lv := range []level{{"or", c24Names.Or, c24Names.And, "||", c24Names.Ctor["OrExpr"]}, {"and", c24Names.And, c24Names.Not, "&&", c24Names.Ctor["AndExpr"]}} {
		fd := p.MustFunc(rG, bt, "exprParser."+lv.fn)
		if fd == nil {
			continue
		}
		okFirst, okLoop, okBuild := false, false, false
		var acc types.Object
		for _, s := range fd.Body.List {
			switch st := s.(type) {
			case *ast.AssignStmt:
				if len(st.Lhs) == 1 && len(st.Rhs) == 1 && isMethodCall(st.Rhs[0], lv.sub) {
					okFirst = true
					acc = identObj(info, st.Lhs[0])
				}
			case *ast.ForStmt:
				if be, ok := ast.Unparen(st.Cond).(*ast.BinaryExpr); ok && be.Op == token.EQL {
					for _, pr := range [][2]ast.Expr{{be.X, be.Y}, {be.Y, be.X}} {
						se, ok1 := ast.Unparen(pr[0]).(*ast.SelectorExpr)
						lit, ok2 := ast.Unparen(pr[1]).(*ast.BasicLit)
						if ok1 && ok2 && se.Sel.Name == "tok" && lit.Value == `"`+lv.tok+`"` {
							okLoop = true
						}
					}
				}
				for _, b := range st.Body.List {
					as, ok := b.(*ast.AssignStmt)
					if !ok || len(as.Lhs) != 1 || len(as.Rhs) != 1 || acc == nil || identObj(info, as.Lhs[0]) != acc {
						continue
					}
					call, ok := ast.Unparen(as.Rhs[0]).(*ast.CallExpr)
					if !ok || len(call.Args) != 2 {
						continue
					}
					if id, ok := call.Fun.(*ast.Ident); ok && id.Name == lv.ctor && identObj(info, call.Args[0]) == acc && isMethodCall(call.Args[1], lv.sub) {
						okBuild = true
					}
				}
			}
		}
		c.Check(okFirst && okLoop && okBuild, rG, lv.key, p.Pos(fd.Pos()), fmt.Sprintf("x := %s(); for tok == %q { x = %s(x, %s()) }", lv.sub, lv.tok, lv.ctor, lv.sub),
			fmt.Sprintf("level %q of the grammar is not `x := p.%s(); for p.tok == %q { x = %s(x, p.%s()) }` (first=%v loop=%v build=%v): operator precedence or associativity changed", lv.fn, lv.sub, lv.tok, lv.ctor, lv.sub, okFirst, okLoop, okBuild))
	}
	if fd := p.MustFunc(rG, bt, "exprParser."+c24Names.Not); fd != nil {
		// decided on the function's decision tree, not on its layout: every path is followed with the number of
		// tokens lexed so far and what the tests on the path established about them
		paths, why := c24NotPaths(fd)
		want := map[string]bool{"t1!=! -> atom@1": true, "t1==! t2==! -> error": true, "t1==! t2!=! -> not(atom)@2": true}
		good := why == "" && len(paths) == len(want)
		for _, pt := range paths {
			if !want[pt] {
				good = false
			}
		}
		c.Check(good, rG, "not", p.Pos(fd.Pos()), "! atom | atom, `!!` rejected", "the not level no longer parses `! atom | atom` with a double negation rejected; its paths are ["+strings.Join(paths, "; ")+"] "+why)
	}
	for ctor, typ := range map[string]string{"or": "OrExpr", "and": "AndExpr", "not": "NotExpr", "tag": "TagExpr"} {
		fd := p.MustFunc(rG, bt, c24Names.Ctor[typ])
		if fd == nil {
			continue
		}
		got, order := "", ""
		ast.Inspect(fd.Body, func(n ast.Node) bool {
			if cl, ok := n.(*ast.CompositeLit); ok {
				got = namedTypeName(info.TypeOf(cl))
				var parts []string
				for _, el := range cl.Elts {
					parts = append(parts, types.ExprString(el))
				}
				order = strings.Join(parts, ",")
			}
			return true
		})
		wantOrder := map[string]string{"or": "x,y", "and": "x,y", "not": "x", "tag": "tag"}[ctor]
		alt := map[string]string{"or": "X: x,Y: y", "and": "X: x,Y: y", "not": "X: x", "tag": "Tag: tag"}[ctor]
		c.Check(got == typ && (order == wantOrder || order == alt), rG, "constructor "+ctor, p.Pos(fd.Pos()), "builds &"+typ+"{"+order+"}", fmt.Sprintf("constructor %s builds &%s{%s}; it must build &%s{%s}", ctor, got, order, typ, wantOrder))
	}

	// (3) inclusion polarity and predicate
	if fd := p.MustFunc(rI, ld, "_Loader.isSkipedAstFile"); fd != nil {
		li := ld.TypesInfo
		// ok := expr.Eval(func...) ; return !ok, err
		evalVar := ""
		var pred *ast.FuncLit
		ast.Inspect(fd.Body, func(n ast.Node) bool {
			as, ok := n.(*ast.AssignStmt)
			if !ok || len(as.Rhs) != 1 {
				return true
			}
			if call, ok := as.Rhs[0].(*ast.CallExpr); ok {
				if f := CalleeOf(li, call); f != nil && f.Name() == "Eval" && len(call.Args) == 1 {
					evalVar = types.ExprString(as.Lhs[0])
					pred, _ = call.Args[0].(*ast.FuncLit)
					if pred == nil {
						// a method value or a function of the package (`expr.Eval(p.matchBuildTag)`): read its declaration
						var obj types.Object
						switch a := ast.Unparen(call.Args[0]).(type) {
						case *ast.SelectorExpr:
							obj = li.ObjectOf(a.Sel)
						case *ast.Ident:
							obj = li.ObjectOf(a)
						}
						if fn, ok := obj.(*types.Func); ok && fn.Pkg() == ld.Types {
							if hd := declOfFunc(ld, fn); hd != nil && hd.Body != nil {
								pred = &ast.FuncLit{Type: hd.Type, Body: hd.Body}
							}
						}
					}
				}
			}
			return true
		})
		var last *ast.ReturnStmt
		for _, s := range fd.Body.List {
			if r, ok := s.(*ast.ReturnStmt); ok {
				last = r
			}
		}
		good := false
		if last != nil && len(last.Results) == 2 && evalVar != "" {
			v, ok := evalBool(last.Results[0], map[string]bool{evalVar: true}, func(ast.Expr) string { return "" })
			w, ok2 := evalBool(last.Results[0], map[string]bool{evalVar: false}, func(ast.Expr) string { return "" })
			good = ok && ok2 && !v && w
		}
		c.Check(good, rI, "isSkipedAstFile: skipped == !Eval", p.Pos(fd.Pos()), "returns the negation of the constraint's value", "isSkipedAstFile does not return the negation of expr.Eval(...): files are dropped when their constraint holds (or kept when it does not)")
		// no-constraint files are never skipped
		noTag := false
		ast.Inspect(fd.Body, func(n ast.Node) bool {
			if ifs, ok := n.(*ast.IfStmt); ok && strings.ReplaceAll(types.ExprString(ifs.Cond), " ", "") == "buildExpr==nil" {
				for _, s := range ifs.Body.List {
					if r, ok := s.(*ast.ReturnStmt); ok && len(r.Results) == 2 && types.ExprString(r.Results[0]) == "false" && types.ExprString(r.Results[1]) == "nil" {
						noTag = true
					}
				}
			}
			return true
		})
		c.Check(noTag, rI, "isSkipedAstFile: file without a constraint", p.Pos(fd.Pos()), "kept", "a file without a #wa:build line is not unconditionally kept")
		// parse error returned
		perr := false
		ast.Inspect(fd.Body, func(n ast.Node) bool {
			if ifs, ok := n.(*ast.IfStmt); ok && strings.ReplaceAll(types.ExprString(ifs.Cond), " ", "") == "err!=nil" {
				for _, s := range ifs.Body.List {
					if r, ok := s.(*ast.ReturnStmt); ok && len(r.Results) == 2 && types.ExprString(r.Results[1]) == "err" {
						perr = true
					}
				}
			}
			return true
		})
		c.Check(perr, rM, "isSkipedAstFile: parse error", p.Pos(fd.Pos()), "returned to the caller", "a constraint that fails to parse is not returned as an error")
		// predicate
		if pred == nil {
			c.Undecided(rP, "isSkipedAstFile: tag predicate", p.Pos(fd.Pos()), "the predicate passed to Eval is not a function literal")
		} else {
			// abstract evaluation over three atoms: A = tag is the target OS, B = tag is the target arch,
			// C = tag is one of the configured tags (the range loop over cfg.BuilgTags that returns true on a match)
			param := ""
			if len(pred.Type.Params.List) == 1 && len(pred.Type.Params.List[0].Names) == 1 {
				param = pred.Type.Params.List[0].Names[0].Name
			}
			predAtom := func(e ast.Expr) string { return "" }
			cmpAtom := func(e ast.Expr) string {
				be, ok := e.(*ast.BinaryExpr)
				if !ok || be.Op != token.EQL {
					return ""
				}
				for _, pr := range [][2]ast.Expr{{be.X, be.Y}, {be.Y, be.X}} {
					if id, ok := pr[0].(*ast.Ident); ok && id.Name == param {
						s := types.ExprString(pr[1])
						if strings.HasSuffix(s, ".GetTargetOS()") {
							return "A"
						}
						if strings.HasSuffix(s, ".GetTargetArch()") {
							return "B"
						}
					}
				}
				return ""
			}
			var evalCond func(e ast.Expr, env map[string]bool) (bool, bool)
			evalCond = func(e ast.Expr, env map[string]bool) (bool, bool) {
				if a := cmpAtom(e); a != "" {
					return env[a], true
				}
				switch x := e.(type) {
				case *ast.ParenExpr:
					return evalCond(x.X, env)
				case *ast.BinaryExpr:
					l, ok1 := evalCond(x.X, env)
					r, ok2 := evalCond(x.Y, env)
					if ok1 && ok2 && x.Op == token.LOR {
						return l || r, true
					}
					if ok1 && ok2 && x.Op == token.LAND {
						return l && r, true
					}
					return false, false
				}
				return evalBool(e, env, predAtom)
			}
			decided, good := true, true
			for mask := 0; mask < 8 && decided; mask++ {
				env := map[string]bool{"A": mask&1 != 0, "B": mask&2 != 0, "C": mask&4 != 0}
				var res *bool
				for _, s := range pred.Body.List {
					if res != nil {
						break
					}
					switch st := s.(type) {
					case *ast.IfStmt:
						v, ok := evalCond(st.Cond, env)
						if !ok || st.Else != nil || len(st.Body.List) != 1 {
							decided = false
							break
						}
						ret, isRet := st.Body.List[0].(*ast.ReturnStmt)
						if !isRet || len(ret.Results) != 1 {
							decided = false
							break
						}
						if v {
							rv, ok := evalBool(ret.Results[0], env, predAtom)
							if !ok {
								decided = false
								break
							}
							res = &rv
						}
					case *ast.RangeStmt:
						// for _, x := range p.cfg.BuilgTags { if x == tag { return true } }
						isTags := strings.HasSuffix(types.ExprString(st.X), ".BuilgTags")
						val := identName(st.Value)
						okBody := false
						if len(st.Body.List) == 1 {
							if ifs, ok := st.Body.List[0].(*ast.IfStmt); ok && ifs.Else == nil && len(ifs.Body.List) == 1 {
								if be, ok := ifs.Cond.(*ast.BinaryExpr); ok && be.Op == token.EQL {
									l, r := types.ExprString(be.X), types.ExprString(be.Y)
									if (l == val && r == param) || (l == param && r == val) {
										if ret, ok := ifs.Body.List[0].(*ast.ReturnStmt); ok && len(ret.Results) == 1 && types.ExprString(ret.Results[0]) == "true" {
											okBody = true
										}
									}
								}
							}
						}
						if !isTags || !okBody {
							decided = false
							break
						}
						if env["C"] {
							t := true
							res = &t
						}
					case *ast.ReturnStmt:
						if len(st.Results) != 1 {
							decided = false
							break
						}
						rv, ok := evalCond(st.Results[0], env)
						if !ok {
							decided = false
							break
						}
						res = &rv
					default:
						decided = false
					}
				}
				if res == nil {
					decided = false
				} else if *res != (env["A"] || env["B"] || env["C"]) {
					good = false
				}
			}
			if !decided {
				c.Undecided(rP, "isSkipedAstFile: tag predicate", p.Pos(pred.Pos()), "the predicate is not a sequence of `if <comparison> { return b }`, a membership loop over cfg.BuilgTags and a final return")
			} else {
				c.Check(good, rP, "isSkipedAstFile: tag predicate", p.Pos(pred.Pos()), "8 assignments enumerated: true iff tag is the target OS, the target arch or a configured tag", "the tag predicate is not `tag == targetOS || tag == targetArch || tag in cfg.BuilgTags` for every assignment")
			}
		}
	}
	// caller
	if fd := p.MustFunc(rI, ld, "_Loader.Import"); fd != nil {
		found := false
		ast.Inspect(fd.Body, func(n ast.Node) bool {
			rs, ok := n.(*ast.RangeStmt)
			if !ok {
				return true
			}
			var skVar string
			var errRet, drops, keeps bool
			for i, s := range rs.Body.List {
				if as, ok := s.(*ast.AssignStmt); ok && len(as.Rhs) == 1 && strings.Contains(types.ExprString(as.Rhs[0]), "isSkipedAstFile(") {
					skVar = types.ExprString(as.Lhs[0])
					found = true
					rest := rs.Body.List[i+1:]
					for _, r := range rest {
						switch x := r.(type) {
						case *ast.IfStmt:
							cond := strings.ReplaceAll(types.ExprString(x.Cond), " ", "")
							if cond == "err!=nil" {
								for _, b := range x.Body.List {
									if ret, ok := b.(*ast.ReturnStmt); ok && len(ret.Results) == 2 && types.ExprString(ret.Results[1]) == "err" {
										errRet = true
									}
								}
							}
							if cond == skVar {
								for _, b := range x.Body.List {
									if br, ok := b.(*ast.BranchStmt); ok && br.Tok == token.CONTINUE {
										drops = true
									}
								}
							}
						case *ast.AssignStmt:
							if strings.Contains(types.ExprString(x.Rhs[0]), "append(pkgFiles, f)") {
								keeps = true
							}
						}
					}
				}
			}
			if skVar != "" {
				c.Check(drops && keeps, rI, "Import: file filter", p.Pos(rs.Pos()), "skipped files are dropped, all others kept", "the caller of isSkipedAstFile does not `continue` exactly on skipped files and append the others")
				c.Check(errRet, rM, "Import: constraint error aborts the import", p.Pos(rs.Pos()), "error returned", "an error from isSkipedAstFile does not abort the import: a malformed #wa:build line is silently ignored")
			}
			return true
		})
		if !found {
			c.Undecided(rI, "Import: file filter", p.Pos(fd.Pos()), "call to isSkipedAstFile not found")
		}
	}
}

func firstExprOf(s ast.Stmt) ast.Expr {
	switch x := s.(type) {
	case *ast.AssignStmt:
		return x.Rhs[0]
	case *ast.ReturnStmt:
		if len(x.Results) > 0 {
			return x.Results[0]
		}
	case *ast.ExprStmt:
		return x.X
	}
	return &ast.Ident{Name: "_"}
}
