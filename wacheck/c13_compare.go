package main

import (
	"fmt"
	"strings"
)

// C13 rule compare-antisymmetric: $runtime.Compare orders two interface values (the map's keys) by their type's
// comparison id first. It is a three-way comparison: on the paths that decide by an ordering test of the same two
// quantities the constant returned is -1 when the left one is smaller and +1 when it is larger. Returning the same
// sign both ways makes Compare(a,b) and Compare(b,a) agree, insert and search then descend different ways, and keys
// of mixed dynamic types are stored but never found.

func c13CompareAntisymmetric(c *Ctx) {
	const rule = "compare-antisymmetric"
	rel := "waroot/src/runtime/interface.wat.ws"
	src, err := c.ReadFile(rel)
	if err != nil {
		c.Undecided(rule, "anchor:"+rel, rel, "file not readable")
		return
	}
	m := &watModule{}
	if err := parseWatFragments(rel, string(src), m); err != nil {
		c.Undecided(rule, "anchor:"+rel, rel, "not parseable: "+err.Error())
		return
	}
	f := m.ByName["$runtime.Compare"]
	if f == nil {
		c.Undecided(rule, "anchor:$runtime.Compare", rel, "function not found")
		return
	}
	ps, err := watPaths(m, f)
	if err != nil {
		c.Undecided(rule, "$runtime.Compare", fmt.Sprintf("%s:%d", rel, f.Line), "path summary failed: "+err.Error())
		return
	}
	var probs []string
	n := 0
	for i, p := range ps {
		if p.End != "return" || len(p.Results) != 1 || p.Results[0].Op != "const" {
			continue
		}
		// the last ordering test on the path decides
		for j := len(p.Conds) - 1; j >= 0; j-- {
			cd := p.Conds[j]
			if cd.T.Op != "op" || len(cd.T.Args) != 2 || !cd.Taken {
				continue
			}
			want := int64(0)
			switch cd.T.Name {
			case "lt_s", "lt_u":
				want = -1
			case "gt_s", "gt_u":
				want = 1
			default:
				continue
			}
			n++
			if p.Results[0].K != want {
				probs = append(probs, fmt.Sprintf("path %d: when %s holds (line %d) the function returns %d, a three-way comparison returns %d", i, cd.T, cd.Line, p.Results[0].K, want))
			}
			break
		}
	}
	c.Check(len(probs) == 0 && n >= 3, rule, "$runtime.Compare", fmt.Sprintf("%s:%d", rel, f.Line), "-1 on the smaller-than paths, +1 on the greater-than paths",
		"$runtime.Compare: "+strings.Join(probs, "; ")+fmt.Sprintf(" (%d deciding paths found): Compare(a,b) and Compare(b,a) no longer have opposite signs, so the map's insert and search descend different ways for keys of different dynamic types", n))
}
