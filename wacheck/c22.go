package main

import (
	_ "embed"
	"fmt"
	"go/ast"
	"go/types"
	"os"
	"os/exec"
	"path/filepath"
	"sort"
	"strings"
)

// C22 — computed text diffs apply back to the target text.
//
// internal/lsp/diff (with its lcs sub-package) is a copy of golang.org/x/tools/internal/diff. The version the checker
// itself is built against (x/tools v0.29.0, in the module cache) is the origin: every function whose canonical syntax
// tree equalled the origin's when the rule was armed (frozen list c22_origin.txt) must stay equal. The two functions the
// fork rewrote (the generic isASCII was split into a string and a []byte version) are covered by their own rules.

//go:embed c22_origin.txt
var c22Origin string

func init() {
	register(&Property{ID: "C22", Run: runC22, Mutants: []Mutant{
		{Name: "joined edits do not advance the new-text line counter", File: "internal/lsp/diff/unified.go", Old: "\t\t\ttoLine += start - last // the joiners are lines of the new text too\n", New: "", Expect: "hunk-line-counters"},
		{Name: "an empty range is printed as a bare line number", File: "internal/lsp/diff/unified.go", Old: "\t\t} else if toCount == 0 {\n\t\t\tfmt.Fprintf(b, \" +%d,0\", hunk.toLine-1)\n", New: "\t\t} else if hunk.toLine == 1 && toCount == 0 {\n\t\t\tfmt.Fprintf(b, \" +0,0\")\n", Expect: "empty-range-format"},
		{Name: "Apply copies the gap up to the edit's end instead of its start", File: "internal/lsp/diff/diff.go", Old: "\t\t\tout = append(out, src[lastEnd:edit.Start]...)", New: "\t\t\tout = append(out, src[lastEnd:edit.End]...)", Expect: "origin-agreement :: diff.Apply"},
		{Name: "validate accepts overlapping edits", File: "internal/lsp/diff/diff.go", Old: "\t\tif !(0 <= edit.Start && edit.Start <= edit.End && edit.End <= len(src)) {", New: "\t\tif !(0 <= edit.Start && edit.End <= len(src)) {", Expect: "origin-agreement :: diff.validate"},
		{Name: "edit start looked up in the target text's offset table", File: "internal/lsp/diff/ndiff.go", Old: "Edit{boffs[d.Start], boffs[d.End],", New: "Edit{aoffs[d.Start], boffs[d.End],", Expect: "rune-offsets-from-source :: edits diffRunes"},
		{Name: "replacement cut out with the deleted range's indices", File: "internal/lsp/diff/ndiff.go", Old: "after[aoffs[d.ReplStart]:aoffs[d.ReplEnd]]", New: "after[aoffs[d.ReplStart]:aoffs[d.End]]", Expect: "rune-offsets-from-source :: edits diffRunes"},
		{Name: "decoder advances by the re-encoded length", File: "internal/lsp/diff/ndiff.go", Old: "\t\ti += sz\n", New: "\t\ti += utf8.RuneLen(r)\n", Expect: "rune-offsets-from-source :: decoder decodeRunes"},
		{Name: "offset table not closed with len(text)", File: "internal/lsp/diff/ndiff.go", Old: "\toffs = append(offs, len(text))\n", New: "", Expect: "rune-offsets-from-source :: decoder decodeRunes"},
		{Name: "a literal U+FFFD treated as an invalid byte", File: "internal/lsp/diff/ndiff.go", Old: "if r == utf8.RuneError && sz == 1 {", New: "if r == utf8.RuneError {", Expect: "rune-offsets-from-source :: decoder decodeRunes"},
		{Name: "invalid bytes all get the same value", File: "internal/lsp/diff/ndiff.go", Old: "r = invalidRune + rune(text[i])", New: "r = invalidRune + rune(sz)", Expect: "rune-offsets-from-source :: decoder decodeRunes"},
		{Name: "decoder pre-sizes the rune list", File: "internal/lsp/diff/ndiff.go", Old: "runes = make([]rune, 0, n)", New: "runes = make([]rune, 1, n)", Expect: "rune-offsets-from-source :: decoder decodeRunes"},
		{Name: "Strings passes the texts swapped", File: "internal/lsp/diff/ndiff.go", Old: "return diffRunes(before, after)", New: "return diffRunes(after, before)", Expect: "rune-offsets-from-source :: caller Strings"},
		{Name: "isASCIIByte treats 0x80 as ASCII", File: "internal/lsp/diff/ndiff.go", Old: "func isASCIIByte(s []byte) bool {\n\tfor i := 0; i < len(s); i++ {\n\t\tif s[i] >= utf8.RuneSelf {", New: "func isASCIIByte(s []byte) bool {\n\tfor i := 0; i < len(s); i++ {\n\t\tif s[i] > utf8.RuneSelf {", Expect: "ascii-test"},
		{Name: "lcs: forward search compares the wrong diagonal", File: "internal/lsp/diff/lcs/old.go", Old: "\t\t\t\te.setForward(D+1, k, lookv)", New: "\t\t\t\te.setForward(D+1, k+1, lookv)", Expect: "origin-agreement"},
	}})
}

func goListDir(pkg string) string {
	cmd := exec.Command("go", "list", "-f", "{{.Dir}}", pkg)
	cmd.Dir = filepath.Join(os.Getenv("VERIF_DIR"), "wacheck")
	if os.Getenv("VERIF_DIR") == "" {
		cmd.Dir = "/verif/wacheck"
	}
	cmd.Env = append(os.Environ(), "GOFLAGS=-mod=mod", "GOPROXY=off", "GOSUMDB=off", "GOTOOLCHAIN=local", "GOWORK=off")
	out, err := cmd.Output()
	if err != nil {
		return ""
	}
	return strings.TrimSpace(string(out))
}

func runC22(c *Ctx) {
	c.Explain = "Decides agreement of internal/lsp/diff and internal/lsp/diff/lcs with the package they were copied from, golang.org/x/tools/internal/diff at the version the checker is built against (v0.29.0, read from the module cache): every function whose canonical syntax tree (positions, comments, parentheses normalised) equalled the origin's when the rule was armed (frozen list c22_origin.txt) is still equal; " +
		"diff.Bytes equals the origin's up to the name of the ASCII test; the fork's two ASCII tests return false exactly for inputs containing a byte >= 0x80 (guard evaluated over all 256 byte values). " +
		"The non-ASCII path (diffRunes and its decoder) is wa-lang/wa's own code since the invalid-UTF-8 repair and is decided structurally (rule rune-offsets-from-source): the decoder records the byte offset of every rune (offset = loop position, advance = decoded size, table closed with len(text)) and gives each invalid byte its own value above utf8.MaxRune; each Edit takes Start/End from the first text's table at d.Start/d.End and cuts New out of the second text with its table at d.ReplStart/d.ReplEnd; callers pass (before, after) in order. " +
		"That Apply(before, Strings(before, after)) == after for every pair of texts is a property of the origin's algorithm, which this check does not re-establish: it decides that the copy is still that algorithm. toUnified and unified.String are the repository's own code since two defects of the origin's rendering were repaired; they are decided by hunk-line-counters and empty-range-format. NOT decided: the algorithm itself."
	c.Trusted = []string{"go/packages, go/parser", "golang.org/x/tools v0.29.0 internal/diff sources in the module cache as the origin"}
	p := c.Load(LoadOpt{Light: true}, "./internal/lsp/diff", "./internal/lsp/diff/lcs")
	const rule = "origin-agreement"
	want := map[string]bool{}
	for _, l := range strings.Split(c22Origin, "\n") {
		l = strings.TrimSpace(l)
		if l != "" && !strings.HasPrefix(l, "#") {
			want[l] = true
		}
	}
	dump := os.Getenv("VERIF_C22_DUMP") == "1"
	seen := map[string]bool{}
	n := 0
	for _, sub := range []struct{ rel, ref, label string }{
		{"internal/lsp/diff", "golang.org/x/tools/internal/diff", "diff"},
		{"internal/lsp/diff/lcs", "golang.org/x/tools/internal/diff/lcs", "lcs"},
	} {
		pk := p.MustPkg(rule, sub.rel)
		if pk == nil {
			continue
		}
		dir := goListDir(sub.ref)
		if dir == "" {
			c.Undecided(rule, "anchor:"+sub.ref, "", "the origin package is not in the module cache")
			continue
		}
		ref := pkgFuncs(parseGoDir(dir))
		mine := pkgFuncs(pk.Syntax)
		var keys []string
		for k := range mine {
			if _, ok := ref[k]; ok {
				keys = append(keys, k)
			}
		}
		sort.Strings(keys)
		for _, k := range keys {
			id := sub.label + "." + k
			var pre map[string]string
			if fd := mine[k]; fd.Recv != nil && len(fd.Recv.List) == 1 && len(fd.Recv.List[0].Names) == 1 {
				pre = map[string]string{fd.Recv.List[0].Names[0].Name: "$recv"}
			}
			if k == "Bytes" {
				pre = map[string]string{"isASCIIByte": "isASCII"}
			}
			a := canonFunc(mine[k].Type, mine[k].Body, pre)
			b := funcCanon(ref[k])
			if dump {
				if a == b {
					fmt.Println(id)
				}
				continue
			}
			if !want[id] {
				continue
			}
			seen[id] = true
			n++
			c.Check(a == b, rule, id, p.Pos(mine[k].Pos()), "same function as "+sub.ref+"."+k,
				fmt.Sprintf("%s.%s was the same function as %s.%s and no longer is (first difference, copy vs origin: %s): the copy no longer computes the edits the origin computes", sub.rel, k, sub.ref, k, firstDiff(a, b)))
		}
	}
	if dump {
		return
	}
	var missing []string
	for k := range want {
		if !seen[k] {
			missing = append(missing, k)
		}
	}
	sort.Strings(missing)
	for _, k := range missing {
		c.Undecided(rule, k, "", "the frozen instance no longer resolves on both sides (function renamed or removed): it is not being compared any more")
	}
	c.Min(rule, "frozen functions", n, 55)

	// the fork's ASCII tests
	if pk := p.Pkg("internal/lsp/diff"); pk != nil {
		c22RunePath(c, p, pk)
		c22Unified(c, p, pk)
		info := pk.TypesInfo
		for _, name := range []string{"isASCII", "isASCIIByte"} {
			fd := p.MustFunc("ascii-test", pk, name)
			if fd == nil {
				continue
			}
			// for i := ...; { if <guard on s[i]> { return false } } ; return true
			var guard ast.Expr
			var idx *ast.IndexExpr
			shape := false
			if len(fd.Body.List) == 2 {
				if fs, ok := fd.Body.List[0].(*ast.ForStmt); ok && len(fs.Body.List) == 1 {
					if ifs, ok := fs.Body.List[0].(*ast.IfStmt); ok && len(ifs.Body.List) == 1 && ifs.Else == nil {
						r1, ok1 := ifs.Body.List[0].(*ast.ReturnStmt)
						r2, ok2 := fd.Body.List[1].(*ast.ReturnStmt)
						if ok1 && ok2 && len(r1.Results) == 1 && len(r2.Results) == 1 && types.ExprString(r1.Results[0]) == "false" && types.ExprString(r2.Results[0]) == "true" {
							guard, shape = ifs.Cond, true
							ast.Inspect(ifs.Cond, func(n ast.Node) bool {
								if ix, ok := n.(*ast.IndexExpr); ok {
									idx = ix
								}
								return true
							})
							// the loop visits every index
							init, okI := fs.Init.(*ast.AssignStmt)
							cond, okC := fs.Cond.(*ast.BinaryExpr)
							post, okP := fs.Post.(*ast.IncDecStmt)
							if !(okI && okC && okP && types.ExprString(init.Rhs[0]) == "0" && types.ExprString(cond) == types.ExprString(init.Lhs[0])+" < len("+types.ExprString(idx.X)+")" && types.ExprString(post.X) == types.ExprString(init.Lhs[0]) && types.ExprString(idx.Index) == types.ExprString(init.Lhs[0])) {
								shape = false
							}
						}
					}
				}
			}
			if !shape || idx == nil {
				c.Undecided("ascii-test", "diff."+name, p.Pos(fd.Pos()), "not of the form `for i := 0; i < len(s); i++ { if <test of s[i]> { return false } }; return true`")
				continue
			}
			var bad []string
			for b := int64(0); b < 256; b++ {
				env := &fenv{info: info, vars: map[types.Object]fval{}}
				env.hook = func(e ast.Expr) (fval, bool) {
					if e == ast.Expr(idx) {
						return fInt(b), true
					}
					return fval{}, false
				}
				v := env.eval(guard)
				if !v.OK || v.B != (b >= 0x80) {
					bad = append(bad, fmt.Sprintf("0x%02x", b))
				}
			}
			c.Check(len(bad) == 0, "ascii-test", "diff."+name, p.Pos(fd.Pos()), "false exactly when a byte >= 0x80 occurs (256 byte values)",
				"diff."+name+" misclassifies byte(s) "+strings.Join(bad, " ")+": a text containing them takes the byte-offset path although it is not ASCII (or the rune path although it is), and edit offsets stop falling on rune boundaries")
		}
	}
}
