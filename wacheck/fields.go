package main

import (
	"go/ast"
	"go/token"
	"go/types"
	"strings"

	"golang.org/x/tools/go/packages"
)

// E11: which struct fields of a given package's types are written / read in a set of functions.

type FieldUse struct {
	Pos  token.Pos
	Func string
}

// fieldKey is "T.F".
func fieldKey(recv types.Type, f *types.Var) string {
	return namedTypeName(recv) + "." + f.Name()
}

// structOf returns the named struct type (through pointers) when it belongs to pkgSuffix.
func structOf(t types.Type, pkgSuffix string) (*types.Named, *types.Struct) {
	if p, ok := t.(*types.Pointer); ok {
		t = p.Elem()
	}
	n, ok := t.(*types.Named)
	if !ok || n.Obj().Pkg() == nil || !strings.HasSuffix(n.Obj().Pkg().Path(), pkgSuffix) {
		return nil, nil
	}
	st, ok := n.Underlying().(*types.Struct)
	if !ok {
		return nil, nil
	}
	return n, st
}

// FieldAccesses scans the functions of pk (all when only is nil) for reads and writes of fields of
// struct types declared in the package with path suffix pkgSuffix.
func FieldAccesses(pk *packages.Package, pkgSuffix string, only func(name string) bool) (reads, writes map[string][]FieldUse) {
	reads, writes = map[string][]FieldUse{}, map[string][]FieldUse{}
	info := pk.TypesInfo
	for _, f := range pk.Syntax {
		for _, d := range f.Decls {
			fd, ok := d.(*ast.FuncDecl)
			if !ok || fd.Body == nil {
				continue
			}
			name := declName(fd)
			if only != nil && !only(name) {
				continue
			}
			lhs := map[ast.Expr]bool{}
			ast.Inspect(fd.Body, func(n ast.Node) bool {
				switch x := n.(type) {
				case *ast.AssignStmt:
					for _, l := range x.Lhs {
						lhs[ast.Unparen(l)] = true
					}
				case *ast.IncDecStmt:
					lhs[ast.Unparen(x.X)] = true
				}
				return true
			})
			ast.Inspect(fd.Body, func(n ast.Node) bool {
				switch x := n.(type) {
				case *ast.SelectorExpr:
					sel, ok := info.Selections[x]
					if !ok || sel.Kind() != types.FieldVal {
						return true
					}
					fv, ok := sel.Obj().(*types.Var)
					if !ok {
						return true
					}
					// the struct that declares the field (handles promotion through embedding)
					recv := sel.Recv()
					nt, st := structOf(recv, pkgSuffix)
					if nt == nil {
						return true
					}
					owner := nt
					if len(sel.Index()) > 1 {
						// promoted: walk the embedding path
						cur := st
						for _, ix := range sel.Index()[:len(sel.Index())-1] {
							ft := cur.Field(ix).Type()
							n2, s2 := structOf(ft, pkgSuffix)
							if n2 == nil {
								return true
							}
							owner, cur = n2, s2
						}
					}
					key := owner.Obj().Name() + "." + fv.Name()
					if lhs[x] {
						writes[key] = append(writes[key], FieldUse{x.Pos(), name})
					} else {
						reads[key] = append(reads[key], FieldUse{x.Pos(), name})
					}
				case *ast.CompositeLit:
					t := info.TypeOf(x)
					nt, st := structOf(t, pkgSuffix)
					if nt == nil {
						return true
					}
					for i, el := range x.Elts {
						if kv, ok := el.(*ast.KeyValueExpr); ok {
							if id, ok := kv.Key.(*ast.Ident); ok {
								key := nt.Obj().Name() + "." + id.Name
								writes[key] = append(writes[key], FieldUse{kv.Pos(), name})
							}
						} else if i < st.NumFields() {
							key := nt.Obj().Name() + "." + st.Field(i).Name()
							writes[key] = append(writes[key], FieldUse{el.Pos(), name})
						}
					}
				}
				return true
			})
		}
	}
	return
}

// StructFields lists "T.F" for all named struct types of a package (non-embedded fields), with field types.
func StructFields(pk *packages.Package) map[string]*types.Var {
	out := map[string]*types.Var{}
	sc := pk.Types.Scope()
	for _, n := range sc.Names() {
		tn, ok := sc.Lookup(n).(*types.TypeName)
		if !ok {
			continue
		}
		st, ok := tn.Type().Underlying().(*types.Struct)
		if !ok {
			continue
		}
		for i := 0; i < st.NumFields(); i++ {
			f := st.Field(i)
			if f.Embedded() {
				continue
			}
			out[n+"."+f.Name()] = f
		}
	}
	return out
}
