package main

import (
	"go/ast"
	"go/token"
	"go/types"
	"strings"

	"golang.org/x/tools/go/packages"
)

// C05 rule empty-predicate-whole-value: the WAT printer omits a memory or table declaration that "is empty", which it
// decides by comparing the declaration with the zero value of its type. The value compared against must be the zero
// value of the whole struct (new(T), T{}): a comparison that copies a field from the declaration into the "zero"
// value ignores that field, so a declaration that differs from nothing only in the ignored field's neighbours — an
// unnamed `(memory 0)` — is dropped from the output and the re-parsed module has no memory.

func c05EmptyPredicates(c *Ctx, p *Prog, pk *packages.Package) {
	const rule = "empty-predicate-whole-value"
	info := pk.TypesInfo
	n := 0
	for _, f := range pk.Syntax {
		for _, d := range f.Decls {
			fd, ok := d.(*ast.FuncDecl)
			if !ok || fd.Body == nil || !strings.HasPrefix(fd.Name.Name, "is") || !strings.HasSuffix(fd.Name.Name, "Empty") {
				continue
			}
			// locals defined from new(T) / T{} / &T{}
			zeroish := map[types.Object]ast.Expr{}
			ast.Inspect(fd.Body, func(nd ast.Node) bool {
				if as, ok := nd.(*ast.AssignStmt); ok && as.Tok == token.DEFINE && len(as.Lhs) == 1 && len(as.Rhs) == 1 {
					if o := identObj(info, as.Lhs[0]); o != nil {
						zeroish[o] = as.Rhs[0]
					}
				}
				return true
			})
			ast.Inspect(fd.Body, func(nd ast.Node) bool {
				be, ok := nd.(*ast.BinaryExpr)
				if !ok || be.Op != token.EQL {
					return true
				}
				for _, side := range []ast.Expr{be.X, be.Y} {
					e := ast.Unparen(side)
					if st, ok := e.(*ast.StarExpr); ok {
						e = ast.Unparen(st.X)
					}
					def := e
					if o := identObj(info, e); o != nil && zeroish[o] != nil {
						def = zeroish[o]
					}
					def = ast.Unparen(def)
					if u, ok := def.(*ast.UnaryExpr); ok && u.Op == token.AND {
						def = ast.Unparen(u.X)
					}
					switch x := def.(type) {
					case *ast.CallExpr:
						if types.ExprString(x.Fun) == "new" {
							n++
							c.OK(rule, "watPrinter."+fd.Name.Name, p.Pos(be.Pos()), "compared with new("+types.ExprString(x.Args[0])+")")
						}
					case *ast.CompositeLit:
						n++
						c.Check(len(x.Elts) == 0, rule, "watPrinter."+fd.Name.Name, p.Pos(be.Pos()), "compared with the zero value of the whole struct",
							"watPrinter."+fd.Name.Name+" compares the declaration with "+types.ExprString(x)+", which copies fields from the declaration itself: those fields no longer count, and a declaration that is non-empty only through them (an unnamed memory of 0 pages) is dropped from the printed module")
					}
				}
				return true
			})
		}
	}
	c.Min(rule, "whole-value emptiness tests in the WAT printer", n, 2)
}
