package main

import (
	"fmt"
	"go/ast"

	"golang.org/x/tools/go/packages"
)

// C12 rule rc-bracket-paired: the SSA builder brackets instructions that must not be reference counted (the address
// computations of implicit field selections) between RcDisable and RcEnable. The back end treats every register
// defined while counting is disabled as not counted: it is filled without release and skipped by the function
// epilogue. An RcDisable that is not closed on every path therefore switches counting off for whatever follows,
// and the values produced there are never released. Every `emitRcDisable` statement is followed, in the same
// statement list (so on every path), by an `emitRcEnable` statement, with no branch out in between.

func c12RcBrackets(c *Ctx, p *Prog, sp *packages.Package) {
	const rule = "rc-bracket-paired"
	if sp == nil {
		c.Undecided(rule, "anchor:internal/ssa", "", "package not loaded")
		return
	}
	info := sp.TypesInfo
	isCallTo := func(s ast.Stmt, name string) bool {
		es, ok := s.(*ast.ExprStmt)
		if !ok {
			return false
		}
		call, ok := es.X.(*ast.CallExpr)
		if !ok {
			return false
		}
		fn := CalleeOf(info, call)
		return fn != nil && fn.Name() == name && fn.Pkg() == sp.Types
	}
	n := 0
	for _, f := range sp.Syntax {
		for _, d := range f.Decls {
			fd, ok := d.(*ast.FuncDecl)
			if !ok || fd.Body == nil || fd.Name.Name == "emitRcDisable" || fd.Name.Name == "emitRcEnable" {
				continue
			}
			k := 0
			var lists [][]ast.Stmt
			ast.Inspect(fd.Body, func(nd ast.Node) bool {
				switch x := nd.(type) {
				case *ast.BlockStmt:
					lists = append(lists, x.List)
				case *ast.CaseClause:
					lists = append(lists, x.Body)
				}
				return true
			})
			for _, l := range lists {
				for i, s := range l {
					if !isCallTo(s, "emitRcDisable") {
						continue
					}
					n++
					k++
					closed := false
					escapes := false
					for _, t := range l[i+1:] {
						if isCallTo(t, "emitRcEnable") {
							closed = true
							break
						}
						switch t.(type) {
						case *ast.ReturnStmt, *ast.BranchStmt:
							escapes = true
						}
						if escapes {
							break
						}
					}
					c.Check(closed && !escapes, rule, fmt.Sprintf("%s: RcDisable #%d", declName(fd), k), p.Pos(s.Pos()), "closed by RcEnable in the same statement list",
						declName(fd)+" opens an RcDisable bracket that is not closed by an unconditional emitRcEnable in the same statement list: on the path that skips it reference counting stays off, the registers defined afterwards are neither released when overwritten nor by the epilogue, and the values they hold leak")
				}
			}
		}
	}
	c.Min(rule, "RcDisable brackets in the SSA builder", n, 4)
}
