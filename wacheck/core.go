package main

import (
	"encoding/json"
	"fmt"
	"os"
	"path/filepath"
	"sort"
	"strings"
	"time"
)

// Obligation is one rule instance decided on the current tree.
type Obligation struct {
	Rule      string `json:"rule"`
	Construct string `json:"construct"`
	Loc       string `json:"loc,omitempty"`
	Verdict   string `json:"verdict"` // ok | violation | undecided
	Detail    string `json:"detail,omitempty"`
}

// Key identifies an obligation independently of line numbers.
func (o Obligation) Key() string { return o.Rule + " :: " + o.Construct }

type Ctx struct {
	Prop     string
	Tier     string
	Seed     int
	Repo     string
	Overlay  map[string][]byte // absolute path -> replacement content (mutants)
	Obls     []Obligation
	Analysed map[string]int
	Notes    []string
	Explain  string
	Assume   []string
	Trusted  []string
	Exhaust  bool
	CrossRef []string
	start    time.Time
}

func NewCtx(prop, tier string, seed int) *Ctx {
	repo := os.Getenv("VERIF_REPO")
	if repo == "" {
		repo = "/repo"
	}
	return &Ctx{Prop: prop, Tier: tier, Seed: seed, Repo: repo, Analysed: map[string]int{}, start: time.Now(), Overlay: map[string][]byte{},
		Assume: []string{}, Trusted: []string{}, Notes: []string{}, CrossRef: []string{}}
}

func (c *Ctx) add(rule, construct, loc, verdict, detail string) {
	c.Obls = append(c.Obls, Obligation{Rule: rule, Construct: construct, Loc: c.rel(loc), Verdict: verdict, Detail: detail})
}
func (c *Ctx) rel(loc string) string { return strings.TrimPrefix(loc, c.Repo+"/") }

func (c *Ctx) OK(rule, construct, loc, detail string)   { c.add(rule, construct, loc, "ok", detail) }
func (c *Ctx) Fail(rule, construct, loc, detail string) { c.add(rule, construct, loc, "violation", detail) }
func (c *Ctx) Undecided(rule, construct, loc, detail string) {
	c.add(rule, construct, loc, "undecided", detail)
}

// Check records ok when cond holds and a violation otherwise.
func (c *Ctx) Check(cond bool, rule, construct, loc, okDetail, failDetail string) bool {
	if cond {
		c.OK(rule, construct, loc, okDetail)
	} else {
		c.Fail(rule, construct, loc, failDetail)
	}
	return cond
}

// Min is the vacuity guard: the rule must have found at least min instances.
func (c *Ctx) Min(rule string, what string, n, min int) {
	c.Analysed[rule+"/"+what] = n
	if n < min {
		c.Undecided(rule, "vacuity:"+what, "", fmt.Sprintf("only %d instances of %s resolved; %d were confirmed by hand when the rule was armed", n, what, min))
	}
}

func (c *Ctx) Count(what string, n int) { c.Analysed[what] += n }
func (c *Ctx) Note(f string, a ...any)  { c.Notes = append(c.Notes, fmt.Sprintf(f, a...)) }

// ReadFile reads a file under the repository, honouring the mutant overlay.
func (c *Ctx) ReadFile(rel string) ([]byte, error) {
	p := rel
	if !filepath.IsAbs(p) {
		p = filepath.Join(c.Repo, rel)
	}
	if b, ok := c.Overlay[p]; ok {
		return b, nil
	}
	return os.ReadFile(p)
}

// ---- known findings ----

type KnownFinding struct {
	Property  string `json:"property"`
	Rule      string `json:"rule"`
	Construct string `json:"construct"`
	What      string `json:"what"`
}
type FixedFinding struct {
	Property string `json:"property"`
	Commit   string `json:"commit"`
	What     string `json:"what"`
}
type KnownFile struct {
	Known []KnownFinding `json:"known"`
	Fixed []FixedFinding `json:"fixed"`
}

func verifDir() string {
	if d := os.Getenv("VERIF_DIR"); d != "" {
		return d
	}
	exe, err := os.Executable()
	if err == nil {
		d := filepath.Dir(filepath.Dir(exe))
		if _, err := os.Stat(filepath.Join(d, "properties.jsonl")); err == nil {
			return d
		}
	}
	return "/verif"
}

func loadKnown() KnownFile {
	var k KnownFile
	b, err := os.ReadFile(filepath.Join(verifDir(), "known_findings.json"))
	if err != nil {
		return k
	}
	if err := json.Unmarshal(b, &k); err != nil {
		fmt.Fprintln(os.Stderr, "known_findings.json:", err)
		os.Exit(2)
	}
	return k
}

// Finish writes evidence, prints KNOWN-FINDING / VIOLATION lines and returns the exit code.
func (c *Ctx) Finish(level string) int {
	known := loadKnown()
	kn := map[string]KnownFinding{}
	for _, k := range known.Known {
		if k.Property == c.Prop {
			kn[k.Rule+" :: "+k.Construct] = k
		}
	}
	sort.SliceStable(c.Obls, func(i, j int) bool { return c.Obls[i].Key() < c.Obls[j].Key() })
	// VERIF_OBLIGATIONS=<file>: every obligation with its location, one JSON object per line (used by
	// tools/mutcampaign.py to find the functions a check reads)
	if path := os.Getenv("VERIF_OBLIGATIONS"); path != "" {
		if f, err := os.Create(path); err == nil {
			enc := json.NewEncoder(f)
			for _, o := range c.Obls {
				enc.Encode(map[string]string{"rule": o.Rule, "construct": o.Construct, "loc": o.Loc, "verdict": o.Verdict})
			}
			f.Close()
		}
	}
	var viol, knownHit []Obligation
	ok := 0
	distinct := map[string]bool{}
	for _, o := range c.Obls {
		distinct[o.Key()] = true
		switch o.Verdict {
		case "ok":
			ok++
		default:
			if _, is := kn[o.Key()]; is && o.Verdict == "violation" {
				knownHit = append(knownHit, o)
			} else {
				viol = append(viol, o)
			}
		}
	}
	seenK := map[string]bool{}
	for _, o := range knownHit {
		if seenK[o.Key()] {
			continue
		}
		seenK[o.Key()] = true
		fmt.Printf("KNOWN-FINDING: property=%s rule=%s construct=%s %s (%s)\n", c.Prop, o.Rule, o.Construct, kn[o.Key()].What, o.Loc)
	}
	// samples: a spread of obligations incl. every non-ok
	samples := []any{}
	for _, o := range viol {
		if len(samples) < 40 {
			samples = append(samples, o)
		}
	}
	for _, o := range knownHit {
		if len(samples) < 60 {
			samples = append(samples, o)
		}
	}
	step := len(c.Obls)/25 + 1
	for i := 0; i < len(c.Obls); i += step {
		if c.Obls[i].Verdict == "ok" {
			samples = append(samples, c.Obls[i])
		}
	}
	perRule := map[string]int{}
	for _, o := range c.Obls {
		perRule[o.Rule]++
	}
	ev := map[string]any{
		"property_id": c.Prop,
		"tier":        c.Tier,
		"seed":        c.Seed,
		"level":       level,
		"wall_s":      time.Since(c.start).Seconds(),
		"violations":  len(viol),
		"assumptions": c.Assume,
		"coverage": map[string]any{
			"explanation":         c.Explain,
			"obligations":         len(c.Obls),
			"discharged":          ok,
			"known_findings_hit":  len(knownHit),
			"evaluations":         len(c.Obls),
			"distinct_nontrivial": len(distinct),
			"rule":                "one obligation per (rule, construct) instance enumerated from /repo's current source; distinct = distinct (rule, construct) keys; every obligation is decided by comparing facts extracted from the code with an oracle or a sibling, none is trivially true",
			"samples":             samples,
			"exhaustive":          c.Exhaust,
			"analysed":            c.Analysed,
			"obligations_by_rule": perRule,
			"checker_cmd":         "cd /verif && ./run.sh " + c.Prop + " " + c.Tier,
			"trusted_base":        c.Trusted,
			"notes":               c.Notes,
			"cross_reference":     c.CrossRef,
		},
	}
	if (len(c.Overlay) == 0 || os.Getenv("VERIF_WRITE_EVIDENCE") == "1") && os.Getenv("VERIF_NO_EVIDENCE") != "1" {
		dir := filepath.Join(verifDir(), "evidence")
		os.MkdirAll(dir, 0o755)
		b, _ := json.MarshalIndent(ev, "", " ")
		if err := os.WriteFile(filepath.Join(dir, c.Prop+".json"), append(b, '\n'), 0o644); err != nil {
			fmt.Fprintln(os.Stderr, "write evidence:", err)
			return 2
		}
		if len(viol) > 0 {
			vb, _ := json.MarshalIndent(map[string]any{"property_id": c.Prop, "violations": viol}, "", " ")
			os.WriteFile(filepath.Join(dir, c.Prop+".violations.json"), append(vb, '\n'), 0o644)
		} else {
			os.Remove(filepath.Join(dir, c.Prop+".violations.json"))
		}
	}
	fmt.Printf("%s %s: %d obligations, %d ok, %d known findings, %d violations/undecided (%.1fs)\n", c.Prop, c.Tier, len(c.Obls), ok, len(knownHit), len(viol), time.Since(c.start).Seconds())
	if len(viol) > 0 {
		for _, o := range viol {
			fmt.Printf("  %s: [%s] %s @ %s: %s\n", strings.ToUpper(o.Verdict), o.Rule, o.Construct, o.Loc, o.Detail)
		}
		fmt.Printf("VIOLATION property=%s replay=%s\n", c.Prop, filepath.Join(verifDir(), "evidence", c.Prop+".violations.json"))
		return 1
	}
	return 0
}
