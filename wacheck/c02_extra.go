package main

import (
	"fmt"
	"regexp"
	"strings"
)

// C02 extra rule (added after a seeded change was missed): floating-point comparisons.
//
// ucomiss/ucomisd set (ZF,PF,CF) = (0,0,1) for less, (1,0,0) for equal, (0,0,0) for greater and (1,1,1) for
// unordered. The few instructions between the compare and the movzx that materialise the i32 result (set<cc>, and,
// or on byte registers) are evaluated over these four outcomes — a finite domain — and the resulting truth table
// must be WebAssembly's: every comparison except ne is false on NaN, ne is true.

var x86LineRe = regexp.MustCompile(`^\s*([a-z0-9]+)\s*([^#]*)`)

type x86Ins struct {
	Op   string
	Args []string
}

func parseX86(format string) (x86Ins, bool) {
	m := x86LineRe.FindStringSubmatch(strings.TrimRight(format, "\n"))
	if m == nil || strings.HasPrefix(strings.TrimSpace(format), "#") {
		return x86Ins{}, false
	}
	in := x86Ins{Op: m[1]}
	for _, a := range strings.Split(m[2], ",") {
		if a = strings.TrimSpace(a); a != "" {
			in.Args = append(in.Args, a)
		}
	}
	return in, true
}

func x86Cond(cc string, zf, pf, cf bool) (bool, bool) {
	switch cc {
	case "e", "z":
		return zf, true
	case "ne", "nz":
		return !zf, true
	case "b", "c", "nae":
		return cf, true
	case "ae", "nb", "nc":
		return !cf, true
	case "be", "na":
		return cf || zf, true
	case "a", "nbe":
		return !cf && !zf, true
	case "p", "pe":
		return pf, true
	case "np", "po":
		return !pf, true
	}
	return false, false
}

func c02FloatCompare(c *Ctx, p *Prog, x64 map[string]TemplArm) {
	const rule = "float-compare-truth-table"
	want := map[string][4]bool{ // a<b, a==b, a>b, unordered
		"eq": {false, true, false, false}, "ne": {true, false, true, true}, "lt": {true, false, false, false},
		"gt": {false, false, true, false}, "le": {true, true, false, false}, "ge": {false, true, true, false},
	}
	n := 0
	for _, arm := range x64 {
		parts := strings.SplitN(arm.Mnemonic, ".", 2)
		if len(parts) != 2 || (parts[0] != "f32" && parts[0] != "f64") {
			continue
		}
		w, ok := want[parts[1]]
		if !ok {
			continue
		}
		n++
		loc := p.Pos(arm.Arm.Clause.Pos())
		if len(arm.Variants) != 1 {
			c.Undecided(rule, arm.Mnemonic, loc, "the arm has several template variants")
			continue
		}
		v := arm.Variants[0]
		// which xmm register holds the left operand (second popped) and which the right one
		left, right := v.varOf("pop", 1), v.varOf("pop", 0)
		regOf := map[string]string{} // xmm register -> "a" | "b"
		var seq []x86Ins
		afterCmp := false
		var cmpIns x86Ins
		for _, l := range v.Lines {
			in, ok := parseX86(l.Format)
			if !ok {
				continue
			}
			if (in.Op == "movss" || in.Op == "movsd" || in.Op == "movd" || in.Op == "movq") && len(in.Args) == 2 && strings.HasPrefix(in.Args[0], "xmm") && len(l.Args) >= 1 {
				switch l.Args[0] {
				case left:
					regOf[in.Args[0]] = "a"
				case right:
					regOf[in.Args[0]] = "b"
				}
			}
			if strings.HasPrefix(in.Op, "ucomis") || strings.HasPrefix(in.Op, "comis") {
				afterCmp = true
				cmpIns = in
				continue
			}
			if afterCmp {
				if in.Op == "movzx" || in.Op == "mov" {
					break
				}
				seq = append(seq, in)
			}
		}
		if !afterCmp || len(cmpIns.Args) != 2 || regOf[cmpIns.Args[0]] == "" || regOf[cmpIns.Args[1]] == "" || regOf[cmpIns.Args[0]] == regOf[cmpIns.Args[1]] {
			c.Undecided(rule, arm.Mnemonic, loc, "the compare instruction and the registers holding the two operands were not recognised")
			continue
		}
		swapped := regOf[cmpIns.Args[0]] == "b"
		var got [4]bool
		decided := true
		for k := 0; k < 4; k++ {
			// outcome k is stated for (a ? b); the instruction compares (first ? second)
			kk := k
			if swapped && k == 0 {
				kk = 2
			} else if swapped && k == 2 {
				kk = 0
			}
			var zf, pf, cf bool
			switch kk {
			case 0:
				cf = true
			case 1:
				zf = true
			case 3:
				zf, pf, cf = true, true, true
			}
			regs := map[string]bool{}
			for _, in := range seq {
				switch {
				case strings.HasPrefix(in.Op, "set") && len(in.Args) == 1:
					b, ok := x86Cond(strings.TrimPrefix(in.Op, "set"), zf, pf, cf)
					if !ok {
						decided = false
					}
					regs[in.Args[0]] = b
				case in.Op == "and" && len(in.Args) == 2:
					regs[in.Args[0]] = regs[in.Args[0]] && regs[in.Args[1]]
				case in.Op == "or" && len(in.Args) == 2:
					regs[in.Args[0]] = regs[in.Args[0]] || regs[in.Args[1]]
				case in.Op == "xor" && len(in.Args) == 2:
					regs[in.Args[0]] = regs[in.Args[0]] != regs[in.Args[1]]
				default:
					decided = false
				}
			}
			got[k] = regs["al"]
		}
		if !decided {
			c.Undecided(rule, arm.Mnemonic, loc, "the flag logic after the compare uses an instruction the evaluator does not model")
			continue
		}
		c.Check(got == w, rule, arm.Mnemonic, loc, fmt.Sprintf("(a<b, a==b, a>b, NaN) -> %v", got),
			fmt.Sprintf("the template for %s yields %v for (a<b, a==b, a>b, unordered); WebAssembly requires %v: the native program takes the other branch for those operands (typically NaN)", arm.Mnemonic, got, w))
	}
	c.Min(rule, "floating-point comparison templates", n, 12)
}
