package main

import (
	"fmt"
	"go/ast"
	"go/types"
	"strings"

	"golang.org/x/tools/go/packages"
)

// C25 rule slip-reader-semantics (added after differential probing: the reader dropped a byte delivered together with
// io.EOF, took an empty read for the end of the stream, and lost its decoder state — a pending ESC, the fact that a
// prefix of the packet had been handed out — when it returned in the middle of a packet).
//
// Reader.ReadPacket is interpreted by the emitter evaluator: the statements before its endless loop once per call, the
// loop body once per iteration, fields kept between calls. The transport is a script of Read results — a byte, a byte
// together with io.EOF, nothing (0, nil), a temporary error, the end — and the bytes.Buffer the function writes is
// modelled by the rule (WriteByte, Len, Bytes). For streams built from payloads that contain END and ESC bytes, and
// for every position at which an empty read or a temporary error can be inserted, the packets a caller assembles
// (prefixes joined until isPrefix is false) must be the payloads that were sent. Nothing is executed.

type slipEvent struct {
	n   int
	b   byte
	err string
}

func c25ReaderSemantics(c *Ctx, p *Prog, pk *packages.Package) bool {
	const rule = "slip-reader-semantics"
	info := pk.TypesInfo
	fd := AllFuncDecls(pk)["Reader.ReadPacket"]
	if fd == nil || fd.Body == nil {
		c.Undecided(rule, "anchor:Reader.ReadPacket", "", "method not found")
		return false
	}
	loc := p.Pos(fd.Pos())
	var prelude []ast.Stmt
	var loop *ast.ForStmt
	for _, s := range fd.Body.List {
		if fs, ok := s.(*ast.ForStmt); ok && fs.Cond == nil && fs.Init == nil && loop == nil {
			loop = fs
			continue
		}
		if loop == nil {
			prelude = append(prelude, s)
		}
	}
	if loop == nil {
		c.Undecided(rule, "Reader.ReadPacket", loc, "no endless loop in the body")
		return false
	}
	// named results
	var resObjs []types.Object
	if fd.Type.Results != nil {
		for _, f := range fd.Type.Results.List {
			for _, nm := range f.Names {
				resObjs = append(resObjs, info.Defs[nm])
			}
		}
	}
	if len(resObjs) != 3 {
		c.Undecided(rule, "Reader.ReadPacket", loc, "results are not (p, isPrefix, err) by name")
		return false
	}
	isBuffer := func(e ast.Expr) bool {
		t := info.TypeOf(e)
		return t != nil && strings.HasSuffix(strings.TrimPrefix(t.String(), "*"), "bytes.Buffer")
	}

	// one reader: its field state and the modelled buffer persist over calls
	type reader struct {
		env    evEnv
		buf    []byte
		cur    byte
		script []slipEvent
		pos    int
		und    string
	}
	newReader := func(script []slipEvent) *reader {
		r := &reader{env: evEnv{}, script: script}
		// bool fields of the receiver start false, int fields 0
		if recv := fd.Recv; recv != nil && len(recv.List) == 1 {
			t := info.TypeOf(recv.List[0].Type)
			if pt, ok := t.(*types.Pointer); ok {
				t = pt.Elem()
			}
			if st, ok := t.Underlying().(*types.Struct); ok {
				for i := 0; i < st.NumFields(); i++ {
					f := st.Field(i)
					if b, ok := f.Type().Underlying().(*types.Basic); ok {
						switch {
						case b.Info()&types.IsBoolean != 0:
							r.env[f] = evVal{K: evBool}
						case b.Info()&types.IsInteger != 0:
							r.env[f] = evVal{K: evInt}
						}
					}
				}
			}
		}
		return r
	}
	call := func(r *reader) (payload []byte, isPrefix bool, errTxt string) {
		ev := newEmitEval(pk)
		ev.Hook = func(e ast.Expr) (evVal, bool) {
			e = ast.Unparen(e)
			switch x := e.(type) {
			case *ast.IndexExpr:
				if t := info.TypeOf(x.X); t != nil && isByteSlice(t) {
					return evVal{K: evInt, I: int64(r.cur)}, true
				}
			case *ast.SelectorExpr:
				if id, ok := x.X.(*ast.Ident); ok && id.Name == "io" {
					return evVal{K: evStr, S: x.Sel.Name}, true
				}
			case *ast.UnaryExpr:
				if cl, ok := x.X.(*ast.CompositeLit); ok && isBuffer(cl) {
					r.buf = nil
					return evVal{K: evOpaque, S: "buffer"}, true
				}
			case *ast.CompositeLit:
				if isBuffer(x) {
					r.buf = nil
					return evVal{K: evOpaque, S: "buffer"}, true
				}
			case *ast.CallExpr:
				if se, ok := x.Fun.(*ast.SelectorExpr); ok && isBuffer(se.X) {
					switch se.Sel.Name {
					case "Len":
						return evVal{K: evInt, I: int64(len(r.buf))}, true
					case "Bytes":
						return evVal{K: evStr, S: string(r.buf)}, true
					}
				}
				if id, ok := x.Fun.(*ast.Ident); ok && id.Name == "len" && len(x.Args) == 1 {
					if v := ev.eval(x.Args[0], r.env); v.K == evStr {
						return evVal{K: evInt, I: int64(len(v.S))}, true
					}
				}
			}
			return evVal{}, false
		}
		ev.TupleHook = func(cl *ast.CallExpr, env evEnv) ([]evVal, bool) {
			se, ok := cl.Fun.(*ast.SelectorExpr)
			if !ok || se.Sel.Name != "Read" {
				return nil, false
			}
			e := slipEvent{n: 0, err: "EOF"}
			if r.pos < len(r.script) {
				e = r.script[r.pos]
				r.pos++
			}
			if e.n > 0 {
				r.cur = e.b
			}
			return []evVal{{K: evInt, I: int64(e.n)}, {K: evStr, S: e.err}}, true
		}
		ev.Effect = func(cl *ast.CallExpr, env evEnv) {
			if se, ok := cl.Fun.(*ast.SelectorExpr); ok && isBuffer(se.X) && se.Sel.Name == "WriteByte" && len(cl.Args) == 1 {
				v := ev.eval(cl.Args[0], env)
				if v.K != evInt {
					r.und = "WriteByte of a value the evaluator does not know"
					return
				}
				r.buf = append(r.buf, byte(v.I))
			}
		}
		ev.AssignHook = func(lhs ast.Expr, v evVal) {
			if ix, ok := lhs.(*ast.IndexExpr); ok && v.K == evInt {
				if t := info.TypeOf(ix.X); t != nil && isByteSlice(t) {
					r.cur = byte(v.I)
				}
			}
		}
		for _, o := range resObjs {
			delete(r.env, o)
		}
		r.env[resObjs[0]] = evVal{K: evStr}
		r.env[resObjs[1]] = evVal{K: evBool}
		r.env[resObjs[2]] = evVal{K: evStr}
		rets, done := ev.run(prelude, r.env)
		ev.LoopBody = true
		for steps := 0; !done && ev.Und == "" && r.und == ""; steps++ {
			if steps > 5000 {
				r.und = "the loop does not leave within 5000 iterations"
				break
			}
			ev.Cont = false
			rets, done = ev.run(loop.Body.List, r.env)
			if ev.Cont {
				done = false
			}
		}
		if ev.Und != "" && r.und == "" {
			r.und = ev.Und
		}
		vals := []evVal{r.env[resObjs[0]], r.env[resObjs[1]], r.env[resObjs[2]]}
		if len(rets) == 3 {
			vals = rets
		}
		if vals[1].K != evBool || (vals[0].K != evStr && vals[0].K != evNil) {
			if r.und == "" {
				r.und = "results of a kind the evaluator does not hold"
			}
			return nil, false, ""
		}
		return []byte(vals[0].S), vals[1].B, vals[2].S
	}

	encode := func(payloads [][]byte) []byte {
		var out []byte
		for _, pl := range payloads {
			out = append(out, 0xC0)
			for _, b := range pl {
				switch b {
				case 0xC0:
					out = append(out, 0xDB, 0xDC)
				case 0xDB:
					out = append(out, 0xDB, 0xDD)
				default:
					out = append(out, b)
				}
			}
			out = append(out, 0xC0)
		}
		return out
	}
	sets := [][][]byte{
		{{0x61, 0x62}, {0x63}},
		{{0xC0}},
		{{0xDB}},
		{{0xDB, 0xDC}, {0xDC}},
		{{0x61, 0xC0, 0xDB, 0x62}, {0xDD, 0xDC, 0x00}},
		{{0x00, 0x00, 0x00}, {0xFF}},
		{{0xC0, 0xC0}, {0xDB, 0xDB}, {0x7E}},
	}
	var bad []string
	und := ""
	cases := 0
	runScript := func(kind string, payloads [][]byte, script []slipEvent) {
		if und != "" {
			return
		}
		r := newReader(script)
		var got [][]byte
		var acc []byte
		idle := 0
		for calls := 0; calls < 200 && len(got) < len(payloads)+2; calls++ {
			before := r.pos
			pl, pre, errTxt := call(r)
			if r.und != "" {
				und = r.und
				return
			}
			acc = append(acc, pl...)
			if !pre {
				if len(acc) > 0 {
					got = append(got, acc)
				}
				acc = nil
			}
			if r.pos == before || (errTxt != "" && errTxt != "timeout" && r.pos >= len(r.script)) {
				idle++
				if idle > 2 {
					break
				}
			}
		}
		cases++
		same := len(got) == len(payloads)
		for i := 0; same && i < len(got); i++ {
			same = string(got[i]) == string(payloads[i])
		}
		if !same && len(bad) < 4 {
			var sc []string
			for _, e := range script {
				switch {
				case e.n > 0 && e.err != "":
					sc = append(sc, fmt.Sprintf("%02x+%s", e.b, e.err))
				case e.n > 0:
					sc = append(sc, fmt.Sprintf("%02x", e.b))
				case e.err == "":
					sc = append(sc, "(0,nil)")
				default:
					sc = append(sc, "(0,"+e.err+")")
				}
			}
			bad = append(bad, fmt.Sprintf("%s: payloads %x over the reads [%s] are delivered as %x (unterminated rest %x)", kind, payloads, strings.Join(sc, " "), got, acc))
		}
	}
	for _, payloads := range sets {
		stream := encode(payloads)
		plain := func() []slipEvent {
			var s []slipEvent
			for _, b := range stream {
				s = append(s, slipEvent{n: 1, b: b})
			}
			return s
		}
		runScript("byte by byte", payloads, plain())
		// the last byte together with io.EOF
		s := plain()
		s[len(s)-1].err = "EOF"
		runScript("last byte delivered with io.EOF", payloads, s)
		for k := 1; k < len(stream); k++ {
			for _, ins := range []slipEvent{{n: 0, err: ""}, {n: 0, err: "timeout"}} {
				s := plain()
				s = append(s[:k], append([]slipEvent{ins}, s[k:]...)...)
				kind := "an empty read (0, nil)"
				if ins.err != "" {
					kind = "a temporary error"
				}
				runScript(fmt.Sprintf("%s before byte %d", kind, k), payloads, s)
			}
		}
		// an empty read before every byte
		var s2 []slipEvent
		for _, b := range stream {
			s2 = append(s2, slipEvent{n: 0}, slipEvent{n: 1, b: b})
		}
		runScript("an empty read before every byte", payloads, s2)
	}
	if und != "" {
		c.Undecided(rule, "Reader.ReadPacket", loc, "the interpretation stopped: "+und)
		return false
	}
	c.Check(len(bad) == 0, rule, "Reader.ReadPacket", loc, fmt.Sprintf("%d (payloads, read script) cases deliver the payloads that were sent", cases), strings.Join(bad, "; "))
	c.Min(rule, "read scripts interpreted", cases, 100)
	return true
}
