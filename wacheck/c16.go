package main

import (
	"fmt"
	"go/ast"
	"go/constant"
	"go/types"
	"path/filepath"
	"sort"
	"strings"

	"golang.org/x/tools/go/packages"
)

// C16 — well-typed programs compile to valid WebAssembly.
//
// Decided here: (1) the back end has a non-fatal arm for every SSA instruction type the builder constructs, and the
// sibling sub-switches over basic kinds (plain vs. named types) agree; (2) every symbol the back end, the embedded
// .wat.ws runtime or a body-less .wa declaration refers to is defined for every target OS on the files that target
// selects. A missing symbol passes the example programs (they do not use it, or do not build for that target) and
// makes every program that needs it fail to assemble.

func init() {
	cf := "internal/backends/compiler_wat/compile_func.go"
	register(&Property{ID: "C16", Run: runC16, Mutants: []Mutant{
		{Name: "missingMethod exits early for interface operands too", File: "internal/types/lookup.go", Old: "\t\t\tif _, isIface := V.Underlying().(*Interface); !isIface {\n\t\t\t\treturn T.allMethods[0], false\n\t\t\t}\n", New: "\t\t\treturn T.allMethods[0], false\n", Expect: "type-branch-not-shadowed"},
		{Name: "struct equality emits nothing for a type without fields", File: "internal/backends/compiler_wat/wir/value_struct.go", Old: "\tif len(v.typ.fields) == 0 {\n\t\tinsts = append(insts, wat.NewInstConst(wat.I32{}, \"1\"))\n\t}\n", New: "", Expect: "memberless-compare-handled :: aStruct.emitEq"},
		{Name: "signature key loses the separator between parameters and results", File: "internal/backends/compiler_wat/wir/value_closure.go", Old: "\tn += \"$$\"\n", New: "", Expect: "signature-key-separated"},
		{Name: "Convert sanity check reads the operand type without Underlying()", File: "internal/ssa/sanity.go", Old: "if _, ok := instr.X.Type().Underlying().(*types.Basic); !ok {", New: "if _, ok := instr.X.Type().(*types.Basic); !ok {", Expect: "sanity-convert-symmetric"},
		{Name: "array values lose their comparison override", File: "internal/backends/compiler_wat/wir/value_array.go", Old: "func (v *aArray) emitCompare(r Value) (insts []wat.Inst) {\n\tif !v.Type().Equal(r.Type()) {\n\t\tlogger.Fatal(\"v.Type() != r.Type()\")\n\t}\n\treturn v.aStruct.emitCompare(&r.(*aArray).aStruct)\n}\n", New: "", Expect: "embedded-peer-method-overridden :: aArray.emitCompare"},
		{Name: "map iterator compiles the slot types of the Next tuple", File: cf, Old: "\t\treturn g.module.EmitGenNext_Map(iter, g.tLib.compile(kt), g.tLib.compile(vt))", New: "\t\t_, _ = kt, vt\n\t\treturn g.module.EmitGenNext_Map(iter, g.tLib.compile(t.At(1).Type()), g.tLib.compile(t.At(2).Type()))", Expect: "next-unused-slot-types"},
		{Name: "statically called function literal generated at every call site", File: cf, Old: "\t\tcallee := call.StaticCallee()\n\t\tif callee.Parent() != nil {\n\t\t\t// an anonymous function is generated once, however many call sites it has\n\t\t\tif name, _ := wir.GetFnMangleName(callee, g.prog.Manifest.MainPkg); g.module.FindFunc(name) == nil {\n\t\t\t\tg.module.AddFunc(newFunctionGenerator(g.prog, g.module, g.tLib).genFunction(callee))\n\t\t\t}\n\t\t}", New: "\t\tcallee := call.StaticCallee()\n\t\tif callee.Parent() != nil {\n\t\t\tg.module.AddFunc(newFunctionGenerator(g.prog, g.module, g.tLib).genFunction(callee))\n\t\t}", Expect: "anonymous-callee-generated-once"},
		{Name: "a block that jumps to itself leaves through a label that is not in scope", File: "internal/backends/compiler_wat/compile_func.go", Old: "\tif cur >= dest {\n\t\tinsts = g.module.EmitAssginValue(g.var_block_selector", New: "\tif cur > dest {\n\t\tinsts = g.module.EmitAssginValue(g.var_block_selector", Expect: "jump-direction"},
		{Name: "complex64 division calls the complex128 helper", File: "internal/backends/compiler_wat/wir/value_complex64.go", Old: "wat.NewInstCall(\"$wa.runtime.complex64_Div\")", New: "wat.NewInstCall(\"$wa.runtime.complex128_Div\")", Expect: "complex-helper-width"},
		{Name: "rune/i32 assignment accepted in one direction only", File: "internal/backends/compiler_wat/wir/instruction_emitter.go", Old: "!(lh.Type().Equal(m.I32) && rh.Type().Equal(m.RUNE) || lh.Type().Equal(m.RUNE) && rh.Type().Equal(m.I32))", New: "!(lh.Type().Equal(m.RUNE) && rh.Type().Equal(m.I32))", Expect: "assign-compat-symmetric"},
		{Name: "deferred static call pops its discarded results first-to-last", File: cf, Old: "\t\t\tfor i := range rets {\n\t\t\t\tj := len(rets) - i - 1\n\t\t\t\tret := wir.NewLocal(\"r\"+strconv.Itoa(j), rets[j])", New: "\t\t\tfor i, rt := range rets {\n\t\t\t\tret := wir.NewLocal(\"r\"+strconv.Itoa(i), rt)", Nth: 1, Expect: "result-pop-order"},
		{Name: "MapUpdate arm dropped", File: cf, Old: "\tcase *ssa.MapUpdate:\n\t\tinsts = append(insts, g.module.EmitGenMapUpdate(g.getValue(inst.Map).value, g.getValue(inst.Key).value, g.getValue(inst.Value).value)...)\n", New: "", Expect: "ir-exhaustive :: ssa.MapUpdate"},
		{Name: "TypeAssert arm turned fatal", File: cf, Old: "\tcase *ssa.TypeAssert:\n\t\treturn g.genTypeAssert(v)\n", New: "\tcase *ssa.TypeAssert:\n\t\tlogger.Fatalf(\"Todo: %v\", v)\n", Expect: "ir-exhaustive :: ssa.TypeAssert"},
		{Name: "nil map constant arm dropped", File: cf, Old: "\t\tcase *types.Map:\n\t\t\tif v.Value == nil {\n\t\t\t\treturn valueWrap{value: wir.NewConst(\"0\", g.tLib.compile(t))}\n\t\t\t}\n\t\t\tlogger.Fatalf(\"Todo:%T\", t)\n", New: "", Expect: "const-kind-coverage :: nil constant of *types.Map"},
		{Name: "named complex constant arm dropped", File: cf, Old: "\t\t\t\tcase types.Complex64, types.Complex128:\n", New: "\t\t\t\tcase types.UnsafePointer:\n", Expect: "const-kind-coverage :: named/basic sibling"},
		{Name: "runtime symbol renamed in the back end", File: "internal/backends/compiler_wat/wir/value_map.go", Old: "\"runtime.mapDelete\"", New: "\"runtime.mapRemove\"", Expect: "backend-call-linkage :: call $runtime.mapRemove"},
		{Name: "runtime function renamed on one target", File: "waroot/src/runtime/runtime_unknown.wa", Old: "#wa:linkname $runtime.assertWithMessage", New: "#wa:linkname $runtime.assertMessage", Expect: "backend-call-linkage :: call $$runtime.assertWithMessage @unknown"},
		{Name: "runtime .wa function renamed", File: "waroot/src/runtime/defer.wa", Old: "#wa:linkname runtime.popRunDeferStack\n", New: "#wa:linkname runtime.popRunDeferStacks\n", Expect: "backend-call-linkage :: call $runtime.popRunDeferStack"},
		{Name: "ws helper renamed", File: "waroot/src/runtime/heap.wat.ws", Old: "(func $runtime.DupI32 ", New: "(func $runtime.Dup_I32 ", Expect: "backend-call-linkage :: call $runtime.DupI32"},
		{Name: "ws callee renamed", File: "waroot/src/runtime/heap.wat.ws", Old: "(func $runtime.HeapFree ", New: "(func $runtime.Heap_Free ", Expect: "ws-call-linkage :: runtime: call $runtime.HeapFree"},
		{Name: "body-less declaration loses its implementation", File: "waroot/src/math/sqrt.wat.ws", Old: "(func $$math.waSqrtF32 ", New: "(func $$math.waSqrt_F32 ", Expect: "decl-linkage :: math: $$math.waSqrtF32"},
		{Name: "target runtimes drift apart", File: "waroot/src/runtime/runtime_linux.wa", Old: "func waPuts(ptr: i32, len: i32)", New: "func waPuts(ptr: i32)", Expect: "target-sibling-signature :: runtime: $runtime.waPuts"},
		{Name: "sanity check flag dropped", File: "internal/loader/loader.go", Old: "ssa.NewProgram(p.prog.Fset, ssa.SanityCheckFunctions)", New: "ssa.NewProgram(p.prog.Fset, 0)", Expect: "ssa-sanity-mode"},
	}})
}

func runC16(c *Ctx) {
	c.Explain = "Decides necessary linkage and exhaustiveness clauses of 'every well-typed program compiles to a valid module': " +
		"(1) ir-exhaustive: every SSA instruction type the SSA builder constructs has a non-fatal arm in the back end's instruction/value dispatch (DebugRef is exempt while the loader does not enable debug mode, which is checked); " +
		"(2) const-kind-coverage: the constant materialiser has an arm for the nil constant of every nil-able type kind the type compiler handles, and the basic-kind sub-switches for plain and for named types handle the same kinds; " +
		"(3) backend-call-linkage: for every target OS, every constant symbol the back end emits a call to is defined by the runtime files that target selects (a (func $sym) in a .wat.ws file, a .wa function by its mangled name or #wa:linkname, or a compiler-generated getter/setter/import); " +
		"(4) ws-call-linkage: every call / start / export / elem reference inside a selected .wat.ws file resolves, per target and package (own package, its imports, runtime, base); (5) decl-linkage: every body-less .wa declaration that is not a compiler intrinsic or import has a .wat.ws implementation on every target that selects it; " +
		"(6) target-sibling-signature: a symbol defined by several per-target runtime files has the same parameter and result types in all of them; (7) the loader keeps ssa.SanityCheckFunctions. " +
		"NOT decided: validity of the emitted module (typing of operand stacks, argument counts at call sites), combinations of language features, the fatal 'Todo' paths inside arms (inventoried as the unsupported set)."
	c.Trusted = []string{"go/packages, go/types (x/tools v0.29.0)", "the repository's own Wa parser and build-tag evaluator as front end for .wa sources (a change that breaks them makes this check fail, not pass)", "own WAT s-expression reader (watsrc.go)"}
	p := c.Load(LoadOpt{Light: true}, "./internal/backends/compiler_wat/...", "./internal/ssa", "./internal/config", "./internal/loader", "./internal/types", "./waroot/src")
	bk := p.MustPkg("ir-exhaustive", "internal/backends/compiler_wat")
	ssap := p.MustPkg("ir-exhaustive", "internal/ssa")
	cfgp := p.MustPkg("backend-call-linkage", "internal/config")
	ldp := p.MustPkg("ssa-sanity-mode", "internal/loader")
	if bk == nil || ssap == nil || cfgp == nil || ldp == nil {
		return
	}
	c16IR(c, p, bk, ssap, ldp)
	c16ConstKinds(c, p, bk)
	c16ResultPopOrder(c, p, bk)
	c16JumpDirection(c, p, bk)
	if wp := p.MustPkg("assign-compat-symmetric", "internal/backends/compiler_wat/wir"); wp != nil {
		c16AssignCompat(c, p, wp)
		c16ComplexHelperWidth(c, p, wp)
		c16Round4(c, p, bk, wp, ssap)
	}
	c16Linkage(c, p, cfgp)
	c16FatalInventory(c, p)
	// the type checker is loaded with the loader (a dependency); its package is in p.All
	if tp := p.Pkg("internal/types"); tp != nil {
		c16TypeBranchShadow(c, p, tp)
	} else {
		c.Undecided("type-branch-not-shadowed", "anchor:internal/types", "", "package not loaded")
	}
}

// ---------- (1) IR exhaustiveness

func fatalOnly(info *types.Info, body []ast.Stmt) bool {
	if len(body) == 0 {
		return false
	}
	for _, s := range body {
		es, ok := s.(*ast.ExprStmt)
		if !ok {
			return false
		}
		call, ok := es.X.(*ast.CallExpr)
		if !ok {
			return false
		}
		name := types.ExprString(call.Fun)
		if !(strings.HasPrefix(name, "logger.Fatal") || name == "panic") {
			return false
		}
	}
	return true
}

func c16IR(c *Ctx, p *Prog, bk, ssap, ldp *packages.Package) {
	info := bk.TypesInfo
	scope := ssap.Types.Scope()
	insI, _ := scope.Lookup("Instruction").(*types.TypeName)
	valI, _ := scope.Lookup("Value").(*types.TypeName)
	if insI == nil || valI == nil {
		c.Undecided("ir-exhaustive", "ssa.Instruction / ssa.Value", "", "interfaces not found")
		return
	}
	insIface := insI.Type().Underlying().(*types.Interface)
	valIface := valI.Type().Underlying().(*types.Interface)
	// instruction types constructed by the builder: &T{...} composite literals in package ssa
	constructed := map[string]bool{}
	for _, f := range ssap.Syntax {
		ast.Inspect(f, func(n ast.Node) bool {
			if cl, ok := n.(*ast.CompositeLit); ok {
				if t := ssap.TypesInfo.TypeOf(cl); t != nil {
					if nt, ok := t.(*types.Named); ok && nt.Obj().Pkg() == ssap.Types {
						constructed[nt.Obj().Name()] = true
					}
				}
			}
			return true
		})
	}
	type armInfo struct {
		fatal bool
		pos   string
	}
	collect := func(fn string, tagIs func(types.Type) bool) (map[string]armInfo, bool, bool) {
		fd := p.MustFunc("ir-exhaustive", bk, fn)
		out := map[string]armInfo{}
		if fd == nil {
			return out, false, false
		}
		hasValueArm := false
		found := false
		ast.Inspect(fd.Body, func(n ast.Node) bool {
			ts, ok := n.(*ast.TypeSwitchStmt)
			if !ok {
				return true
			}
			// the switch over the function's instruction/value parameter
			var x ast.Expr
			switch a := ts.Assign.(type) {
			case *ast.AssignStmt:
				x = a.Rhs[0].(*ast.TypeAssertExpr).X
			case *ast.ExprStmt:
				x = a.X.(*ast.TypeAssertExpr).X
			}
			if t := info.TypeOf(x); t == nil || !tagIs(t) {
				return true
			}
			found = true
			for _, arm := range TypeSwitchArms(info, ts) {
				for _, t := range arm.Types {
					if pt, ok := t.(*types.Pointer); ok {
						if nt, ok := pt.Elem().(*types.Named); ok {
							out[nt.Obj().Name()] = armInfo{fatalOnly(info, arm.Body), p.Pos(arm.Clause.Pos())}
						}
					}
					if nt, ok := t.(*types.Named); ok && nt.Obj().Name() == "Value" {
						hasValueArm = true
					}
				}
			}
			return false
		})
		return out, hasValueArm, found
	}
	isNamed := func(name string) func(types.Type) bool {
		return func(t types.Type) bool {
			nt, ok := t.(*types.Named)
			return ok && nt.Obj().Name() == name && nt.Obj().Pkg() != nil && strings.HasSuffix(nt.Obj().Pkg().Path(), "internal/ssa")
		}
	}
	insArms, viaValue, ok1 := collect("functionGenerator.genInstruction", isNamed("Instruction"))
	valArms, _, ok2 := collect("functionGenerator.genValue", isNamed("Value"))
	if !ok1 || !ok2 {
		c.Undecided("ir-exhaustive", "genInstruction / genValue type switches", "", "type switch over the instruction not found")
		return
	}
	// instruction types taken out of the stream before genInstruction (phi handling in genBlock)
	pre := map[string]bool{}
	if fd := FuncDecl(bk, "functionGenerator.genBlock"); fd != nil {
		ast.Inspect(fd.Body, func(n ast.Node) bool {
			if ta, ok := n.(*ast.TypeAssertExpr); ok && ta.Type != nil {
				if pt, ok := info.TypeOf(ta.Type).(*types.Pointer); ok {
					if nt, ok := pt.Elem().(*types.Named); ok {
						pre[nt.Obj().Name()] = true
					}
				}
			}
			return true
		})
	}
	// debug mode off?
	debugOff := false
	modeLoc := ""
	for _, f := range ldp.Syntax {
		ast.Inspect(f, func(n ast.Node) bool {
			call, ok := n.(*ast.CallExpr)
			if !ok {
				return true
			}
			if fn := CalleeOf(ldp.TypesInfo, call); fn != nil && strings.HasSuffix(FuncFullName(fn), "internal/ssa.NewProgram") && len(call.Args) == 2 {
				modeLoc = p.Pos(call.Pos())
				tv := ldp.TypesInfo.Types[call.Args[1]]
				if tv.Value != nil {
					mode, _ := constant.Int64Val(tv.Value)
					sanity := int64(-1)
					debug := int64(-1)
					if o, ok := ssap.Types.Scope().Lookup("SanityCheckFunctions").(*types.Const); ok {
						sanity, _ = constant.Int64Val(o.Val())
					}
					if o, ok := ssap.Types.Scope().Lookup("GlobalDebug").(*types.Const); ok {
						debug, _ = constant.Int64Val(o.Val())
					}
					c.Check(sanity > 0 && mode&sanity != 0, "ssa-sanity-mode", "loader: ssa.NewProgram mode includes SanityCheckFunctions", modeLoc, "mode has SanityCheckFunctions", "the loader creates the SSA program without SanityCheckFunctions: malformed SSA reaches the back end unchecked")
					debugOff = debug > 0 && mode&debug == 0
				} else {
					c.Undecided("ssa-sanity-mode", "loader: ssa.NewProgram mode", modeLoc, "mode argument is not a constant")
				}
			}
			return true
		})
	}
	if modeLoc == "" {
		c.Undecided("ssa-sanity-mode", "loader: ssa.NewProgram call", "", "call not found")
	}
	n := 0
	names := scope.Names()
	for _, name := range names {
		tn, ok := scope.Lookup(name).(*types.TypeName)
		if !ok {
			continue
		}
		nt, ok := tn.Type().(*types.Named)
		if !ok {
			continue
		}
		if _, isStruct := nt.Underlying().(*types.Struct); !isStruct {
			continue
		}
		pt := types.NewPointer(nt)
		if !types.Implements(pt, insIface) {
			continue
		}
		n++
		key := "ssa." + name
		if !constructed[name] {
			c.OK("ir-exhaustive", key, "", "never constructed by the builder: vacuous")
			continue
		}
		handled, fatal, where := false, false, ""
		if a, ok := insArms[name]; ok {
			handled, fatal, where = true, a.fatal, a.pos
		} else if viaValue && types.Implements(pt, valIface) {
			if a, ok := valArms[name]; ok {
				handled, fatal, where = true, a.fatal, a.pos
			}
		}
		if pre[name] {
			handled, fatal = true, false
		}
		if name == "DebugRef" && !handled {
			c.Check(debugOff, "ir-exhaustive", key, modeLoc, "only emitted in debug mode, which the loader does not enable", "ssa.DebugRef has no arm in the back end and the loader enables GlobalDebug: every function would hit the fatal default")
			continue
		}
		switch {
		case !handled:
			c.Fail("ir-exhaustive", key, "", "the SSA builder constructs *ssa."+name+" but the back end's genInstruction/genValue have no arm for it: a program using the construct stops the compiler at the fatal default")
		case fatal:
			c.Fail("ir-exhaustive", key, where, "the arm for *ssa."+name+" only reports a fatal error: a program using the construct cannot be compiled")
		default:
			c.OK("ir-exhaustive", key, where, "arm present")
		}
	}
	c.Min("ir-exhaustive", "ssa instruction types", n, 30)
}

// ---------- (2) constant kinds

func basicKindNames(info *types.Info, sw *ast.SwitchStmt) map[string]bool {
	out := map[string]bool{}
	for _, arm := range SwitchArms(info, sw) {
		if fatalOnly(info, arm.Body) {
			continue
		}
		for _, k := range arm.Consts {
			if k.Name != "" && !strings.HasPrefix(k.Name, "Untyped") {
				out[k.Name] = true
			}
		}
	}
	return out
}

// kindSwitches finds, inside a type-switch arm body, the first `switch <x>.Kind()` statement.
func kindSwitchIn(body []ast.Stmt) *ast.SwitchStmt {
	var found *ast.SwitchStmt
	for _, s := range body {
		ast.Inspect(s, func(n ast.Node) bool {
			if sw, ok := n.(*ast.SwitchStmt); ok && found == nil && sw.Tag != nil && strings.HasSuffix(types.ExprString(sw.Tag), ".Kind()") {
				found = sw
			}
			return found == nil
		})
	}
	return found
}

func c16ConstKinds(c *Ctx, p *Prog, bk *packages.Package) {
	info := bk.TypesInfo
	typeArmNames := func(ts *ast.TypeSwitchStmt) map[string]Arm {
		out := map[string]Arm{}
		for _, arm := range TypeSwitchArms(info, ts) {
			for _, t := range arm.Types {
				out[types.TypeString(t, func(*types.Package) string { return "types" })] = arm
			}
		}
		return out
	}
	// the type compiler's kinds
	var compileKinds map[string]Arm
	if fd := p.MustFunc("const-kind-coverage", bk, "typeLib.compile"); fd != nil {
		ast.Inspect(fd.Body, func(n ast.Node) bool {
			if ts, ok := n.(*ast.TypeSwitchStmt); ok && compileKinds == nil {
				compileKinds = typeArmNames(ts)
				return false
			}
			return true
		})
	}
	// the Const arm of getValue
	var constKinds map[string]Arm
	if fd := p.MustFunc("const-kind-coverage", bk, "functionGenerator.getValue"); fd != nil {
		ast.Inspect(fd.Body, func(n ast.Node) bool {
			ts, ok := n.(*ast.TypeSwitchStmt)
			if !ok || constKinds != nil {
				return true
			}
			for _, arm := range TypeSwitchArms(info, ts) {
				for _, t := range arm.Types {
					if strings.HasSuffix(t.String(), "ssa.Const") {
						// the inner switch on the constant's type
						for _, s := range arm.Body {
							ast.Inspect(s, func(m ast.Node) bool {
								if its, ok := m.(*ast.TypeSwitchStmt); ok && constKinds == nil {
									constKinds = typeArmNames(its)
									return false
								}
								return true
							})
						}
					}
				}
			}
			return true
		})
	}
	if compileKinds == nil || constKinds == nil {
		c.Undecided("const-kind-coverage", "getValue(*ssa.Const) / typeLib.compile type switches", "", "switches not found")
		return
	}
	// nil-able kinds of the language (Go specification: pointer, function, slice, map, interface; channels do not exist in Wa)
	for _, k := range []string{"*types.Pointer", "*types.Slice", "*types.Map", "*types.Interface", "*types.Signature"} {
		if _, ok := compileKinds[k]; !ok {
			continue
		}
		arm, ok := constKinds[k]
		good := ok && !fatalOnly(info, arm.Body)
		loc := ""
		if ok {
			loc = p.Pos(arm.Clause.Pos())
		}
		c.Check(good, "const-kind-coverage", "nil constant of "+k, loc, "arm present", "the type compiler supports "+k+" but the constant materialiser (getValue, *ssa.Const) has no arm for it: a nil constant of such a type (return nil, x == nil, nil argument) stops the compiler at the fatal default")
	}
	// named/basic sibling agreement, in getValue and in typeLib.compile
	for _, site := range []struct {
		what  string
		kinds map[string]Arm
	}{{"getValue(*ssa.Const)", constKinds}, {"typeLib.compile", compileKinds}} {
		ba, ok1 := site.kinds["*types.Basic"]
		na, ok2 := site.kinds["*types.Named"]
		if !ok1 || !ok2 {
			c.Undecided("const-kind-coverage", "named/basic sibling: "+site.what, "", "arms not found")
			continue
		}
		bs, ns := kindSwitchIn(ba.Body), kindSwitchIn(na.Body)
		if bs == nil || ns == nil {
			c.Undecided("const-kind-coverage", "named/basic sibling: "+site.what, p.Pos(na.Clause.Pos()), "kind switches not found")
			continue
		}
		bk, nk := basicKindNames(info, bs), basicKindNames(info, ns)
		var missing []string
		for k := range bk {
			if !nk[k] && k != "UnsafePointer" {
				missing = append(missing, k)
			}
		}
		sort.Strings(missing)
		c.Check(len(missing) == 0, "const-kind-coverage", "named/basic sibling: "+site.what, p.Pos(ns.Pos()), fmt.Sprintf("%d kinds on both sides", len(nk)),
			fmt.Sprintf("%s handles the basic kinds %s for plain types but not for named types with that underlying kind: `type T %s` values stop the compiler", site.what, strings.Join(missing, ", "), strings.ToLower(strings.Join(missing, "/"))))
	}
}

// ---------- (3)-(6) linkage

type symDef struct {
	where string
	sig   string // "(params)->(results)" where known
	kind  string // ws | wa | wa-link | intrinsic | import
}

func c16Linkage(c *Ctx, p *Prog, cfgp *packages.Package) {
	// target list from config.WaOS_List
	var osList []string
	for _, lp := range []*packages.Package{cfgp, p.Pkg("waroot/src")} {
		if lp == nil || len(osList) > 0 {
			continue
		}
		for _, f := range lp.Syntax {
			ast.Inspect(f, func(n ast.Node) bool {
				vs, ok := n.(*ast.ValueSpec)
				if !ok || len(vs.Names) != 1 || vs.Names[0].Name != "WaOS_List" || len(vs.Values) != 1 {
					return true
				}
				if cl, ok := vs.Values[0].(*ast.CompositeLit); ok {
					for _, el := range cl.Elts {
						if tv, ok := lp.TypesInfo.Types[el]; ok && tv.Value != nil && tv.Value.Kind() == constant.String {
							osList = append(osList, constant.StringVal(tv.Value))
						}
					}
				}
				return false
			})
		}
	}
	c.Min("backend-call-linkage", "target OS list", len(osList), 6)
	if len(osList) == 0 {
		return
	}
	std := LoadWaStd(c, "backend-call-linkage")
	c.Count("wa_packages_parsed", len(std.Pkgs))
	nfiles := 0
	for _, fs := range std.Pkgs {
		nfiles += len(fs)
	}
	c.Count("wa_files_parsed", nfiles)
	c.Min("backend-call-linkage", "standard-library .wa files parsed", nfiles, 270)

	// base files per target (read from waroot/src/src.go: GetBaseWsCode)
	baseFor := func(os string) string {
		switch os {
		case "wasm4":
			return "base_wasm4.wat.ws"
		case "arduino":
			return "base_arduino.wat.ws"
		}
		return "base.wat.ws"
	}
	// confirm that mapping against the source of GetBaseWsCode
	if sp := p.Pkg("waroot/src"); sp != nil {
		if fd := FuncDecl(sp, "GetBaseWsCode"); fd != nil {
			src := nodeString(p, fd)
			okMap := strings.Contains(src, "WaOS_wasm4") && strings.Contains(src, "baseWsFile_wat_wasm4") && strings.Contains(src, "WaOS_arduino") && strings.Contains(src, "baseWsFile_wat_arduino")
			if !okMap {
				c.Undecided("backend-call-linkage", "waroot/src.GetBaseWsCode target -> base file mapping", p.Pos(fd.Pos()), "the mapping of targets to base .ws files changed; the checker's copy must be re-read")
			}
		}
	}

	wsCache := map[string]*watModule{}
	readWs := func(rel string) *watModule {
		if m, ok := wsCache[rel]; ok {
			return m
		}
		m := &watModule{}
		src, err := c.ReadFile(rel)
		if err != nil {
			c.Undecided("ws-call-linkage", "read "+rel, "", err.Error())
		} else if err := parseWatFragments(rel, string(src), m); err != nil {
			c.Undecided("ws-call-linkage", "parse "+rel, "", err.Error())
		}
		wsCache[rel] = m
		return m
	}

	// backend constant call symbols
	type callSite struct{ sym, loc string }
	var calls []callSite
	dynamic := 0
	for rel, pk := range p.All {
		if !strings.Contains(rel, "internal/backends/compiler_wat") {
			continue
		}
		for _, f := range pk.Syntax {
			ast.Inspect(f, func(n ast.Node) bool {
				call, ok := n.(*ast.CallExpr)
				if !ok || len(call.Args) != 1 {
					return true
				}
				fn := CalleeOf(pk.TypesInfo, call)
				if fn == nil || !strings.HasSuffix(FuncFullName(fn), "wir/wat.NewInstCall") {
					return true
				}
				if tv, ok := pk.TypesInfo.Types[call.Args[0]]; ok && tv.Value != nil && tv.Value.Kind() == constant.String {
					calls = append(calls, callSite{constant.StringVal(tv.Value), p.Pos(call.Pos())})
				} else {
					dynamic++
				}
				return true
			})
		}
	}
	c.Count("backend_const_call_sites", len(calls))
	c.Count("backend_dynamic_call_sites", dynamic)
	c.Min("backend-call-linkage", "constant call symbols in the back end", len(calls), 85)

	sigOf := func(params, results []string) string {
		return "(" + strings.Join(params, ",") + ")->(" + strings.Join(results, ",") + ")"
	}
	type pkgDefs struct {
		defs    map[string]symDef
		imports map[string]bool
		wsMods  []*watModule
		decls   []*waFuncDecl
	}
	pkgNames := make([]string, 0, len(std.Pkgs))
	for k := range std.Pkgs {
		pkgNames = append(pkgNames, k)
	}
	for k := range std.Ws {
		if _, ok := std.Pkgs[k]; !ok {
			pkgNames = append(pkgNames, k)
		}
	}
	sort.Strings(pkgNames)

	exts := []string{".wa", ".wz"}
	for _, target := range osList {
		base := readWs(filepath.Join(std.Root, baseFor(target)))
		perPkg := map[string]*pkgDefs{}
		for _, pkg := range pkgNames {
			d := &pkgDefs{defs: map[string]symDef{}, imports: map[string]bool{}}
			for _, ws := range std.WsFiles(pkg, osList, target) {
				m := readWs(filepath.Join(std.Root, pkg, ws))
				d.wsMods = append(d.wsMods, m)
				for _, fn := range m.Funcs {
					if fn.Name != "" {
						kind := "ws"
						if fn.Import[0] != "" {
							kind = "import"
						}
						d.defs[fn.Name] = symDef{fmt.Sprintf("%s:%d", fn.File, fn.Line), "", kind}
					}
				}
			}
			for _, f := range std.Files(pkg, osList, target) {
				for _, im := range waImports(f) {
					d.imports[im] = true
				}
				for _, fd := range std.Funcs(f) {
					d.decls = append(d.decls, fd)
					name := "$" + fd.WatName()
					switch {
					case fd.HasBody:
						kind := "wa"
						if fd.Link != "" {
							kind = "wa-link"
						}
						d.defs[name] = symDef{std.Pos(f, fd.Decl.Pos()), sigOf(fd.Params, fd.Results), kind}
					case fd.Getter || fd.Setter || fd.Sizer:
						d.defs[name] = symDef{std.Pos(f, fd.Decl.Pos()), sigOf(fd.Params, fd.Results), "intrinsic"}
					case fd.Import[0] != "" && fd.Import[1] != "":
						d.defs[name] = symDef{std.Pos(f, fd.Decl.Pos()), sigOf(fd.Params, fd.Results), "import"}
					}
				}
			}
			perPkg[pkg] = d
		}
		rt := perPkg["runtime"]
		if rt == nil {
			c.Undecided("backend-call-linkage", "runtime package @"+target, "", "package runtime not found")
			continue
		}
		lookup := func(pkg, sym string) (symDef, bool) {
			seen := map[string]bool{}
			var rec func(string, int) (symDef, bool)
			rec = func(q string, depth int) (symDef, bool) {
				if seen[q] || depth > 8 {
					return symDef{}, false
				}
				seen[q] = true
				d := perPkg[q]
				if d == nil {
					return symDef{}, false
				}
				if s, ok := d.defs[sym]; ok {
					return s, true
				}
				var ims []string
				for im := range d.imports {
					ims = append(ims, im)
				}
				sort.Strings(ims)
				for _, im := range ims {
					if s, ok := rec(im, depth+1); ok {
						return s, true
					}
				}
				return symDef{}, false
			}
			if s, ok := rec(pkg, 0); ok {
				return s, true
			}
			if s, ok := rt.defs[sym]; ok {
				return s, true
			}
			if fn, ok := base.ByName[sym]; ok {
				return symDef{fmt.Sprintf("%s:%d", fn.File, fn.Line), "", "ws"}, true
			}
			return symDef{}, false
		}
		// (3) backend calls
		seenSym := map[string]bool{}
		for _, cs := range calls {
			if seenSym[cs.sym] {
				continue
			}
			seenSym[cs.sym] = true
			// compiler-generated entry points
			if cs.sym == "_start" || cs.sym == "_main" {
				continue
			}
			def, ok := lookup("runtime", "$"+cs.sym)
			c.Check(ok, "backend-call-linkage", "call $"+cs.sym+" @"+target, cs.loc, "defined at "+c.rel(def.where),
				fmt.Sprintf("the back end emits `call $%s`, but for target %s no selected runtime file defines $%s (neither a (func $%s) in a .wat.ws file nor a .wa function with that mangled name or #wa:linkname): any program needing it cannot be assembled for that target", cs.sym, target, cs.sym, cs.sym))
		}
		// (4) references inside .ws files
		for _, pkg := range pkgNames {
			d := perPkg[pkg]
			done := map[string]bool{}
			for _, m := range d.wsMods {
				var refs []watRef
				for _, fn := range m.Funcs {
					for _, r := range fn.Calls() {
						r.Kind = fn.File
						refs = append(refs, r)
					}
				}
				for _, r := range m.Refs {
					refs = append(refs, r)
				}
				for _, r := range refs {
					if done[r.Name] || !strings.HasPrefix(r.Name, "$") {
						continue
					}
					done[r.Name] = true
					def, ok := lookup(pkg, r.Name)
					c.Check(ok, "ws-call-linkage", fmt.Sprintf("%s: call %s @%s", pkg, r.Name, target), fmt.Sprintf("%s:%d", r.Kind, r.Line), "defined at "+c.rel(def.where),
						fmt.Sprintf("a .wat.ws file of package %s refers to %s, which nothing selected for target %s defines: the module fails to assemble", pkg, r.Name, target))
				}
			}
			// (5) body-less declarations
			for _, fd := range d.decls {
				if fd.HasBody || fd.Getter || fd.Setter || fd.Sizer || (fd.Import[0] != "" && fd.Import[1] != "") {
					continue
				}
				name := "$" + fd.WatName()
				def, ok := lookup(pkg, name)
				if ok && def.kind != "ws" && def.kind != "import" {
					ok = false
				}
				c.Check(ok, "decl-linkage", fmt.Sprintf("%s: %s @%s", pkg, name, target), std.Pos(fd.File, fd.Decl.Pos()), "implemented at "+c.rel(def.where),
					fmt.Sprintf("package %s declares %s without a body (symbol %s) and no .wat.ws file selected for target %s implements it: a call to it cannot be assembled", pkg, fd.Name, name, target))
			}
		}
	}
	// (6) sibling signatures across per-target files of one package
	for _, pkg := range pkgNames {
		bySym := map[string]map[string][]string{} // symbol -> signature -> files
		for _, f := range std.Pkgs[pkg] {
			if !osSpecific(f.Name, exts, osList) || isWaTestFile(f.Name) {
				continue
			}
			for _, fd := range std.Funcs(f) {
				if fd.Link == "" {
					continue
				}
				sig := sigOf(fd.Params, fd.Results)
				if bySym[fd.Link] == nil {
					bySym[fd.Link] = map[string][]string{}
				}
				bySym[fd.Link][sig] = append(bySym[fd.Link][sig], f.Name)
			}
		}
		var syms []string
		for s := range bySym {
			syms = append(syms, s)
		}
		sort.Strings(syms)
		for _, s := range syms {
			total := 0
			var desc []string
			for sig, files := range bySym[s] {
				total += len(files)
				sort.Strings(files)
				desc = append(desc, sig+" in "+strings.Join(files, ","))
			}
			if total < 2 {
				continue
			}
			sort.Strings(desc)
			c.Check(len(bySym[s]) == 1, "target-sibling-signature", pkg+": "+s, "", fmt.Sprintf("same signature in %d files", total),
				fmt.Sprintf("the per-target files of package %s define %s with different signatures (%s): callers are generated for one shape and fail to validate on the other target", pkg, s, strings.Join(desc, " | ")))
		}
	}
}

// ---------- (8) inventory of fatal paths (informational)

func c16FatalInventory(c *Ctx, p *Prog) {
	n := 0
	byFunc := map[string]int{}
	for rel, pk := range p.All {
		if !strings.Contains(rel, "internal/backends/compiler_wat") {
			continue
		}
		for _, f := range pk.Syntax {
			for _, d := range f.Decls {
				fd, ok := d.(*ast.FuncDecl)
				if !ok || fd.Body == nil {
					continue
				}
				ast.Inspect(fd.Body, func(nd ast.Node) bool {
					if call, ok := nd.(*ast.CallExpr); ok {
						name := types.ExprString(call.Fun)
						if strings.HasPrefix(name, "logger.Fatal") || name == "panic" {
							n++
							byFunc[short(rel)+"."+declName(fd)]++
						}
					}
					return true
				})
			}
		}
	}
	c.Count("backend_fatal_sites", n)
	c.Count("backend_functions_with_fatal_sites", len(byFunc))
	c.Assume = append(c.Assume, fmt.Sprintf("the back end contains %d logger.Fatal/panic sites in %d functions (documented 'Todo' paths); the rules decide that the dispatch arms exist, not that no fatal path inside an arm is reachable", n, len(byFunc)))
}
