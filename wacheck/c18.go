package main

import (
	"fmt"
	"go/ast"
	"go/token"
	"go/types"
	"strings"

	"golang.org/x/tools/go/packages"
)

func init() {
	register(&Property{ID: "C18", Run: runC18, Mutants: []Mutant{
		{Name: "SplitOffset carry test uses the wrong bit", File: "internal/native/pcrel/pcrel.go", Old: "const lowBitMask = 0x800", New: "const lowBitMask = 0x400", Expect: "split-exact"},
		{Name: "SplitOffset fast path with a symmetric range", File: "internal/native/pcrel/pcrel.go", Old: "\tif (delta & lowBitMask) != 0 {", New: "\tif -lowBitMask <= delta && delta <= lowBitMask {\n\t\treturn 0, delta\n\t}\n\tif (delta & lowBitMask) != 0 {", Expect: "split-exact"},
		{Name: "SplitOffset forgets the carry", File: "internal/native/pcrel/pcrel.go", Old: "hiCorr = (delta >> 12) + 1", New: "hiCorr = (delta >> 12)", Expect: "split-exact"},
		{Name: "CombineOffset shifts by 11", File: "internal/native/pcrel/pcrel.go", Old: "delta = (pcrel_hi << 12) + pcrel_lo", New: "delta = (pcrel_hi << 11) + pcrel_lo", Expect: "combine-exact"},
		{Name: "MakePCRel subtracts the wrong way round", File: "internal/native/pcrel/pcrel.go", Old: "delta := int32(targetAddress - pc)", New: "delta := int32(pc - targetAddress)", Expect: "make-delegates"},
		{Name: "LoongArch rounding constant 0x7FF", File: "internal/native/pcrel/la64.go", Old: "\tpc_hi20 = int32((delta) >> 12)\n\tpc_lo12 = int32(delta & 0xFFF)\n\n\tif pc_lo12 >= 0x800 {\n\t\tpc_hi20++\n\t}\n\tpc_hi20 &= 0xFFFFF", New: "\tpc_hi20 = int32((delta+0x7FF)>>12) & 0xFFFFF\n\tpc_lo12 = int32(delta & 0xFFF)", Expect: "la64-split"},
		{Name: "LoongArch low part keeps 11 bits", File: "internal/native/pcrel/la64.go", Old: "pc_lo12 = int32(delta & 0xFFF)", New: "pc_lo12 = int32(delta & 0x7FF)", Expect: "la64-split"},
		{Name: "LoongArch carry threshold off by one", File: "internal/native/pcrel/la64.go", Old: "if pc_lo12 >= 0x800 {", New: "if pc_lo12 > 0x800 {", Expect: "la64-split"},
		{Name: "LoongArch hi masked to 19 bits", File: "internal/native/pcrel/la64.go", Old: "pc_hi20 &= 0xFFFFF", New: "pc_hi20 &= 0x7FFFF", Expect: "la64-split"},
		{Name: "riscv call site passes (pc, addr)", File: "internal/native/asm/asm_func_riscv_x.go", Old: "pcrel.MakePCRel(addr, pc)", New: "pcrel.MakePCRel(pc, addr)", Expect: "callsite-roles"},
		{Name: "loong64 call site stores hi as the low part", File: "internal/native/asm/asm_func_loong64_x.go", Old: "\t\t\t\thi, lo := pcrel.MakeLa64PCRel(addr, pc)\n\t\t\t\tpc_hi2loMap[inst.Arg.Symbol] = lo\n\t\t\t\tinst.Arg.Imm = hi", New: "\t\t\t\thi, lo := pcrel.MakeLa64PCRel(addr, pc)\n\t\t\t\tpc_hi2loMap[inst.Arg.Symbol] = hi\n\t\t\t\tinst.Arg.Imm = lo", Expect: "callsite-roles"},
	}})
}

func runC18(c *Ctx) {
	c.Explain = "Decides the hi/lo splitting identities for every input by abstract interpretation in the page-form domain (pageform.go): a value is 4096·(linear form in symbolic page numbers) + residue, " +
		"the in-page residue is enumerated over all 4096 values, the page numbers stay symbolic, and a comparison that depends on a page number splits its interval so that every partition is analysed. " +
		"Clauses: SplitOffset(δ) returns lo in [-2048, 2047] and 4096·hi + lo = δ for every 32-bit δ; CombineOffset computes 4096·hi + lo; MakePCRel / MakeAbs apply the split to target-pc / target; " +
		"MakeLa64PCRel returns lo12 = target mod 4096 and hi20 ≡ page(target) - page(pc) + [lo12 ≥ 0x800] (mod 2^20), which is what pcalau12i (sign-extended si20, low 12 bits of the sum cleared) followed by a sign-extended si12 needs to reach the target; " +
		"GetTargetAddressLa64 computes that CPU formula; the assembler call sites pass (symbol address, pc) and route hi to the instruction immediate and lo to the map read by the %lo arm. " +
		"Integer conversions are taken as exact, i.e. the clauses are modulo 2^32 for the RISC-V split (which is how auipc/addi combine them) and assume |target - pc| < 2^31 for LoongArch (the stated pcalau12i range). " +
		"NOT decided: the encoders' placement of the immediates into instruction fields (C17) and the instruction that consumes %lo."
	c.Trusted = []string{"go/packages, go/types (x/tools v0.29.0)", "the page-form transfer functions of wacheck (pageform.go)"}
	p := c.Load(LoadOpt{Light: true}, "./internal/native/pcrel", "./internal/native/asm")
	pk := p.MustPkg("split-exact", "internal/native/pcrel")
	if pk == nil {
		return
	}
	info := pk.TypesInfo
	funcs := map[*types.Func]*ast.FuncDecl{}
	byName := map[string]*ast.FuncDecl{}
	for _, f := range pk.Syntax {
		for _, d := range f.Decls {
			if fd, ok := d.(*ast.FuncDecl); ok && fd.Body != nil && fd.Recv == nil {
				if fn, ok := info.Defs[fd.Name].(*types.Func); ok {
					funcs[fn] = fd
					byName[fd.Name.Name] = fd
				}
			}
		}
	}
	get := func(rule, name string) *ast.FuncDecl {
		fd := byName[name]
		if fd == nil {
			c.Undecided(rule, "anchor:"+name, "", "anchor function no longer resolves")
		}
		return fd
	}
	pageSym := func(s string, k int64) pform {
		return pform{OK: true, PageSc: true, Page: map[string]int64{s: 1}, K: k}
	}
	byteVal := func(page map[string]int64, byteSyms map[string]int64, lo, hi int64) pform {
		return pform{OK: true, Page: page, Byte: byteSyms, Lo: lo, Hi: hi}.clone().norm()
	}
	const q19lo, q19hi = -(1 << 19), 1<<19 - 1
	witness := func(b map[string][2]int64, sym string) int64 { return b[sym][0] }
	leaves := 0

	// the split specification shared by SplitOffset, MakePCRel and MakeAbs: results (hi, lo) for an offset 4096·q + r
	// (qlo, qhi: the page numbers the input ranges over — signed 32-bit offsets, or unsigned 32-bit addresses; the
	// identity is modulo 2^32, which is how lui/auipc + addi recombine the parts, and hi has to fit the 20-bit field)
	splitSpec := func(rule, construct string, fd *ast.FuncDecl, argsFor func(r int64) []pform, inputName string, qlo, qhi int64) {
		var bad, und []string
		for r := int64(0); r < 4096; r++ {
			delta := byteVal(map[string]int64{"q": 1}, nil, r, r)
			leaves += pfAnalyse(info, funcs, fd, argsFor(r), map[string][2]int64{"q": {qlo, qhi}}, func(b map[string][2]int64, res []pform, ok bool) {
				at := fmt.Sprintf("%s = 4096·q%+d, q in [%d, %d] (e.g. %d)", inputName, r, b["q"][0], b["q"][1], 4096*witness(b, "q")+r)
				if !ok || len(res) != 2 || !res[0].OK || !res[1].OK {
					if len(und) < 4 {
						und = append(und, at+": a statement or operator outside the page-form domain")
					}
					return
				}
				hi, lo := res[0], res[1]
				lov, _ := lo.concrete()
				lmin, lmax, bounded := (&pfEnv{bounds: b}).rangeOf(lo)
				switch {
				case !bounded || lo.PageSc || lo.Mod != 0:
					bad = append(bad, at+": lo = "+lo.String()+" is not a bounded byte quantity")
				case lmin < -2048 || lmax > 2047:
					bad = append(bad, fmt.Sprintf("%s: lo = %s ranges over [%d, %d], outside [-2048, 2047] (hi = %s)", at, lo.String(), lmin, lmax, hi.String()))
				case !hi.PageSc && hi.hasSyms():
					bad = append(bad, at+": hi = "+hi.String()+" is not a page count")
				default:
					hp := hi
					if v, isConst := hi.concrete(); isConst && !hi.PageSc {
						hp = pform{OK: true, PageSc: true, K: v}
					}
					sh := hp.clone()
					sh.PageSc = false
					sum := pfAddSub(sh, lo, 1)
					want := pfResolve(delta, b)
					// equal modulo 2^32 (= 2^20 pages)
					diff := pfAddSub(sum, want, -1)
					dv, isK := diff.concrete()
					if !isK || dv%(1<<32) != 0 {
						bad = append(bad, fmt.Sprintf("%s: 4096·hi + lo = %s, not the offset modulo 2^32 (hi = %s, lo = %d)", at, sum.String(), hi.String(), lov))
					} else if hmin, hmax, okH := (&pfEnv{bounds: b}).rangeOf(hp); !okH || hmin < -(1<<19) || hmax > 1<<20-1 {
						bad = append(bad, fmt.Sprintf("%s: hi = %s ranges over [%d, %d], which does not fit the 20-bit immediate of lui/auipc/lu12i.w (signed or unsigned)", at, hi.String(), hmin, hmax))
					}
				}
			})
		}
		loc := p.Pos(fd.Pos())
		if len(und) > 0 {
			c.Undecided(rule, construct, loc, strings.Join(und, "; "))
			return
		}
		if len(bad) > 5 {
			bad = append(bad[:5], fmt.Sprintf("… %d partitions in all", len(bad)))
		}
		c.Check(len(bad) == 0, rule, construct, loc, "lo in [-2048, 2047] and 4096·hi + lo = offset for all 4096 residues × every page number",
			construct+": "+strings.Join(bad, "; "))
	}

	if fd := get("split-exact", "SplitOffset"); fd != nil {
		splitSpec("split-exact", "SplitOffset", fd, func(r int64) []pform {
			return []pform{byteVal(map[string]int64{"q": 1}, nil, r, r)}
		}, "delta", q19lo, q19hi)
	}
	if fd := get("make-delegates", "MakePCRel"); fd != nil {
		splitSpec("make-delegates", "MakePCRel", fd, func(r int64) []pform {
			return []pform{byteVal(map[string]int64{"q": 1}, map[string]int64{"pc": 1}, r, r), byteVal(nil, map[string]int64{"pc": 1}, 0, 0)}
		}, "target - pc", q19lo, q19hi)
	}
	if fd := get("make-delegates", "MakeAbs"); fd != nil {
		splitSpec("make-delegates", "MakeAbs", fd, func(r int64) []pform {
			return []pform{byteVal(map[string]int64{"q": 1}, nil, r, r)}
		}, "target", 0, 1<<20-1) // an unsigned 32-bit address
	}

	if fd := get("combine-exact", "CombineOffset"); fd != nil {
		var bad, und []string
		for l := int64(-2048); l <= 2047; l++ {
			leaves += pfAnalyse(info, funcs, fd, []pform{pageSym("h", 0), pfConst(l)}, map[string][2]int64{"h": {q19lo, q19hi + 1}}, func(b map[string][2]int64, res []pform, ok bool) {
				if !ok || len(res) != 1 || !res[0].OK {
					if len(und) < 3 {
						und = append(und, fmt.Sprintf("lo = %d: outside the page-form domain", l))
					}
					return
				}
				want := pfAddSub(byteVal(map[string]int64{"h": 1}, nil, 0, 0), pfConst(l), 1)
				if !pfEqual(res[0], pfResolve(want, b)) && len(bad) < 5 {
					bad = append(bad, fmt.Sprintf("lo = %d: returns %s, auipc/addi compute %s", l, res[0].String(), want.String()))
				}
			})
		}
		loc := p.Pos(fd.Pos())
		if len(und) > 0 {
			c.Undecided("combine-exact", "CombineOffset", loc, strings.Join(und, "; "))
		} else {
			c.Check(len(bad) == 0, "combine-exact", "CombineOffset", loc, "returns 4096·hi + lo for every hi and all 4096 values of lo", "CombineOffset: "+strings.Join(bad, "; "))
		}
	}

	const pgLo, pgHi = -(1 << 50), 1 << 50
	if fd := get("la64-split", "MakeLa64PCRel"); fd != nil {
		var bad, und []string
		for r := int64(0); r < 4096; r++ {
			target := byteVal(map[string]int64{"t": 1}, nil, r, r)
			pc := byteVal(map[string]int64{"p": 1}, nil, 0, 4095)
			leaves += pfAnalyse(info, funcs, fd, []pform{target, pc}, map[string][2]int64{"t": {pgLo, pgHi}, "p": {pgLo, pgHi}}, func(b map[string][2]int64, res []pform, ok bool) {
				at := fmt.Sprintf("target = 4096·t+%#x, pc = 4096·p+[0,4095]", r)
				if !ok || len(res) != 2 || !res[0].OK || !res[1].OK {
					if len(und) < 4 {
						und = append(und, at+": a statement or operator outside the page-form domain")
					}
					return
				}
				hi, lo := res[0], res[1]
				carry := int64(0)
				if r >= 0x800 {
					carry = 1
				}
				wantHi := pform{OK: true, PageSc: true, Page: map[string]int64{"t": 1, "p": -1}, K: carry, Mod: 1 << 20}
				lov, isK := lo.concrete()
				switch {
				case !isK || lov&0xFFF != r:
					bad = append(bad, fmt.Sprintf("%s: lo12 = %s, the low 12 bits of the target are %#x", at, lo.String(), r))
				case lov != r && lov != r-4096*carry:
					bad = append(bad, fmt.Sprintf("%s: lo12 = %d is neither the unsigned nor the sign-extended field value", at, lov))
				case !pfEqual(hi, pfResolve(wantHi, b)):
					bad = append(bad, fmt.Sprintf("%s: hi20 = %s; pcalau12i/si12 reach the target only with %s (the consumer sign-extends lo12 = %#x to %d)", at, hi.String(), wantHi.String(), r, r-4096*carry))
				}
			})
		}
		loc := p.Pos(fd.Pos())
		if len(und) > 0 {
			c.Undecided("la64-split", "MakeLa64PCRel", loc, strings.Join(und, "; "))
		} else {
			if len(bad) > 5 {
				bad = append(bad[:5], fmt.Sprintf("… %d residues in all", len(bad)))
			}
			c.Check(len(bad) == 0, "la64-split", "MakeLa64PCRel", loc, "lo12 = target mod 4096 and hi20 ≡ page(target) - page(pc) + [lo12 ≥ 0x800] (mod 2^20), for all 4096 residues × every pair of pages × every pc offset",
				"MakeLa64PCRel: "+strings.Join(bad, "; "))
		}
	}
	if fd := get("la64-cpu-model", "GetTargetAddressLa64"); fd != nil {
		var bad, und []string
		for l := int64(-2048); l <= 2047; l++ {
			pc := byteVal(map[string]int64{"p": 1}, nil, 0, 4095)
			leaves += pfAnalyse(info, funcs, fd, []pform{pc, pageSym("h", 0), pfConst(l)}, map[string][2]int64{"p": {pgLo, pgHi}, "h": {q19lo, q19hi}}, func(b map[string][2]int64, res []pform, ok bool) {
				if !ok || len(res) != 1 || !res[0].OK {
					if len(und) < 3 {
						und = append(und, fmt.Sprintf("si12 = %d: outside the page-form domain", l))
					}
					return
				}
				want := pfAddSub(byteVal(map[string]int64{"p": 1, "h": 1}, nil, 0, 0), pfConst(l), 1)
				if !pfEqual(res[0], pfResolve(want, b)) && len(bad) < 5 {
					bad = append(bad, fmt.Sprintf("si12 = %d: returns %s, the CPU computes %s", l, res[0].String(), want.String()))
				}
			})
		}
		loc := p.Pos(fd.Pos())
		if len(und) > 0 {
			c.Undecided("la64-cpu-model", "GetTargetAddressLa64", loc, strings.Join(und, "; "))
		} else {
			c.Check(len(bad) == 0, "la64-cpu-model", "GetTargetAddressLa64", loc, "((pc + si20·4096) with the low 12 bits cleared) + si12, for every pc, si20 and all 4096 values of si12", "GetTargetAddressLa64: "+strings.Join(bad, "; "))
		}
	}
	c.Count("page_form_partitions_analysed", leaves)

	if ak := p.MustPkg("callsite-roles", "internal/native/asm"); ak != nil {
		c18CallSites(c, p, ak)
	}
}

// c18CallSites: at every call of a pc-relative split in the assembler, argument 0 is the symbol's address (looked up
// in a map or by symbolAddress), argument 1 the running pc (the variable advanced by the instruction length), result
// 0 is stored into the instruction's immediate and result 1 into a map (read back by the %lo arm), never the reverse.
func c18CallSites(c *Ctx, p *Prog, ak *packages.Package) {
	const rule = "callsite-roles"
	info := ak.TypesInfo
	n := 0
	for _, f := range ak.Syntax {
		for _, d := range f.Decls {
			fd, ok := d.(*ast.FuncDecl)
			if !ok || fd.Body == nil {
				continue
			}
			// classify the function's variables
			advanced := map[types.Object]bool{} // pc-like: `v += <call>`
			looked := map[types.Object]bool{}   // address-like: defined from a map index or a call named symbolAddress
			ast.Inspect(fd.Body, func(nd ast.Node) bool {
				as, ok := nd.(*ast.AssignStmt)
				if !ok {
					return true
				}
				if as.Tok == token.ADD_ASSIGN && len(as.Lhs) == 1 {
					if o := identObj(info, as.Lhs[0]); o != nil {
						if _, isCall := ast.Unparen(as.Rhs[0]).(*ast.CallExpr); isCall {
							advanced[o] = true
						}
					}
				}
				if (as.Tok == token.DEFINE || as.Tok == token.ASSIGN) && len(as.Rhs) == 1 && len(as.Lhs) >= 1 {
					o := identObj(info, as.Lhs[0])
					switch r := ast.Unparen(as.Rhs[0]).(type) {
					case *ast.IndexExpr:
						if _, isMap := info.TypeOf(r.X).Underlying().(*types.Map); isMap && o != nil {
							looked[o] = true
						}
					case *ast.CallExpr:
						if fn := CalleeOf(info, r); fn != nil && fn.Name() == "symbolAddress" && o != nil {
							looked[o] = true
						}
					}
				}
				return true
			})
			// case clauses containing a split call
			ast.Inspect(fd.Body, func(nd ast.Node) bool {
				cc, ok := nd.(*ast.CaseClause)
				if !ok {
					return true
				}
				for _, s := range cc.Body {
					as, ok := s.(*ast.AssignStmt)
					if !ok || len(as.Rhs) != 1 || len(as.Lhs) != 2 {
						continue
					}
					call, ok := as.Rhs[0].(*ast.CallExpr)
					if !ok {
						continue
					}
					fn := CalleeOf(info, call)
					if fn == nil || fn.Pkg() == nil || !strings.HasSuffix(fn.Pkg().Path(), "internal/native/pcrel") {
						continue
					}
					n++
					construct := fmt.Sprintf("%s: %s in case %s", declName(fd), fn.Name(), exprListString(cc.List))
					loc := p.Pos(call.Pos())
					var probs []string
					argRoot := func(e ast.Expr) types.Object {
						e = ast.Unparen(e)
						for {
							ce, ok := e.(*ast.CallExpr)
							if !ok || len(ce.Args) != 1 {
								break
							}
							if tv, ok := info.Types[ce.Fun]; !ok || !tv.IsType() {
								break
							}
							e = ast.Unparen(ce.Args[0])
						}
						return identObj(info, e)
					}
					a0 := argRoot(call.Args[0])
					if a0 == nil || !looked[a0] || advanced[a0] {
						probs = append(probs, "argument 0 ("+types.ExprString(call.Args[0])+") is not the looked-up symbol address")
					}
					if len(call.Args) == 2 {
						a1 := argRoot(call.Args[1])
						if a1 == nil || !advanced[a1] || looked[a1] {
							probs = append(probs, "argument 1 ("+types.ExprString(call.Args[1])+") is not the running pc")
						} else {
							// the pc passed is the address of the instruction being processed: within the
							// enclosing loop body the pc is not advanced before this call
							var loopBody *ast.BlockStmt
							ast.Inspect(fd.Body, func(m ast.Node) bool {
								switch l := m.(type) {
								case *ast.ForStmt:
									if l.Body.Pos() <= call.Pos() && call.End() <= l.Body.End() {
										loopBody = l.Body
									}
								case *ast.RangeStmt:
									if l.Body.Pos() <= call.Pos() && call.End() <= l.Body.End() {
										loopBody = l.Body
									}
								}
								return true
							})
							if loopBody != nil {
								ast.Inspect(loopBody, func(m ast.Node) bool {
									if a2, ok := m.(*ast.AssignStmt); ok && a2.Tok == token.ADD_ASSIGN && len(a2.Lhs) == 1 && identObj(info, a2.Lhs[0]) == a1 && a2.Pos() < call.Pos() {
										probs = append(probs, "the running pc is advanced past the instruction ("+p.Pos(a2.Pos())+") before it is used as the instruction's own address: the page of the next instruction is used, which differs at the last slot of a 4 KiB page")
									}
									return true
								})
							}
						}
					}
					hiObj, loObj := identObj(info, as.Lhs[0]), identObj(info, as.Lhs[1])
					hiImm, loImm, loMap, hiMap := false, false, false, false
					for _, s2 := range cc.Body {
						a2, ok := s2.(*ast.AssignStmt)
						if !ok || len(a2.Lhs) != 1 || len(a2.Rhs) != 1 {
							continue
						}
						src := identObj(info, a2.Rhs[0])
						switch l := a2.Lhs[0].(type) {
						case *ast.SelectorExpr:
							if l.Sel.Name == "Imm" {
								hiImm = hiImm || (src != nil && src == hiObj)
								loImm = loImm || (src != nil && src == loObj)
							}
						case *ast.IndexExpr:
							loMap = loMap || (src != nil && src == loObj)
							hiMap = hiMap || (src != nil && src == hiObj)
						}
					}
					if !hiImm || loImm {
						probs = append(probs, "the high part is not what is stored into the instruction's immediate")
					}
					if !loMap || hiMap {
						probs = append(probs, "the low part is not what is remembered for the %lo reference")
					}
					c.Check(len(probs) == 0, rule, construct, loc, "passes (symbol address, pc); hi goes to the immediate, lo to the map read by the %lo arm", construct+": "+strings.Join(probs, "; "))
				}
				return true
			})
		}
	}
	c.Min(rule, "assembler call sites of the pcrel splits", n, 4)
}

func exprListString(l []ast.Expr) string {
	var s []string
	for _, e := range l {
		s = append(s, types.ExprString(e))
	}
	return strings.Join(s, ", ")
}
