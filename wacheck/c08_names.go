package main

import (
	"fmt"
	"go/ast"
	"go/types"
	"strings"

	"golang.org/x/tools/go/packages"
)

// C08 rule spec-names-nonempty (added after probing: `if a == b: {` made the .wa parser build a ValueSpec with an empty
// Names list from the `x: T` local-declaration form, and ValueSpec.End / Pos index Names[0] — the parser, the
// formatter, the loader and the language server panicked).
//
// Every `&ast.ValueSpec{Names: X, …}` the parsers build takes X from a source that cannot be empty: the result of an
// identifier-list parser, a literal with elements — or a list filled by conditional appends whose emptiness is tested
// (with a return) before the literal.
func c08SpecNames(c *Ctx, p *Prog, pks ...*packages.Package) {
	const rule = "spec-names-nonempty"
	n := 0
	for _, pk := range pks {
		if pk == nil {
			continue
		}
		info := pk.TypesInfo
		for _, name := range sortedDeclNames(pk) {
			fd := AllFuncDecls(pk)[name]
			if fd.Body == nil {
				continue
			}
			var lists [][]ast.Stmt
			ast.Inspect(fd.Body, func(m ast.Node) bool {
				switch x := m.(type) {
				case *ast.BlockStmt:
					lists = append(lists, x.List)
				case *ast.CaseClause:
					lists = append(lists, x.Body)
				}
				return true
			})
			for _, list := range lists {
				for i, st := range list {
					if _, isClause := st.(*ast.CaseClause); isClause {
						continue // its body is a list of its own
					}
					var lit *ast.CompositeLit
					ast.Inspect(st, func(m ast.Node) bool {
						if _, isBlock := m.(*ast.BlockStmt); isBlock {
							return false // nested lists are visited on their own
						}
						if cl, ok := m.(*ast.CompositeLit); ok && lit == nil {
							if t := info.TypeOf(cl); t != nil && strings.HasSuffix(t.String(), "ast.ValueSpec") {
								lit = cl
							}
						}
						return true
					})
					if lit == nil {
						continue
					}
					var names ast.Expr
					for _, el := range lit.Elts {
						if kv, ok := el.(*ast.KeyValueExpr); ok {
							if k, ok := kv.Key.(*ast.Ident); ok && k.Name == "Names" {
								names = kv.Value
							}
						}
					}
					if names == nil {
						continue
					}
					n++
					good, why := false, ""
					switch x := ast.Unparen(names).(type) {
					case *ast.CallExpr:
						good = true // an identifier-list parser: at least one identifier, or an error placeholder
					case *ast.CompositeLit:
						good = len(x.Elts) > 0
						why = "an empty literal"
					case *ast.Ident:
						// how is it built?
						obj := info.ObjectOf(x)
						fromCall, fromEmpty := false, false
						ast.Inspect(fd.Body, func(m ast.Node) bool {
							as, ok := m.(*ast.AssignStmt)
							if ok && len(as.Lhs) >= 1 && len(as.Rhs) >= 1 {
								if id, ok := as.Lhs[0].(*ast.Ident); ok && info.ObjectOf(id) == obj {
									if call, ok := as.Rhs[0].(*ast.CallExpr); ok {
										if fid, ok := call.Fun.(*ast.Ident); ok && fid.Name == "make" {
											fromEmpty = true
										} else if fid, ok := call.Fun.(*ast.Ident); ok && fid.Name == "append" {
											// conditional appends do not make it non-empty
										} else {
											fromCall = true
										}
									}
								}
							}
							if vs, ok := m.(*ast.ValueSpec); ok {
								for j, nm := range vs.Names {
									if info.ObjectOf(nm) == obj && j < len(vs.Values) {
										if call, ok := vs.Values[j].(*ast.CallExpr); ok {
											if fid, ok := call.Fun.(*ast.Ident); ok && fid.Name == "make" {
												fromEmpty = true
											} else {
												fromCall = true
											}
										}
									}
								}
							}
							return true
						})
						switch {
						case fromEmpty:
							// an emptiness test with a return must precede the literal in this list
							for _, prev := range list[:i] {
								if ifs, ok := prev.(*ast.IfStmt); ok {
									cond := strings.ReplaceAll(types.ExprString(ifs.Cond), " ", "")
									if cond == "len("+x.Name+")==0" || cond == "len("+x.Name+")<1" {
										for _, b := range ifs.Body.List {
											if _, ok := b.(*ast.ReturnStmt); ok {
												good = true
											}
										}
									}
								}
							}
							why = "`" + x.Name + "` starts empty and is filled by conditional appends, and no `if len(" + x.Name + ") == 0 { return … }` precedes the literal"
						case fromCall:
							good = true
						default:
							good = true // a parameter: the callers' business
						}
					default:
						why = "an expression the rule does not read"
					}
					c.Check(good, rule, short(pk.PkgPath)+" "+name+": ValueSpec.Names = "+types.ExprString(names), p.Pos(lit.Pos()), "cannot be empty",
						"the ValueSpec is built with Names from "+why+": for input such as `if a == b: {` the list is empty, and ValueSpec.Pos / End (Names[0], Names[len-1]) panic with an index out of range in the parser, the formatter, the loader and the language server")
				}
			}
		}
	}
	c.Min(rule, "ValueSpec literals in the parsers", n, 4)
}

// C08 rule receiver-name-guarded (added after probing: `func (T) M() {}` — a method whose receiver has no name — made
// both printers index Recv.List[0].Names[0] of an empty list; FormatCode panicked). In the printers every read of
// `….Names[0]` of a receiver field list sits in a condition (or under one) that tests len(….Names).
func c08ReceiverNames(c *Ctx, p *Prog, pks ...*packages.Package) {
	const rule = "receiver-name-guarded"
	n := 0
	for _, pk := range pks {
		if pk == nil {
			continue
		}
		for _, name := range sortedDeclNames(pk) {
			fd := AllFuncDecls(pk)[name]
			if fd.Body == nil {
				continue
			}
			// conditions around every node
			var walk func(nd ast.Node, guards []string)
			walk = func(nd ast.Node, guards []string) {
				ast.Inspect(nd, func(m ast.Node) bool {
					if m == nil || m == nd {
						return true
					}
					switch x := m.(type) {
					case *ast.IfStmt:
						if x.Init != nil {
							walk(x.Init, guards)
						}
						cond := types.ExprString(x.Cond)
						// the condition itself: `len(A) > 0 && A[0]…` guards its right part
						walk(x.Cond, append(guards[:len(guards):len(guards)], cond))
						walk(x.Body, append(guards[:len(guards):len(guards)], cond))
						if x.Else != nil {
							walk(x.Else, guards)
						}
						return false
					case *ast.IndexExpr:
						se, ok := x.X.(*ast.SelectorExpr)
						if !ok || se.Sel.Name != "Names" || !strings.Contains(types.ExprString(se.X), "Recv") {
							return true
						}
						if tv, ok := pk.TypesInfo.Types[x.Index]; !ok || tv.Value == nil {
							return true
						}
						n++
						guarded := false
						for _, g := range guards {
							if strings.Contains(strings.ReplaceAll(g, " ", ""), "len("+strings.ReplaceAll(types.ExprString(se), " ", "")+")") {
								guarded = true
							}
						}
						c.Check(guarded, rule, short(pk.PkgPath)+" "+name+": "+types.ExprString(x), p.Pos(x.Pos()), "under a test of len(….Names)",
							"the receiver's name list is indexed without a test of its length: a method declared with an unnamed receiver (`func (T) M()`) has an empty list, and formatting the file panics with an index out of range")
					}
					return true
				})
			}
			walk(fd.Body, nil)
		}
	}
	c.Min(rule, "reads of a receiver's first name in the printers", n, 2)
}

// C08/C07 rule literal-start-matches-opener (added after probing: `println(“abc")` — a string opened by the full-width
// quote, which the scanner accepts — was cut at `offset - 1`, one *byte* before the body, in the middle of the three
// bytes of the quote: the literal held invalid UTF-8, the program printed an empty line and the formatted file did not
// parse). A scan function that is called from a case clause listing a rune wider than one byte, after that rune has
// been consumed, does not compute the literal's start as `offset - <constant>`.
func c08LiteralStart(c *Ctx, p *Prog, pk *packages.Package) {
	const rule = "literal-start-matches-opener"
	if pk == nil {
		return
	}
	info := pk.TypesInfo
	decls := AllFuncDecls(pk)
	scan := decls["Scanner.Scan"]
	if scan == nil || scan.Body == nil {
		c.Undecided(rule, "anchor:Scanner.Scan", "", "method not found")
		return
	}
	n := 0
	ast.Inspect(scan.Body, func(m ast.Node) bool {
		cc, ok := m.(*ast.CaseClause)
		if !ok {
			return true
		}
		wide := ""
		for _, e := range cc.List {
			if tv, ok := info.Types[e]; ok && tv.Value != nil {
				if lit, ok := e.(*ast.BasicLit); ok && strings.HasPrefix(lit.Value, "'") && len(lit.Value) > 3 && lit.Value[1] != '\\' {
					wide = lit.Value
				}
			}
		}
		if wide == "" {
			return true
		}
		for _, st := range cc.Body {
			ast.Inspect(st, func(q ast.Node) bool {
				call, ok := q.(*ast.CallExpr)
				if !ok {
					return true
				}
				fn := CalleeOf(info, call)
				if fn == nil || fn.Pkg() != pk.Types || !strings.HasPrefix(fn.Name(), "scan") {
					return true
				}
				fd := decls[funcKey(fn)]
				if fd == nil || fd.Body == nil {
					return true
				}
				n++
				bad := ""
				ast.Inspect(fd.Body, func(r ast.Node) bool {
					be, ok := r.(*ast.BinaryExpr)
					if !ok || be.Op.String() != "-" {
						return true
					}
					if se, ok := be.X.(*ast.SelectorExpr); ok && se.Sel.Name == "offset" {
						if tv, ok := info.Types[be.Y]; ok && tv.Value != nil && bad == "" {
							bad = types.ExprString(be)
						}
					}
					return true
				})
				c.Check(bad == "", rule, "Scanner.Scan case "+wide+" -> "+fn.Name(), p.Pos(fd.Pos()), "the start is computed from the opener's width",
					fn.Name()+" computes the literal's start as `"+bad+"` although it is also entered after the "+fmt.Sprint(len(strings.Trim(wide, "'")))+"-byte opener "+wide+": the literal begins in the middle of that rune — invalid UTF-8 in the syntax tree, a wrong value at run time, and formatted output that does not parse")
				return true
			})
		}
		return true
	})
	c.Min(rule, "scan functions entered after a multi-byte opener", n, 2)
}

// C08 rule universe-interfaces-complete (added after probing: `type T interface { any }` asserted in the type checker:
// the predeclared `any` was a bare &Interface{} whose method set had never been computed). Every interface type a
// universe defines (the type argument of a NewTypeName handed to waDef / wzDef) is completed where it is built:
// `….Complete()`, or the package's emptyInterface.
func c08UniverseInterfaces(c *Ctx, p *Prog, tp *packages.Package) {
	const rule = "universe-interfaces-complete"
	if tp == nil {
		return
	}
	info := tp.TypesInfo
	n := 0
	for _, name := range sortedDeclNames(tp) {
		fd := AllFuncDecls(tp)[name]
		if fd.Body == nil {
			continue
		}
		ast.Inspect(fd.Body, func(m ast.Node) bool {
			call, ok := m.(*ast.CallExpr)
			if !ok {
				return true
			}
			id, ok := call.Fun.(*ast.Ident)
			if !ok || (id.Name != "waDef" && id.Name != "wzDef") || len(call.Args) != 1 {
				return true
			}
			nt, ok := call.Args[0].(*ast.CallExpr)
			if !ok || len(nt.Args) != 4 {
				return true
			}
			if fid, ok := nt.Fun.(*ast.Ident); !ok || fid.Name != "NewTypeName" {
				return true
			}
			typ := ast.Unparen(nt.Args[3])
			t := info.TypeOf(typ)
			if t == nil || !strings.HasSuffix(t.String(), "types.Interface") {
				return true
			}
			n++
			txt := types.ExprString(typ)
			good := strings.HasSuffix(txt, ".Complete()") || strings.Contains(txt, "emptyInterface")
			c.Check(good, rule, name+": "+types.ExprString(nt.Args[2])+" = "+txt, p.Pos(typ.Pos()), "completed where it is built",
				"the universe defines "+types.ExprString(nt.Args[2])+" as "+txt+", an interface whose method set has not been computed: embedding it in an interface declaration reaches the type checker's `assert(allMethods != nil)` and the compiler panics on a valid program")
			return true
		})
	}
	c.Min(rule, "interface types defined by the universes", n, 2)
}

// C08 rule constant-kind-assert-guarded (added after probing: `const c: int = 1 << c` and `1 >> "` in a partial tree made
// the type checker assert `yval.Kind() == constant.Int` on a constant whose value is Unknown — the value every constant
// has after an error or a cycle). An `assert(V.Kind() == constant.K)` in the type checker is preceded, in its statement
// list, by a test of V.Kind() against constant.Unknown that leaves.
func c08ConstantKindAsserts(c *Ctx, p *Prog, tp *packages.Package) {
	const rule = "constant-kind-assert-guarded"
	if tp == nil {
		return
	}
	n := 0
	for _, name := range sortedDeclNames(tp) {
		fd := AllFuncDecls(tp)[name]
		if fd.Body == nil {
			continue
		}
		var lists [][]ast.Stmt
		ast.Inspect(fd.Body, func(m ast.Node) bool {
			switch x := m.(type) {
			case *ast.BlockStmt:
				lists = append(lists, x.List)
			case *ast.CaseClause:
				lists = append(lists, x.Body)
			}
			return true
		})
		for _, list := range lists {
			for i, st := range list {
				es, ok := st.(*ast.ExprStmt)
				if !ok {
					continue
				}
				call, ok := es.X.(*ast.CallExpr)
				if !ok || len(call.Args) != 1 {
					continue
				}
				if id, ok := call.Fun.(*ast.Ident); !ok || id.Name != "assert" {
					continue
				}
				be, ok := ast.Unparen(call.Args[0]).(*ast.BinaryExpr)
				if !ok || be.Op.String() != "==" {
					continue
				}
				l := strings.ReplaceAll(types.ExprString(be.X), " ", "")
				r := types.ExprString(be.Y)
				if !strings.HasSuffix(l, ".Kind()") || !strings.HasPrefix(r, "constant.") || r == "constant.Unknown" {
					continue
				}
				v := strings.TrimSuffix(l, ".Kind()")
				n++
				guarded := false
				for _, prev := range list[:i] {
					ifs, ok := prev.(*ast.IfStmt)
					if !ok {
						continue
					}
					cond := strings.ReplaceAll(types.ExprString(ifs.Cond), " ", "")
					if !strings.Contains(cond, v+".Kind()==constant.Unknown") {
						continue
					}
					for _, b := range ifs.Body.List {
						if _, ok := b.(*ast.ReturnStmt); ok {
							guarded = true
						}
					}
				}
				c.Check(guarded, rule, name+": "+types.ExprString(call), p.Pos(call.Pos()), "the Unknown value is handled before the assertion",
					"the type checker asserts "+types.ExprString(call.Args[0])+" without having excluded constant.Unknown: after an error or an initialisation cycle a constant operand carries the Unknown value (`const c: int = 1 << c`), and the compiler panics instead of reporting the error it has already found")
			}
		}
	}
	c.Min(rule, "kind assertions on constant values in the type checker", n, 1)
}
