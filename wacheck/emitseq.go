package main

import (
	"go/ast"
	"go/constant"
	"go/token"
	"go/types"
	"strings"
)

// Emission sequences: the back end builds WAT by appending to an instruction slice. For a straight-line emitter
// (with if guards and loops over a field list) the ordered list of appended things is visible in the source:
// wat.NewInstCall("sym"), wat.NewInstXxx(...), v.push / v.pop, and delegations `recv.Method(args)...`.

type emEvent struct {
	Kind   string // call | ctor | push | pop | deleg | return
	Name   string // runtime symbol, constructor name (without NewInst), delegated method name
	Recv   string // receiver expression of a delegation (locals resolved one step)
	Args   []string
	Guards []string // conditions of the enclosing if statements ("!"-prefixed for else arms)
	Loop   *emLoop  // innermost enclosing loop
	Pos    token.Pos
}

type emLoop struct {
	Over    string // expression ranged over / bounded by
	Dir     string // forward | reverse | unknown : order in which elements of Over are visited
	ElemVar string // name bound to the element
}

type emSeq struct {
	Events []emEvent
}

func (s emSeq) filter(kind string) []emEvent {
	var out []emEvent
	for _, e := range s.Events {
		if e.Kind == kind {
			out = append(out, e)
		}
	}
	return out
}

func (s emSeq) index(kind, name string) int {
	for i, e := range s.Events {
		if e.Kind == kind && (name == "" || e.Name == name) {
			return i
		}
	}
	return -1
}

func (s emSeq) lastIndex(kind, name string) int {
	for i := len(s.Events) - 1; i >= 0; i-- {
		e := s.Events[i]
		if e.Kind == kind && (name == "" || e.Name == name) {
			return i
		}
	}
	return -1
}

func (s emSeq) String() string {
	var parts []string
	for _, e := range s.Events {
		x := e.Kind + ":" + e.Name
		if e.Kind == "deleg" {
			x = e.Recv + "." + e.Name
		}
		if e.Kind == "push" || e.Kind == "pop" || e.Kind == "return" {
			x = e.Kind
		}
		if len(e.Guards) > 0 {
			x += "[if " + strings.Join(e.Guards, " && ") + "]"
		}
		if e.Loop != nil {
			x += "{" + e.Loop.Dir + " over " + e.Loop.Over + "}"
		}
		parts = append(parts, x)
	}
	return strings.Join(parts, " ; ")
}

// emitSequence extracts the emission sequence of a function body.
func emitSequence(info *types.Info, fd *ast.FuncDecl) emSeq {
	var seq emSeq
	if fd == nil || fd.Body == nil {
		return seq
	}
	locals := map[types.Object]ast.Expr{}
	resolve := func(e ast.Expr) string {
		e = ast.Unparen(e)
		if id, ok := e.(*ast.Ident); ok {
			if def, ok := locals[info.ObjectOf(id)]; ok {
				return strings.ReplaceAll(types.ExprString(def), " ", "")
			}
		}
		return strings.ReplaceAll(types.ExprString(e), " ", "")
	}
	var walk func(list []ast.Stmt, guards []string, loop *emLoop)
	addAppended := func(x ast.Expr, guards []string, loop *emLoop) {
		call, ok := ast.Unparen(x).(*ast.CallExpr)
		if !ok {
			// a bare value (e.g. a block instruction built earlier)
			seq.Events = append(seq.Events, emEvent{Kind: "value", Name: resolve(x), Guards: guards, Loop: loop, Pos: x.Pos()})
			return
		}
		fn := types.ExprString(call.Fun)
		var args []string
		for _, a := range call.Args {
			if tv, ok := info.Types[a]; ok && tv.Value != nil {
				if tv.Value.Kind() == constant.String {
					args = append(args, constant.StringVal(tv.Value))
				} else {
					args = append(args, tv.Value.ExactString())
				}
			} else {
				args = append(args, resolve(a))
			}
		}
		ev := emEvent{Args: args, Guards: guards, Loop: loop, Pos: call.Pos()}
		switch {
		case fn == "wat.NewInstCall":
			ev.Kind, ev.Name = "call", ""
			if len(args) > 0 {
				ev.Name = args[0]
			}
		case strings.HasPrefix(fn, "wat.NewInst"):
			ev.Kind, ev.Name = "ctor", strings.TrimPrefix(fn, "wat.NewInst")
		case strings.HasSuffix(fn, ".push"):
			ev.Kind = "push"
		case strings.HasSuffix(fn, ".pop"):
			ev.Kind = "pop"
		default:
			if se, ok := call.Fun.(*ast.SelectorExpr); ok {
				ev.Kind, ev.Name, ev.Recv = "deleg", se.Sel.Name, resolve(se.X)
			} else {
				ev.Kind, ev.Name = "deleg", fn
			}
		}
		seq.Events = append(seq.Events, ev)
	}
	walk = func(list []ast.Stmt, guards []string, loop *emLoop) {
		for _, s := range list {
			switch x := s.(type) {
			case *ast.AssignStmt:
				// local definitions
				if x.Tok == token.DEFINE && len(x.Lhs) == len(x.Rhs) {
					for i, l := range x.Lhs {
						if id, ok := l.(*ast.Ident); ok {
							locals[info.ObjectOf(id)] = x.Rhs[i]
						}
					}
				}
				for _, r := range x.Rhs {
					call, ok := r.(*ast.CallExpr)
					if !ok {
						continue
					}
					if id, ok := call.Fun.(*ast.Ident); ok && id.Name == "append" && len(call.Args) >= 2 {
						for _, a := range call.Args[1:] {
							addAppended(a, guards, loop)
						}
					}
				}
			case *ast.IfStmt:
				cond := strings.ReplaceAll(expandPredicates(info, x.Cond), " ", "")
				if x.Init != nil {
					walk([]ast.Stmt{x.Init}, guards, loop)
					if as, ok := x.Init.(*ast.AssignStmt); ok {
						var l, r []string
						for _, e := range as.Lhs {
							l = append(l, types.ExprString(e))
						}
						for _, e := range as.Rhs {
							r = append(r, strings.ReplaceAll(types.ExprString(e), " ", ""))
						}
						cond = strings.Join(l, ",") + as.Tok.String() + strings.Join(r, ",") + ";" + cond
					}
				}
				g := append(append([]string{}, guards...), cond)
				walk(x.Body.List, g, loop)
				if x.Else != nil {
					ng := append(append([]string{}, guards...), "!("+cond+")")
					switch el := x.Else.(type) {
					case *ast.BlockStmt:
						walk(el.List, ng, loop)
					case *ast.IfStmt:
						walk([]ast.Stmt{el}, ng, loop)
					}
				}
			case *ast.RangeStmt:
				l := &emLoop{Over: resolve(x.X), Dir: "forward"}
				if id, ok := x.Value.(*ast.Ident); ok {
					l.ElemVar = id.Name
				} else {
					// `for i := range xs { m := xs[len(xs)-i-1] }`: direction decided by the element definition
					l.Dir = "unknown"
					if kid, ok := x.Key.(*ast.Ident); ok {
						for _, bs := range x.Body.List {
							as, ok := bs.(*ast.AssignStmt)
							if !ok || as.Tok != token.DEFINE || len(as.Lhs) != 1 || len(as.Rhs) != 1 {
								continue
							}
							ix, ok := as.Rhs[0].(*ast.IndexExpr)
							if !ok || resolve(ix.X) != l.Over {
								continue
							}
							isLen := func(e ast.Expr) bool {
								c, ok := ast.Unparen(e).(*ast.CallExpr)
								return ok && types.ExprString(c.Fun) == "len" && len(c.Args) == 1 && resolve(c.Args[0]) == l.Over
							}
							f := linOf(info, ix.Index, isLen, info.ObjectOf(kid))
							switch {
							case f.eq(lin{i: 1, ok: true}):
								l.Dir = "forward"
							case f.eq(lin{n: 1, i: -1, c: -1, ok: true}):
								l.Dir = "reverse"
							}
							if id, ok := as.Lhs[0].(*ast.Ident); ok {
								l.ElemVar = id.Name
							}
						}
					}
				}
				walk(x.Body.List, guards, l)
			case *ast.ForStmt:
				l := &emLoop{Over: "for", Dir: "unknown"}
				if x.Cond != nil {
					l.Over = resolve(x.Cond)
				}
				walk(x.Body.List, guards, l)
			case *ast.BlockStmt:
				walk(x.List, guards, loop)
			case *ast.ReturnStmt:
				ev := emEvent{Kind: "return", Guards: guards, Loop: loop, Pos: x.Pos()}
				seq.Events = append(seq.Events, ev)
				for _, r := range x.Results {
					if call, ok := r.(*ast.CallExpr); ok {
						if se, ok := call.Fun.(*ast.SelectorExpr); ok {
							seq.Events = append(seq.Events, emEvent{Kind: "deleg", Name: se.Sel.Name, Recv: resolve(se.X), Guards: guards, Loop: loop, Pos: call.Pos()})
						}
					}
				}
			case *ast.TypeSwitchStmt:
				for _, cc := range x.Body.List {
					c := cc.(*ast.CaseClause)
					var lbl []string
					for _, e := range c.List {
						lbl = append(lbl, resolve(e))
					}
					g := append(append([]string{}, guards...), "type "+strings.Join(lbl, ","))
					walk(c.Body, g, loop)
				}
			case *ast.SwitchStmt:
				for _, cc := range x.Body.List {
					c := cc.(*ast.CaseClause)
					var lbl []string
					for _, e := range c.List {
						lbl = append(lbl, resolve(e))
					}
					g := append(append([]string{}, guards...), "case "+strings.Join(lbl, ","))
					walk(c.Body, g, loop)
				}
			}
		}
	}
	walk(fd.Body.List, nil, nil)
	// a trailing unconditional `return` carries no information
	for len(seq.Events) > 0 {
		last := seq.Events[len(seq.Events)-1]
		if last.Kind == "return" && len(last.Guards) == 0 && last.Loop == nil {
			seq.Events = seq.Events[:len(seq.Events)-1]
			continue
		}
		break
	}
	return seq
}
