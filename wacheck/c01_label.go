package main

import (
	"fmt"
	"go/ast"
	"go/constant"
	"go/token"
	"go/types"
	"strings"

	"golang.org/x/tools/go/packages"
)

// C01 labelled-jump-targets (added after a seeded change was missed): the SSA builder records the targets of break
// and continue twice for a labelled statement — in the label (`label._break`, `label._continue`: where `break L` and
// `continue L` go) and in the function's target stack (`targets{_break: …, _continue: …}`: where the unlabelled forms
// go). Both name the same loop, so both must be the same blocks: the same variable, read when it has its final value.
// A label wired before the post block exists sends `continue L` to the loop head, skipping the post statement.

func c01LabelTargets(c *Ctx, p *Prog, ssap *packages.Package) {
	const rule = "labelled-jump-targets"
	info := ssap.TypesInfo
	n := 0
	for _, f := range ssap.Syntax {
		for _, d := range f.Decls {
			fd, ok := d.(*ast.FuncDecl)
			if !ok || fd.Body == nil || fd.Type.Params == nil {
				continue
			}
			// a parameter of type *lblock
			var label types.Object
			for _, fl := range fd.Type.Params.List {
				if strings.HasSuffix(types.ExprString(fl.Type), "lblock") {
					for _, nm := range fl.Names {
						label = info.Defs[nm]
					}
				}
			}
			if label == nil {
				continue
			}
			fname := declName(fd)
			type wire struct {
				obj types.Object
				pos token.Pos
				txt string
			}
			labelSet := map[string]wire{}    // _break/_continue -> variable
			targetSet := map[string][]wire{} // from targets{…} literals
			lastAssign := map[types.Object]token.Pos{}
			ast.Inspect(fd.Body, func(nd ast.Node) bool {
				switch x := nd.(type) {
				case *ast.AssignStmt:
					for i, l := range x.Lhs {
						if se, ok := l.(*ast.SelectorExpr); ok && identObj(info, se.X) == label && i < len(x.Rhs) {
							labelSet[se.Sel.Name] = wire{identObj(info, x.Rhs[i]), x.Pos(), types.ExprString(x.Rhs[i])}
						}
						if o := identObj(info, l); o != nil {
							if x.Pos() > lastAssign[o] {
								lastAssign[o] = x.Pos()
							}
						}
					}
				case *ast.CompositeLit:
					if strings.HasSuffix(types.ExprString(x.Type), "targets") {
						for _, el := range x.Elts {
							if kv, ok := el.(*ast.KeyValueExpr); ok {
								k := types.ExprString(kv.Key)
								if k == "_break" || k == "_continue" {
									targetSet[k] = append(targetSet[k], wire{identObj(info, kv.Value), kv.Pos(), types.ExprString(kv.Value)})
								}
							}
						}
					}
				}
				return true
			})
			for _, k := range []string{"_break", "_continue"} {
				lw, has := labelSet[k]
				tws := targetSet[k]
				if !has && len(tws) == 0 {
					continue
				}
				n++
				construct := fmt.Sprintf("%s: label.%s", fname, k)
				loc := p.Pos(fd.Pos())
				var probs []string
				if !has {
					probs = append(probs, fmt.Sprintf("the target stack records a %s target (%s) but the label does not: `%s L` has nowhere to go", k[1:], tws[0].txt, k[1:]))
				}
				for _, tw := range tws {
					if has && (lw.obj == nil || lw.obj != tw.obj) {
						probs = append(probs, fmt.Sprintf("the label's %s target is %s but the unlabelled %s goes to %s: `%s L` and `%s` in the same loop jump to different blocks", k[1:], lw.txt, k[1:], tw.txt, k[1:], k[1:]))
					}
				}
				if has && lw.obj != nil && lastAssign[lw.obj] > lw.pos {
					probs = append(probs, fmt.Sprintf("the label is wired to %s at %s, before %s gets its final value at %s: `%s L` jumps to the earlier block (for a three-clause for loop the post statement is skipped and the iteration repeats)", lw.txt, p.Pos(lw.pos), lw.txt, p.Pos(lastAssign[lw.obj]), k[1:]))
				}
				if has {
					loc = p.Pos(lw.pos)
				}
				c.Check(len(probs) == 0, rule, construct, loc, "same block as the unlabelled form, read after its last assignment", fname+": "+strings.Join(probs, "; "))
			}
		}
	}
	c.Min(rule, "label target wirings in the SSA builder", n, 6)
}

// dotSuffixLiterals: the string literals of the form ".op" in stmts (the operation part of `typ.Name() + ".op"`).
func dotSuffixLiterals(info *types.Info, stmts []ast.Stmt) []string {
	var out []string
	for _, s := range stmts {
		ast.Inspect(s, func(n ast.Node) bool {
			if bl, ok := n.(*ast.BasicLit); ok {
				if tv, ok := info.Types[bl]; ok && tv.Value != nil && tv.Value.Kind() == constant.String {
					v := constant.StringVal(tv.Value)
					if len(v) > 1 && v[0] == '.' && strings.IndexFunc(v[1:], func(r rune) bool { return !(r == '_' || r >= 'a' && r <= 'z' || r >= '0' && r <= '9') }) < 0 {
						out = append(out, v)
					}
				}
			}
			return true
		})
	}
	return out
}

// littleEndianPacking checks the statements `b[K] = byte(<v> & 0xFF)` / `b[K] = byte((<v> >> S) & 0xFF)` of one arm of
// aBasic.Bin: every index below size is written exactly once, with S == 8*K and the mask 0xFF.
func littleEndianPacking(info *types.Info, stmts []ast.Stmt, size int64) []string {
	var probs []string
	seen := map[int64]int{}
	for _, s := range stmts {
		as, ok := s.(*ast.AssignStmt)
		if !ok || len(as.Lhs) != 1 || len(as.Rhs) != 1 {
			continue
		}
		ix, ok := as.Lhs[0].(*ast.IndexExpr)
		if !ok {
			continue
		}
		k, ok := constIntOf(info, ix.Index)
		if !ok {
			continue
		}
		conv, ok := ast.Unparen(as.Rhs[0]).(*ast.CallExpr)
		if !ok || types.ExprString(conv.Fun) != "byte" || len(conv.Args) != 1 {
			continue
		}
		seen[k]++
		txt := types.ExprString(as.Lhs[0]) + " = " + types.ExprString(as.Rhs[0])
		// byte(v) truncates by itself; an explicit mask must be 0xFF
		inner := ast.Unparen(conv.Args[0])
		if and, ok := inner.(*ast.BinaryExpr); ok && (and.Op == token.AND || and.Op == token.OR || and.Op == token.XOR) {
			if and.Op != token.AND {
				probs = append(probs, "`"+txt+"` combines the value with "+and.Op.String()+" instead of masking it")
				continue
			}
			if m, ok := constIntOf(info, and.Y); !ok || m != 0xFF {
				probs = append(probs, "`"+txt+"` masks with "+types.ExprString(and.Y))
			}
			inner = ast.Unparen(and.X)
		}
		shift := int64(0)
		if sh, ok := inner.(*ast.BinaryExpr); ok {
			if sh.Op != token.SHR {
				probs = append(probs, "`"+txt+"` does not shift right")
				continue
			}
			shift, _ = constIntOf(info, sh.Y)
		}
		if shift != 8*k {
			probs = append(probs, fmt.Sprintf("`%s` takes the bits from %d up for byte %d (want %d)", txt, shift, k, 8*k))
		}
	}
	for k := int64(0); k < size; k++ {
		if seen[k] != 1 {
			probs = append(probs, fmt.Sprintf("byte %d is written %d times", k, seen[k]))
		}
	}
	for k := range seen {
		if k >= size {
			probs = append(probs, fmt.Sprintf("byte %d is beyond the %d bytes of the value", k, size))
		}
	}
	return probs
}
