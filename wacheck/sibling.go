package main

import (
	"fmt"
	"go/ast"
	"sort"
	"strings"
)

// Generic sibling agreement between two Go packages that are copies of one another (or of a common origin):
// instances are the functions whose canonical syntax trees were equal when the rule was armed ("func A~B name"),
// and, inside functions that differ, the switch arms ("arm A~B name :: case-list") and the top-level statements
// ("stmt A~B name #hash") that were equal. See DESIGN.md section 7 (reference-agreement rules) for what these rules
// do and do not say.

type sibSide struct {
	Tag   string // short tag used in instance ids
	Name  string // human-readable package name
	Funcs map[string]*ast.FuncDecl
	Pos   func(fd *ast.FuncDecl) string
}

// goTopStmtHashes: canonical top-level statements of a Go function body, keyed by hash (see stmtHash).
func goTopStmtHashes(fd *ast.FuncDecl) map[string]string {
	out := map[string]string{}
	pre := map[string]string{}
	if fd.Recv != nil && len(fd.Recv.List) == 1 && len(fd.Recv.List[0].Names) == 1 {
		pre[fd.Recv.List[0].Names[0].Name] = "$recv"
	}
	for _, s := range fd.Body.List {
		cs := canonAST(s, canonOptsFor(pre, s))
		if h, ok := stmtHash(cs); ok {
			out[h] = cs
		}
	}
	return out
}

func parseFrozen(text string) map[string]bool {
	want := map[string]bool{}
	for _, l := range strings.Split(text, "\n") {
		l = strings.TrimSpace(l)
		if l != "" && !strings.HasPrefix(l, "#") {
			want[l] = true
		}
	}
	return want
}

// siblingAgreement checks (or, with dump, prints) the instances between a and b. seen collects the ids that resolved.
func siblingAgreement(c *Ctx, rule string, a, b sibSide, want, seen map[string]bool, dump bool, consequence string) int {
	n := 0
	pair := a.Tag + "~" + b.Tag
	var keys []string
	for k := range a.Funcs {
		if _, ok := b.Funcs[k]; ok {
			keys = append(keys, k)
		}
	}
	sort.Strings(keys)
	for _, k := range keys {
		fa, fb := a.Funcs[k], b.Funcs[k]
		id := fmt.Sprintf("func %s %s", pair, k)
		ca, cb := funcCanon(fa), funcCanon(fb)
		eq := ca == cb
		if dump {
			if eq {
				fmt.Println(id)
			}
		} else if want[id] {
			seen[id] = true
			n++
			c.Check(eq, rule, fmt.Sprintf("%s: %s vs %s", k, a.Name, b.Name), a.Pos(fa), "same function on both sides",
				fmt.Sprintf("%s was the same function in %s and %s and no longer is (first difference: %s): %s", k, a.Name, b.Name, firstDiff(ca, cb), consequence))
		}
		if eq {
			// instances below the function level are only kept for functions that differ
			if !dump {
				for w := range want {
					if strings.HasPrefix(w, "arm "+pair+" "+k+" :: ") || strings.HasPrefix(w, "stmt "+pair+" "+k+" #") {
						seen[w] = true
					}
				}
			}
			continue
		}
		aa, bb := switchArms(fa), switchArms(fb)
		var labs []string
		for lab := range aa {
			if _, ok := bb[lab]; ok {
				labs = append(labs, lab)
			}
		}
		sort.Strings(labs)
		for _, lab := range labs {
			aid := fmt.Sprintf("arm %s %s :: %s", pair, k, lab)
			armEq := aa[lab] == bb[lab]
			if dump {
				if armEq && len(aa[lab]) >= 60 {
					fmt.Println(aid)
				}
				continue
			}
			if !want[aid] {
				continue
			}
			seen[aid] = true
			n++
			short := lab
			if len(short) > 70 {
				short = short[:70] + "…"
			}
			c.Check(armEq, rule, fmt.Sprintf("%s, case %s: %s vs %s", k, short, a.Name, b.Name), a.Pos(fa), "same switch arm on both sides",
				fmt.Sprintf("in %s the arm `case %s` was the same in %s and %s and no longer is (first difference: %s): %s", k, short, a.Name, b.Name, firstDiff(aa[lab], bb[lab]), consequence))
		}
		sa, sb := goTopStmtHashes(fa), goTopStmtHashes(fb)
		if dump {
			var hs []string
			for h := range sa {
				if _, ok := sb[h]; ok {
					hs = append(hs, h)
				}
			}
			sort.Strings(hs)
			for _, h := range hs {
				fmt.Printf("stmt %s %s #%s\n", pair, k, h)
			}
			continue
		}
		pfx := "stmt " + pair + " " + k + " #"
		for w := range want {
			if !strings.HasPrefix(w, pfx) {
				continue
			}
			h := strings.TrimPrefix(w, pfx)
			seen[w] = true
			n++
			_, inA := sa[h]
			_, inB := sb[h]
			c.Check(inA && inB, rule, fmt.Sprintf("%s #%s: %s vs %s", k, h, a.Name, b.Name), a.Pos(fa), "a statement shared by both sides",
				fmt.Sprintf("%s shared a top-level statement (canonical hash %s) between %s and %s and no longer does (still in %s: %v, still in %s: %v): %s", k, h, a.Name, b.Name, a.Name, inA, b.Name, inB, consequence))
		}
	}
	return n
}

func reportMissingInstances(c *Ctx, rule string, want, seen map[string]bool) {
	var missing []string
	for k := range want {
		if !seen[k] {
			missing = append(missing, k)
		}
	}
	sort.Strings(missing)
	for _, k := range missing {
		c.Undecided(rule, k, "", "the frozen instance no longer resolves on both sides (function, arm or statement renamed, removed or relabelled): it is not being compared any more")
	}
}
