package main

import (
	"go/ast"
	"go/token"
	"go/types"

	"golang.org/x/tools/go/packages"
)

// inline.go — expansion of calls to small helpers of the same package, on the syntax tree, before a rule reads a
// function body. Extracting a few statements into a helper (`p.branchIf(cond, pc, arg)`, `r.readByte()`,
// `fitsIntN(x, 8)`) does not change what the code does; rules that read switch arms or statement sequences must not
// depend on where the statements were written. InlinedBody returns a copy of a function body in which
//
//   - a call that is a whole expression statement is replaced by the helper's statements;
//   - `x, y := h(..)` / `x = h(..)` (also as the init of an if) is replaced by the helper's statements followed by the
//     assignment of the expressions the helper returns — when the helper returns only at its end;
//   - `return h(..)` is replaced by the helper's body (any number of returns: they return from the caller alike);
//   - a call to a helper whose body is a single `return E` is replaced by E wherever it occurs (predicates);
//
// parameters are replaced by the argument expressions (which keep their type information), the receiver by the
// receiver expression of the call; copied nodes get the type information of the nodes they were copied from, so rules
// that ask go/types about sub-expressions keep working. Helpers with defer, go, labels, closures or recover, variadic
// calls, and arguments with calls in them that the helper uses more than once are left alone. Depth is bounded.

type inliner struct {
	pk    *packages.Package
	info  *types.Info
	decls map[*types.Func]*ast.FuncDecl
	tail  bool // resolving the callee of `return h(..)`
}

func newInliner(pk *packages.Package) *inliner {
	in := &inliner{pk: pk, info: pk.TypesInfo, decls: map[*types.Func]*ast.FuncDecl{}}
	for _, f := range pk.Syntax {
		for _, d := range f.Decls {
			if fd, ok := d.(*ast.FuncDecl); ok && fd.Body != nil {
				if fo, ok := pk.TypesInfo.Defs[fd.Name].(*types.Func); ok {
					in.decls[fo] = fd
				}
			}
		}
	}
	return in
}

// InlinedBody returns fd's body with helper calls expanded (fd itself is not modified).
func InlinedBody(pk *packages.Package, fd *ast.FuncDecl) *ast.BlockStmt {
	if fd == nil || fd.Body == nil {
		return nil
	}
	in := newInliner(pk)
	self, _ := pk.TypesInfo.Defs[fd.Name].(*types.Func)
	return &ast.BlockStmt{Lbrace: fd.Body.Lbrace, Rbrace: fd.Body.Rbrace, List: in.stmts(fd.Body.List, map[*types.Func]bool{self: true}, 0)}
}

// InlinedStmts expands helper calls in a statement list (a switch arm).
func InlinedStmts(pk *packages.Package, list []ast.Stmt) []ast.Stmt {
	return newInliner(pk).stmts(list, map[*types.Func]bool{}, 0)
}

const inlineMaxDepth = 3
const inlineMaxStmts = 40
const inlineMaxTailStmts = 800 // `return h(..)`: a whole group of switch arms moved into its own method

func (in *inliner) maxStmts() int {
	if in.tail {
		return inlineMaxTailStmts
	}
	return inlineMaxStmts
}

// helper resolves a call to an inlinable helper of the package.
func (in *inliner) helper(call *ast.CallExpr, busy map[*types.Func]bool) (*types.Func, *ast.FuncDecl) {
	if call.Ellipsis.IsValid() {
		return nil, nil
	}
	fn := CalleeOf(in.info, call)
	if fn == nil || busy[fn] {
		return nil, nil
	}
	fd := in.decls[fn]
	if fd == nil || countStmts(fd.Body) > in.maxStmts() {
		return nil, nil
	}
	sig := fn.Type().(*types.Signature)
	if sig.Variadic() || sig.Params().Len() != len(call.Args) {
		return nil, nil
	}
	// every parameter is named (or blank), the receiver is named if it is used
	for _, fl := range fd.Type.Params.List {
		if len(fl.Names) == 0 {
			return nil, nil
		}
	}
	bad := false
	ast.Inspect(fd.Body, func(n ast.Node) bool {
		switch x := n.(type) {
		case *ast.DeferStmt, *ast.GoStmt, *ast.LabeledStmt, *ast.FuncLit, *ast.SelectStmt:
			bad = true
		case *ast.BranchStmt:
			if x.Tok == token.GOTO || x.Label != nil {
				bad = true
			}
		case *ast.CallExpr:
			if id, ok := x.Fun.(*ast.Ident); ok && id.Name == "recover" {
				bad = true
			}
		}
		return !bad
	})
	if bad {
		return nil, nil
	}
	return fn, fd
}

func countStmts(b *ast.BlockStmt) int {
	n := 0
	ast.Inspect(b, func(x ast.Node) bool {
		if _, ok := x.(ast.Stmt); ok {
			n++
		}
		return true
	})
	return n
}

// returnsOnlyAtEnd: the only return statement of the body is its last statement (or there is none).
func returnsOnlyAtEnd(b *ast.BlockStmt) (*ast.ReturnStmt, bool) {
	var last *ast.ReturnStmt
	if n := len(b.List); n > 0 {
		last, _ = b.List[n-1].(*ast.ReturnStmt)
	}
	ok := true
	ast.Inspect(b, func(x ast.Node) bool {
		if r, isRet := x.(*ast.ReturnStmt); isRet && r != last {
			ok = false
		}
		return ok
	})
	return last, ok
}

// subst builds the substitution for one call: parameter and receiver objects -> argument expressions.
func (in *inliner) subst(call *ast.CallExpr, fd *ast.FuncDecl) (map[types.Object]ast.Expr, bool) {
	m := map[types.Object]ast.Expr{}
	i := 0
	for _, fl := range fd.Type.Params.List {
		for _, nm := range fl.Names {
			if o := in.info.Defs[nm]; o != nil {
				m[o] = call.Args[i]
			}
			i++
		}
	}
	if fd.Recv != nil && len(fd.Recv.List) == 1 && len(fd.Recv.List[0].Names) == 1 {
		se, ok := ast.Unparen(call.Fun).(*ast.SelectorExpr)
		if !ok {
			return nil, false
		}
		if o := in.info.Defs[fd.Recv.List[0].Names[0]]; o != nil {
			m[o] = se.X
		}
	}
	// an argument that contains a call is evaluated once by Go; substituting it textually into several uses, or into
	// none, would change what is evaluated — refuse
	uses := map[types.Object]int{}
	assigned := map[types.Object]bool{}
	ast.Inspect(fd.Body, func(n ast.Node) bool {
		switch x := n.(type) {
		case *ast.Ident:
			if o := in.info.Uses[x]; o != nil {
				if _, isParam := m[o]; isParam {
					uses[o]++
				}
			}
		case *ast.AssignStmt:
			for _, l := range x.Lhs {
				if id, ok := l.(*ast.Ident); ok {
					if o := in.info.Uses[id]; o != nil {
						assigned[o] = true
					}
				}
			}
		case *ast.IncDecStmt:
			if id, ok := x.X.(*ast.Ident); ok {
				if o := in.info.Uses[id]; o != nil {
					assigned[o] = true
				}
			}
		case *ast.UnaryExpr:
			if x.Op == token.AND {
				if id, ok := x.X.(*ast.Ident); ok {
					if o := in.info.Uses[id]; o != nil {
						assigned[o] = true
					}
				}
			}
		}
		return true
	})
	for o, a := range m {
		if assigned[o] {
			return nil, false // the helper writes its parameter
		}
		hasCall := false
		ast.Inspect(a, func(n ast.Node) bool {
			if c, ok := n.(*ast.CallExpr); ok {
				if tv, isConv := in.info.Types[c.Fun]; !(isConv && tv.IsType()) {
					if id, isBuiltin := c.Fun.(*ast.Ident); !(isBuiltin && (id.Name == "len" || id.Name == "cap")) {
						hasCall = true
					}
				}
			}
			return !hasCall
		})
		if hasCall && uses[o] != 1 {
			return nil, false
		}
	}
	return m, true
}

// ---- copying with substitution

func (in *inliner) copyExpr(e ast.Expr, m map[types.Object]ast.Expr) ast.Expr {
	if e == nil {
		return nil
	}
	var out ast.Expr
	switch x := e.(type) {
	case *ast.Ident:
		if o := in.info.Uses[x]; o != nil {
			if a, ok := m[o]; ok {
				return a
			}
		}
		return x
	case *ast.BasicLit:
		return x
	case *ast.ParenExpr:
		out = &ast.ParenExpr{Lparen: x.Lparen, X: in.copyExpr(x.X, m), Rparen: x.Rparen}
	case *ast.BinaryExpr:
		out = &ast.BinaryExpr{X: in.copyExpr(x.X, m), OpPos: x.OpPos, Op: x.Op, Y: in.copyExpr(x.Y, m)}
	case *ast.UnaryExpr:
		out = &ast.UnaryExpr{OpPos: x.OpPos, Op: x.Op, X: in.copyExpr(x.X, m)}
	case *ast.StarExpr:
		out = &ast.StarExpr{Star: x.Star, X: in.copyExpr(x.X, m)}
	case *ast.SelectorExpr:
		n := &ast.SelectorExpr{X: in.copyExpr(x.X, m), Sel: x.Sel}
		if s, ok := in.info.Selections[x]; ok {
			in.info.Selections[n] = s
		}
		out = n
	case *ast.IndexExpr:
		out = &ast.IndexExpr{X: in.copyExpr(x.X, m), Lbrack: x.Lbrack, Index: in.copyExpr(x.Index, m), Rbrack: x.Rbrack}
	case *ast.SliceExpr:
		out = &ast.SliceExpr{X: in.copyExpr(x.X, m), Lbrack: x.Lbrack, Low: in.copyExpr(x.Low, m), High: in.copyExpr(x.High, m), Max: in.copyExpr(x.Max, m), Slice3: x.Slice3, Rbrack: x.Rbrack}
	case *ast.TypeAssertExpr:
		out = &ast.TypeAssertExpr{X: in.copyExpr(x.X, m), Lparen: x.Lparen, Type: x.Type, Rparen: x.Rparen}
	case *ast.CallExpr:
		n := &ast.CallExpr{Fun: in.copyExpr(x.Fun, m), Lparen: x.Lparen, Ellipsis: x.Ellipsis, Rparen: x.Rparen}
		for _, a := range x.Args {
			n.Args = append(n.Args, in.copyExpr(a, m))
		}
		out = n
	case *ast.KeyValueExpr:
		out = &ast.KeyValueExpr{Key: x.Key, Colon: x.Colon, Value: in.copyExpr(x.Value, m)}
	case *ast.CompositeLit:
		n := &ast.CompositeLit{Type: x.Type, Lbrace: x.Lbrace, Rbrace: x.Rbrace, Incomplete: x.Incomplete}
		for _, el := range x.Elts {
			n.Elts = append(n.Elts, in.copyExpr(el, m))
		}
		out = n
	default:
		return e // types, function literals (helpers with closures are not inlined), ...
	}
	if tv, ok := in.info.Types[e]; ok {
		in.info.Types[out] = tv
	}
	return out
}

func (in *inliner) copyStmts(list []ast.Stmt, m map[types.Object]ast.Expr) []ast.Stmt {
	var out []ast.Stmt
	for _, s := range list {
		out = append(out, in.copyStmt(s, m))
	}
	return out
}

func (in *inliner) copyBlock(b *ast.BlockStmt, m map[types.Object]ast.Expr) *ast.BlockStmt {
	if b == nil {
		return nil
	}
	return &ast.BlockStmt{Lbrace: b.Lbrace, List: in.copyStmts(b.List, m), Rbrace: b.Rbrace}
}

func (in *inliner) copyStmt(s ast.Stmt, m map[types.Object]ast.Expr) ast.Stmt {
	switch x := s.(type) {
	case nil:
		return nil
	case *ast.ExprStmt:
		return &ast.ExprStmt{X: in.copyExpr(x.X, m)}
	case *ast.AssignStmt:
		n := &ast.AssignStmt{TokPos: x.TokPos, Tok: x.Tok}
		for _, l := range x.Lhs {
			n.Lhs = append(n.Lhs, in.copyExpr(l, m))
		}
		for _, r := range x.Rhs {
			n.Rhs = append(n.Rhs, in.copyExpr(r, m))
		}
		return n
	case *ast.IncDecStmt:
		return &ast.IncDecStmt{X: in.copyExpr(x.X, m), TokPos: x.TokPos, Tok: x.Tok}
	case *ast.ReturnStmt:
		n := &ast.ReturnStmt{Return: x.Return}
		for _, r := range x.Results {
			n.Results = append(n.Results, in.copyExpr(r, m))
		}
		return n
	case *ast.BlockStmt:
		return in.copyBlock(x, m)
	case *ast.IfStmt:
		return &ast.IfStmt{If: x.If, Init: in.copyStmt(x.Init, m), Cond: in.copyExpr(x.Cond, m), Body: in.copyBlock(x.Body, m), Else: in.copyStmt(x.Else, m)}
	case *ast.ForStmt:
		return &ast.ForStmt{For: x.For, Init: in.copyStmt(x.Init, m), Cond: in.copyExpr(x.Cond, m), Post: in.copyStmt(x.Post, m), Body: in.copyBlock(x.Body, m)}
	case *ast.RangeStmt:
		return &ast.RangeStmt{For: x.For, Key: x.Key, Value: x.Value, TokPos: x.TokPos, Tok: x.Tok, Range: x.Range, X: in.copyExpr(x.X, m), Body: in.copyBlock(x.Body, m)}
	case *ast.SwitchStmt:
		return &ast.SwitchStmt{Switch: x.Switch, Init: in.copyStmt(x.Init, m), Tag: in.copyExpr(x.Tag, m), Body: in.copyBlock(x.Body, m)}
	case *ast.TypeSwitchStmt:
		return &ast.TypeSwitchStmt{Switch: x.Switch, Init: in.copyStmt(x.Init, m), Assign: in.copyStmt(x.Assign, m), Body: in.copyBlock(x.Body, m)}
	case *ast.CaseClause:
		n := &ast.CaseClause{Case: x.Case, Colon: x.Colon, Body: in.copyStmts(x.Body, m)}
		for _, e := range x.List {
			n.List = append(n.List, in.copyExpr(e, m))
		}
		if o, ok := in.info.Implicits[x]; ok {
			in.info.Implicits[n] = o
		}
		return n
	case *ast.DeclStmt:
		if gd, ok := x.Decl.(*ast.GenDecl); ok && gd.Tok == token.VAR {
			ng := &ast.GenDecl{TokPos: gd.TokPos, Tok: gd.Tok, Lparen: gd.Lparen, Rparen: gd.Rparen}
			for _, sp := range gd.Specs {
				vs := sp.(*ast.ValueSpec)
				nv := &ast.ValueSpec{Names: vs.Names, Type: vs.Type}
				for _, v := range vs.Values {
					nv.Values = append(nv.Values, in.copyExpr(v, m))
				}
				ng.Specs = append(ng.Specs, nv)
			}
			return &ast.DeclStmt{Decl: ng}
		}
		return x
	}
	return s
}

// ---- expansion

// exprInline replaces calls to single-return helpers inside e.
func (in *inliner) exprInline(e ast.Expr, busy map[*types.Func]bool, depth int) ast.Expr {
	if e == nil || depth >= inlineMaxDepth {
		return e
	}
	changed := false
	var walk func(x ast.Expr) ast.Expr
	walk = func(x ast.Expr) ast.Expr {
		call, ok := ast.Unparen(x).(*ast.CallExpr)
		if !ok {
			return nil
		}
		fn, fd := in.helper(call, busy)
		if fd == nil || len(fd.Body.List) != 1 {
			return nil
		}
		ret, ok := fd.Body.List[0].(*ast.ReturnStmt)
		if !ok || len(ret.Results) != 1 {
			return nil
		}
		if sig := fn.Type().(*types.Signature); sig.Results().Len() != 1 {
			return nil
		}
		m, ok := in.subst(call, fd)
		if !ok {
			return nil
		}
		nb := map[*types.Func]bool{fn: true}
		for k := range busy {
			nb[k] = true
		}
		r := in.exprInline(in.copyExpr(ret.Results[0], m), nb, depth+1)
		p := &ast.ParenExpr{Lparen: call.Lparen, X: r, Rparen: call.Rparen}
		if tv, ok := in.info.Types[x]; ok {
			in.info.Types[p] = tv
		}
		changed = true
		return p
	}
	out := in.rewrite(e, walk)
	if !changed {
		return e
	}
	return out
}

// rewrite rebuilds e bottom-up, replacing every sub-expression for which f answers non-nil.
func (in *inliner) rewrite(e ast.Expr, f func(ast.Expr) ast.Expr) ast.Expr {
	if e == nil {
		return nil
	}
	if r := f(e); r != nil {
		return r
	}
	keep := func(n ast.Expr) ast.Expr {
		if tv, ok := in.info.Types[e]; ok {
			in.info.Types[n] = tv
		}
		return n
	}
	switch x := e.(type) {
	case *ast.ParenExpr:
		if y := in.rewrite(x.X, f); y != x.X {
			return keep(&ast.ParenExpr{Lparen: x.Lparen, X: y, Rparen: x.Rparen})
		}
	case *ast.BinaryExpr:
		a, b := in.rewrite(x.X, f), in.rewrite(x.Y, f)
		if a != x.X || b != x.Y {
			return keep(&ast.BinaryExpr{X: a, OpPos: x.OpPos, Op: x.Op, Y: b})
		}
	case *ast.UnaryExpr:
		if y := in.rewrite(x.X, f); y != x.X {
			return keep(&ast.UnaryExpr{OpPos: x.OpPos, Op: x.Op, X: y})
		}
	case *ast.CallExpr:
		changed := false
		n := &ast.CallExpr{Fun: x.Fun, Lparen: x.Lparen, Ellipsis: x.Ellipsis, Rparen: x.Rparen}
		for _, a := range x.Args {
			b := in.rewrite(a, f)
			if b != a {
				changed = true
			}
			n.Args = append(n.Args, b)
		}
		if changed {
			return keep(n)
		}
	case *ast.IndexExpr:
		a, b := in.rewrite(x.X, f), in.rewrite(x.Index, f)
		if a != x.X || b != x.Index {
			return keep(&ast.IndexExpr{X: a, Lbrack: x.Lbrack, Index: b, Rbrack: x.Rbrack})
		}
	case *ast.SelectorExpr:
		if y := in.rewrite(x.X, f); y != x.X {
			n := &ast.SelectorExpr{X: y, Sel: x.Sel}
			if s, ok := in.info.Selections[x]; ok {
				in.info.Selections[n] = s
			}
			return keep(n)
		}
	}
	return e
}

func (in *inliner) stmts(list []ast.Stmt, busy map[*types.Func]bool, depth int) []ast.Stmt {
	var out []ast.Stmt
	for _, s := range list {
		out = append(out, in.stmt(s, busy, depth)...)
	}
	return out
}

func (in *inliner) block(b *ast.BlockStmt, busy map[*types.Func]bool, depth int) *ast.BlockStmt {
	if b == nil {
		return nil
	}
	return &ast.BlockStmt{Lbrace: b.Lbrace, List: in.stmts(b.List, busy, depth), Rbrace: b.Rbrace}
}

func with(busy map[*types.Func]bool, fn *types.Func) map[*types.Func]bool {
	nb := map[*types.Func]bool{fn: true}
	for k := range busy {
		nb[k] = true
	}
	return nb
}

// stmt expands one statement into a list.
func (in *inliner) stmt(s ast.Stmt, busy map[*types.Func]bool, depth int) []ast.Stmt {
	if depth >= inlineMaxDepth {
		return []ast.Stmt{s}
	}
	ex := func(e ast.Expr) ast.Expr { return in.exprInline(e, busy, depth) }
	switch x := s.(type) {
	case *ast.ExprStmt:
		if call, ok := ast.Unparen(x.X).(*ast.CallExpr); ok {
			if fn, fd := in.helper(call, busy); fd != nil {
				if last, ok := returnsOnlyAtEnd(fd.Body); ok {
					if m, ok := in.subst(call, fd); ok {
						body := fd.Body.List
						if last != nil {
							body = body[:len(body)-1]
							// a discarded result with a call in it is still evaluated
							var keep []ast.Stmt
							for _, r := range last.Results {
								if c, isCall := ast.Unparen(r).(*ast.CallExpr); isCall {
									keep = append(keep, &ast.ExprStmt{X: in.copyExpr(c, m)})
								}
							}
							return append(in.stmts(in.copyStmts(body, m), with(busy, fn), depth+1), in.stmts(keep, with(busy, fn), depth+1)...)
						}
						return in.stmts(in.copyStmts(body, m), with(busy, fn), depth+1)
					}
				}
			}
		}
		return []ast.Stmt{&ast.ExprStmt{X: ex(x.X)}}
	case *ast.AssignStmt:
		// `acc = append(acc, h(..)...)` where h builds its single named slice result by appending to it and returns
		// it at the end: h's statements with the result variable replaced by acc
		if body, fn, ok := in.appendIdiom(x, busy); ok {
			return in.stmts(body, with(busy, fn), depth+1)
		}
		if len(x.Rhs) == 1 {
			if call, ok := ast.Unparen(x.Rhs[0]).(*ast.CallExpr); ok {
				if fn, fd := in.helper(call, busy); fd != nil {
					if last, ok := returnsOnlyAtEnd(fd.Body); ok && last != nil && len(fd.Body.List) > 1 {
						sig := fn.Type().(*types.Signature)
						if m, ok := in.subst(call, fd); ok && (len(last.Results) == len(x.Lhs) || (len(last.Results) == 1 && sig.Results().Len() == len(x.Lhs))) {
							pre := in.stmts(in.copyStmts(fd.Body.List[:len(fd.Body.List)-1], m), with(busy, fn), depth+1)
							as := &ast.AssignStmt{Lhs: x.Lhs, TokPos: x.TokPos, Tok: x.Tok}
							for _, r := range last.Results {
								as.Rhs = append(as.Rhs, in.exprInline(in.copyExpr(r, m), with(busy, fn), depth+1))
							}
							return append(pre, in.stmt(as, with(busy, fn), depth+1)...)
						}
					}
				}
			}
		}
		n := &ast.AssignStmt{Lhs: x.Lhs, TokPos: x.TokPos, Tok: x.Tok}
		for _, r := range x.Rhs {
			n.Rhs = append(n.Rhs, ex(r))
		}
		return []ast.Stmt{n}
	case *ast.ReturnStmt:
		if len(x.Results) == 1 {
			if call, ok := ast.Unparen(x.Results[0]).(*ast.CallExpr); ok {
				in.tail = true
				fn, fd := in.helper(call, busy)
				in.tail = false
				if fd != nil {
					if m, ok := in.subst(call, fd); ok && fd.Type.Results != nil && !hasNamedResults(fd) {
						return in.stmts(in.copyStmts(fd.Body.List, m), with(busy, fn), depth+1)
					}
				}
			}
		}
		n := &ast.ReturnStmt{Return: x.Return}
		for _, r := range x.Results {
			n.Results = append(n.Results, ex(r))
		}
		return []ast.Stmt{n}
	case *ast.IfStmt:
		n := &ast.IfStmt{If: x.If, Cond: ex(x.Cond), Body: in.block(x.Body, busy, depth)}
		switch e := x.Else.(type) {
		case *ast.BlockStmt:
			n.Else = in.block(e, busy, depth)
		case *ast.IfStmt:
			l := in.stmt(e, busy, depth)
			if len(l) == 1 {
				n.Else = l[0]
			} else {
				n.Else = &ast.BlockStmt{List: l}
			}
		}
		if x.Init != nil {
			pre := in.stmt(x.Init, busy, depth)
			if len(pre) == 1 {
				n.Init = pre[0]
				return []ast.Stmt{n}
			}
			// the init expanded into several statements: keep its scope with a block
			n.Init = pre[len(pre)-1]
			if _, simple := n.Init.(*ast.AssignStmt); !simple {
				if _, simple := n.Init.(*ast.ExprStmt); !simple {
					return []ast.Stmt{&ast.BlockStmt{List: append(pre, &ast.IfStmt{If: x.If, Cond: n.Cond, Body: n.Body, Else: n.Else})}}
				}
			}
			return []ast.Stmt{&ast.BlockStmt{List: append(pre[:len(pre)-1:len(pre)-1], n)}}
		}
		return []ast.Stmt{n}
	case *ast.BlockStmt:
		return []ast.Stmt{in.block(x, busy, depth)}
	case *ast.ForStmt:
		return []ast.Stmt{&ast.ForStmt{For: x.For, Init: x.Init, Cond: ex(x.Cond), Post: x.Post, Body: in.block(x.Body, busy, depth)}}
	case *ast.RangeStmt:
		return []ast.Stmt{&ast.RangeStmt{For: x.For, Key: x.Key, Value: x.Value, TokPos: x.TokPos, Tok: x.Tok, Range: x.Range, X: ex(x.X), Body: in.block(x.Body, busy, depth)}}
	case *ast.SwitchStmt:
		n := &ast.SwitchStmt{Switch: x.Switch, Init: x.Init, Tag: ex(x.Tag), Body: &ast.BlockStmt{Lbrace: x.Body.Lbrace, Rbrace: x.Body.Rbrace}}
		for _, cc := range x.Body.List {
			cl := cc.(*ast.CaseClause)
			nc := &ast.CaseClause{Case: cl.Case, Colon: cl.Colon, Body: in.stmts(cl.Body, busy, depth)}
			for _, e := range cl.List {
				nc.List = append(nc.List, ex(e))
			}
			n.Body.List = append(n.Body.List, nc)
		}
		return []ast.Stmt{n}
	case *ast.TypeSwitchStmt:
		n := &ast.TypeSwitchStmt{Switch: x.Switch, Init: x.Init, Assign: x.Assign, Body: &ast.BlockStmt{Lbrace: x.Body.Lbrace, Rbrace: x.Body.Rbrace}}
		for _, cc := range x.Body.List {
			cl := cc.(*ast.CaseClause)
			nc := &ast.CaseClause{Case: cl.Case, List: cl.List, Colon: cl.Colon, Body: in.stmts(cl.Body, busy, depth)}
			if o, ok := in.info.Implicits[cl]; ok {
				in.info.Implicits[nc] = o
			}
			n.Body.List = append(n.Body.List, nc)
		}
		return []ast.Stmt{n}
	}
	return []ast.Stmt{s}
}

// appendIdiom recognises `acc = append(acc, h(args)...)` with an emitter-style helper and returns h's body rewritten
// to append to acc directly.
func (in *inliner) appendIdiom(as *ast.AssignStmt, busy map[*types.Func]bool) ([]ast.Stmt, *types.Func, bool) {
	if len(as.Lhs) != 1 || len(as.Rhs) != 1 || as.Tok != token.ASSIGN {
		return nil, nil, false
	}
	app, ok := ast.Unparen(as.Rhs[0]).(*ast.CallExpr)
	if !ok || len(app.Args) != 2 || !app.Ellipsis.IsValid() {
		return nil, nil, false
	}
	if id, ok := app.Fun.(*ast.Ident); !ok || id.Name != "append" {
		return nil, nil, false
	}
	if types.ExprString(app.Args[0]) != types.ExprString(as.Lhs[0]) {
		return nil, nil, false
	}
	call, ok := ast.Unparen(app.Args[1]).(*ast.CallExpr)
	if !ok {
		return nil, nil, false
	}
	fn, fd := in.helper(call, busy)
	if fd == nil || fd.Type.Results == nil || len(fd.Type.Results.List) != 1 || len(fd.Type.Results.List[0].Names) != 1 {
		return nil, nil, false
	}
	res := in.info.Defs[fd.Type.Results.List[0].Names[0]]
	if res == nil {
		return nil, nil, false
	}
	if _, isSlice := res.Type().Underlying().(*types.Slice); !isSlice {
		return nil, nil, false
	}
	last, onlyAtEnd := returnsOnlyAtEnd(fd.Body)
	if !onlyAtEnd {
		return nil, nil, false
	}
	if last != nil && !(len(last.Results) == 0 || (len(last.Results) == 1 && identObj(in.info, last.Results[0]) == res)) {
		return nil, nil, false
	}
	// every use of the result variable is `res = append(res, ..)`
	okUses := true
	allowed := map[*ast.Ident]bool{}
	ast.Inspect(fd.Body, func(n ast.Node) bool {
		if a, ok := n.(*ast.AssignStmt); ok && len(a.Lhs) == 1 && len(a.Rhs) == 1 && identObj(in.info, a.Lhs[0]) == res {
			if c, ok := ast.Unparen(a.Rhs[0]).(*ast.CallExpr); ok && len(c.Args) >= 1 {
				if id, ok := c.Fun.(*ast.Ident); ok && id.Name == "append" && identObj(in.info, c.Args[0]) == res {
					allowed[a.Lhs[0].(*ast.Ident)] = true
					allowed[ast.Unparen(c.Args[0]).(*ast.Ident)] = true
				}
			}
		}
		return true
	})
	ast.Inspect(fd.Body, func(n ast.Node) bool {
		if id, ok := n.(*ast.Ident); ok && (in.info.Uses[id] == res || in.info.Defs[id] == res) && !allowed[id] {
			if last == nil || len(last.Results) != 1 || last.Results[0] != ast.Expr(id) {
				okUses = false
			}
		}
		return okUses
	})
	if !okUses {
		return nil, nil, false
	}
	m, ok := in.subst(call, fd)
	if !ok {
		return nil, nil, false
	}
	m[res] = as.Lhs[0]
	body := fd.Body.List
	if last != nil {
		body = body[:len(body)-1]
	}
	return in.copyStmts(body, m), fn, true
}

func hasNamedResults(fd *ast.FuncDecl) bool {
	if fd.Type.Results == nil {
		return false
	}
	for _, fl := range fd.Type.Results.List {
		if len(fl.Names) > 0 {
			return true
		}
	}
	return false
}
