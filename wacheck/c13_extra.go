package main

import (
	"fmt"
	"go/ast"
	"go/types"
	"regexp"
	"strings"

	"golang.org/x/tools/go/packages"
	waast "wa-lang.org/wa/internal/ast"
)

// C13 extra rules (added after seeded changes were missed):
//
//   nil-guard-target — in runtime/map.wa, an `if X.Left != this.NIL { … }` (or .Right) guards work on that child.
//       A body that dereferences the other child of X and never the tested one contradicts its own guard: the tested
//       child is left untouched and the untested one is used although it may be the sentinel.
//   interface-boxing-guard — the generated map helpers box the key (and value) into interface{} before calling the
//       runtime. A static type that is itself an interface must be converted (ChangeInterface), any other type wrapped
//       (MakeInterface); wrapping an interface value makes a key whose dynamic type is the interface type, which
//       never compares equal to the keys stored by the other helpers. Every MakeInterface site of the generator is
//       the else arm of the `is interface` test of that operand's type, with ChangeInterface in the then arm.

var childDerefRe = regexp.MustCompile(` ((?:\w+ \. )*\w+) \. (Left|Right) \. `)

var nilGuardRe = regexp.MustCompile(`^((?:\w+ \. )*\w+) \. (Left|Right) != this \. NIL$`)

func c13NilGuardTarget(c *Ctx, std *waStd, mf *waFile) {
	const rule = "nil-guard-target"
	n := 0
	for _, fd := range std.Funcs(mf) {
		if fd.Decl.Body == nil {
			continue
		}
		name := fd.Name
		if fd.Recv != "" {
			name = fd.Recv + "." + fd.Name
		}
		k := 0
		waast.Inspect(fd.Decl.Body, func(nd waast.Node) bool {
			ifs, ok := nd.(*waast.IfStmt)
			if !ok || ifs.Else != nil || ifs.Init != nil {
				return true
			}
			cond := strings.Join(waTokens(waSrc(std, mf, ifs.Cond)), " ")
			m := nilGuardRe.FindStringSubmatch(cond)
			if m == nil {
				return true
			}
			base, side := m[1], m[2]
			other := mirrorSwap[side]
			body := " " + strings.Join(waTokens(waSrc(std, mf, ifs.Body)), " ") + " "
			usesTested := strings.Contains(body, " "+base+" . "+side+" ")
			usesOther := strings.Contains(body, " "+base+" . "+other+" . ")
			derefd := base + "." + other
			// a child link of *another* node dereferenced under this guard
			for _, dm := range childDerefRe.FindAllStringSubmatch(body, -1) {
				if dm[1] != base && !usesTested {
					usesOther = true
					derefd = dm[1] + "." + dm[2]
				}
			}
			if !usesTested && !usesOther {
				return true // the body does not work on either child (e.g. a plain return)
			}
			n++
			k++
			c.Check(usesTested || !usesOther, rule, fmt.Sprintf("%s: guard #%d on %s.%s", name, k, base, side), std.Pos(mf, ifs.Pos()), "the body works on the child the guard tested",
				fmt.Sprintf("%s tests %s.%s against the sentinel but its body dereferences %s and never %s.%s: the link that is used was not the one tested (it may be the sentinel, or a real node whose parent index is then left stale)", name, base, side, derefd, base, side))
			return true
		})
	}
	c.Min(rule, "sentinel guards on a child link", n, 4)
}

func c13InterfaceBoxing(c *Ctx, p *Prog, wp *packages.Package) {
	const rule = "interface-boxing-guard"
	info := wp.TypesInfo
	root := p.MustFunc(rule, wp, "Module.GenValueType_Map")
	if root == nil {
		return
	}
	// the generator and the helpers it was split into: GenValueType_Map and the methods of Map
	var fds []*ast.FuncDecl
	for _, f := range wp.Syntax {
		for _, d := range f.Decls {
			if fd, ok := d.(*ast.FuncDecl); ok && fd.Body != nil && (fd == root || (fd.Recv != nil && strings.HasPrefix(declName(fd), "Map."))) {
				fds = append(fds, fd)
			}
		}
	}
	// per function: `_, flag := T.(*Interface)` → flag ↦ T ; `x := NewLocal(_, T)` → x ↦ T
	type fnFacts struct {
		flagOf      map[types.Object]types.Object
		typeOfLocal map[types.Object]types.Object
	}
	facts := map[*ast.FuncDecl]*fnFacts{}
	for _, fd := range fds {
		ff := &fnFacts{map[types.Object]types.Object{}, map[types.Object]types.Object{}}
		facts[fd] = ff
		ast.Inspect(fd.Body, func(n ast.Node) bool {
			as, ok := n.(*ast.AssignStmt)
			if !ok || len(as.Rhs) != 1 {
				return true
			}
			switch r := as.Rhs[0].(type) {
			case *ast.TypeAssertExpr:
				if len(as.Lhs) == 2 {
					if st, ok := r.Type.(*ast.StarExpr); ok && types.ExprString(st.X) == "Interface" {
						if f, t := identObj(info, as.Lhs[1]), identObj(info, r.X); f != nil && t != nil {
							ff.flagOf[f] = t
						}
					}
				}
			case *ast.CallExpr:
				if len(as.Lhs) == 1 && types.ExprString(r.Fun) == "NewLocal" && len(r.Args) == 2 {
					if x, t := identObj(info, as.Lhs[0]), identObj(info, r.Args[1]); x != nil && t != nil {
						ff.typeOfLocal[x] = t
					}
				}
			}
			return true
		})
	}
	// role of a type variable: the Map field it stands for (`kt := m.Key`, `kt, et := m.Key, m.Elem`, or a parameter
	// used as `Map{Key: kt}`)
	roleOf := func(fd *ast.FuncDecl, o types.Object) string {
		role := ""
		ast.Inspect(fd, func(n ast.Node) bool {
			switch x := n.(type) {
			case *ast.AssignStmt:
				if len(x.Lhs) == len(x.Rhs) {
					for i, l := range x.Lhs {
						if identObj(info, l) == o {
							if se, ok := x.Rhs[i].(*ast.SelectorExpr); ok {
								role = se.Sel.Name
							}
						}
					}
				}
			case *ast.KeyValueExpr:
				if identObj(info, x.Value) == o {
					if k, ok := x.Key.(*ast.Ident); ok {
						role = k.Name
					}
				}
			}
			return true
		})
		return role
	}
	// bool parameters that carry an is-interface flag: parameter ↦ role of the type the flag was computed from, taken
	// from every call site inside the generator
	paramRole := map[types.Object]string{}
	for _, caller := range fds {
		ast.Inspect(caller.Body, func(n ast.Node) bool {
			call, ok := n.(*ast.CallExpr)
			if !ok {
				return true
			}
			fn := CalleeOf(info, call)
			if fn == nil {
				return true
			}
			sig := fn.Type().(*types.Signature)
			for i, a := range call.Args {
				if i >= sig.Params().Len() {
					break
				}
				if fo := identObj(info, a); fo != nil {
					if t := facts[caller].flagOf[fo]; t != nil {
						r := roleOf(caller, t)
						pobj := sig.Params().At(i)
						if old, seen := paramRole[pobj]; seen && old != r {
							r = "" // call sites disagree
						}
						paramRole[pobj] = r
					}
				}
			}
			return true
		})
	}
	isEmit := func(e ast.Expr, name string) (*ast.CallExpr, bool) {
		var found *ast.CallExpr
		ast.Inspect(e, func(n ast.Node) bool {
			if call, ok := n.(*ast.CallExpr); ok {
				if fn := CalleeOf(info, call); fn != nil && fn.Name() == name {
					found = call
				}
			}
			return found == nil
		})
		return found, found != nil
	}
	n := 0
	for _, fd := range fds {
		ff := facts[fd]
		fname := declName(fd)
		k := 0
		// walk with the stack of enclosing if statements
		var walk func(list []ast.Stmt, guards []*ast.IfStmt, inElse []bool)
		walk = func(list []ast.Stmt, guards []*ast.IfStmt, inElse []bool) {
			for _, s := range list {
				switch x := s.(type) {
				case *ast.BlockStmt:
					walk(x.List, guards, inElse)
				case *ast.IfStmt:
					walk(x.Body.List, append(guards[:len(guards):len(guards)], x), append(inElse[:len(inElse):len(inElse)], false))
					if eb, ok := x.Else.(*ast.BlockStmt); ok {
						walk(eb.List, append(guards[:len(guards):len(guards)], x), append(inElse[:len(inElse):len(inElse)], true))
					} else if ei, ok := x.Else.(*ast.IfStmt); ok {
						walk([]ast.Stmt{ei}, guards, inElse)
					}
				default:
					call, ok := isEmit2(s, isEmit, "EmitGenMakeInterface")
					if !ok || len(call.Args) < 1 {
						continue
					}
					n++
					k++
					operand := identObj(info, call.Args[0])
					construct := fmt.Sprintf("%s: MakeInterface #%d of %s", fname, k, types.ExprString(call.Args[0]))
					loc := p.Pos(call.Pos())
					tObj := ff.typeOfLocal[operand]
					good := false
					why := "it is not in the else arm of an `is interface` test of the operand's type"
					for i := len(guards) - 1; i >= 0 && !good; i-- {
						g := guards[i]
						flag := identObj(info, g.Cond)
						if flag == nil {
							continue
						}
						about := false // the flag is about the operand's type
						if t := ff.flagOf[flag]; t != nil {
							about = tObj != nil && t == tObj
						} else if r, isParam := paramRole[flag]; isParam {
							about = tObj != nil && r != "" && r == roleOf(fd, tObj)
						} else {
							continue
						}
						if !about {
							why = "the enclosing test is about another type than the operand's"
							continue
						}
						if !inElse[i] {
							why = "it is in the arm taken when the type IS an interface"
							continue
						}
						// then arm converts the same operand
						conv := false
						for _, ts := range g.Body.List {
							if cc, ok := isEmit2(ts, isEmit, "EmitGenChangeInterface"); ok && len(cc.Args) >= 1 && identObj(info, cc.Args[0]) == operand {
								conv = true
							}
						}
						if !conv {
							why = "the then arm does not convert the same operand with ChangeInterface"
							continue
						}
						good = true
					}
					c.Check(good, rule, construct, loc, "else arm of the interface test of the operand's type; then arm converts",
						construct+": "+why+": for a map whose static key (or element) type is an interface the value is wrapped a second time, its dynamic type becomes the interface type, and it never compares equal to the entries the other helpers stored (delete/lookup silently miss)")
				}
			}
		}
		walk(fd.Body.List, nil, nil)
	}
	c.Min(rule, "MakeInterface sites in the map helper generator", n, 5)
}

func isEmit2(s ast.Stmt, isEmit func(ast.Expr, string) (*ast.CallExpr, bool), name string) (*ast.CallExpr, bool) {
	switch x := s.(type) {
	case *ast.AssignStmt:
		for _, r := range x.Rhs {
			if c, ok := isEmit(r, name); ok {
				return c, true
			}
		}
	case *ast.ExprStmt:
		return isEmit(x.X, name)
	}
	return nil, false
}

// C13 rule range-stable-under-delete (added after probing: `for k := range m { delete(m, k) }` over ten keys visits
// five and leaves five; deleting a key that has not been visited yet produces another key twice and one never).
// mapIter.Next walks the node list by slot number (`this.m.nodes[this.pos]`), and mapImp.Delete keeps that list dense
// by moving its last node into the freed slot (and delete copies the successor's key into the node it keeps): a node
// the iterator has not reached can land in a slot it has already passed, and a slot it is about to read can receive a
// key it has already produced. An iterator by slot number and a list that is compacted by moving elements cannot both
// stay; the rule reports their combination.
func c13RangeUnderDelete(c *Ctx, std *waStd, mf *waFile, fns map[string]*waFuncDecl) {
	const rule = "range-stable-under-delete"
	next, del := fns["mapIter.Next"], fns["mapImp.Delete"]
	if next == nil || del == nil || next.Decl.Body == nil || del.Decl.Body == nil {
		c.Undecided(rule, "anchor:mapIter.Next / mapImp.Delete", mf.Rel, "functions not found in map.wa")
		return
	}
	bySlot := false
	waast.Inspect(next.Decl.Body, func(n waast.Node) bool {
		if ix, ok := n.(*waast.IndexExpr); ok {
			if se, ok := ix.X.(*waast.SelectorExpr); ok && se.Sel.Name == "nodes" {
				if ps, ok := ix.Index.(*waast.SelectorExpr); ok && ps.Sel.Name == "pos" {
					bySlot = true
				}
			}
		}
		return true
	})
	moves := false
	waast.Inspect(del.Decl.Body, func(n waast.Node) bool {
		if as, ok := n.(*waast.AssignStmt); ok && len(as.Lhs) == 1 {
			if ix, ok := as.Lhs[0].(*waast.IndexExpr); ok {
				if se, ok := ix.X.(*waast.SelectorExpr); ok && se.Sel.Name == "nodes" {
					moves = true
				}
			}
		}
		return true
	})
	c.Check(!(bySlot && moves), rule, "mapIter.Next over mapImp.nodes", std.Pos(mf, next.Decl.Pos()), "iteration order independent of slot compaction",
		"mapIter.Next produces this.m.nodes[this.pos] (iteration by slot number) while mapImp.Delete moves the last node of the list into the freed slot: a delete during a range loop moves a node that has not been visited into a slot that has, or puts an already produced key under the cursor — keys are skipped and produced twice")
}
