package main

import (
	"fmt"
	"go/ast"
	"go/constant"
	"go/token"
	"go/types"
	"strings"

	"golang.org/x/tools/go/packages"
)

// C22 rules on the unified-diff rendering (toUnified and unified.String are wa-lang/wa's own code since two defects of
// the origin were repaired: a wrong "+" start line in the header of a hunk that follows a hunk in which two edits were
// joined by unchanged lines, and an empty range printed as "-N" instead of "-N-1,0"):
//
//   hunk-line-counters — toUnified walks the old text with a cursor (`last`, set to the edit's first line after the
//       switch that opens or extends a hunk) and counts the lines of the new text in a second variable (the one that
//       gives hunk.toLine). Every arm of that switch keeps the two in step: it is guarded by cursor == start (nothing
//       to skip), or it adds `start - cursor` to the new-text counter.
//   empty-range-format — in unified.String a count of zero is written as "<line-1>,0" on both sides (GNU diff: the line
//       before the empty range), not as a bare line number, which means one line.
//   unified-line-granular — Unified hands toUnified the edits of a line-granular diff. Character edits widened to
//       whole lines list unchanged lines as removed and added again (known finding: the origin's design).

func c22Unified(c *Ctx, p *Prog, pk *packages.Package) {
	info := pk.TypesInfo
	decls := AllFuncDecls(pk)
	// ---- hunk-line-counters
	{
		const rule = "hunk-line-counters"
		fd := decls["toUnified"]
		if fd == nil || fd.Body == nil {
			c.Undecided(rule, "anchor:toUnified", "", "function not found")
		} else {
			// the loop over the edits, its switch, and the `cursor = start` that follows the switch
			var sw *ast.SwitchStmt
			cursor, start := "", ""
			ast.Inspect(fd.Body, func(n ast.Node) bool {
				rs, ok := n.(*ast.RangeStmt)
				if !ok || sw != nil {
					return true
				}
				for i, s := range rs.Body.List {
					x, ok := s.(*ast.SwitchStmt)
					if !ok || x.Tag != nil || i+1 >= len(rs.Body.List) {
						continue
					}
					if as, ok := rs.Body.List[i+1].(*ast.AssignStmt); ok && as.Tok == token.ASSIGN && len(as.Lhs) == 1 && len(as.Rhs) == 1 {
						l, lok := as.Lhs[0].(*ast.Ident)
						r, rok := as.Rhs[0].(*ast.Ident)
						if lok && rok {
							sw, cursor, start = x, l.Name, r.Name
						}
					}
				}
				return true
			})
			// the new-text counter: the variable assigned to the hunk's toLine
			counter := ""
			ast.Inspect(fd.Body, func(n ast.Node) bool {
				if kv, ok := n.(*ast.KeyValueExpr); ok {
					if k, ok := kv.Key.(*ast.Ident); ok && k.Name == "toLine" {
						ast.Inspect(kv.Value, func(m ast.Node) bool {
							if id, ok := m.(*ast.Ident); ok && counter == "" {
								if _, isVar := info.ObjectOf(id).(*types.Var); isVar {
									counter = id.Name
								}
							}
							return true
						})
					}
				}
				return true
			})
			if sw == nil || counter == "" {
				c.Undecided(rule, "toUnified", p.Pos(fd.Pos()), "the hunk switch followed by `cursor = start`, or the variable behind hunk.toLine, was not recognised")
			} else {
				n := 0
				for _, cl := range sw.Body.List {
					cc := cl.(*ast.CaseClause)
					n++
					guard := "default"
					if len(cc.List) == 1 {
						guard = types.ExprString(cc.List[0])
					}
					g := strings.ReplaceAll(guard, " ", "")
					nothingToSkip := strings.Contains(g, start+"=="+cursor) || strings.Contains(g, cursor+"=="+start)
					advances := false
					for _, s := range cc.Body {
						ast.Inspect(s, func(m ast.Node) bool {
							as, ok := m.(*ast.AssignStmt)
							if !ok || len(as.Lhs) != 1 || len(as.Rhs) != 1 {
								return true
							}
							if id, ok := as.Lhs[0].(*ast.Ident); ok && id.Name == counter {
								rhs := strings.ReplaceAll(types.ExprString(as.Rhs[0]), " ", "")
								if (as.Tok == token.ADD_ASSIGN && rhs == start+"-"+cursor) || (as.Tok == token.ASSIGN && (rhs == counter+"+"+start+"-"+cursor || rhs == counter+"+("+start+"-"+cursor+")")) {
									advances = true
								}
							}
							return true
						})
					}
					c.Check(nothingToSkip || advances, rule, fmt.Sprintf("toUnified: arm `%s`", guard), p.Pos(cc.Pos()), "the new-text counter follows the cursor",
						fmt.Sprintf("after this arm `%s = %s` moves the old-text cursor over %s-%s unchanged lines, but %s (which becomes the next hunk's \"+\" start line) is not advanced by the same amount: every later hunk header of the diff names a start line in the new text that is too small, and the patch does not apply there", cursor, start, start, cursor, counter))
				}
				c.Min(rule, "arms of the hunk switch", n, 3)
			}
		}
	}
	// ---- empty-range-format
	{
		const rule = "empty-range-format"
		fd := decls["unified.String"]
		if fd == nil || fd.Body == nil {
			c.Undecided(rule, "anchor:unified.String", "", "method not found")
		} else {
			n := 0
			for _, side := range []struct{ sign, count string }{{"-", "fromCount"}, {"+", "toCount"}} {
				// the format strings written for this side, with the condition chain around them
				var bare, zero []string
				ast.Inspect(fd.Body, func(m ast.Node) bool {
					ifs, ok := m.(*ast.IfStmt)
					if !ok {
						return true
					}
					cond := strings.ReplaceAll(types.ExprString(ifs.Cond), " ", "")
					for _, s := range ifs.Body.List {
						es, ok := s.(*ast.ExprStmt)
						if !ok {
							continue
						}
						call, ok := es.X.(*ast.CallExpr)
						if !ok || len(call.Args) < 2 {
							continue
						}
						tv, ok := info.Types[call.Args[1]]
						if !ok || tv.Value == nil || tv.Value.Kind() != constant.String {
							continue
						}
						f := constant.StringVal(tv.Value)
						if !strings.HasPrefix(strings.TrimSpace(f), side.sign) {
							continue
						}
						if strings.HasSuffix(f, ",0") && strings.Contains(cond, side.count+"==0") {
							args := ""
							for _, a := range call.Args[2:] {
								args += strings.ReplaceAll(types.ExprString(a), " ", "")
							}
							zero = append(zero, cond+" -> "+f+" "+args)
						}
					}
					// the final else: a bare line number
					if els, ok := ifs.Else.(*ast.BlockStmt); ok {
						for _, s := range els.List {
							if es, ok := s.(*ast.ExprStmt); ok {
								if call, ok := es.X.(*ast.CallExpr); ok && len(call.Args) >= 2 {
									if tv, ok := info.Types[call.Args[1]]; ok && tv.Value != nil && tv.Value.Kind() == constant.String {
										if f := constant.StringVal(tv.Value); strings.HasPrefix(strings.TrimSpace(f), side.sign) && !strings.Contains(f, ",") {
											bare = append(bare, f)
										}
									}
								}
							}
						}
					}
					return true
				})
				n++
				good := false
				for _, z := range zero {
					// the arm for a zero count must not require line 1, and must print line-1
					cond := z[:strings.Index(z, " -> ")]
					if !strings.Contains(cond, "==1") && strings.Contains(z, "-1") {
						good = true
					}
				}
				c.Check(good, rule, "unified.String: \""+side.sign+"\" side", p.Pos(fd.Pos()), "a zero count is written as <line-1>,0 for every line",
					fmt.Sprintf("arms for %s == 0: %v; bare form: %v — an empty range that is not at line 1 is printed as a bare line number, which stands for ONE line: a hunk that only inserts (or only deletes) claims a line on the other side that does not exist, and strict patch tools reject it", side.count, zero, bare))
			}
			c.Min(rule, "sides of the hunk header", n, 2)
		}
	}
	// ---- unified-line-granular
	{
		const rule = "unified-line-granular"
		fd := decls["Unified"]
		if fd == nil || fd.Body == nil {
			c.Undecided(rule, "anchor:Unified", "", "function not found")
		} else {
			src := ""
			ast.Inspect(fd.Body, func(m ast.Node) bool {
				if call, ok := m.(*ast.CallExpr); ok {
					if fn := CalleeOf(info, call); fn != nil && fn.Pkg() == pk.Types && (fn.Name() == "Strings" || fn.Name() == "Bytes" || strings.Contains(strings.ToLower(fn.Name()), "line")) && src == "" {
						src = fn.Name()
					}
				}
				return true
			})
			if src == "" {
				c.Undecided(rule, "Unified", p.Pos(fd.Pos()), "the diff the edits come from was not recognised")
			} else {
				c.Check(src != "Strings" && src != "Bytes", rule, "Unified: edits come from "+src, p.Pos(fd.Pos()), "a line-granular diff",
					"Unified takes its edits from "+src+", a character-granular diff, and toUnified widens each edit to whole lines: an insertion written as the edit {end of line 1, end of line 1, \"\\nX\"} becomes `-a +a +X` — unchanged lines are listed as removed and added again (the patch still applies; the rendering does not list exactly the changed lines)")
			}
		}
	}
}
