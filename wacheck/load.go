package main

import (
	"fmt"
	"go/ast"
	"go/token"
	"go/types"
	"os"
	"sort"
	"strings"

	"golang.org/x/tools/go/callgraph"
	"golang.org/x/tools/go/callgraph/cha"
	"golang.org/x/tools/go/callgraph/vta"
	"golang.org/x/tools/go/packages"
	"golang.org/x/tools/go/ssa"
	"golang.org/x/tools/go/ssa/ssautil"
)

const modPath = "wa-lang.org/wa"

// Prog is the loaded, type-checked Go program (E1).
type Prog struct {
	ctx   *Ctx
	Fset  *token.FileSet
	Pkgs  []*packages.Package // roots
	All   map[string]*packages.Package
	SSA   *ssa.Program
	ssaPk map[*packages.Package]*ssa.Package
	cg    *callgraph.Graph
}

type LoadOpt struct {
	GOOS, GOARCH string
	Light        bool // AST/types of the named packages only (dependencies from export data): no SSA
	Tests        bool
}

func infra(f string, a ...any) {
	fmt.Fprintf(os.Stderr, "INFRASTRUCTURE FAILURE: "+f+"\n", a...)
	os.Exit(2)
}

// Load type-checks the given package patterns (relative to the repo root, e.g. "./internal/wat/...").
func (c *Ctx) Load(opt LoadOpt, patterns ...string) *Prog {
	mode := packages.NeedName | packages.NeedFiles | packages.NeedCompiledGoFiles | packages.NeedImports |
		packages.NeedTypes | packages.NeedTypesSizes | packages.NeedSyntax | packages.NeedTypesInfo | packages.NeedDeps | packages.NeedModule
	if opt.Light {
		mode &^= packages.NeedDeps
	}
	env := append(os.Environ(), "GOWORK=off", "GOFLAGS=-mod=mod", "GOPROXY=off", "GOSUMDB=off", "GOTOOLCHAIN=local")
	if opt.GOOS != "" {
		env = append(env, "GOOS="+opt.GOOS)
	}
	if opt.GOARCH != "" {
		env = append(env, "GOARCH="+opt.GOARCH)
	}
	cfg := &packages.Config{Mode: mode, Dir: c.Repo, Env: env, Fset: token.NewFileSet(), Tests: opt.Tests}
	if len(c.Overlay) > 0 {
		cfg.Overlay = map[string][]byte{}
		for k, v := range c.Overlay {
			if strings.HasSuffix(k, ".go") {
				cfg.Overlay[k] = v
			}
		}
	}
	pkgs, err := packages.Load(cfg, patterns...)
	if err != nil {
		infra("packages.Load %v: %v", patterns, err)
	}
	if len(pkgs) == 0 {
		infra("packages.Load %v: no packages", patterns)
	}
	p := &Prog{ctx: c, Fset: cfg.Fset, Pkgs: pkgs, All: map[string]*packages.Package{}}
	nerr := 0
	packages.Visit(pkgs, nil, func(pk *packages.Package) {
		p.All[pk.PkgPath] = pk
		if strings.HasPrefix(pk.PkgPath, modPath) {
			for _, e := range pk.Errors {
				nerr++
				fmt.Fprintf(os.Stderr, "load error in %s: %v\n", pk.PkgPath, e)
			}
		}
	})
	if nerr > 0 {
		infra("%d load/type errors in repository packages", nerr)
	}
	c.Count("go_packages_loaded", len(p.All))
	return p
}

// Pkg returns a loaded package by path suffix relative to the module ("internal/wat/parser").
func (p *Prog) Pkg(rel string) *packages.Package {
	path := modPath
	if rel != "" && rel != "." {
		path = modPath + "/" + rel
	}
	pk := p.All[path]
	if pk == nil || len(pk.Syntax) == 0 {
		return nil
	}
	return pk
}

// MustPkg is Pkg but an unresolved anchor is an undecided obligation.
func (p *Prog) MustPkg(rule, rel string) *packages.Package {
	pk := p.Pkg(rel)
	if pk == nil {
		p.ctx.Undecided(rule, "anchor:package "+rel, "", "anchor package no longer resolves")
	}
	return pk
}

func (p *Prog) Pos(pos token.Pos) string {
	if !pos.IsValid() {
		return ""
	}
	ps := p.Fset.Position(pos)
	return fmt.Sprintf("%s:%d", p.ctx.rel(ps.Filename), ps.Line)
}

// FuncDecl finds a function or method declaration: name is "F" or "T.M" (receiver type name without *).
func FuncDecl(pk *packages.Package, name string) *ast.FuncDecl {
	if pk == nil {
		return nil
	}
	recv, fn := "", name
	if i := strings.Index(name, "."); i >= 0 {
		recv, fn = name[:i], name[i+1:]
	}
	for _, f := range pk.Syntax {
		for _, d := range f.Decls {
			fd, ok := d.(*ast.FuncDecl)
			if !ok || fd.Name.Name != fn {
				continue
			}
			if recv == "" && fd.Recv == nil {
				return fd
			}
			if recv != "" && fd.Recv != nil && len(fd.Recv.List) == 1 && recvTypeName(fd.Recv.List[0].Type) == recv {
				return fd
			}
		}
	}
	return nil
}

func recvTypeName(e ast.Expr) string {
	switch t := e.(type) {
	case *ast.StarExpr:
		return recvTypeName(t.X)
	case *ast.Ident:
		return t.Name
	case *ast.IndexExpr:
		return recvTypeName(t.X)
	case *ast.ParenExpr:
		return recvTypeName(t.X)
	}
	return ""
}

func (p *Prog) MustFunc(rule string, pk *packages.Package, name string) *ast.FuncDecl {
	if pk == nil {
		return nil
	}
	fd := FuncDecl(pk, name)
	if fd == nil || fd.Body == nil {
		p.ctx.Undecided(rule, "anchor:"+strings.TrimPrefix(pk.PkgPath, modPath+"/")+"."+name, "", "anchor function no longer resolves")
		return nil
	}
	return fd
}

// AllFuncDecls lists every function declaration of a package, named "F" or "T.M".
func AllFuncDecls(pk *packages.Package) map[string]*ast.FuncDecl {
	m := map[string]*ast.FuncDecl{}
	for _, f := range pk.Syntax {
		for _, d := range f.Decls {
			if fd, ok := d.(*ast.FuncDecl); ok {
				m[declName(fd)] = fd
			}
		}
	}
	return m
}

func declName(fd *ast.FuncDecl) string {
	if fd.Recv != nil && len(fd.Recv.List) == 1 {
		return recvTypeName(fd.Recv.List[0].Type) + "." + fd.Name.Name
	}
	return fd.Name.Name
}

// ---- SSA and call graph ----

func (p *Prog) BuildSSA() {
	if p.SSA != nil {
		return
	}
	var list []*packages.Package
	for _, pk := range p.All {
		list = append(list, pk)
	}
	sort.Slice(list, func(i, j int) bool { return list[i].PkgPath < list[j].PkgPath })
	prog, pkgs := ssautil.Packages(list, ssa.InstantiateGenerics)
	p.ssaPk = map[*packages.Package]*ssa.Package{}
	for i, pk := range list {
		if pkgs[i] != nil {
			p.ssaPk[pk] = pkgs[i]
		}
	}
	prog.Build()
	p.SSA = prog
}

func (p *Prog) SSAPkg(pk *packages.Package) *ssa.Package {
	p.BuildSSA()
	return p.ssaPk[pk]
}

// SSAFunc resolves "F" or "T.M" in a package to its SSA function.
func (p *Prog) SSAFunc(pk *packages.Package, name string) *ssa.Function {
	sp := p.SSAPkg(pk)
	if sp == nil {
		return nil
	}
	if i := strings.Index(name, "."); i >= 0 {
		tn, _ := pk.Types.Scope().Lookup(name[:i]).(*types.TypeName)
		if tn == nil {
			return nil
		}
		for _, t := range []types.Type{tn.Type(), types.NewPointer(tn.Type())} {
			ms := p.SSA.MethodSets.MethodSet(t)
			for j := 0; j < ms.Len(); j++ {
				if ms.At(j).Obj().Name() == name[i+1:] && ms.At(j).Obj().Pkg() == pk.Types {
					fn := p.SSA.MethodValue(ms.At(j))
					if fn != nil && fn.Synthetic == "" {
						return fn
					}
					if fn != nil {
						// wrapper: find the declared function through the object
						if f := p.SSA.FuncValue(ms.At(j).Obj().(*types.Func)); f != nil {
							return f
						}
					}
				}
			}
		}
		return nil
	}
	return sp.Func(name)
}

func (p *Prog) CallGraph() *callgraph.Graph {
	if p.cg != nil {
		return p.cg
	}
	p.BuildSSA()
	p.cg = vta.CallGraph(ssautil.AllFunctions(p.SSA), cha.CallGraph(p.SSA))
	return p.cg
}

// Reachable returns the set of functions reachable from the roots in the VTA call graph,
// together with a predecessor map for shortest call paths.
func (p *Prog) Reachable(roots []*ssa.Function, skipEdge func(*callgraph.Edge) bool) (map[*ssa.Function]*callgraph.Edge, []*ssa.Function) {
	cg := p.CallGraph()
	pred := map[*ssa.Function]*callgraph.Edge{}
	var order []*ssa.Function
	var q []*ssa.Function
	for _, r := range roots {
		if r == nil {
			continue
		}
		if _, ok := pred[r]; !ok {
			pred[r] = nil
			q = append(q, r)
		}
	}
	for len(q) > 0 {
		f := q[0]
		q = q[1:]
		order = append(order, f)
		// function values created here (closures handed to library code such as sort.Slice, method values)
		// may be called from code the walk does not enter: treat them as reachable from f.
		for _, b := range f.Blocks {
			for _, ins := range b.Instrs {
				for _, op := range ins.Operands(nil) {
					if op == nil || *op == nil {
						continue
					}
					var g *ssa.Function
					switch v := (*op).(type) {
					case *ssa.Function:
						g = v
					case *ssa.MakeClosure:
						g, _ = v.Fn.(*ssa.Function)
					}
					// only anonymous functions: named functions and method values are resolved by VTA
					if g != nil && g.Parent() != nil {
						e := &callgraph.Edge{Caller: cg.CreateNode(f), Callee: cg.CreateNode(g)}
						if skipEdge != nil && skipEdge(e) {
							continue
						}
						if _, ok := pred[g]; !ok {
							pred[g] = e
							q = append(q, g)
						}
					}
				}
			}
		}
		n := cg.Nodes[f]
		if n == nil {
			continue
		}
		for _, e := range n.Out {
			if skipEdge != nil && skipEdge(e) {
				continue
			}
			g := e.Callee.Func
			if _, ok := pred[g]; !ok {
				pred[g] = e
				q = append(q, g)
			}
		}
	}
	return pred, order
}

func CallPath(pred map[*ssa.Function]*callgraph.Edge, f *ssa.Function) string {
	var parts []string
	for f != nil {
		parts = append([]string{f.String()}, parts...)
		e := pred[f]
		if e == nil {
			break
		}
		f = e.Caller.Func
	}
	return strings.Join(parts, " -> ")
}

// ---- small AST/type helpers ----

// ConstVal returns the constant value string and its object name for an expression, if constant.
func ConstOf(info *types.Info, e ast.Expr) (types.TypeAndValue, bool) {
	tv, ok := info.Types[e]
	if !ok || tv.Value == nil {
		return tv, false
	}
	return tv, true
}

// ObjOf resolves an identifier or selector to the object it denotes.
func ObjOf(info *types.Info, e ast.Expr) types.Object {
	switch x := e.(type) {
	case *ast.Ident:
		return info.ObjectOf(x)
	case *ast.SelectorExpr:
		if s, ok := info.Selections[x]; ok {
			return s.Obj()
		}
		return info.ObjectOf(x.Sel)
	case *ast.ParenExpr:
		return ObjOf(info, x.X)
	}
	return nil
}

// CalleeOf resolves the static callee of a call (function, method or nil for dynamic calls).
func CalleeOf(info *types.Info, call *ast.CallExpr) *types.Func {
	fun := ast.Unparen(call.Fun)
	switch f := fun.(type) {
	case *ast.IndexExpr:
		fun = f.X
	case *ast.IndexListExpr:
		fun = f.X
	}
	if fn, ok := ObjOf(info, fun).(*types.Func); ok {
		return fn
	}
	return nil
}

// FuncFullName gives "pkgpath.F" or "pkgpath.T.M".
func FuncFullName(fn *types.Func) string {
	if fn == nil {
		return ""
	}
	sig := fn.Type().(*types.Signature)
	pk := ""
	if fn.Pkg() != nil {
		pk = fn.Pkg().Path()
	}
	if r := sig.Recv(); r != nil {
		t := r.Type()
		if pt, ok := t.(*types.Pointer); ok {
			t = pt.Elem()
		}
		if n, ok := t.(*types.Named); ok {
			return pk + "." + n.Obj().Name() + "." + fn.Name()
		}
		return pk + ".?." + fn.Name()
	}
	return pk + "." + fn.Name()
}

func short(s string) string { return strings.ReplaceAll(s, modPath+"/", "") }
