package main

import (
	"go/token"
	"go/types"
	"strings"

	"golang.org/x/tools/go/ssa"
)

// textProducerCalls: the calls in DidChange whose first result flows into the stored text (set by the DidChange rules,
// read by change-result-is-text).
var textProducerCalls map[*ssa.Call]bool

// c21TextProducers follows the value DidChange stores back through conversions, phis and tuple extraction. It
// returns the calls whose first result can be that value, and a description of every other root except the one
// legitimate one: the Text field of a content change (a full-text change is stored as it came).
func c21TextProducers(store *ssa.MapUpdate) (map[*ssa.Call]bool, []string) {
	prod := map[*ssa.Call]bool{}
	if store == nil {
		return prod, nil
	}
	var other []string
	seen := map[ssa.Value]bool{}
	var walk func(v ssa.Value)
	walk = func(v ssa.Value) {
		if seen[v] {
			return
		}
		seen[v] = true
		switch x := v.(type) {
		case *ssa.Convert:
			walk(x.X)
		case *ssa.ChangeType:
			walk(x.X)
		case *ssa.Phi:
			for _, e := range x.Edges {
				walk(e)
			}
		case *ssa.Extract:
			if call, ok := x.Tuple.(*ssa.Call); ok && x.Index == 0 && call.Call.StaticCallee() != nil {
				prod[call] = true
				return
			}
			other = append(other, "result #"+string(rune('0'+x.Index))+" of "+x.Tuple.Name())
		case *ssa.UnOp:
			if x.Op == token.MUL {
				if fa, ok := x.X.(*ssa.FieldAddr); ok {
					if fieldNameOf(fa) == "Text" {
						return
					}
				}
			}
			other = append(other, "a loaded value ("+x.String()+")")
		case *ssa.Const:
			if x.IsNil() {
				return // the zero value of the variable before it is assigned on every path
			}
			other = append(other, "the constant "+x.String())
		default:
			other = append(other, strings.TrimSpace(v.String()))
		}
	}
	walk(store.Value)
	return prod, other
}

func fieldNameOf(fa *ssa.FieldAddr) string {
	pt, ok := fa.X.Type().Underlying().(*types.Pointer)
	if !ok {
		return ""
	}
	st, ok := pt.Elem().Underlying().(*types.Struct)
	if !ok || fa.Field >= st.NumFields() {
		return ""
	}
	return st.Field(fa.Field).Name()
}

// blockReaches: is there a path of control-flow edges from a to b (a itself counts).
func blockReaches(a, b *ssa.BasicBlock) bool {
	seen := map[*ssa.BasicBlock]bool{}
	var rec func(x *ssa.BasicBlock) bool
	rec = func(x *ssa.BasicBlock) bool {
		if x == b {
			return true
		}
		if seen[x] {
			return false
		}
		seen[x] = true
		for _, s := range x.Succs {
			if rec(s) {
				return true
			}
		}
		return false
	}
	return rec(a)
}

// storeAfterUntestedProducer: can control reach the store from the producing call without passing the "error is nil"
// edge of a test of that call's error? (The store in the producer's own block after the call counts.)
func storeAfterUntestedProducer(prod *ssa.Call, tests []ErrTest, st *ssa.MapUpdate) bool {
	pb := prod.Block()
	if st.Block() == pb {
		for _, ins := range pb.Instrs {
			if ins == ssa.Instruction(prod) {
				return true // the call comes first, the store follows in the same block
			}
			if ins == ssa.Instruction(st) {
				break
			}
		}
	}
	cut := map[[2]*ssa.BasicBlock]bool{}
	for _, t := range tests {
		if ex, ok := t.Err.(*ssa.Extract); ok && ex.Tuple == ssa.Value(prod) && !t.Ignored {
			cut[[2]*ssa.BasicBlock{t.If.Block(), t.Nil}] = true
		}
	}
	seen := map[*ssa.BasicBlock]bool{}
	var rec func(b *ssa.BasicBlock) bool
	rec = func(b *ssa.BasicBlock) bool {
		for _, s := range b.Succs {
			if cut[[2]*ssa.BasicBlock{b, s}] || seen[s] {
				continue
			}
			seen[s] = true
			if s == st.Block() || rec(s) {
				return true
			}
		}
		return false
	}
	return rec(pb)
}
