package main

import (
	"fmt"
	"go/ast"
	"go/constant"
	"go/token"
	"go/types"
	"regexp"
	"strings"

	"golang.org/x/tools/go/packages"
)

// C02 rules on the call paths and the table of wat2x64 (added after defects found on the unchanged tree by
// differential probing):
//
//   x64-slot-address-form — the address of operand-stack slot n is rbp + R0Base - n*8 - 8 everywhere; an argument
//       expression that adds n*8 to the base (`p.fnWasmR0Base+argList[k]*8-8`) names an unrelated slot.
//   x64-scratch-not-argument — while the arguments of a call are being loaded, a register written by name in a
//       template (a scratch register) is not one of the ABI's argument registers: those are being filled, in order, by
//       the same loop (xmm4 is the fifth float argument).
//   x64-elem-offset-scaled — the byte displacement of table entry offset+j is (offset + j) * slot size.
//   x64-caller-area-store-abi — a store of a named register into the caller's area ([rbp+16…]) in the prologue is made
//       only for the Windows ABI, where that area is the register home space; under the Unix ABI it holds the
//       stack-passed parameters.

var reDestReg = regexp.MustCompile(`^\s*(mov|movss|movsd|movq|movd|lea|movzx|movsx|movsxd|cvt\w+)\s+([a-z0-9]+)\s*,`)

func c02CallPaths(c *Ctx, p *Prog, pk *packages.Package) {
	info := pk.TypesInfo
	const rA, rS, rE, rP = "x64-slot-address-form", "x64-scratch-not-argument", "x64-elem-offset-scaled", "x64-caller-area-store-abi"
	argRegs := map[string]bool{"rdi": true, "rsi": true, "rdx": true, "rcx": true, "r8": true, "r9": true, "edi": true, "esi": true, "edx": true, "ecx": true, "r8d": true, "r9d": true}
	for i := 0; i < 8; i++ {
		argRegs[fmt.Sprintf("xmm%d", i)] = true
	}
	nA, nS, nE, nP := 0, 0, 0, 0
	seq := map[string]int{}
	for _, name := range sortedDeclNames(pk) {
		fd := AllFuncDecls(pk)[name]
		if fd.Body == nil {
			continue
		}
		// (a) slot addresses
		ast.Inspect(fd.Body, func(nd ast.Node) bool {
			be, ok := nd.(*ast.BinaryExpr)
			if !ok {
				return true
			}
			// leftmost operand of an additive chain
			root := be
			for {
				l, ok := ast.Unparen(root.X).(*ast.BinaryExpr)
				if !ok || (l.Op != token.ADD && l.Op != token.SUB) {
					break
				}
				root = l
			}
			if !strings.HasSuffix(types.ExprString(ast.Unparen(root.X)), ".fnWasmR0Base") || (root.Op != token.ADD && root.Op != token.SUB) {
				return true
			}
			// only the full chains `base ∓ n*8 - 8`
			if _, isMul := ast.Unparen(root.Y).(*ast.BinaryExpr); !isMul {
				return true
			}
			nA++
			key := fmt.Sprintf("%s: %s", name, types.ExprString(be))
			seq[key]++
			if seq[key] > 1 {
				key = fmt.Sprintf("%s #%d", key, seq[key])
			}
			c.Check(root.Op == token.SUB, rA, key, p.Pos(be.Pos()), "R0Base - n*8 - 8",
				"the slot address is computed as `"+types.ExprString(be)+"`: the operand stack grows downwards from R0Base, slot n is at R0Base - n*8 - 8; adding n*8 reads an unrelated location")
			return false
		})
		// (b) scratch registers in argument loops
		ast.Inspect(fd.Body, func(nd ast.Node) bool {
			rs, ok := nd.(*ast.RangeStmt)
			if !ok || !strings.HasSuffix(types.ExprString(rs.X), ".Params") {
				return true
			}
			// an argument-marshalling loop mentions the callee's native argument registers
			if !strings.Contains(nodeString(p, rs.Body), ".Type.Args[") {
				return true
			}
			for _, call := range callsIn(info, rs.Body.List) {
				if len(call.Args) < 2 {
					continue
				}
				tv, ok := info.Types[call.Args[1]]
				if !ok || tv.Value == nil || tv.Value.Kind() != constant.String {
					continue
				}
				f := constant.StringVal(tv.Value)
				m := reDestReg.FindStringSubmatch(f)
				if m == nil {
					continue
				}
				nS++
				key := fmt.Sprintf("%s: %s", name, strings.TrimSpace(f))
				seq[key]++
				if seq[key] > 1 {
					key = fmt.Sprintf("%s #%d", key, seq[key])
				}
				c.Check(!argRegs[m[2]], rS, key, p.Pos(call.Pos()), m[2]+" is not an argument register",
					"while the arguments of the call are loaded the template writes "+m[2]+" by name: it is one of the ABI's argument registers, which this loop fills in order, so an argument that was already loaded is overwritten (a ninth float argument moved through xmm4 replaces the fifth)")
			}
			return true
		})
		// (c) element offsets
		ast.Inspect(fd.Body, func(nd ast.Node) bool {
			as, ok := nd.(*ast.AssignStmt)
			if !ok || len(as.Rhs) != 1 || !strings.Contains(types.ExprString(as.Rhs[0]), ".Offset") || !strings.Contains(types.ExprString(as.Rhs[0]), "IntSize") {
				return true
			}
			nE++
			good := false
			if mul, ok := ast.Unparen(as.Rhs[0]).(*ast.BinaryExpr); ok && mul.Op == token.MUL {
				a, b := types.ExprString(mul.X), types.ExprString(mul.Y)
				if (strings.Contains(a, ".Offset") && b == "IntSize") || (strings.Contains(b, ".Offset") && a == "IntSize") {
					good = true
				}
			}
			if add, ok := ast.Unparen(as.Rhs[0]).(*ast.BinaryExpr); ok && add.Op == token.ADD {
				// offset*IntSize + j*IntSize
				a, b := types.ExprString(add.X), types.ExprString(add.Y)
				if strings.Contains(a, "IntSize") && strings.Contains(b, "IntSize") {
					good = true
				}
			}
			c.Check(good, rE, name+": "+types.ExprString(as.Rhs[0]), p.Pos(as.Pos()), "(offset + j) * IntSize",
				"the displacement of a table entry is computed as `"+types.ExprString(as.Rhs[0])+"`: the segment's offset counts entries, not bytes, and must be scaled by the entry size together with j — with offset 1 the function index lands one byte into slot 0 and slot 1 stays empty")
			return true
		})
		// (d) stores into the caller's area in the prologue
		var walk func(list []ast.Stmt, underWindows bool)
		walk = func(list []ast.Stmt, underWindows bool) {
			for _, s := range list {
				switch x := s.(type) {
				case *ast.IfStmt:
					w := underWindows || strings.Contains(types.ExprString(x.Cond), "X64Windows")
					walk(x.Body.List, w)
					if eb, ok := x.Else.(*ast.BlockStmt); ok {
						walk(eb.List, underWindows)
					}
				case *ast.BlockStmt:
					walk(x.List, underWindows)
				case *ast.ExprStmt:
					call, ok := x.X.(*ast.CallExpr)
					if !ok || len(call.Args) < 3 {
						continue
					}
					tv, ok := info.Types[call.Args[1]]
					if !ok || tv.Value == nil || tv.Value.Kind() != constant.String {
						continue
					}
					f := constant.StringVal(tv.Value)
					if !strings.Contains(f, "mov qword ptr [rbp%+d], r") {
						continue
					}
					v, ok := constIntOf(info, call.Args[2])
					if !ok || v < 16 {
						continue
					}
					nP++
					c.Check(underWindows, rP, name+": "+strings.TrimSpace(f), p.Pos(call.Pos()), "made for the Windows ABI only",
						fmt.Sprintf("the prologue stores a register into [rbp+%d], the caller's area, whatever the ABI: under the Unix ABI that is a stack-passed parameter, which is overwritten before the function reads it", v))
				}
			}
		}
		walk(fd.Body.List, false)
	}
	c.Min(rA, "operand-slot address expressions", nA, 300)
	c.Min(rS, "named destination registers in argument loops", nS, 6)
	c.Min(rE, "table entry displacements", nE, 1)
	c.Min(rP, "prologue stores into the caller's area", nP, 1)
	_ = packages.NeedName
}
