package main

import (
	"go/ast"
	"go/types"
	"strings"

	"golang.org/x/tools/go/packages"
)

// C01 rule named-results-around-defers: `return e` in a function with named results stores e into the named results,
// runs the deferred calls, and then returns the named results as they are *after* the deferred calls ran (a deferred
// closure may change them). In the SSA builder's lowering of a return statement: the stores into fn.namedResults come
// before RunDefers, the reload of fn.namedResults comes after it, and both depend only on the function having named
// results — not on how the return statement was written.

func c01NamedResults(c *Ctx, p *Prog, sp *packages.Package) {
	const rule = "named-results-around-defers"
	if sp == nil {
		c.Undecided(rule, "anchor:internal/ssa", "", "package not loaded")
		return
	}
	info := sp.TypesInfo
	fd := p.MustFunc(rule, sp, "builder.stmt")
	if fd == nil {
		return
	}
	var arm *ast.CaseClause
	ast.Inspect(fd.Body, func(n ast.Node) bool {
		cc, ok := n.(*ast.CaseClause)
		if !ok || arm != nil {
			return true
		}
		for _, e := range cc.List {
			if strings.HasSuffix(types.ExprString(e), "ast.ReturnStmt") {
				arm = cc
			}
		}
		return true
	})
	if arm == nil {
		c.Undecided(rule, "builder.stmt: return statement", p.Pos(fd.Pos()), "the arm for *ast.ReturnStmt was not found")
		return
	}
	isNamedResults := func(e ast.Expr) bool {
		se, ok := ast.Unparen(e).(*ast.SelectorExpr)
		return ok && se.Sel.Name == "namedResults"
	}
	// a condition that depends only on fn.namedResults
	onlyNamedResults := func(e ast.Expr) bool {
		ok, saw := true, false
		ast.Inspect(e, func(n ast.Node) bool {
			switch x := n.(type) {
			case *ast.SelectorExpr:
				if isNamedResults(x) {
					saw = true
					return false
				}
				ok = false
			case *ast.Ident:
				if o := info.ObjectOf(x); o != nil {
					if _, isNil := o.(*types.Nil); isNil {
						return true
					}
					if b, isBuiltin := o.(*types.Builtin); isBuiltin && b.Name() == "len" {
						return true
					}
				}
				ok = false
			case *ast.CallExpr:
				if id, isID := x.Fun.(*ast.Ident); !isID || id.Name != "len" {
					ok = false
				}
			}
			return true
		})
		return ok && saw
	}
	idxDefers, idxStore, idxReload, idxReturn := -1, -1, -1, -1
	storeCondOK, reloadCondOK := false, false
	for i, s := range arm.Body {
		// fn.emit(new(RunDefers))
		ast.Inspect(s, func(n ast.Node) bool {
			if call, ok := n.(*ast.CallExpr); ok && types.ExprString(call.Fun) == "new" && len(call.Args) == 1 && types.ExprString(call.Args[0]) == "RunDefers" {
				if _, isIf := s.(*ast.IfStmt); !isIf && idxDefers < 0 {
					idxDefers = i
				}
			}
			if cl, ok := n.(*ast.CompositeLit); ok && types.ExprString(cl.Type) == "Return" && idxReturn < 0 {
				idxReturn = i
			}
			return true
		})
		ifs, ok := s.(*ast.IfStmt)
		if !ok {
			continue
		}
		hasStore, hasLoad := false, false
		ast.Inspect(ifs.Body, func(n ast.Node) bool {
			call, ok := n.(*ast.CallExpr)
			if !ok {
				return true
			}
			switch types.ExprString(call.Fun) {
			case "emitStore":
				if len(call.Args) >= 2 {
					if ix, isIx := call.Args[1].(*ast.IndexExpr); isIx && isNamedResults(ix.X) {
						hasStore = true
					}
				}
			case "emitLoad":
				hasLoad = true
			}
			return true
		})
		if hasStore && idxStore < 0 {
			idxStore, storeCondOK = i, onlyNamedResults(ifs.Cond)
		}
		if hasLoad && idxReload < 0 {
			// the loop ranges over fn.namedResults
			ranges := false
			ast.Inspect(ifs.Body, func(n ast.Node) bool {
				if rs, ok := n.(*ast.RangeStmt); ok && isNamedResults(rs.X) {
					ranges = true
				}
				return true
			})
			if ranges {
				idxReload, reloadCondOK = i, onlyNamedResults(ifs.Cond)
			}
		}
	}
	var probs []string
	switch {
	case idxDefers < 0:
		probs = append(probs, "no unconditional RunDefers is emitted")
	case idxStore < 0 || idxStore > idxDefers:
		probs = append(probs, "the return operands are not stored into the named results before the deferred calls run")
	case idxReload < 0 || idxReload < idxDefers:
		probs = append(probs, "the named results are not reloaded after the deferred calls ran")
	case idxReturn < idxReload:
		probs = append(probs, "the Return instruction is built before the reload")
	}
	if idxStore >= 0 && !storeCondOK {
		probs = append(probs, "the store into the named results depends on more than the function having named results")
	}
	if idxReload >= 0 && !reloadCondOK {
		probs = append(probs, "the reload of the named results depends on more than the function having named results (e.g. on the return statement having no operands): with operands the values computed before the deferred calls are returned and a deferred closure's writes to a named result are lost")
	}
	c.Check(len(probs) == 0, rule, "builder.stmt: return statement", p.Pos(arm.Pos()), "store named results; RunDefers; reload named results; Return",
		"lowering of `return`: "+strings.Join(probs, "; "))
}
