package main

import (
	"go/ast"
	"go/token"
	"go/types"
	"regexp"
	"strings"

	"golang.org/x/tools/go/packages"
)

// C03 rule c-memory-grow-no-wrap (added after a defect was found on the unchanged tree: the C test for memory.grow was
// `memory_size + R.i32 <= max` in int32_t arithmetic; a delta with the top bit set made the sum *smaller* than the
// current size, so memory.grow 0xFFFFFFFF "succeeded" and shrank the memory where WebAssembly answers -1).
//
// The delta of memory.grow is an unsigned 32-bit number. The condition under which the C template grows the memory
// must not be able to wrap: either it contains no addition and reads the delta through an unsigned cast (delta
// compared with the room that is left), or every addend of its sum is widened to 64 bits first.

var reCCast64 = regexp.MustCompile(`\((u?int64_t|unsigned long long|long long)\)`)

func c03MemoryGrow(c *Ctx, p *Prog, by map[string]TemplArm) {
	const rule = "c-memory-grow-no-wrap"
	arm, ok := by["INS_MEMORY_GROW"]
	if !ok || len(arm.Variants) == 0 {
		c.Undecided(rule, "memory.grow", "", "template arm not found")
		return
	}
	loc := p.Pos(arm.Arm.Clause.Pos())
	v := arm.Variants[0]
	delta := v.varOf("pop", 0)
	var cond string
	var args []string
	for _, l := range v.Lines {
		f := strings.TrimSpace(strings.ReplaceAll(l.Format, "%s", ""))
		if strings.HasPrefix(f, "if(") || strings.HasPrefix(f, "if (") {
			cond, args = l.Format, l.Args
			break
		}
	}
	if cond == "" {
		c.Undecided(rule, "memory.grow", loc, "no `if(` line in the template")
		return
	}
	// the register verb that carries the delta: the k-th %d is args[k]
	usesDelta := false
	for _, a := range args {
		if a == delta {
			usesDelta = true
		}
	}
	var problems []string
	if !usesDelta {
		problems = append(problems, "the condition does not read the operand register")
	}
	body := cond[strings.Index(cond, "if"):]
	if strings.Contains(body, "+") {
		// every addend widened
		parts := strings.Split(body[strings.Index(body, "(")+1:], "+")
		for _, part := range parts {
			if !reCCast64.MatchString(part) {
				problems = append(problems, "the condition adds the delta to the current size in 32-bit arithmetic (`"+strings.TrimSpace(body)+"`): a delta with the top bit set wraps the sum below the current size, the test passes and the memory shrinks, where WebAssembly's memory.grow fails with -1")
				break
			}
		}
	} else if !strings.Contains(body, "(uint32_t)R%d.i32") && !reCCast64.MatchString(body) {
		problems = append(problems, "the delta is compared as a signed 32-bit number (`"+strings.TrimSpace(body)+"`): a delta with the top bit set is negative and passes every upper bound")
	}
	c.Check(len(problems) == 0, rule, "memory.grow", loc, "the delta is compared unsigned with the room left (no sum that can wrap)", strings.Join(problems, "; "))
}

// C02 rule engine-grow-no-wrap: the embedded engine is the reference the native build is compared with. Its
// MemoryInstance.Grow adds the uint32 delta to the current page count; the test against the maximum must also fail
// when that sum wrapped (sum < addend), or the sum must be computed in 64 bits.
func c02EngineGrow(c *Ctx, p *Prog, pk *packages.Package) {
	const rule = "engine-grow-no-wrap"
	info := pk.TypesInfo
	fd := p.MustFunc(rule, pk, "MemoryInstance.Grow")
	if fd == nil {
		return
	}
	is32 := func(e ast.Expr) bool {
		t := info.TypeOf(e)
		if t == nil {
			return false
		}
		b, ok := t.Underlying().(*types.Basic)
		return ok && (b.Kind() == types.Uint32 || b.Kind() == types.Int32)
	}
	// sums of two 32-bit values assigned to a local
	type sum struct {
		obj  types.Object
		x, y string
		pos  token.Pos
	}
	var sums []sum
	ast.Inspect(fd.Body, func(n ast.Node) bool {
		as, ok := n.(*ast.AssignStmt)
		if !ok || len(as.Lhs) != 1 || len(as.Rhs) != 1 {
			return true
		}
		be, ok := ast.Unparen(as.Rhs[0]).(*ast.BinaryExpr)
		if !ok || be.Op != token.ADD || !is32(be) {
			return true
		}
		if id, ok := as.Lhs[0].(*ast.Ident); ok {
			sums = append(sums, sum{info.ObjectOf(id), types.ExprString(be.X), types.ExprString(be.Y), as.Pos()})
		}
		return true
	})
	n := 0
	for _, s := range sums {
		// the if that compares the sum with the maximum
		ast.Inspect(fd.Body, func(nd ast.Node) bool {
			ifs, ok := nd.(*ast.IfStmt)
			if !ok {
				return true
			}
			cmpMax, guard := false, false
			for _, d := range disjuncts(ifs.Cond) {
				be, ok := ast.Unparen(d).(*ast.BinaryExpr)
				if !ok {
					continue
				}
				l, r := ast.Unparen(be.X), ast.Unparen(be.Y)
				lid, _ := l.(*ast.Ident)
				rid, _ := r.(*ast.Ident)
				isSum := func(id *ast.Ident) bool { return id != nil && info.ObjectOf(id) == s.obj }
				switch {
				case be.Op == token.GTR && isSum(lid) && strings.HasSuffix(types.ExprString(r), ".Max"),
					be.Op == token.LSS && isSum(rid) && strings.HasSuffix(types.ExprString(l), ".Max"):
					cmpMax = true
				case be.Op == token.LSS && isSum(lid) && (types.ExprString(r) == s.x || types.ExprString(r) == s.y),
					be.Op == token.GTR && isSum(rid) && (types.ExprString(l) == s.x || types.ExprString(l) == s.y):
					guard = true
				}
			}
			if !cmpMax {
				return true
			}
			n++
			c.Check(guard, rule, "MemoryInstance.Grow: "+s.obj.Name()+" = "+s.x+" + "+s.y, p.Pos(ifs.Pos()), "the test against the maximum also fails when the sum wrapped",
				"MemoryInstance.Grow computes "+s.x+" + "+s.y+" in 32 bits and only compares the sum with the maximum: for a delta close to 2^32 the sum wraps below the current size, the test passes and the memory is cut down to the wrapped size (memory.grow 0xFFFFFFFF on two pages leaves one page and reports success)")
			return true
		})
	}
	c.Min(rule, "32-bit page sums compared with the maximum", n, 1)
}

func disjuncts(e ast.Expr) []ast.Expr {
	if be, ok := ast.Unparen(e).(*ast.BinaryExpr); ok && be.Op == token.LOR {
		return append(disjuncts(be.X), disjuncts(be.Y)...)
	}
	return []ast.Expr{e}
}
