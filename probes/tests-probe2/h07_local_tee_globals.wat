(module
;;#prelude
  (global $gi (mut i32) (i32.const -5))
  (global $gl (mut i64) (i64.const -5000000000))
  (global $gf (mut f32) (f32.const 1.5))
  (global $ci i32 (i32.const 77))
  (global $cl i64 (i64.const 9223372036854775807))
  (func $main (export "main") (local $a i32) (local $b i64) (local $c f32) (local $d f64)
    i64.const -1 i64.const -1 drop drop
    i32.const 5 local.tee $a local.get $a i32.add call $p32
    i64.const -6 local.tee $b local.get $b i64.mul call $p64
    f32.const 1.5 local.tee $c local.get $c f32.add i32.reinterpret_f32 call $p32
    f64.const 2.5 local.tee $d local.get $d f64.mul i64.reinterpret_f64 call $p64
    global.get $gi call $p32
    global.get $gl call $p64
    global.get $gf i32.reinterpret_f32 call $p32
    global.get $ci call $p32
    global.get $cl call $p64
    global.get $gi i32.const 1 i32.sub global.set $gi
    global.get $gl i64.const 2 i64.mul global.set $gl
    global.get $gf f32.const 2 f32.mul global.set $gf
    global.get $gi call $p32
    global.get $gl call $p64
    global.get $gf i32.reinterpret_f32 call $p32
  )
)
