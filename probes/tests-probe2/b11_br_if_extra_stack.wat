(module
;;#prelude
  (func $main (export "main")
    block (result i32)
      i32.const 1 i32.const 2 i32.const 1 br_if 0
      drop drop i32.const 5
    end
    call $p32
  )
)
