(module
;;#prelude
  (global $g f32 (f32.const 1.5e-10))
  (func $main (export "main") global.get $g i32.reinterpret_f32 call $p32)
)
