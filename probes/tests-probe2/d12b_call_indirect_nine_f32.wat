(module
;;#prelude
  (type $t (func (param f32 f32 f32 f32 f32 f32 f32 f32 f32) (result f32)))
  (table 1 funcref) (elem (i32.const 0) $f)
  (func $f (param f32 f32 f32 f32 f32 f32 f32 f32 f32) (result f32) local.get 4)
  (func $main (export "main")
    f32.const 1 f32.const 2 f32.const 3 f32.const 4 f32.const 5 f32.const 6 f32.const 7 f32.const 8 f32.const 9
    i32.const 0 call_indirect (type $t) i32.trunc_f32_s call $p32)
)
