(module
;;#prelude
  (func $a (result i32 i32) i32.const -1 i32.const 2)
  (func $b (result i64 i64) i64.const -3 i64.const 4000000000000)
  (func $c (result i32 f64) i32.const 5 f64.const 6.5)
  (func $d (result f32 i64) f32.const 7.5 i64.const -8)
  (func $e (result f32 f64) f32.const 9.5 f64.const -10.5)
  (func $f (result f64 i32) f64.const 11.5 i32.const -12)
  (func $main (export "main")
    i64.const -1 i64.const -1 drop drop
    call $a call $p32 call $p32
    call $b call $p64 call $p64
    call $c i64.reinterpret_f64 call $p64 call $p32
    call $d call $p64 i32.reinterpret_f32 call $p32
    call $e i64.reinterpret_f64 call $p64 i32.reinterpret_f32 call $p32
    call $f call $p32 i64.reinterpret_f64 call $p64
  )
)
