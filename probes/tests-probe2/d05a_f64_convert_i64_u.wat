(module
;;#prelude
  (func $main (export "main")
    i64.const -1 f64.convert_i64_u i64.reinterpret_f64 call $p64)
)
