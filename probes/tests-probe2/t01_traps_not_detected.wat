(module
;;#prelude
  (func $main (export "main")
    i32.const 131072 i32.load call $p32     ;; out of bounds: only 1 of 4 pages is live
    i32.const 67 call $print_rune
  )
)
