(module
;;#prelude
  (func $dirty (local $a i64) (local $b f64) (local $c i64)
    i64.const -1 local.set $a
    i64.const -1 f64.reinterpret_i64 local.set $b
    i64.const -1 local.set $c
    i64.const -1 i64.const -1 i64.const -1 i64.const -1 drop drop drop drop
  )
  (func $clean (local $a i64) (local $b f64) (local $c i64)
    local.get $a call $p64
    local.get $b i64.reinterpret_f64 call $p64
    local.get $c call $p64
  )
  (func $main (export "main")
    call $dirty
    call $clean
  )
)
