(module
;;#prelude

  (func $pf32 (param $v f32)
    local.get $v local.get $v f32.ne
    if i32.const -7777 call $p32 else local.get $v i32.reinterpret_f32 call $p32 end)
  (func $pf64 (param $v f64)
    local.get $v local.get $v f64.ne
    if i64.const -7777 call $p64 else local.get $v i64.reinterpret_f64 call $p64 end)
  (func $f (param $a i32) (param $b i64) (param $c f32) (param $d f64) (param $e i32) (param $f i64) (param $g f32) (param $h f64)
    (local $t32 i32) (local $t64 i64) (local $tf32 f32) (local $tf64 f64)
    local.get $e if (result i64) local.get $f else i64.const 4294967296 end local.get $f i64.const 9223372036854775807 i64.sub i64.rotl call $p64
    local.get $e local.get $e local.get $e i32.shl i32.shl call $p32
    i32.const 255 f64.convert_i32_u local.get $d local.get $h f64.mul f64.div local.get $g f64.promote_f32 i64.const -1 drop f64.const -0 f64.sub i64.const -1 drop i32.const 1 i32.const -1 i32.const 1 i32.or i32.rem_u select f64.const 16777217 f64.sub local.get $g f32.const 1e10 f32.add local.get $h f32.demote_f64 f32.mul f64.promote_f32 block (result f64) local.get $h f64.const 1 f64.sub local.get $a i32.const 255 i32.shr_u br_if 0 drop local.get $h f64.const 2.5 f64.add end local.get $b f64.convert_i64_s local.get $h f64.ceil f64.mul f64.sub f64.mul f64.sub call $pf64
    local.get $h f64.neg f64.const 1 local.get $h f64.div f64.div call $pf64
    local.get $c local.get $g f32.mul local.tee $tf32 drop local.get $tf32 local.get $h f32.demote_f64 local.tee $tf32 drop local.get $tf32 f32.div call $pf32
    f64.const -0 local.tee $tf64 drop local.get $tf64 f32.demote_f64 call $pf32
    i64.const -9223372036854775808 i64.const 9223372036854775807 i64.shl local.tee $t64 drop local.get $t64 local.get $b i64.const -4294967296 i64.mul local.get $b local.get $f i64.shl i64.shr_s i64.const 63 i64.const 81985529216486895 i64.lt_u local.get $a local.get $a i32.le_s i32.add select f64.convert_i64_s f32.demote_f64 call $pf32
    local.get $c local.get $c f32.le if (result f64) i64.const -1 drop f64.const -0 else local.get $d f64.const 0.5 i32.const 2147483647 select end call $pf64
    i64.const -1 drop i32.const 1 if (result f64) local.get $b f64.convert_i64_s else i64.const -1 drop local.get $h end f32.demote_f64 f64.const 1e10 local.get $d f64.mul f32.demote_f64 block (result f32) f32.const 0.5 f32.const 0.5 f32.add local.get $e i32.const 1 i32.or br_if 0 drop local.get $c end f32.sub f32.eq call $p32
    local.get $a i64.extend_i32_s f32.convert_i64_s local.get $c local.get $c i32.const -2147483648 select f32.ceil f32.add call $pf32
    local.get $a i32.const 65535 i32.gt_u if (result i32) local.get $e local.tee $t32 drop local.get $t32 else i32.const 31 i32.const 0 i32.xor end local.get $g local.get $c local.get $a select f64.const 3.25 f32.demote_f64 f32.le f64.const 1e10 f64.const 1e10 f64.lt local.get $e local.tee $t32 drop local.get $t32 i32.const 1 i32.or i32.rem_u select local.tee $t32 drop local.get $t32 local.get $e local.get $a i64.extend_i32_u local.get $b i64.const 63 i64.sub i64.shr_u i64.const 81985529216486895 i64.const -9223372036854775808 local.get $e select i32.const 0 i64.extend_i32_u i64.and i64.gt_u local.get $e if (result i64) local.get $f local.get $b i64.xor else local.get $e i64.extend_i32_s end local.get $a i64.extend_i32_s local.get $b i64.const 0 i64.or i64.or i64.gt_s i32.add select call $p32
    block (result i32) local.get $e if (result i32) i32.const -1 else local.get $a end i32.const 2 local.get $a i32.and br_if 0 drop f32.const -1.5 f32.const 2.5 f32.ge end call $p32
  )
  (func $main (export "main")
    i32.const 7 i64.const -3 f32.const 1.5 f64.const -2.25 i32.const -2147483648 i64.const 4294967301 f32.const 1e-3 f64.const 123456789.5 call $f
    i32.const -1 i64.const 9223372036854775807 f32.const -0 f64.const 0.1 i32.const 33 i64.const -9223372036854775808 f32.const 3.4e38 f64.const -1e300 call $f
  )
)
