(module
;;#prelude
  (func $f (param f32 f32 f32 f32 f32 f32 f32 f32) (result f32)
    local.get 0 local.get 1 f32.const 2 f32.mul f32.add
    local.get 2 f32.const 3 f32.mul f32.add
    local.get 3 f32.const 4 f32.mul f32.add
    local.get 4 f32.const 5 f32.mul f32.add
    local.get 5 f32.const 6 f32.mul f32.add
    local.get 6 f32.const 7 f32.mul f32.add
    local.get 7 f32.const 8 f32.mul f32.add)
  (func $main (export "main")
    f32.const 1 f32.const 2 f32.const 3 f32.const 4 f32.const 5 f32.const 6 f32.const 7 f32.const 8
    call $f i32.trunc_f32_s call $p32
  )
)
