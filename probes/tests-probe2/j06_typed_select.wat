(module
;;#prelude
  (func $main (export "main")
    i64.const 1 i64.const 2 i32.const 0 select (result i64) call $p64
  )
)
