(module
;;#prelude
  (func $f (result i32) (local $x i32)
    i32.const 5 local.set $x local.get 0)
  (func $main (export "main") call $f call $p32)
)
