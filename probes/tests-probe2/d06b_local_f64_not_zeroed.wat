(module
;;#prelude
  (func $dirty (local $a i64) i64.const -1 local.set $a)
  (func $clean (local $a f64) local.get $a f64.const 0 f64.eq call $p32)
  (func $main (export "main") call $dirty call $clean)
)
