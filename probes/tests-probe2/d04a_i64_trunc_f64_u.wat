(module
;;#prelude
  (func $main (export "main")
    f64.const 18000000000000000000 i64.trunc_f64_u call $p64)
)
