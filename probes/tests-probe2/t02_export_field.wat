(module
;;#prelude
  (export "main" (func $main))
  (func $main
    i64.const -1 drop
    i32.const 7 call $p32
    i64.const -9223372036854775808 call $p64
    i32.const 3 call $proc_exit
  )
)
