(module
;;#prelude
  (data (i32.const 4096) "The quick brown fox jumps over the lazy dog")
  (func $mktab (local $n i32) (local $c i32) (local $k i32)
    loop $outer
      local.get $n local.set $c
      i32.const 0 local.set $k
      loop $inner
        local.get $c i32.const 1 i32.and
        if
          local.get $c i32.const 1 i32.shr_u i32.const -306674912 i32.xor local.set $c
        else
          local.get $c i32.const 1 i32.shr_u local.set $c
        end
        local.get $k i32.const 1 i32.add local.tee $k i32.const 8 i32.lt_u br_if $inner
      end
      local.get $n i32.const 2 i32.shl local.get $c i32.store
      local.get $n i32.const 1 i32.add local.tee $n i32.const 256 i32.lt_u br_if $outer
    end)
  (func $crc (param $p i32) (param $len i32) (result i32) (local $c i32)
    i32.const -1 local.set $c
    block $done
      loop $l
        local.get $len i32.eqz br_if $done
        local.get $c local.get $p i32.load8_u i32.xor i32.const 255 i32.and i32.const 2 i32.shl i32.load
        local.get $c i32.const 8 i32.shr_u i32.xor local.set $c
        local.get $p i32.const 1 i32.add local.set $p
        local.get $len i32.const 1 i32.sub local.set $len
        br $l
      end
    end
    local.get $c i32.const -1 i32.xor)
  (func $main (export "main")
    call $mktab
    i32.const 4096 i32.const 43 call $crc call $p32
    i32.const 4096 i32.const 43 call $crc i64.extend_i32_u call $p64
  )
)
