(module
;;#prelude
  (func $main (export "main")
    block $d
      i32.const 3
      br_table $d
    end
    i32.const 66 call $print_rune)
)
