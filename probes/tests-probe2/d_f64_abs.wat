(module
;;#prelude

  (func $pf32 (param $v f32)
    local.get $v local.get $v f32.ne
    if i32.const -7777 call $p32 else local.get $v i32.reinterpret_f32 call $p32 end)
  (func $pf64 (param $v f64)
    local.get $v local.get $v f64.ne
    if i64.const -7777 call $p64 else local.get $v i64.reinterpret_f64 call $p64 end)
  (func $nan32 (result f32) f32.const 0 f32.const 0 f32.div)
  (func $nan64 (result f64) f64.const 0 f64.const 0 f64.div)
  (func $inf32 (result f32) f32.const 1 f32.const 0 f32.div)
  (func $inf64 (result f64) f64.const 1 f64.const 0 f64.div)
  (func $op (param $a f64) (result f64)
    i64.const -1 i64.const -1 i64.const -1 drop drop drop
    local.get $a f64.abs)
  (func $main (export "main")
    f64.const 0 call $op call $pf64
    f64.const -0 call $op call $pf64
    f64.const 1 call $op call $pf64
    f64.const -1 call $op call $pf64
    f64.const 0.5 call $op call $pf64
    f64.const -0.5 call $op call $pf64
    f64.const 1.5 call $op call $pf64
    f64.const 2.5 call $op call $pf64
    f64.const -2.5 call $op call $pf64
    f64.const 3.5 call $op call $pf64
    f64.const 0.49999999999999994 call $op call $pf64
    f64.const 4503599627370497 call $op call $pf64
    f64.const -4503599627370497 call $op call $pf64
    f64.const 9007199254740992 call $op call $pf64
    f64.const 1.7976931348623157e308 call $op call $pf64
    f64.const 5e-324 call $op call $pf64
    f64.const -5e-324 call $op call $pf64
    f64.const 2.2250738585072014e-308 call $op call $pf64
    f64.const 123456.789 call $op call $pf64
    call $inf64 call $op call $pf64
    call $inf64 f64.neg call $op call $pf64
    call $nan64 call $op call $pf64
  )
)
