(module
;;#prelude
  (func $a (result i32 f64 i64 f32) i32.const -1 f64.const 2.5 i64.const -3000000000 f32.const 4.5)
  (func $b (param i32) (result f32 i32 f64 i64) f32.const 1.5 local.get 0 f64.const -2.5 i64.const 4)
  (func $main (export "main")
    i64.const -1 i64.const -1 i64.const -1 i64.const -1 drop drop drop drop
    call $a i32.reinterpret_f32 call $p32 call $p64 i64.reinterpret_f64 call $p64 call $p32
    i32.const 9 call $b call $p64 i64.reinterpret_f64 call $p64 call $p32 i32.reinterpret_f32 call $p32
  )
)
