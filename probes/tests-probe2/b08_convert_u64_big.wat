(module
;;#prelude
  (func $main (export "main")
    i64.const -1 f64.convert_i64_u i64.reinterpret_f64 call $p64
    i64.const -1 f32.convert_i64_u i32.reinterpret_f32 call $p32
    i64.const -9223372036854775808 f64.convert_i64_u i64.reinterpret_f64 call $p64
    i64.const -9223372036854774783 f64.convert_i64_u i64.reinterpret_f64 call $p64
    i32.const -1 f64.convert_i32_u i64.reinterpret_f64 call $p64
    i32.const -1 f32.convert_i32_u i32.reinterpret_f32 call $p32
  )
)
