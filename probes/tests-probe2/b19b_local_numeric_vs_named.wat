(module
;;#prelude
  (func $f (param $p i32) (result i32) (local $x i32) (local $y i32)
    i32.const 5 local.set $x
    i32.const 6 local.set $y
    local.get 1 i32.const 10 i32.mul local.get 2 i32.add)
  (func $main (export "main")
    i32.const 1 call $f call $p32
  )
)
