(module
;;#prelude

  (func $pf32 (param $v f32)
    local.get $v local.get $v f32.ne
    if i32.const -7777 call $p32 else local.get $v i32.reinterpret_f32 call $p32 end)
  (func $pf64 (param $v f64)
    local.get $v local.get $v f64.ne
    if i64.const -7777 call $p64 else local.get $v i64.reinterpret_f64 call $p64 end)
  (func $f (param $a i32) (param $b i64) (param $c f32) (param $d f64) (param $e i32) (param $f i64) (param $g f32) (param $h f64)
    (local $t32 i32) (local $t64 i64) (local $tf32 f32) (local $tf64 f64)
    local.get $g local.get $g f32.div f32.const 0.5 f32.sqrt f32.mul f32.floor block (result f32) local.get $c i32.const 305419896 br_if 0 drop local.get $c end local.get $e f32.convert_i32_u block (result i32) local.get $a i32.const 32 br_if 0 drop local.get $e end select f32.trunc f32.sub call $pf32
    local.get $a local.get $a i32.rotr if (result f32) local.get $c local.get $g f32.mul else f32.const 2.5 f32.const 2.5 f32.mul end i32.const 32 local.tee $t32 drop local.get $t32 if (result f32) f32.const -1e-10 else f32.const 2.5 f32.const -1e-10 i32.const 2 select end f32.le call $p32
    i64.const -1 drop local.get $d f64.const 0.5 f64.mul call $pf64
    f64.const -0 local.get $h f64.eq if (result f64) f64.const -1e-10 local.get $h f64.add else local.get $f f64.convert_i64_s end f64.const 1e10 f64.trunc f64.const 0.5 local.get $h f64.add f64.mul local.get $a local.get $a i32.shr_u local.get $f local.get $f i64.ge_u i32.const 1 i32.or i32.rem_u select f64.nearest call $pf64
    local.get $e local.get $a i32.rotr local.get $a i32.const -2147483648 i32.const 31 select i32.and call $p32
    local.get $b local.get $a i64.extend_i32_u i64.const -4294967296 i64.rotr i64.const 1 i64.or i64.div_u i32.wrap_i64 block (result i32) i64.const -1 i64.eqz f64.const 0.5 local.get $h f64.le i32.shl local.get $e local.get $a if (result i32) i32.const 32 else i32.const 2147483647 end i32.lt_s br_if 0 drop i32.const 0 if (result i32) i32.const -1 else local.get $a end i64.const 63 i64.eqz i32.or end local.get $e i32.const 0 i32.or local.get $a select i64.const -1 local.get $f i64.le_s local.tee $t32 drop local.get $t32 select call $p32
    local.get $e f64.convert_i32_u f32.const 0 f64.promote_f32 f64.mul call $pf64
    block (result i32) f32.const -0 f32.const -0 f32.lt if (result i32) i32.const 305419896 i32.const 2 local.get $a select else local.get $a i32.clz end local.get $a local.get $a i32.rotl if (result i32) i32.const 255 local.get $e i32.shl else local.get $a i32.const 305419896 i32.and end br_if 0 drop local.get $e if (result i64) local.get $b else local.get $f end local.get $b local.get $f i64.shr_s i64.lt_u end call $p32
    local.get $c f32.const -1.5 i32.const 32 select f32.const 1e10 f32.const -1.5 f32.div f32.add call $pf32
    f32.const 3.25 f32.const 16777217 f32.lt local.get $a local.get $e i32.xor i32.ge_s i32.const 255 local.get $e local.get $a i32.const 1 i32.or i32.rem_u i32.add i32.const 1 local.get $a i32.rotl i64.const -1 drop i32.const 31 i32.add select i32.const -1 local.get $f local.get $b i64.le_u i32.xor f32.const -1.5 f32.trunc f32.const 0.5 f32.sqrt f32.le i32.shr_u i32.ne local.tee $t32 drop local.get $t32 call $p32
    local.get $e block (result i32) i64.const -1 drop local.get $e i32.const 2 br_if 0 drop f32.const 0 local.get $g f32.lt end i32.add if (result i64) i64.const -1 drop i32.const -2147483648 i64.extend_i32_u i64.const -1 i64.const 1 i64.or i64.div_u else block (result i64) i64.const -9223372036854775808 i64.const -9223372036854775808 i64.shr_s i32.const -1 local.get $a i32.add br_if 0 drop local.get $b i64.const 4294967296 i64.xor end local.get $a if (result i64) i64.const 1 local.get $f i64.mul else local.get $f i64.const -9223372036854775808 i64.and end i64.rotr end call $p64
    local.get $d local.get $d f64.add f64.sqrt call $pf64
  )
  (func $main (export "main")
    i32.const 7 i64.const -3 f32.const 1.5 f64.const -2.25 i32.const -2147483648 i64.const 4294967301 f32.const 1e-3 f64.const 123456789.5 call $f
    i32.const -1 i64.const 9223372036854775807 f32.const -0 f64.const 0.1 i32.const 33 i64.const -9223372036854775808 f32.const 3.4e38 f64.const -1e300 call $f
  )
)
