(module
;;#prelude
  (global (mut i32) (i32.const 5))
  (global (mut i32) (i32.const 6))
  (func $main (export "main") global.get 1 call $p32)
)
