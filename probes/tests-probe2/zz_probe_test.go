package wat2x64_test

// Differential harness: native (wat2x64 + gcc -static -nostdlib) vs embedded wazero.
// Place in internal/native/wat2x64/ ; run with
//   PROBE_DIR=/tmp/probe2/out/tests go test ./internal/native/wat2x64 -run TestProbe -v
// Each *.wat file in PROBE_DIR is a full module; the line ";;#prelude" is
// replaced by the common prelude (imports, memory, $p64/$p32 helpers).

import (
	"bytes"
	"context"
	"fmt"
	"os"
	"os/exec"
	"path/filepath"
	"runtime/debug"
	"sort"
	"strings"
	"testing"
	"time"

	"wa-lang.org/wa/internal/3rdparty/wazero"
	"wa-lang.org/wa/internal/3rdparty/wazero/api"
	"wa-lang.org/wa/internal/3rdparty/wazero/sys"
	"wa-lang.org/wa/internal/native/abi"
	"wa-lang.org/wa/internal/native/wat2x64"
	"wa-lang.org/wa/internal/wat/watutil"
)

func probeNative(dir, name, wat string) (stdout string, exitCode int, fail string) {
	var asmBytes []byte
	func() {
		defer func() {
			if r := recover(); r != nil {
				fail = fmt.Sprintf("wat2x64 PANIC: %v\n%s", r, probePanicSite())
			}
		}()
		var err error
		_, asmBytes, err = wat2x64.Wat2X64(name+".wat", []byte(wat), abi.X64Unix, "")
		if err != nil {
			fail = fmt.Sprintf("wat2x64 error: %v", err)
		}
	}()
	if fail != "" {
		return
	}
	asmFile := filepath.Join(dir, name+".s")
	exeFile := filepath.Join(dir, name+".exe")
	os.WriteFile(asmFile, asmBytes, 0666)
	if s := os.Getenv("PROBE_KEEP_ASM"); s != "" {
		os.WriteFile(filepath.Join(s, name+".s"), asmBytes, 0666)
	}
	out, err := exec.Command("gcc", asmFile, "-o", exeFile, "-static", "-z", "noexecstack", "-nostdlib").CombinedOutput()
	if err != nil {
		lines := strings.Split(string(out), "\n")
		if len(lines) > 8 {
			lines = lines[:8]
		}
		fail = fmt.Sprintf("gcc error: %v\n%s", err, strings.Join(lines, "\n"))
		return
	}
	var buf bytes.Buffer
	runCtx, cancel := context.WithTimeout(context.Background(), 20*time.Second)
	defer cancel()
	cmd := exec.CommandContext(runCtx, exeFile)
	cmd.Stdout = &buf
	err = cmd.Run()
	if err != nil {
		if ee, ok := err.(*exec.ExitError); ok {
			if runCtx.Err() != nil {
				return buf.String() + "\n<native: timeout>", -1, ""
			}
			if ee.ExitCode() == -1 {
				return buf.String() + "\n<native: " + ee.String() + ">", -1, ""
			}
			return buf.String(), ee.ExitCode(), ""
		}
		fail = "run: " + err.Error()
		return
	}
	return buf.String(), 0, ""
}

func probeWasm(name, wat string) (stdout string, exitCode int, fail string) {
	wasmBytes, err := watutil.Wat2Wasm(name+".wat", []byte(wat))
	if err != nil {
		return "", 0, "wat2wasm: " + err.Error()
	}
	ctx := context.Background()
	rt := wazero.NewRuntime(ctx)
	defer rt.Close(ctx)

	var buf bytes.Buffer
	_, err = rt.NewHostModuleBuilder("syscall_linux").
		NewFunctionBuilder().
		WithFunc(func(ctx context.Context, m api.Module, v int64) { fmt.Fprint(&buf, v) }).
		Export("print_i64").
		NewFunctionBuilder().
		WithFunc(func(ctx context.Context, m api.Module, c int32) { buf.WriteByte(byte(c)) }).
		Export("print_rune").
		NewFunctionBuilder().
		WithFunc(func(ctx context.Context, m api.Module, ptr, n uint32) {
			b, _ := m.Memory().Read(ctx, ptr, n)
			buf.Write(b)
		}).
		Export("print_str").
		NewFunctionBuilder().
		WithFunc(func(ctx context.Context, m api.Module, code int32) {
			panic(sys.NewExitError(m.Name(), uint32(code)))
		}).
		Export("proc_exit").
		Instantiate(ctx, rt)
	if err != nil {
		return "", 0, "host module: " + err.Error()
	}

	mod, err := rt.InstantiateModuleFromBinary(ctx, wasmBytes)
	if err == nil {
		if fn := mod.ExportedFunction("main"); fn != nil {
			_, err = fn.Call(ctx)
		}
	}
	if err != nil {
		if ee, ok := err.(*sys.ExitError); ok {
			return buf.String(), int(ee.ExitCode()), ""
		}
		msg := err.Error()
		if i := strings.Index(msg, "\n"); i > 0 {
			msg = msg[:i]
		}
		_ = msg
		return buf.String(), 1, "" // trap: compare as exit status 1 (native runtime panic exits 1)
	}
	return buf.String(), 0, ""
}

// probePanicSite returns the wat2x64 source lines on the panicking stack.
func probePanicSite() string {
	var sb strings.Builder
	n := 0
	for _, ln := range strings.Split(string(debug.Stack()), "\n") {
		if strings.Contains(ln, "/wat2x64/") && !strings.Contains(ln, "zz_probe") && !strings.Contains(ln, "utils.go") {
			sb.WriteString("    at " + strings.TrimSpace(ln) + "\n")
			if n++; n >= 3 {
				break
			}
		}
	}
	return sb.String()
}

const probePrelude = `
	(import "syscall_linux" "print_i64" (func $print_i64 (param i64)))
	(import "syscall_linux" "print_rune" (func $print_rune (param i32)))
	(import "syscall_linux" "print_str" (func $print_str (param i32 i32)))
	(import "syscall_linux" "proc_exit" (func $proc_exit (param i32)))
	(memory 1 4)
	(func $p64 (param $v i64) local.get $v call $print_i64 i32.const 10 call $print_rune)
	(func $p32 (param $v i32) local.get $v i64.extend_i32_s call $print_i64 i32.const 10 call $print_rune)
`

func TestProbe(t *testing.T) {
	dir := os.Getenv("PROBE_DIR")
	if dir == "" {
		t.Skip("PROBE_DIR not set")
	}
	files, _ := filepath.Glob(filepath.Join(dir, "*.wat"))
	sort.Strings(files)
	only := os.Getenv("PROBE_ONLY")
	for _, f := range files {
		name := strings.TrimSuffix(filepath.Base(f), ".wat")
		if only != "" && !strings.Contains(name, only) {
			continue
		}
		src, _ := os.ReadFile(f)
		wat := strings.Replace(string(src), ";;#prelude", probePrelude, 1)
		t.Run(name, func(t *testing.T) {
			wOut, wCode, wFail := probeWasm(name, wat)
			if wFail != "" {
				t.Skipf("ENGINE-REJECT %s: %s", name, wFail)
				return
			}
			nOut, nCode, nFail := probeNative(t.TempDir(), name, wat)
			if nFail != "" {
				t.Errorf("BUILD-FAIL %s: %s\n--- wasm (exit %d):\n%s", name, nFail, wCode, wOut)
				return
			}
			if nOut != wOut || nCode != wCode&0xff {
				t.Errorf("DIVERGE %s\n--- native (exit %d):\n%s\n--- wasm (exit %d):\n%s", name, nCode, nOut, wCode, wOut)
			} else {
				t.Logf("ok %s (exit %d)\n%s", name, nCode, nOut)
			}
		})
	}
}
