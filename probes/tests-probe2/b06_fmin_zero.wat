(module
;;#prelude
  (func $main (export "main")
    f32.const -0 f32.const 0 f32.min i32.reinterpret_f32 call $p32
    f32.const 0 f32.const -0 f32.min i32.reinterpret_f32 call $p32
    f32.const -0 f32.const 0 f32.max i32.reinterpret_f32 call $p32
    f32.const 0 f32.const -0 f32.max i32.reinterpret_f32 call $p32
    f64.const -0 f64.const 0 f64.min i64.reinterpret_f64 call $p64
    f64.const 0 f64.const -0 f64.min i64.reinterpret_f64 call $p64
    f64.const -0 f64.const 0 f64.max i64.reinterpret_f64 call $p64
    f64.const 0 f64.const -0 f64.max i64.reinterpret_f64 call $p64
  )
)
