(module
;;#prelude
  (func $a/b#c (param $x.y/z i32) (result i32)
    block $l/1 (result i32)
      local.get $x.y/z
      local.get $x.y/z i32.const 3 i32.gt_s br_if $l/1
      drop i32.const -1
    end)
  (func $main (export "main")
    i32.const 5 call $a/b#c call $p32
    i32.const 1 call $a/b#c call $p32
  )
)
