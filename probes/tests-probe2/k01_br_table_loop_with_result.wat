(module
;;#prelude
  (func $f (param $k i32) (result i32) (local $n i32)
    block $out
      loop $l (result i32)
        local.get $n i32.const 1 i32.add local.set $n
        local.get $n i32.const 3 i32.ge_s if i32.const 2 local.set $k end
        local.get $k
        br_table $l $l $out
      end
      drop
    end
    local.get $n)
  (func $main (export "main")
    i32.const 0 call $f call $p32
    i32.const 5 call $f call $p32
  )
)
