(module
;;#prelude
  (global $my-global (mut i32) (i32.const 5))
  (func $main (export "main")
    global.get $my-global call $p32)
)
