(module
;;#prelude
  (global (mut i32) (i32.const 5))
  (global (mut i64) (i64.const 6))
  (func $main (export "main")
    global.get 0 call $p32
    global.get 1 call $p64
    i32.const 9 global.set 0
    global.get 0 call $p32
  )
)
