(module
;;#prelude
  (func $main (export "main") (local $a i32)
    ;; bytes at 16..31: 80 ff 7f 01 fe 81 00 90 | 88 99 aa bb cc dd ee ff
    i32.const 16 i64.const -8070450532180394112 i64.store   ;; placeholder, overwritten below
    i32.const 16 i32.const 128 i32.store8
    i32.const 17 i32.const 255 i32.store8
    i32.const 18 i32.const 127 i32.store8
    i32.const 19 i32.const 1 i32.store8
    i32.const 20 i32.const 254 i32.store8
    i32.const 21 i32.const 129 i32.store8
    i32.const 22 i32.const 0 i32.store8
    i32.const 23 i32.const 144 i32.store8
    i32.const 24 i64.const -4822678189205112 i64.store
    i32.const 8 local.set $a
    i64.const -1 i64.const -1 drop drop
    local.get $a i32.load8_s offset=8 call $p32
    local.get $a i32.load8_u offset=8 call $p32
    local.get $a i32.load8_s offset=10 call $p32
    local.get $a i32.load16_s offset=8 call $p32
    local.get $a i32.load16_u offset=8 call $p32
    local.get $a i32.load16_s offset=10 call $p32
    local.get $a i32.load16_s offset=9 call $p32
    local.get $a i32.load offset=8 call $p32
    local.get $a i32.load offset=9 call $p32
    local.get $a i32.load offset=12 call $p32
    local.get $a i64.load8_s offset=8 call $p64
    local.get $a i64.load8_u offset=8 call $p64
    local.get $a i64.load8_s offset=11 call $p64
    local.get $a i64.load16_s offset=8 call $p64
    local.get $a i64.load16_u offset=8 call $p64
    local.get $a i64.load16_s offset=12 call $p64
    local.get $a i64.load32_s offset=8 call $p64
    local.get $a i64.load32_u offset=8 call $p64
    local.get $a i64.load32_s offset=12 call $p64
    local.get $a i64.load32_u offset=12 call $p64
    local.get $a i64.load32_s offset=11 call $p64
    local.get $a i64.load offset=8 call $p64
    local.get $a i64.load offset=16 call $p64
    local.get $a i64.load offset=13 call $p64
  )
)
